package vk

import (
	"bufio"
	"encoding/json"
	"flag"
	"fmt"
	"os"
	"os/exec"
	"runtime"
	"strconv"
	"strings"
	"sync"
	"time"
)

// Isolated execution of cases in worker subprocesses (re-exec of the same binary) under an address-space limit
// and a per-case timeout: a case that kills the process (fatal out-of-memory, stack overflow) or never returns is an
// OBSERVATION attributed to that case, not the end of the check.

var isoWorker = flag.String("vk-worker", "", "internal: k/N/from")

// IsWorker reports whether this process is an isolation worker (call after vk.Start / flag.Parse).
func IsWorker() bool { return *isoWorker != "" }

// WorkerLoop runs cases k, k+N, ... >= from and prints one JSON result per case; it never returns.
func WorkerLoop(n int, run func(i int) interface{}) {
	parts := strings.Split(*isoWorker, "/")
	k, _ := strconv.Atoi(parts[0])
	N, _ := strconv.Atoi(parts[1])
	from := 0
	if len(parts) > 2 {
		from, _ = strconv.Atoi(parts[2])
	}
	out := bufio.NewWriter(os.Stdout)
	for i := k; i < n; i += N {
		if i < from {
			continue
		}
		fmt.Fprintf(out, "S %d\n", i)
		out.Flush()
		b, err := json.Marshal(run(i))
		if err != nil {
			Fatalf("worker: cannot encode result of case %d: %v", i, err)
		}
		fmt.Fprintf(out, "R %d %s\n", i, b)
		out.Flush()
	}
	os.Exit(0)
}

// IsoOpts configures RunIsolated.
type IsoOpts struct {
	MemKB       int           // ulimit -v (KiB); 0 = 6 GiB
	CaseTimeout time.Duration // 0 = 60 s
	Workers     int           // 0 = NumCPU
	ExtraArgs   []string      // passed to the worker (e.g. the same --part flag)
	Procs       int           // GOMAXPROCS of a worker; 0 = 2
}

// RunIsolated distributes cases 0..n-1 over worker subprocesses. handle is called (serialised) with the JSON result
// of each case, or with fatal != "" when the worker died or timed out inside that case.
func (r *Run) RunIsolated(n int, o IsoOpts, handle func(i int, result json.RawMessage, fatal string)) (done int) {
	self, err := os.Executable()
	if err != nil {
		Fatalf("executable: %v", err)
	}
	if o.MemKB == 0 {
		o.MemKB = 6 * 1024 * 1024
	}
	if o.CaseTimeout == 0 {
		o.CaseTimeout = 60 * time.Second
	}
	if o.Workers == 0 {
		o.Workers = runtime.NumCPU()
	}
	var mu sync.Mutex
	var wg sync.WaitGroup
	for k := 0; k < o.Workers; k++ {
		wg.Add(1)
		go func(k int) {
			defer wg.Done()
			from := 0
			for {
				if r.Expired() {
					return
				}
				args := fmt.Sprintf("--tier %s --vk-worker %d/%d/%d", r.Tier, k, o.Workers, from)
				for _, a := range o.ExtraArgs {
					args += " " + a
				}
				cmd := exec.Command("bash", "-c", fmt.Sprintf("ulimit -v %d; exec \"$0\" %s", o.MemKB, args), self)
				procs := o.Procs
				if procs == 0 {
					procs = 2
				}
				cmd.Env = append(os.Environ(), fmt.Sprintf("GOMAXPROCS=%d", procs), "GOTRACEBACK=single")
				stdout, _ := cmd.StdoutPipe()
				errbuf := &capWriter{n: 6000}
				cmd.Stderr = errbuf
				if err := cmd.Start(); err != nil {
					Fatalf("worker start: %v", err)
				}
				lines := make(chan string, 256)
				go func() {
					sc := bufio.NewScanner(stdout)
					sc.Buffer(make([]byte, 1<<20), 1<<26)
					for sc.Scan() {
						lines <- sc.Text()
					}
					close(lines)
				}()
				inflight := -1
				timedOut := false
			loop:
				for {
					select {
					case line, ok := <-lines:
						if !ok {
							break loop
						}
						if strings.HasPrefix(line, "S ") {
							inflight, _ = strconv.Atoi(line[2:])
						} else if strings.HasPrefix(line, "R ") {
							rest := line[2:]
							sp := strings.IndexByte(rest, ' ')
							i, _ := strconv.Atoi(rest[:sp])
							mu.Lock()
							handle(i, json.RawMessage(rest[sp+1:]), "")
							done++
							mu.Unlock()
							inflight = -1
						}
						if r.Expired() {
							cmd.Process.Kill()
						}
					case <-time.After(o.CaseTimeout):
						timedOut = true
						cmd.Process.Kill()
					}
				}
				werr := cmd.Wait()
				if r.Expired() {
					return
				}
				if inflight < 0 {
					if werr != nil {
						Fatalf("worker %d exited abnormally outside a case: %v\n%s", k, werr, errbuf.String())
					}
					return // shard complete
				}
				reason := "process died"
				es := errbuf.String()
				switch {
				case timedOut:
					reason = fmt.Sprintf("does not return within %v", o.CaseTimeout)
				case strings.Contains(es, "out of memory") || strings.Contains(es, "cannot allocate memory"):
					reason = "fatal error: out of memory (unbounded allocation)"
				case strings.Contains(es, "stack overflow") || strings.Contains(es, "stack exceeds"):
					reason = "fatal error: stack overflow"
				case strings.Contains(es, "fatal error:"):
					i := strings.Index(es, "fatal error:")
					reason = strings.SplitN(es[i:], "\n", 2)[0]
				case strings.Contains(es, "panic:"):
					i := strings.Index(es, "panic:")
					reason = "unrecovered " + strings.SplitN(es[i:], "\n", 2)[0]
				}
				mu.Lock()
				handle(inflight, nil, reason)
				done++
				mu.Unlock()
				from = inflight + 1
			}
		}(k)
	}
	wg.Wait()
	return done
}

type capWriter struct {
	mu sync.Mutex
	b  strings.Builder
	n  int
}

func (c *capWriter) Write(p []byte) (int, error) {
	c.mu.Lock()
	defer c.mu.Unlock()
	if c.b.Len() < c.n {
		m := c.n - c.b.Len()
		if m > len(p) {
			m = len(p)
		}
		c.b.Write(p[:m])
	}
	return len(p), nil
}

func (c *capWriter) String() string {
	c.mu.Lock()
	defer c.mu.Unlock()
	return c.b.String()
}
