package vk

import (
	"fmt"
	"os"
	"runtime"
	"strconv"
	"sync"
)

// Explicit-state search over operation sequences of the real implementation (engine E1 "opx").
//
// Real objects cannot be cloned, so a state is represented by the shortest operation history that
// reaches it; a successor is computed by building a fresh instance, replaying the history and applying
// one more operation. States are de-duplicated by a canonical key the harness computes from the real
// object (and its reference model). The oracle runs inside Exec.

// Outcome of executing one history.
type Outcome struct {
	Key  string // canonical state key after the last op ("" = do not expand further, terminal)
	Err  string // non-empty: oracle violated at the last op (canonical violation key)
	What string // human description of the violation
	// Soft violations are recorded (with this history as replay) but the state is still expanded;
	// used for deviations that are already understood, so that they do not prune the search.
	Soft [][2]string // (key, what)
	// Terminal: a state that is counted but not expanded (and not used for the merge self-test)
	Terminal bool
}

// Spec describes one search.
type Spec struct {
	Name     string
	NumOps   int                           // alphabet size; ops are 0..NumOps-1, simplest first
	OpName   func(op int) string           // for replay files / samples
	Exec     func(hist []int) Outcome      // fresh instance, replay hist, check oracle on the way; must be deterministic
	Enabled  func(hist []int, op int) bool // optional static filter (may be nil)
	Depth    int
	MaxState int // cap on distinct states (0 = none)
	Workers  int // 0 = NumCPU
	// MergeCheckEvery: every n-th time a successor merges into an already known state, verify that the
	// two representatives have the same successor keys for every op (state key adequacy self-test).
	MergeCheckEvery int
}

// Result of a search.
type Result struct {
	States, Transitions, MaxDepth int
	MergeChecks, MergeMismatch    int
	Capped                        bool
	DepthCompleted                int
	PerDepth                      []int
}

type node struct {
	hist []int
}

// ReplayOps re-executes one recorded history (the "op_ids" of a replay file) of search s, 5 times, and reports
// what the oracle says; any difference between the runs is a harness error (nondeterminism).
func (r *Run) ReplayOps(s Spec, ids []int) {
	var first Outcome
	for i := 0; i < 5; i++ {
		o := s.Exec(ids)
		if i == 0 {
			first = o
		} else if o.Err != first.Err || o.Key != first.Key {
			Fatalf("%s: replay is nondeterministic: run 0 gave (%q,%q), run %d gave (%q,%q)", s.Name, first.Err, first.Key, i, o.Err, o.Key)
		}
	}
	names := make([]string, len(ids))
	for i, o := range ids {
		names[i] = s.OpName(o)
	}
	fmt.Printf("replay %s: ops %v\n", s.Name, names)
	if first.Err != "" {
		r.Violation(first.Err, first.What, map[string]interface{}{"search": s.Name, "ops": names, "op_ids": ids})
	}
	for _, sv := range first.Soft {
		r.Violation(sv[0], sv[1], map[string]interface{}{"search": s.Name, "ops": names, "op_ids": ids})
	}
}

// ReplayRequest returns the recorded search name and op ids of the replay file, if this run is a replay.
func (r *Run) ReplayRequest() (search string, ids []int, ok bool) {
	if r.ReplayPath == "" {
		return "", nil, false
	}
	var rep struct {
		Search string `json:"search"`
		OpIDs  []int  `json:"op_ids"`
	}
	r.LoadReplay(&rep)
	return rep.Search, rep.OpIDs, true
}

// Explore runs the BFS and reports violations into r. It returns coverage numbers. In replay mode it only
// re-executes the recorded history if it belongs to this search.
func (r *Run) Explore(s Spec) Result {
	if search, ids, ok := r.ReplayRequest(); ok {
		if search == s.Name {
			r.ReplayOps(s, ids)
		}
		return Result{}
	}
	if s.Workers == 0 {
		s.Workers = runtime.NumCPU()
		if w, err := strconv.Atoi(os.Getenv("VERIF_WORKERS")); err == nil && w > 0 {
			s.Workers = w
		}
	}
	res := Result{}
	seen := map[string][]int{}
	root := s.Exec(nil)
	if root.Err != "" {
		r.Violation(root.Err, root.What, map[string]interface{}{"search": s.Name, "ops": []string{}})
	}
	seen[root.Key] = nil
	res.States = 1
	frontier := []node{{nil}}
	res.PerDepth = append(res.PerDepth, 1)
	names := func(h []int) []string {
		out := make([]string, len(h))
		for i, o := range h {
			out[i] = s.OpName(o)
		}
		return out
	}
	type succ struct {
		hist []int
		out  Outcome
	}
	mergeCount := 0
	for depth := 1; depth <= s.Depth && len(frontier) > 0; depth++ {
		if r.Expired() {
			res.Capped = true
			r.Capped(fmt.Sprintf("%s: deadline at depth %d (depth %d fully covered)", s.Name, depth, depth-1))
			break
		}
		// expand the frontier in parallel; results are merged in frontier order so the search is
		// deterministic regardless of worker timing
		results := make([][]succ, len(frontier))
		var wg sync.WaitGroup
		idx := make(chan int, len(frontier))
		for i := range frontier {
			idx <- i
		}
		close(idx)
		var expired bool
		var emu sync.Mutex
		for w := 0; w < s.Workers; w++ {
			wg.Add(1)
			go func() {
				defer wg.Done()
				for i := range idx {
					if r.Expired() {
						emu.Lock()
						expired = true
						emu.Unlock()
						return
					}
					n := frontier[i]
					var out []succ
					for op := 0; op < s.NumOps; op++ {
						if s.Enabled != nil && !s.Enabled(n.hist, op) {
							continue
						}
						h := append(append(make([]int, 0, len(n.hist)+1), n.hist...), op)
						out = append(out, succ{h, s.Exec(h)})
					}
					results[i] = out
				}
			}()
		}
		wg.Wait()
		if expired {
			res.Capped = true
			r.Capped(fmt.Sprintf("%s: deadline inside depth %d (depth %d fully covered)", s.Name, depth, depth-1))
			break
		}
		var next []node
		var mergeChecks [][2][]int // (representative, merged history) pairs picked for the state-key self-test
		for i := range frontier {
			for _, sc := range results[i] {
				res.Transitions++
				for _, sv := range sc.out.Soft {
					r.Violation(sv[0], sv[1], map[string]interface{}{"search": s.Name, "ops": names(sc.hist), "op_ids": sc.hist})
				}
				if sc.out.Err != "" {
					r.Violation(sc.out.Err, sc.out.What, map[string]interface{}{"search": s.Name, "ops": names(sc.hist), "op_ids": sc.hist})
					continue // do not expand beyond a violating state
				}
				if sc.out.Key == "" {
					continue
				}
				if rep, ok := seen[sc.out.Key]; ok {
					if sc.out.Terminal {
						continue
					}
					mergeCount++
					if s.MergeCheckEvery > 0 && mergeCount%s.MergeCheckEvery == 0 && depth < s.Depth {
						res.MergeChecks++
						mergeChecks = append(mergeChecks, [2][]int{rep, sc.hist})
					}
					continue
				}
				if s.MaxState > 0 && res.States >= s.MaxState {
					if !res.Capped {
						res.Capped = true
						r.Capped(fmt.Sprintf("%s: state cap %d reached at depth %d (depth %d fully covered)", s.Name, s.MaxState, depth, depth-1))
					}
					continue
				}
				seen[sc.out.Key] = sc.hist
				res.States++
				if !sc.out.Terminal {
					next = append(next, node{sc.hist})
				}
				if res.States%997 == 1 {
					r.Sample(map[string]interface{}{"search": s.Name, "ops": names(sc.hist)})
				}
			}
		}
		// state-key self-test: two histories that were merged must have the same successors under every op. The
		// re-expansions run in parallel; their results are judged in a fixed order.
		if len(mergeChecks) > 0 {
			type pairRes struct{ a, b Outcome }
			outs := make([][]*pairRes, len(mergeChecks))
			for i := range outs {
				outs[i] = make([]*pairRes, s.NumOps)
			}
			ParallelFor(len(mergeChecks)*s.NumOps, func(k int) {
				i, op := k/s.NumOps, k%s.NumOps
				rep, hist := mergeChecks[i][0], mergeChecks[i][1]
				if s.Enabled != nil && (!s.Enabled(rep, op) || !s.Enabled(hist, op)) {
					return
				}
				outs[i][op] = &pairRes{s.Exec(append(append([]int{}, rep...), op)), s.Exec(append(append([]int{}, hist...), op))}
			})
			for i := range mergeChecks {
				rep, hist := mergeChecks[i][0], mergeChecks[i][1]
				for op := 0; op < s.NumOps; op++ {
					pr := outs[i][op]
					if pr == nil {
						continue
					}
					a, b := pr.a, pr.b
					if a.Err != "" || b.Err != "" {
						// one of the two representatives violates the oracle on this op: that is a finding about the
						// code (possibly hidden state the key cannot see), not a harness problem
						if a.Err != "" {
							h := append(append([]int{}, rep...), op)
							r.Violation(a.Err, a.What, map[string]interface{}{"search": s.Name, "ops": names(h), "op_ids": h})
						}
						if b.Err != "" {
							h := append(append([]int{}, hist...), op)
							r.Violation(b.Err, b.What, map[string]interface{}{"search": s.Name, "ops": names(h), "op_ids": h})
						}
						continue
					}
					if a.Key != b.Key {
						res.MergeMismatch++
						Fatalf("%s: state key too coarse: histories %v and %v share key but diverge on op %s (%q/%q vs %q/%q)",
							s.Name, names(rep), names(hist), s.OpName(op), a.Key, a.Err, b.Key, b.Err)
					}
				}
			}
		}
		res.PerDepth = append(res.PerDepth, len(next))
		if len(next) > 0 {
			res.MaxDepth = depth
		}
		if !res.Capped {
			res.DepthCompleted = depth
		}
		frontier = next
		if res.Capped {
			break
		}
	}
	return res
}

// Permutations calls f with every permutation of 0..n-1 (Heap's algorithm, deterministic order).
func Permutations(n int, f func(p []int) bool) {
	p := make([]int, n)
	for i := range p {
		p[i] = i
	}
	var rec func(k int) bool
	rec = func(k int) bool {
		if k == n {
			return f(p)
		}
		for i := k; i < n; i++ {
			p[k], p[i] = p[i], p[k]
			if !rec(k + 1) {
				return false
			}
			p[k], p[i] = p[i], p[k]
		}
		return true
	}
	rec(0)
}

// ParallelFor runs f(i) for i in [0,n) on all CPUs; f must be goroutine-safe.
func ParallelFor(n int, f func(i int)) {
	w := runtime.NumCPU()
	var wg sync.WaitGroup
	ch := make(chan int, 1024)
	for k := 0; k < w; k++ {
		wg.Add(1)
		go func() {
			defer wg.Done()
			for i := range ch {
				f(i)
			}
		}()
	}
	for i := 0; i < n; i++ {
		ch <- i
	}
	close(ch)
	wg.Wait()
}
