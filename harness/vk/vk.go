// Package vk is the shared plumbing of every check: tier/seed handling, violation records with
// replay files, known-findings matching, and the evidence file.
package vk

import (
	"crypto/sha256"
	"encoding/hex"
	"encoding/json"
	"flag"
	"fmt"
	"io/ioutil"
	"os"
	"path/filepath"
	"runtime"
	"runtime/pprof"
	"sort"
	"strconv"
	"sync"
	"time"
)

// VerifDir is the root of the verification tree (checks run with cwd=/verif, but do not rely on it).
func VerifDir() string {
	if d := os.Getenv("VERIF_DIR"); d != "" {
		return d
	}
	return "/verif"
}

type violation struct {
	Key    string      `json:"key"`
	What   string      `json:"what"`
	Replay interface{} `json:"replay"`
	Count  int         `json:"count"`
}

type finding struct {
	Property string `json:"property"`
	Key      string `json:"key"`
	What     string `json:"what"`
}

// Run is one execution of one check.
type Run struct {
	Prop  string
	Level string
	Tier  string
	Seed  int

	ReplayPath string // non-empty: re-run one recorded case

	mu          sync.Mutex
	start       time.Time
	cov         map[string]interface{}
	samples     []interface{}
	assumptions []string
	viol        map[string]*violation
	order       []string
	known       map[string]finding
	exhaustive  bool
	notes       []string
	deadline    time.Time
}

// Start parses the common flags (--tier, --replay, --budget) and loads the known-findings file.
func Start(prop, level string) *Run {
	tier := flag.String("tier", envOr("VERIF_TIER", "quick"), "quick|thorough")
	replay := flag.String("replay", "", "replay file")
	budget := flag.Duration("budget", 0, "internal wall-clock budget (0 = tier default)")
	if !flag.Parsed() {
		flag.Parse()
	}
	if pf := os.Getenv("VERIF_CPUPROFILE"); pf != "" {
		if fh, err := os.Create(pf); err == nil {
			pprof.StartCPUProfile(fh)
		}
	}
	if os.Getenv("VERIF_BLOCKPROFILE") != "" {
		runtime.SetBlockProfileRate(10000)
		runtime.SetMutexProfileFraction(5)
	}
	seed, _ := strconv.Atoi(envOr("VERIF_SEED", "0"))
	r := &Run{Prop: prop, Level: level, Tier: *tier, Seed: seed, ReplayPath: *replay,
		start: time.Now(), cov: map[string]interface{}{}, viol: map[string]*violation{},
		known: map[string]finding{}, exhaustive: true}
	if r.Tier != "quick" && r.Tier != "thorough" {
		r.Tier = "quick"
	}
	b := *budget
	if b == 0 {
		if r.Tier == "quick" {
			b = 8 * time.Minute // a bound, not a target: every quick check finishes its enumeration well before it on an idle machine
		} else {
			b = 40 * time.Minute
		}
	}
	r.deadline = r.start.Add(b)
	var kf struct {
		Findings []finding `json:"findings"`
	}
	if data, err := ioutil.ReadFile(filepath.Join(VerifDir(), "known_findings.json")); err == nil {
		if err := json.Unmarshal(data, &kf); err != nil {
			Fatalf("known_findings.json: %v", err)
		}
		for _, f := range kf.Findings {
			if f.Property == prop {
				r.known[f.Key] = f
			}
		}
	}
	return r
}

func envOr(k, d string) string {
	if v := os.Getenv(k); v != "" {
		return v
	}
	return d
}

// Quick reports whether this is the quick tier.
func (r *Run) Quick() bool { return r.Tier == "quick" }

// Pick returns q in the quick tier and t in the thorough tier.
func (r *Run) Pick(q, t int) int {
	if r.Quick() {
		return q
	}
	return t
}

// Expired reports whether the internal deadline has passed; a check that stops because of it must
// call Capped.
func (r *Run) Expired() bool { return time.Now().After(r.deadline) }

// Limit temporarily moves the internal deadline to now+d (never later than the run's own deadline); the
// returned function restores it. Used to split a check's budget between its parts.
func (r *Run) Limit(d time.Duration) (restore func()) {
	old := r.deadline
	if nd := time.Now().Add(d); nd.Before(old) {
		r.deadline = nd
	}
	return func() { r.deadline = old }
}

// Remaining returns the time left before the internal deadline.
func (r *Run) Remaining() time.Duration { return time.Until(r.deadline) }

// Capped records that a cap (time, states) was hit: the run is not exhaustive; what says what was
// fully covered below the cap.
func (r *Run) Capped(what string) {
	r.mu.Lock()
	defer r.mu.Unlock()
	r.exhaustive = false
	r.notes = append(r.notes, "cap: "+what)
}

// Note adds a free-text note to the evidence.
func (r *Run) Note(format string, a ...interface{}) {
	r.mu.Lock()
	defer r.mu.Unlock()
	r.notes = append(r.notes, fmt.Sprintf(format, a...))
}

// Assume records an assumption / trusted-base item.
func (r *Run) Assume(s string) {
	r.mu.Lock()
	defer r.mu.Unlock()
	for _, a := range r.assumptions {
		if a == s {
			return
		}
	}
	r.assumptions = append(r.assumptions, s)
}

// Set sets a coverage key.
func (r *Run) Set(k string, v interface{}) {
	r.mu.Lock()
	defer r.mu.Unlock()
	r.cov[k] = v
}

// Add adds n to an integer coverage key.
func (r *Run) Add(k string, n int) {
	r.mu.Lock()
	defer r.mu.Unlock()
	cur, _ := r.cov[k].(int)
	r.cov[k] = cur + n
}

// Get returns an integer coverage key.
func (r *Run) Get(k string) int {
	r.mu.Lock()
	defer r.mu.Unlock()
	cur, _ := r.cov[k].(int)
	return cur
}

// Sample keeps up to 12 sample cases for the evidence file.
func (r *Run) Sample(s interface{}) {
	r.mu.Lock()
	defer r.mu.Unlock()
	if len(r.samples) < 12 {
		r.samples = append(r.samples, s)
	}
}

// Violation records a violating case. key is the canonical identity of the failing case (root-cause
// class, not the enumeration index): it is what known_findings.json lists. Only the first replay per
// key is kept (enumeration is simplest-first, so it is the shortest).
func (r *Run) Violation(key, what string, replay interface{}) {
	r.mu.Lock()
	defer r.mu.Unlock()
	if v, ok := r.viol[key]; ok {
		v.Count++
		return
	}
	r.viol[key] = &violation{Key: key, What: what, Replay: replay, Count: 1}
	r.order = append(r.order, key)
}

// Exported is what a worker process hands back to the parent run: its violations (with first replay and count), its
// cap / free-text notes and samples. See Export / Import.
type Exported struct {
	Violations []violation   `json:"violations"`
	Notes      []string      `json:"notes"`
	Samples    []interface{} `json:"samples"`
	Exhaustive bool          `json:"exhaustive"`
}

// Export returns everything this (worker) run recorded since the last Export, in recording order, and forgets it.
func (r *Run) Export() Exported {
	r.mu.Lock()
	defer r.mu.Unlock()
	e := Exported{Notes: r.notes, Samples: r.samples, Exhaustive: r.exhaustive}
	for _, k := range r.order {
		e.Violations = append(e.Violations, *r.viol[k])
	}
	r.notes, r.samples, r.order, r.viol, r.exhaustive = nil, nil, nil, map[string]*violation{}, true
	return e
}

// Import merges what a worker process recorded into this run.
func (r *Run) Import(e Exported) {
	for _, v := range e.Violations {
		r.mu.Lock()
		if x, ok := r.viol[v.Key]; ok {
			x.Count += v.Count
		} else {
			vv := v
			r.viol[v.Key] = &vv
			r.order = append(r.order, v.Key)
		}
		r.mu.Unlock()
	}
	r.mu.Lock()
	r.notes = append(r.notes, e.Notes...)
	if !e.Exhaustive {
		r.exhaustive = false
	}
	r.mu.Unlock()
	for _, s := range e.Samples {
		r.Sample(s)
	}
}

// NViolations returns the number of distinct violation keys so far.
func (r *Run) NViolations() int {
	r.mu.Lock()
	defer r.mu.Unlock()
	return len(r.viol)
}

// Fatalf is a harness error (never a VIOLATION): exit 2.
func Fatalf(format string, a ...interface{}) {
	fmt.Fprintf(os.Stderr, "HARNESS-ERROR: "+format+"\n", a...)
	os.Exit(2)
}

// Finish writes the evidence file, prints KNOWN-FINDING / VIOLATION lines and exits 0 or 1.
func (r *Run) Finish() {
	pprof.StopCPUProfile()
	if pf := os.Getenv("VERIF_BLOCKPROFILE"); pf != "" {
		if fh, err := os.Create(pf); err == nil {
			pprof.Lookup("block").WriteTo(fh, 0)
			fh.Close()
		}
		if fh, err := os.Create(pf + ".mutex"); err == nil {
			pprof.Lookup("mutex").WriteTo(fh, 0)
			fh.Close()
		}
	}
	r.mu.Lock()
	wall := time.Since(r.start).Seconds()
	unlisted := 0
	var lines []string
	sort.Strings(r.order)
	knownSeen := []string{}
	for _, k := range r.order {
		v := r.viol[k]
		if f, ok := r.known[k]; ok {
			lines = append(lines, fmt.Sprintf("KNOWN-FINDING: property=%s key=%s %s (cases=%d)", r.Prop, k, f.What, v.Count))
			knownSeen = append(knownSeen, k)
			continue
		}
		unlisted++
		h := sha256.Sum256([]byte(k))
		dir := filepath.Join(VerifDir(), "replays")
		os.MkdirAll(dir, 0755)
		path := filepath.Join(dir, fmt.Sprintf("%s-%s.json", r.Prop, hex.EncodeToString(h[:6])))
		data, _ := json.MarshalIndent(map[string]interface{}{"property": r.Prop, "key": k, "what": v.What, "replay": v.Replay, "cases": v.Count}, "", " ")
		ioutil.WriteFile(path, data, 0644)
		lines = append(lines, fmt.Sprintf("VIOLATION property=%s replay=%s key=%s :: %s (cases=%d)", r.Prop, path, k, v.What, v.Count))
	}
	cov := r.cov
	if _, ok := cov["samples"]; !ok {
		if len(r.samples) == 0 {
			r.samples = append(r.samples, "none recorded")
		}
		cov["samples"] = r.samples
	}
	cov["exhaustive"] = r.exhaustive
	if len(r.notes) > 0 {
		cov["notes"] = r.notes
	}
	cov["known_findings_reproduced"] = knownSeen
	ev := map[string]interface{}{
		"property_id": r.Prop,
		"tier":        r.Tier,
		"seed":        r.Seed,
		"level":       r.Level,
		"coverage":    cov,
		"assumptions": append([]string{}, r.assumptions...),
		"wall_s":      wall,
		"violations":  unlisted,
	}
	r.mu.Unlock()
	if r.ReplayPath == "" {
		dir := filepath.Join(VerifDir(), "evidence")
		os.MkdirAll(dir, 0755)
		data, err := json.MarshalIndent(ev, "", " ")
		if err != nil {
			Fatalf("evidence: %v", err)
		}
		if err := ioutil.WriteFile(filepath.Join(dir, r.Prop+".json"), append(data, '\n'), 0644); err != nil {
			Fatalf("evidence: %v", err)
		}
	}
	for _, l := range lines {
		fmt.Println(l)
	}
	fmt.Printf("%s tier=%s wall=%.1fs exhaustive=%v violations=%d known=%d\n", r.Prop, r.Tier, wall, r.exhaustive, unlisted, len(knownSeen))
	if unlisted > 0 {
		os.Exit(1)
	}
	os.Exit(0)
}

// LoadReplay decodes the "replay" member of a replay file into v.
func (r *Run) LoadReplay(v interface{}) {
	data, err := ioutil.ReadFile(r.ReplayPath)
	if err != nil {
		Fatalf("replay: %v", err)
	}
	var w struct {
		Replay json.RawMessage `json:"replay"`
	}
	if err := json.Unmarshal(data, &w); err != nil {
		Fatalf("replay: %v", err)
	}
	if err := json.Unmarshal(w.Replay, v); err != nil {
		Fatalf("replay: %v", err)
	}
}

// Catch runs f and converts a panic into an error string (with the panic value), so "no panic" can be
// an oracle.
func Catch(f func()) (panicked bool, val interface{}) {
	defer func() {
		if e := recover(); e != nil {
			panicked = true
			val = e
		}
	}()
	f()
	return
}
