package vk

import (
	"runtime"
	"sync"
)

// Deviation-bounded exhaustive exploration (engine E2, message-passing flavour).
//
// An execution of the harness calls Chooser.Choose at every point where the environment has more than
// one possible answer (which message to deliver next, fire a timeout early, a Byzantine action, a short
// read ...). Alternative 0 is the default answer and costs nothing; every other alternative has a
// positive cost ("deviation"). The explorer runs EVERY execution whose total deviation cost is <= bound:
// first the all-default execution, then for every choice point of every explored execution every
// affordable alternative (iterative context bounding generalised from preemptions to deviations).
// Executions always run to completion (or to the harness's own horizon).

type Chooser struct {
	prefix  []int
	Choices []int
	costs   [][]int
	spent   []int // cumulative cost before each point
	total   int
}

// Choose returns the index of the alternative to take; costs[i] is the deviation cost of alternative i
// (costs[0] must be 0). Replaying a prefix with an out-of-range choice is a harness error.
func (c *Chooser) Choose(costs []int) int {
	i := len(c.Choices)
	ch := 0
	if i < len(c.prefix) {
		ch = c.prefix[i]
		if ch >= len(costs) {
			Fatalf("devx: nondeterministic replay: choice %d at point %d but only %d alternatives", ch, i, len(costs))
		}
	}
	c.spent = append(c.spent, c.total)
	c.total += costs[ch]
	c.Choices = append(c.Choices, ch)
	c.costs = append(c.costs, append([]int(nil), costs...))
	return ch
}

// Spent returns the deviation cost used so far.
func (c *Chooser) Spent() int { return c.total }

// DevStats reports what ExploreDeviations covered.
type DevStats struct {
	Executions   int
	ChoicePoints int
	ByCost       map[int]int
	Capped       bool
}

// ReplayChoices returns the recorded choice sequence if this run replays a case of the named search.
func (r *Run) ReplayChoices(search string) ([]int, bool) {
	if r.ReplayPath == "" {
		return nil, false
	}
	var rep struct {
		Search  string `json:"search"`
		Choices []int  `json:"choices"`
	}
	r.LoadReplay(&rep)
	if rep.Search != search {
		return nil, false
	}
	return rep.Choices, true
}

// RunChoices executes run once under the given choice sequence.
func RunChoices(choices []int, run func(c *Chooser)) { run(&Chooser{prefix: choices}) }

// ExploreDeviations runs run(c) for every choice sequence with total cost <= bound. run must be
// deterministic given the choices. It is called concurrently from several goroutines.
func (r *Run) ExploreDeviations(bound int, run func(c *Chooser)) DevStats {
	st := DevStats{ByCost: map[int]int{}}
	var mu sync.Mutex
	cond := sync.NewCond(&mu)
	stack := [][]int{nil}
	active := 0
	workers := runtime.NumCPU()
	var wg sync.WaitGroup
	for w := 0; w < workers; w++ {
		wg.Add(1)
		go func() {
			defer wg.Done()
			for {
				mu.Lock()
				for len(stack) == 0 && active > 0 {
					cond.Wait()
				}
				if len(stack) == 0 && active == 0 {
					mu.Unlock()
					cond.Broadcast()
					return
				}
				if r.Expired() {
					if !st.Capped {
						st.Capped = true
					}
					stack = nil
					mu.Unlock()
					cond.Broadcast()
					if active == 0 {
						return
					}
					mu.Lock()
					for active > 0 {
						cond.Wait()
					}
					mu.Unlock()
					return
				}
				prefix := stack[len(stack)-1]
				stack = stack[:len(stack)-1]
				active++
				mu.Unlock()

				c := &Chooser{prefix: prefix}
				run(c)

				var children [][]int
				for i := len(prefix); i < len(c.Choices); i++ {
					for alt := 1; alt < len(c.costs[i]); alt++ {
						if c.spent[i]+c.costs[i][alt] > bound {
							continue
						}
						child := make([]int, i+1)
						copy(child, c.Choices[:i])
						child[i] = alt
						children = append(children, child)
					}
				}
				mu.Lock()
				st.Executions++
				st.ChoicePoints += len(c.Choices)
				st.ByCost[c.total]++
				if !st.Capped {
					stack = append(stack, children...)
				}
				active--
				mu.Unlock()
				cond.Broadcast()
			}
		}()
	}
	wg.Wait()
	return st
}
