package txkit

import (
	"math/big"

	"github.com/lianxiangcloud/linkchain/libs/common"
	"github.com/lianxiangcloud/linkchain/libs/crypto"
)

// EVM opcodes used by the tiny contracts (values from vm/evm/opcodes.go).
const (
	opSTOP         = 0x00
	opEQ           = 0x14
	opADDRESS      = 0x30
	opORIGIN       = 0x32
	opCALLER       = 0x33
	opCALLDATALOAD = 0x35
	opCALLDATASIZE = 0x36
	opCODECOPY     = 0x39
	opMSTORE       = 0x52
	opSSTORE       = 0x55
	opJUMPI        = 0x57
	opJUMPDEST     = 0x5b
	opPUSH1        = 0x60
	opPUSH32       = 0x7f
	opDUP1         = 0x80
	opLOG1         = 0xa1
	opISSUE        = 0xe0 // linkchain: mint `amount` of the token whose id is the executing contract's address
	opTRANSFERTOK  = 0xe3 // linkchain: TRANSFERTOKEN(to, token, amount), amount on top of the stack
	opRETURN       = 0xf3
	opREVERT       = 0xfd
	opSELFDESTRUCT = 0xff
)

func push32(v *big.Int) []byte {
	b := make([]byte, 33)
	b[0] = opPUSH32
	vb := v.Bytes()
	copy(b[33-len(vb):], vb)
	return b
}

// Deploy wraps runtime code into init code: [prefix] ; CODECOPY(0, off, len) ; RETURN(0, len) ; runtime.
// prefix runs once at creation time and must leave the stack empty.
func Deploy(prefix, runtime []byte) []byte {
	if len(runtime) > 255 || len(prefix)+11 > 255 {
		panic("txkit: contract too long for PUSH1 offsets")
	}
	off := byte(len(prefix) + 11) // the copy-and-return sequence below is 11 bytes long
	code := append([]byte{}, prefix...)
	code = append(code, opPUSH1, byte(len(runtime)), opDUP1, opPUSH1, off, opPUSH1, 0, opCODECOPY, opPUSH1, 0, opRETURN)
	return append(code, runtime...)
}

// StoreRuntime: sstore(0, calldata[0:32]); return calldata[0:32].
var StoreRuntime = []byte{opPUSH1, 0, opCALLDATALOAD, opDUP1, opPUSH1, 0, opSSTORE, opPUSH1, 0, opMSTORE, opPUSH1, 32, opPUSH1, 0, opRETURN}

// RevertRuntime: always REVERT(0, 0).
var RevertRuntime = []byte{opPUSH1, 0, opPUSH1, 0, opREVERT}

// SelfDestructRuntime: SELFDESTRUCT(address in calldata[0:32]).
var SelfDestructRuntime = []byte{opPUSH1, 0, opCALLDATALOAD, opSELFDESTRUCT}

// LogRuntime: LOG1(memory[0:32] = calldata[0:32], topic = calldata[0:32]).
var LogRuntime = []byte{opPUSH1, 0, opCALLDATALOAD, opDUP1, opPUSH1, 0, opMSTORE, opPUSH1, 32, opPUSH1, 0, opLOG1, opSTOP}

// issueAndSend: ISSUE(amount on stack copy) ; TRANSFERTOKEN(to = <toOp>, token = ADDRESS, amount). Expects the amount
// on top of the stack and consumes it.
func issueAndSend(toOp byte) []byte {
	return []byte{
		opDUP1, opISSUE, // mint: the contract's own token balance += amount
		toOp, opADDRESS, // stack: amount, to, token   (bottom -> top)
		opDUP1 + 2, // DUP3: amount on top -> amount, to, token, amount
		opTRANSFERTOK,
		0x50, // POP the original amount
	}
}

// TokenIssuerRuntime:
//
//	calldatasize == 32: amount = calldata[0:32]; ISSUE(amount); TRANSFERTOKEN(CALLER, ADDRESS, amount); STOP
//	otherwise (in particular the 4-byte decimals() probe the node sends after every ISSUE): return uint8 18.
//
// The token id is the contract address. decimals 18 gives the confidential layer a unit of 1e10, as for the coin.
var TokenIssuerRuntime = func() []byte {
	head := []byte{opCALLDATASIZE, opPUSH1, 32, opEQ, opPUSH1, 0 /* patched */, opJUMPI,
		opPUSH1, 18, opPUSH1, 0, opMSTORE, opPUSH1, 32, opPUSH1, 0, opRETURN}
	head[5] = byte(len(head))
	body := []byte{opJUMPDEST, opPUSH1, 0, opCALLDATALOAD}
	body = append(body, issueAndSend(opCALLER)...)
	body = append(body, opSTOP)
	return append(head, body...)
}()

// StoreContract etc. return INIT code (the payload of a creation transaction).
func StoreContract() []byte        { return Deploy(nil, StoreRuntime) }
func RevertContract() []byte       { return Deploy(nil, RevertRuntime) }
func SelfDestructContract() []byte { return Deploy(nil, SelfDestructRuntime) }
func LogContract() []byte          { return Deploy(nil, LogRuntime) }

// TokenIssuerContract: at creation ISSUEs initial units of the new token (token id = the contract's address) and
// sends them to the transaction's sender (ORIGIN); initial == 0 issues nothing at creation.
func TokenIssuerContract(initial *big.Int) []byte {
	var prefix []byte
	if initial != nil && initial.Sign() > 0 {
		prefix = append(push32(initial), issueAndSend(opORIGIN)...)
	}
	return Deploy(prefix, TokenIssuerRuntime)
}

// ContractAddress is the address a contract created by `from` with transaction nonce `nonce` and init code
// `initCode` gets (vm/evm Create: crypto.CreateAddress(caller, state nonce, code)).
func ContractAddress(from common.Address, nonce uint64, initCode []byte) common.Address {
	return crypto.CreateAddress(from, nonce, initCode)
}

// Word returns v as a 32-byte big-endian calldata word.
func Word(v *big.Int) []byte { return common.LeftPadBytes(v.Bytes(), 32) }

// AddrWord returns a as a 32-byte calldata word.
func AddrWord(a common.Address) []byte { return common.LeftPadBytes(a.Bytes(), 32) }
