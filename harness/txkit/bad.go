package txkit

import (
	"math/big"

	"github.com/lianxiangcloud/linkchain/libs/common"
	"github.com/lianxiangcloud/linkchain/libs/cryptonote/ringct"
	"github.com/lianxiangcloud/linkchain/libs/ser"
	"github.com/lianxiangcloud/linkchain/types"
)

// ---- account-side variants that several checks share ------------------------------------------------
//
// All of them are correctly SIGNED transactions; what is wrong is their relation to the state:
//
//	DuplicateNonce   same sender and nonce as a valid transfer, other amount (a conflicting twin)
//	FutureNonce      nonce = state nonce + gap  (mempool: goes to the future queue; block: ErrNonceTooHigh)
//	StaleNonce       nonce = state nonce - 1    (ErrNonceTooLow; needs state nonce >= 1)
//	Underfunded      amount = balance (so amount + fee exceeds it: ErrInsufficientFunds)
//	Oversized        payload of 33 KiB to an address without code (ErrOversizedData, > MaxPureTransactionSize)

// DuplicateNonce returns a second, different transfer with the same sender and nonce as a transfer of `amount`.
func DuplicateNonce(from *Account, nonce uint64, to common.Address, amount *big.Int) *types.Transaction {
	return Transfer(from, nonce, to, new(big.Int).Add(amount, big.NewInt(1)))
}

// FutureNonce returns a transfer whose nonce is stateNonce + gap (gap >= 1).
func FutureNonce(from *Account, stateNonce uint64, gap uint64, to common.Address, amount *big.Int) *types.Transaction {
	return Transfer(from, stateNonce+gap, to, amount)
}

// StaleNonce returns a transfer whose nonce is stateNonce - 1.
func StaleNonce(from *Account, stateNonce uint64, to common.Address, amount *big.Int) *types.Transaction {
	if stateNonce == 0 {
		panic("txkit: StaleNonce needs a state nonce >= 1")
	}
	return Transfer(from, stateNonce-1, to, amount)
}

// Underfunded returns a transfer of the sender's whole balance (the fee is not covered).
func Underfunded(from *Account, nonce uint64, to common.Address, balance *big.Int) *types.Transaction {
	return Transfer(from, nonce, to, balance)
}

// OversizedPayload is the size of the payload of Oversized (above types.MaxPureTransactionSize = 32 KiB).
const OversizedPayload = 33 * 1024

// Oversized returns a transfer with a 33 KiB payload (text, so that it is not mistaken for contract code).
func Oversized(from *Account, nonce uint64, to common.Address) *types.Transaction {
	data := make([]byte, OversizedPayload)
	for i := range data {
		data[i] = 'x'
	}
	return TransferWithGas(from, nonce, to, big.NewInt(1), TransferGas(big.NewInt(1)), data)
}

// ---- confidential variants ----------------------------------------------------------------------------

// SameKeyImageTwice spends the same owned output in BOTH inputs of one transaction (ring size 1). The constructors
// do not object; checkTxSemantic must (ErrCheckDupKeyImage).
func (k *Kit) SameKeyImageTwice(l *Ledger, w *Wallet, o *Owned) (*types.UTXOTransaction, error) {
	in := new(big.Int).Mul(o.Amount, big.NewInt(2))
	fee := FeeUin(k.utxoGas(), true, nil)
	out := new(big.Int).Sub(in, fee)
	return k.Spend(l, w, []*Owned{o, o}, 1, []Dest{ToWallet(w, 0, out)})
}

// CopyUTXO returns a deep copy of tx through the wire codec (what a node would see).
func CopyUTXO(tx *types.UTXOTransaction) *types.UTXOTransaction {
	bz, err := ser.EncodeToBytes(tx)
	must(err)
	var cp types.UTXOTransaction
	must(ser.DecodeBytes(bz, &cp))
	return &cp
}

// Tampered is one hostile copy of a valid confidential transaction.
type Tampered struct {
	Name string
	Tx   *types.UTXOTransaction
}

// Tampers returns hostile copies of the VALID confidential transaction tx, each changed in one place. If tx has an
// account input, resign must be its sender: the copies are signed again, so that what is wrong is the balance
// equation and not the signature (pass nil to keep the now invalid signature).
//
//	out-commit+H           output commitment 0 increased by one unit (H): inflation of the hidden amount
//	out-commit-swap        output commitments 0 and 1 swapped (>= 2 confidential outputs)
//	pseudo-out+H           pseudo output 0 increased by H (confidential inputs)
//	balanced-inflation     pseudo output 0 and output commitment 0 both increased by H: sums still match
//	fee+unit / fee-unit    declared fee changed by one gas-price step, commitments untouched
//	ain-amount+unit        AccountInput.Amount increased by one Unit (account input)
//	ain-amount-nonmultiple AccountInput.Amount increased by 1 (not a multiple of the Unit)
//	aout-amount+unit       AccountOutput.Amount increased by one Unit (account output)
//	aout-amount-nonmultiple AccountOutput.Amount increased by 1
//	bulletproof-bit        one bit of the range proof flipped
//	bulletproof-drop       the range proof removed
//	ecdh-amount            encrypted amount of output 0 changed (the recipient decodes another amount; chain-valid!)
//	key-image-swap         key images of inputs 0 and 1 swapped (>= 2 confidential inputs)
//	ring-offset+1          ring member 1 of input 0 replaced by its successor (ring >= 2)
//
// NOTE "ecdh-amount" is NOT rejected by the chain by design (the encrypted amount is only meaningful to the
// recipient); it is listed so that a conservation oracle can see that the recipient's scan refuses it.
func Tampers(tx *types.UTXOTransaction, resign *Account) []Tampered {
	var out []Tampered
	add := func(name string, f func(t *types.UTXOTransaction) bool) {
		cp := CopyUTXO(tx)
		if !f(cp) {
			return
		}
		if resign != nil && (cp.UTXOKind()&types.Ain) == types.Ain {
			must(cp.Sign(types.GlobalSTDSigner, resign.Key))
		}
		// through the codec once more: drops every cache (kind, hash, sender) computed above
		out = append(out, Tampered{name, CopyUTXO(cp)})
	}
	addH := func(k *[32]byte) bool {
		n, err := ringct.AddKeys(*k, ringct.H)
		if err != nil {
			return false
		}
		*k = n
		return true
	}
	nU, nUin, ain, aout := 0, 0, -1, -1
	for _, o := range tx.Outputs {
		if _, ok := o.(*types.UTXOOutput); ok {
			nU++
		}
	}
	for i, o := range tx.Outputs {
		if _, ok := o.(*types.AccountOutput); ok && aout < 0 {
			aout = i
		}
	}
	for i, in := range tx.Inputs {
		switch in.(type) {
		case *types.UTXOInput:
			nUin++
		case *types.AccountInput:
			if ain < 0 {
				ain = i
			}
		}
	}
	step := big.NewInt(types.ParGasPrice)
	if len(tx.RCTSig.OutPk) > 0 {
		add("out-commit+H", func(t *types.UTXOTransaction) bool { return addH((*[32]byte)(&t.RCTSig.OutPk[0].Mask)) })
	}
	if len(tx.RCTSig.OutPk) > 1 {
		add("out-commit-swap", func(t *types.UTXOTransaction) bool {
			t.RCTSig.OutPk[0].Mask, t.RCTSig.OutPk[1].Mask = t.RCTSig.OutPk[1].Mask, t.RCTSig.OutPk[0].Mask
			return true
		})
	}
	if len(tx.RCTSig.P.PseudoOuts) > 0 {
		add("pseudo-out+H", func(t *types.UTXOTransaction) bool { return addH((*[32]byte)(&t.RCTSig.P.PseudoOuts[0])) })
		if len(tx.RCTSig.OutPk) > 0 {
			add("balanced-inflation", func(t *types.UTXOTransaction) bool {
				return addH((*[32]byte)(&t.RCTSig.P.PseudoOuts[0])) && addH((*[32]byte)(&t.RCTSig.OutPk[0].Mask))
			})
		}
	}
	add("fee+unit", func(t *types.UTXOTransaction) bool { t.Fee = new(big.Int).Add(t.Fee, step); return true })
	if tx.Fee.Cmp(step) >= 0 {
		add("fee-unit", func(t *types.UTXOTransaction) bool { t.Fee = new(big.Int).Sub(t.Fee, step); return true })
	}
	if ain >= 0 {
		add("ain-amount+unit", func(t *types.UTXOTransaction) bool {
			a := t.Inputs[ain].(*types.AccountInput)
			a.Amount = new(big.Int).Add(a.Amount, Unit)
			return true
		})
		add("ain-amount-nonmultiple", func(t *types.UTXOTransaction) bool {
			a := t.Inputs[ain].(*types.AccountInput)
			a.Amount = new(big.Int).Add(a.Amount, big.NewInt(1))
			return true
		})
	}
	if aout >= 0 {
		add("aout-amount+unit", func(t *types.UTXOTransaction) bool {
			a := t.Outputs[aout].(*types.AccountOutput)
			a.Amount = new(big.Int).Add(a.Amount, Unit)
			return true
		})
		add("aout-amount-nonmultiple", func(t *types.UTXOTransaction) bool {
			a := t.Outputs[aout].(*types.AccountOutput)
			a.Amount = new(big.Int).Add(a.Amount, big.NewInt(1))
			return true
		})
	}
	if len(tx.RCTSig.P.Bulletproofs) > 0 {
		add("bulletproof-bit", func(t *types.UTXOTransaction) bool { t.RCTSig.P.Bulletproofs[0].Taux[0] ^= 1; return true })
		add("bulletproof-drop", func(t *types.UTXOTransaction) bool { t.RCTSig.P.Bulletproofs = nil; return true })
	}
	if len(tx.RCTSig.EcdhInfo) > 0 {
		add("ecdh-amount", func(t *types.UTXOTransaction) bool { t.RCTSig.EcdhInfo[0].Amount[0] ^= 1; return true })
	}
	if nUin > 1 {
		add("key-image-swap", func(t *types.UTXOTransaction) bool {
			var ins []*types.UTXOInput
			for _, in := range t.Inputs {
				if u, ok := in.(*types.UTXOInput); ok {
					ins = append(ins, u)
				}
			}
			ins[0].KeyImage, ins[1].KeyImage = ins[1].KeyImage, ins[0].KeyImage
			return true
		})
	}
	if nUin > 0 {
		add("ring-offset+1", func(t *types.UTXOTransaction) bool {
			for _, in := range t.Inputs {
				if u, ok := in.(*types.UTXOInput); ok {
					if len(u.KeyOffset) < 2 {
						return false
					}
					u.KeyOffset[1]++
					return true
				}
			}
			return false
		})
	}
	_ = nU
	return out
}
