package txkit

import (
	"fmt"
	"math/big"
	"sort"

	"github.com/lianxiangcloud/linkchain/libs/common"
	"github.com/lianxiangcloud/linkchain/libs/cryptonote/ringct"
	lk "github.com/lianxiangcloud/linkchain/libs/cryptonote/types"
	"github.com/lianxiangcloud/linkchain/libs/cryptonote/xcrypto"
	"github.com/lianxiangcloud/linkchain/types"
)

// Unit is the granularity of confidential amounts of the coin (types.UTXO_COMMITMENT_CHANGE_RATE = 1e10):
// every amount that enters or leaves the confidential layer, and therefore every fee, is a multiple of it.
var Unit = big.NewInt(types.UTXO_COMMITMENT_CHANGE_RATE)

// DefaultUTXOGas is app.GetUTXOGas() on a chain without the coefficient contract
// (types.DefaultCoefficient().UTXOFee = 5e8 gas, i.e. a fee of 50 coins per confidential spend).
var DefaultUTXOGas = types.DefaultCoefficient().UTXOFee.Uint64()

func gasFee(gas uint64) *big.Int { return new(big.Int).Mul(new(big.Int).SetUint64(gas), GasPrice) }

// FeeAin is the minimum (and by convention exact) fee of an account -> confidential transaction that moves
// `total` (the sum of the destinations): CalNewAmountGas(total) * ParGasPrice.
func FeeAin(total *big.Int) *big.Int {
	return gasFee(types.CalNewAmountGas(total, types.EverLiankeFee))
}

// FeeUin is the minimum fee of a transaction with confidential inputs: utxoGas*ParGasPrice if it has a confidential
// output, plus CalNewAmountGas(accountOut)*ParGasPrice if it pays accountOut > 0 to an account.
func FeeUin(utxoGas uint64, hasUTXOOut bool, accountOut *big.Int) *big.Int {
	g := uint64(0)
	if hasUTXOOut {
		g += utxoGas
	}
	if accountOut != nil && accountOut.Sign() > 0 {
		g += types.CalNewAmountGas(accountOut, types.EverLiankeFee)
	}
	return gasFee(g)
}

// Dest is one destination of a confidential transaction: either a wallet sub-address or an account.
type Dest struct {
	Wallet  *Wallet // confidential destination ...
	Sub     int     // ... sub-address index 0..2
	Account *common.Address
	Amount  *big.Int
	Data    []byte // account destination only
}

// ToWallet / ToAccount build a Dest.
func ToWallet(w *Wallet, sub int, amount *big.Int) Dest {
	return Dest{Wallet: w, Sub: sub, Amount: amount}
}
func ToAccount(a common.Address, amount *big.Int) Dest { return Dest{Account: &a, Amount: amount} }

func destEntries(dests []Dest) ([]types.DestEntry, *big.Int, *big.Int, bool) {
	var out []types.DestEntry
	total, acc := new(big.Int), new(big.Int)
	hasU := false
	for _, d := range dests {
		total.Add(total, d.Amount)
		if d.Account != nil {
			out = append(out, &types.AccountDestEntry{To: *d.Account, Amount: new(big.Int).Set(d.Amount), Data: d.Data})
			acc.Add(acc, d.Amount)
		} else {
			out = append(out, &types.UTXODestEntry{Addr: d.Wallet.Addr(d.Sub), Amount: new(big.Int).Set(d.Amount), IsSubaddress: d.Sub > 0})
			hasU = true
		}
	}
	return out, total, acc, hasU
}

// Kit makes the randomness of the confidential constructors reproducible: the n-th confidential transaction
// built through a Kit is a function of (Seed, n) only. It pins the calling goroutine's generator
// (xcrypto.VerifSetLocalSeed) for the duration of each build, so Kits on different goroutines do not interfere.
type Kit struct {
	Seed    uint64
	UTXOGas uint64 // app.GetUTXOGas() of the target chain; 0 = DefaultUTXOGas
	n       uint64
}

// NewKit returns a Kit. seed must be > 0.
func NewKit(seed uint64) *Kit { return &Kit{Seed: seed} }

func (k *Kit) utxoGas() uint64 {
	if k.UTXOGas != 0 {
		return k.UTXOGas
	}
	return DefaultUTXOGas
}

func (k *Kit) seeded(f func()) {
	k.n++
	xcrypto.VerifSetLocalSeed(k.Seed<<20 + k.n)
	defer xcrypto.VerifClearLocalSeed()
	f()
}

// AccountToUTXO: types.NewAinTransaction + Sign. The account is debited sum(dests)+fee; fee nil = FeeAin(sum).
// Destinations must be wallets (the chain refuses account input together with account output).
func (k *Kit) AccountToUTXO(from *Account, nonce uint64, dests []Dest, fee *big.Int) (*types.UTXOTransaction, error) {
	entries, total, _, _ := destEntries(dests)
	if fee == nil {
		fee = FeeAin(total)
	}
	src := &types.AccountSourceEntry{From: from.Addr, Nonce: nonce, Amount: new(big.Int).Add(total, fee)}
	var tx *types.UTXOTransaction
	var err error
	k.seeded(func() {
		tx, _, err = types.NewAinTransaction(src, entries, common.EmptyAddress, nil)
	})
	if err != nil {
		return nil, err
	}
	if err := tx.Sign(types.GlobalSTDSigner, from.Key); err != nil {
		return nil, err
	}
	return tx, nil
}

// Spend: types.NewUinTransaction + UInTransWithRctSig. inputs are outputs owned by w (from a Ledger); ringSize 1
// uses the one-member ring-signature path, ringSize >= 2 the MLSAG path (decoys come from the ledger's global
// output list; all rings of a transaction have the same size). The fee is implicit: sum(inputs) - sum(dests);
// use SpendAll/Change helpers or compute the change yourself with FeeUin.
func (k *Kit) Spend(l *Ledger, w *Wallet, inputs []*Owned, ringSize int, dests []Dest) (*types.UTXOTransaction, error) {
	entries, _, _, _ := destEntries(dests)
	var sources []*types.UTXOSourceEntry
	for _, in := range inputs {
		s, err := l.Source(in, ringSize)
		if err != nil {
			return nil, err
		}
		sources = append(sources, s)
	}
	return k.SpendSources(w, sources, entries)
}

// SpendSources is Spend on caller-built source entries and destination entries (for hostile variants).
func (k *Kit) SpendSources(w *Wallet, sources []*types.UTXOSourceEntry, entries []types.DestEntry) (*types.UTXOTransaction, error) {
	var tx *types.UTXOTransaction
	var err error
	k.seeded(func() {
		var ephs []*types.UTXOInputEphemeral
		var mkeys lk.KeyV
		tx, ephs, mkeys, _, err = types.NewUinTransaction(w.Keys(), w.Acc.KeyIndex, sources, entries, common.EmptyAddress, common.EmptyAddress, nil)
		if err != nil {
			return
		}
		err = types.UInTransWithRctSig(tx, sources, ephs, entries, mkeys)
	})
	if err != nil {
		return nil, err
	}
	return tx, nil
}

// Transfer spends inputs of w: pays `dests` and returns the change (sum(inputs) - sum(dests) - minimum fee) to
// sub-address changeSub of w. It fails if the inputs do not cover dests + fee + one Unit of change.
func (k *Kit) Transfer(l *Ledger, w *Wallet, inputs []*Owned, ringSize int, dests []Dest, changeSub int) (*types.UTXOTransaction, error) {
	in := new(big.Int)
	for _, o := range inputs {
		in.Add(in, o.Amount)
	}
	_, total, acc, _ := destEntries(dests)
	fee := FeeUin(k.utxoGas(), true, acc)
	change := new(big.Int).Sub(in, new(big.Int).Add(total, fee))
	if change.Sign() <= 0 {
		return nil, fmt.Errorf("txkit: inputs %v do not cover %v + fee %v + change", in, total, fee)
	}
	all := append(append([]Dest{}, dests...), ToWallet(w, changeSub, change))
	return k.Spend(l, w, inputs, ringSize, all)
}

// ToAccountAll spends inputs of w entirely to account `to`: amount = sum(inputs) - fee, where the fee is the minimum
// for that amount (no confidential output, hence no confidential-spend fee). Returns the transaction and the amount.
func (k *Kit) ToAccountAll(l *Ledger, w *Wallet, inputs []*Owned, ringSize int, to common.Address) (*types.UTXOTransaction, *big.Int, error) {
	in := new(big.Int)
	for _, o := range inputs {
		in.Add(in, o.Amount)
	}
	// fee depends on the amount (per started coin): iterate to the fixed point from above
	amount := new(big.Int).Set(in)
	for i := 0; i < 8; i++ {
		fee := FeeUin(k.utxoGas(), false, amount)
		next := new(big.Int).Sub(in, fee)
		if next.Sign() <= 0 {
			return nil, nil, fmt.Errorf("txkit: inputs %v do not cover the fee %v", in, fee)
		}
		if next.Cmp(amount) == 0 {
			break
		}
		amount = next
	}
	if new(big.Int).Add(amount, FeeUin(k.utxoGas(), false, amount)).Cmp(in) > 0 {
		return nil, nil, fmt.Errorf("txkit: no fee fixed point for %v", in)
	}
	tx, err := k.Spend(l, w, inputs, ringSize, []Dest{ToAccount(to, amount)})
	return tx, amount, err
}

// ---------------------------------------------------------------------------------------------------
// Ledger: what the wallets see on the chain

// Owned is one confidential output that belongs to a wallet.
type Owned struct {
	Wallet   *Wallet
	Token    common.Address
	Global   uint64 // index in the chain's per-token output list (UtxoStore sequence)
	Height   uint64
	TxHash   common.Hash
	RKey     lk.PublicKey // the transaction key whose derivation matched (RKey or one of AddKeys)
	OutIndex uint64       // position among the confidential outputs of its transaction
	Amount   *big.Int
	Mask     lk.Key
	SubIdx   uint64
	KeyImage lk.Key
	Spent    bool // its key image appeared in a committed block
	SpentAt  uint64
}

// ChainReader is the part of minichain.Chain the ledger needs.
type ChainReader interface {
	Height() uint64
	LoadBlock(h uint64) *types.Block
}

// Ledger scans committed blocks the way wallet.LinkAccount.processNewTransaction does (without its database) for
// all three wallets, keeps the global output list per token (index = the sequence number UtxoStore assigns), and
// marks outputs spent when their key image is committed.
type Ledger struct {
	Outs   map[common.Address][]*types.UTXOOutputData // per token, global index = position
	Owned  []*Owned                                   // in discovery order
	Images map[lk.Key]int                             // committed key image -> number of times committed
	next   uint64                                     // next height to scan
	byKI   map[lk.Key]*Owned
}

// NewLedger returns an empty ledger (nothing scanned; Sync starts at height 1).
func NewLedger() *Ledger {
	return &Ledger{Outs: map[common.Address][]*types.UTXOOutputData{}, Images: map[lk.Key]int{}, next: 1, byKI: map[lk.Key]*Owned{}}
}

// Sync scans the blocks committed since the last call. It returns the outputs discovered by this call.
func (l *Ledger) Sync(c ChainReader) []*Owned {
	var found []*Owned
	for ; l.next <= c.Height(); l.next++ {
		b := c.LoadBlock(l.next)
		if b == nil {
			panic(fmt.Sprintf("txkit: block %d missing", l.next))
		}
		found = append(found, l.ScanBlock(b)...)
	}
	return found
}

// ScanBlock processes one block (in chain order!).
func (l *Ledger) ScanBlock(b *types.Block) []*Owned {
	var found []*Owned
	for _, t := range b.Data.Txs {
		tx, ok := t.(*types.UTXOTransaction)
		if !ok {
			continue
		}
		for _, ki := range tx.GetInputKeyImages() {
			l.Images[*ki]++
			if o := l.byKI[*ki]; o != nil && !o.Spent {
				o.Spent, o.SpentAt = true, b.Height
			}
		}
		first := uint64(len(l.Outs[tx.TokenID]))
		l.Outs[tx.TokenID] = append(l.Outs[tx.TokenID], tx.GetOutputData(b.Height)...)
		for _, w := range Wallets() {
			for _, o := range ScanTx(w, tx, first) {
				o.Height = b.Height
				if l.Images[o.KeyImage] > 0 {
					o.Spent = true
				}
				l.Owned = append(l.Owned, o)
				l.byKI[o.KeyImage] = o
				found = append(found, o)
			}
		}
	}
	return found
}

// ScanTx returns the outputs of tx that belong to w. firstGlobal is the global index of the transaction's first
// confidential output.
func ScanTx(w *Wallet, tx *types.UTXOTransaction, firstGlobal uint64) []*Owned {
	keys := w.Keys()
	rate, err := types.GetUtxoCommitmentChangeRate(tx.TokenID)
	if err != nil {
		rate = types.UTXO_COMMITMENT_CHANGE_RATE
	}
	var res []*Owned
	outputID := -1
	for _, o := range tx.Outputs {
		ro, ok := o.(*types.UTXOOutput)
		if !ok {
			continue
		}
		outputID++
		rkeys := append([]lk.PublicKey{tx.RKey}, tx.AddKeys...)
		var ders []lk.KeyDerivation
		back := map[lk.KeyDerivation]lk.PublicKey{}
		for _, rk := range rkeys {
			d, err := xcrypto.GenerateKeyDerivation(rk, keys.ViewSKey)
			if err != nil {
				continue
			}
			ders = append(ders, d)
			back[d] = rk
		}
		der, subIdx, err := types.IsOutputBelongToAccount(keys, w.Acc.KeyIndex, ro.OTAddr, ders, uint64(outputID))
		if err != nil {
			continue
		}
		if outputID >= len(tx.RCTSig.EcdhInfo) {
			continue
		}
		sk, err := xcrypto.DeriveSecretKey(der, outputID, keys.SpendSKey)
		if err != nil {
			continue
		}
		if subIdx > 0 {
			sk = xcrypto.SecretAdd(sk, xcrypto.GetSubaddressSecretKey(keys.ViewSKey, uint32(subIdx)))
		}
		ki, err := xcrypto.GenerateKeyImage(lk.PublicKey(ro.OTAddr), sk)
		if err != nil {
			continue
		}
		ecdh := &lk.EcdhTuple{Mask: tx.RCTSig.EcdhInfo[outputID].Mask, Amount: tx.RCTSig.EcdhInfo[outputID].Amount}
		scalar, err := xcrypto.DerivationToScalar(der, outputID)
		if err != nil || !xcrypto.EcdhDecode(ecdh, lk.Key(scalar), false) {
			continue
		}
		// the wallet's "check encode amount is valid": the decoded amount must open the commitment
		_, c, _, err := ringct.ProveRangeBulletproof(lk.KeyV{ecdh.Amount}, lk.KeyV{lk.Key(scalar)})
		if err != nil || len(c) != 1 || outputID >= len(tx.RCTSig.OutPk) {
			continue
		}
		if c8, err := ringct.Scalarmult8(c[0]); err != nil || c8 != tx.RCTSig.OutPk[outputID].Mask {
			continue
		}
		res = append(res, &Owned{
			Wallet: w, Token: tx.TokenID, Global: firstGlobal + uint64(outputID), TxHash: tx.Hash(), RKey: back[der], OutIndex: uint64(outputID),
			Amount: new(big.Int).Mul(types.Hash2BigInt(ecdh.Amount), big.NewInt(rate)),
			Mask:   ecdh.Mask, SubIdx: subIdx, KeyImage: lk.Key(ki),
		})
	}
	return res
}

// Spendable returns the unspent outputs of w for the coin, oldest first.
func (l *Ledger) Spendable(w *Wallet) []*Owned { return l.SpendableOf(w, common.EmptyAddress) }

// SpendableOf returns the unspent outputs of w for token, oldest first.
func (l *Ledger) SpendableOf(w *Wallet, token common.Address) []*Owned {
	var out []*Owned
	for _, o := range l.Owned {
		if o.Wallet == w && !o.Spent && o.Token == token {
			out = append(out, o)
		}
	}
	return out
}

// Unspent returns the sum of all unspent owned outputs of token, over all wallets: the "hidden ledger" side of a
// conservation equation.
func (l *Ledger) Unspent(token common.Address) *big.Int {
	sum := new(big.Int)
	for _, o := range l.Owned {
		if !o.Spent && o.Token == token {
			sum.Add(sum, o.Amount)
		}
	}
	return sum
}

// NumOutputs is the number of confidential outputs of token on the chain (= UtxoStore max sequence + 1).
func (l *Ledger) NumOutputs(token common.Address) int { return len(l.Outs[token]) }

// Source builds the UTXOSourceEntry that spends o with a ring of ringSize members: o itself plus the ringSize-1
// lowest-indexed other outputs of the same token (deterministic decoys), sorted by global index as the
// constructor requires.
func (l *Ledger) Source(o *Owned, ringSize int) (*types.UTXOSourceEntry, error) {
	outs := l.Outs[o.Token]
	if ringSize < 1 {
		ringSize = 1
	}
	if ringSize > len(outs) {
		return nil, fmt.Errorf("txkit: ring of %d wanted, chain has %d outputs", ringSize, len(outs))
	}
	ring := []uint64{o.Global}
	for g := uint64(0); len(ring) < ringSize; g++ {
		if g != o.Global {
			ring = append(ring, g)
		}
	}
	return l.SourceWithRing(o, ring)
}

// SourceWithRing builds the source entry with an explicit ring (global indices; must contain o.Global).
func (l *Ledger) SourceWithRing(o *Owned, ring []uint64) (*types.UTXOSourceEntry, error) {
	outs := l.Outs[o.Token]
	ring = append([]uint64{}, ring...)
	sort.Slice(ring, func(i, j int) bool { return ring[i] < ring[j] })
	s := &types.UTXOSourceEntry{RKey: o.RKey, OutIndex: o.OutIndex, Amount: new(big.Int).Set(o.Amount), Mask: o.Mask}
	found := false
	for j, g := range ring {
		if g >= uint64(len(outs)) {
			return nil, fmt.Errorf("txkit: ring member %d does not exist", g)
		}
		if g == o.Global {
			s.RingIndex, found = uint64(j), true
		}
		s.Ring = append(s.Ring, types.UTXORingEntry{Index: g, OTAddr: outs[g].OTAddr, Commit: outs[g].Commit})
	}
	if !found {
		return nil, fmt.Errorf("txkit: ring does not contain the real output %d", o.Global)
	}
	return s, nil
}
