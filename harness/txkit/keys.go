// Package txkit: deterministic keys and transaction builders for harnesses that run on verif/minichain.
// Every transaction is made with the repository's own constructors and signers (types.NewTransaction,
// NewTokenTransaction, NewContractCreation, NewAinTransaction, NewUinTransaction + UInTransWithRctSig,
// NewMultiSignAccountTx, UpgradeContractTx). See ../minichain/README.md.
package txkit

import (
	"crypto/ecdsa"
	"fmt"
	"math/big"

	"verif/minichain"

	"github.com/lianxiangcloud/linkchain/libs/common"
	"github.com/lianxiangcloud/linkchain/libs/crypto"
	lk "github.com/lianxiangcloud/linkchain/libs/cryptonote/types"
	"github.com/lianxiangcloud/linkchain/wallet/wallet"
)

// Account is a secp256k1 account.
type Account struct {
	Name string
	Key  *ecdsa.PrivateKey
	Addr common.Address
}

func (a *Account) String() string { return a.Name }

// Wallet is a confidential (Monero-style) wallet with its main address (sub-address 0) and sub-addresses 1, 2.
type Wallet struct {
	Name  string
	Index int
	Acc   *wallet.AccountBase
}

func (w *Wallet) String() string { return w.Name }

// Addr returns the address of sub-address sub (0 = main address).
func (w *Wallet) Addr(sub int) lk.AccountAddress { return w.Acc.Keys[sub].Addr }

// Keys returns the main key set (what NewUinTransaction wants).
func (w *Wallet) Keys() *lk.AccountKey { return w.Acc.GetKeys() }

// NumSub is the number of addresses per wallet (main + 2 sub-addresses).
const NumSub = 3

// The fixed actors. A, B, C are funded by Alloc(); D is a fourth key that is never funded (a stranger).
var (
	A, B, C, D *Account
	W0, W1, W2 *Wallet
)

// Accounts returns A, B, C.
func Accounts() []*Account { return []*Account{A, B, C} }

// Wallets returns W0, W1, W2.
func Wallets() []*Wallet { return []*Wallet{W0, W1, W2} }

func mkAccount(name string) *Account {
	k, err := crypto.ToECDSA(crypto.Keccak256([]byte("verif-txkit-account-" + name)))
	if err != nil {
		panic(err)
	}
	return &Account{Name: name, Key: k, Addr: crypto.PubkeyToAddress(k.PublicKey)}
}

func mkWallet(i int) *Wallet {
	var rk lk.SecretKey
	copy(rk[:], crypto.Keccak256([]byte(fmt.Sprintf("verif-txkit-wallet-%d", i))))
	acc, err := wallet.RecoveryKeyToAccount(rk) // deterministic: keys are derived from rk (sc_reduce32), no randomness
	if err != nil {
		panic(err)
	}
	acc.CreationTimestamp = 0 // RecoveryKeyToAccount stores time.Now(); nothing reads it
	if err := acc.CreateSubAccountN(NumSub); err != nil {
		panic(err)
	}
	if len(acc.Keys) < NumSub {
		panic("txkit: sub-addresses missing")
	}
	return &Wallet{Name: fmt.Sprintf("W%d", i), Index: i, Acc: acc}
}

func init() {
	A, B, C, D = mkAccount("A"), mkAccount("B"), mkAccount("C"), mkAccount("D")
	W0, W1, W2 = mkWallet(0), mkWallet(1), mkWallet(2)
}

// LKC returns n * 1e18 (n whole coins).
func LKC(n int64) *big.Int { return new(big.Int).Mul(big.NewInt(n), big.NewInt(1e18)) }

// Alloc returns genesis accounts A, B, C with balance each (nil: 1,000,000 coins).
func Alloc(balance *big.Int) []minichain.Alloc {
	if balance == nil {
		balance = LKC(1000000)
	}
	var out []minichain.Alloc
	for _, a := range Accounts() {
		out = append(out, minichain.Alloc{Addr: a.Addr, Balance: new(big.Int).Set(balance)})
	}
	return out
}

// AllocWithToken is Alloc plus amount of token for each of A, B, C (uses minichain's Alloc.Tokens extension).
func AllocWithToken(balance *big.Int, token common.Address, amount *big.Int) []minichain.Alloc {
	out := Alloc(balance)
	for i := range out {
		out[i].Tokens = map[common.Address]*big.Int{token: new(big.Int).Set(amount)}
	}
	return out
}

// GenesisToken is an arbitrary non-zero token id for AllocWithToken (no contract lives there).
var GenesisToken = common.HexToAddress("0x00000000000000000000000000000000746f6b31")
