package txkit

import (
	"math/big"

	"github.com/lianxiangcloud/linkchain/libs/common"
	"github.com/lianxiangcloud/linkchain/libs/crypto"
	"github.com/lianxiangcloud/linkchain/libs/ser"
	"github.com/lianxiangcloud/linkchain/types"
)

// DefaultVMGas is the gas limit the builders give contract creations and calls.
const DefaultVMGas uint64 = 3000000

// GasPrice is the only gas price the chain accepts (types.ParGasPrice).
var GasPrice = big.NewInt(types.ParGasPrice)

func must(err error) {
	if err != nil {
		panic("txkit: " + err.Error())
	}
}

// TransferGas is the exact gas limit a plain coin transfer of amount must carry (IllegalGasLimitOrGasPrice
// rejects any other value when the recipient has no code).
func TransferGas(amount *big.Int) uint64 { return types.CalNewAmountGas(amount, types.EverLiankeFee) }

// TransferFee = TransferGas * GasPrice: what a plain transfer of amount costs its sender on top of amount.
func TransferFee(amount *big.Int) *big.Int {
	return new(big.Int).Mul(new(big.Int).SetUint64(TransferGas(amount)), GasPrice)
}

// Transfer: plain coin transfer (types.NewTransaction + Sign with types.GlobalSTDSigner).
func Transfer(from *Account, nonce uint64, to common.Address, amount *big.Int) *types.Transaction {
	return TransferWithGas(from, nonce, to, amount, TransferGas(amount), nil)
}

// TransferWithGas: as Transfer with a caller-chosen gas limit and payload (for the "bad" variants and for calls).
func TransferWithGas(from *Account, nonce uint64, to common.Address, amount *big.Int, gas uint64, data []byte) *types.Transaction {
	tx := types.NewTransaction(nonce, to, amount, gas, GasPrice, data)
	must(tx.Sign(types.GlobalSTDSigner, from.Key))
	return tx
}

// TokenTransferGas is the exact gas limit of a token transfer to an address without code.
func TokenTransferGas(token common.Address, amount *big.Int) uint64 {
	if common.IsLKC(token) {
		return types.CalNewAmountGas(amount, types.EverLiankeFee)
	}
	return uint64(types.MinGasLimit)
}

// TokenTransfer: types.NewTokenTransaction. token == zero address moves the coin through the token path.
func TokenTransfer(from *Account, nonce uint64, token common.Address, to common.Address, amount *big.Int) *types.TokenTransaction {
	return TokenTransferWithGas(from, nonce, token, to, amount, TokenTransferGas(token, amount))
}

func TokenTransferWithGas(from *Account, nonce uint64, token common.Address, to common.Address, amount *big.Int, gas uint64) *types.TokenTransaction {
	tx := types.NewTokenTransaction(token, nonce, to, amount, gas, GasPrice, nil)
	must(tx.Sign(types.GlobalSTDSigner, from.Key))
	return tx
}

// Create: contract creation (types.NewContractCreation) with value and DefaultVMGas. The address of the new
// contract is ContractAddress(from.Addr, nonce, initCode).
func Create(from *Account, nonce uint64, initCode []byte, value *big.Int) *types.Transaction {
	return CreateWithGas(from, nonce, initCode, value, DefaultVMGas)
}

func CreateWithGas(from *Account, nonce uint64, initCode []byte, value *big.Int, gas uint64) *types.Transaction {
	tx := types.NewContractCreation(nonce, value, gas, GasPrice, initCode)
	must(tx.Sign(types.GlobalSTDSigner, from.Key))
	return tx
}

// Call: message call to a contract with value and calldata, DefaultVMGas.
func Call(from *Account, nonce uint64, contract common.Address, value *big.Int, data []byte) *types.Transaction {
	return TransferWithGas(from, nonce, contract, value, DefaultVMGas, data)
}

// TokenCall: token transaction to a contract (the token amount arrives with the call; CALLTOKENVALUE).
func TokenCall(from *Account, nonce uint64, token, contract common.Address, amount *big.Int, data []byte) *types.TokenTransaction {
	tx := types.NewTokenTransaction(token, nonce, contract, amount, DefaultVMGas, GasPrice, data)
	must(tx.Sign(types.GlobalSTDSigner, from.Key))
	return tx
}

// ---- special transactions -------------------------------------------------------------------------

// ValidatorSigner signs for one validator (csnet.Fixture.Keys[i] satisfies it through SignerOf).
type ValidatorSigner struct {
	Addr []byte
	Sign func(msg []byte) ([]byte, error)
}

// SignerOf adapts an ed25519 validator key.
func SignerOf(k crypto.PrivKeyEd25519) ValidatorSigner {
	return ValidatorSigner{Addr: k.PubKey().Address(), Sign: func(msg []byte) ([]byte, error) {
		sig, err := k.Sign(msg)
		if err != nil {
			return nil, err
		}
		return sig.Bytes(), nil
	}}
}

// MultiSign builds a MultiSignAccountTx (it installs `signers` as the multi-signature account allowed to send
// transactions of kind `support`: types.TxUpdateValidatorsType or types.TxContractCreateType) signed by the given
// validators. nonce is the nonce of types.MultiSignNonceAddr. It needs > 2/3 of the voting power of the
// validator set the application was told about (SetLastChangedVals). Executes without system contracts:
// the only state change is the nonce of MultiSignNonceAddr; the signer table goes to the txmgr database.
func MultiSign(nonce uint64, support types.SupportType, minPower int32, signers []*types.SignerEntry, vals []ValidatorSigner) *types.MultiSignAccountTx {
	info := &types.MultiSignMainInfo{AccountNonce: nonce, SupportTxType: support, SignersInfo: types.SignersInfo{MinSignerPower: minPower, Signers: signers}}
	msg, err := types.GenMultiSignBytes(*info)
	must(err)
	var sigs []types.ValidatorSign
	for _, v := range vals {
		s, err := v.Sign(msg)
		must(err)
		sigs = append(sigs, types.ValidatorSign{Addr: v.Addr, Signature: s})
	}
	return types.NewMultiSignAccountTx(info, sigs)
}

// WasmMagic is the 4-byte module header by which the chain recognises WASM code ("\0asm").
var WasmMagic = []byte{0x00, 0x61, 0x73, 0x6d}

// Upgrade builds a ContractUpgradeTx for an inner (system) contract address, signed by the given accounts, which
// must reach MinSignerPower of the signer table installed by a MultiSign(TxContractCreateType) transaction; `from`
// must be one of the signers. The payload must look like WASM (types.IsWasmContract) to pass CheckBasic.
// Without system contracts the transaction is accepted into a block and consumes the sender's nonce, but its
// execution fails at the VM level ("evm should not support upgrade": the VM is chosen by the code at the target
// address, and there is none), so the receipt is a failure and the state is otherwise unchanged.
func Upgrade(from *Account, nonce uint64, target common.Address, payload []byte, signers ...*Account) *types.ContractUpgradeTx {
	info := &types.ContractUpgradeMainInfo{FromAddr: from.Addr, Recipient: target, AccountNonce: nonce, Payload: payload}
	var sigs [][]byte
	for _, s := range signers {
		sig, err := types.SignContractUpgradeTx(s.Key, info)
		must(err)
		sigs = append(sigs, sig)
	}
	tx := types.UpgradeContractTx(info, sigs)
	if tx == nil {
		panic("txkit: UpgradeContractTx returned nil")
	}
	return tx
}

// ---- generic helpers ------------------------------------------------------------------------------

// WireCopy returns tx as a peer would receive it (encoded, decoded: no cached sender, hash, kind).
func WireCopy(tx types.Tx) types.Tx {
	bz, err := ser.EncodeToBytes(&tx)
	must(err)
	var out types.Tx
	must(ser.DecodeBytes(bz, &out))
	return out
}

// Bytes is the wire encoding of tx.
func Bytes(tx types.Tx) []byte {
	bz, err := ser.EncodeToBytes(&tx)
	must(err)
	return bz
}
