package kv

import (
	"sync"

	dbm "github.com/lianxiangcloud/linkchain/libs/db"
)

// Crash-state enumeration devices (engine E3 "crashx") for key-value stores.
//
// A Recorder owns a set of named logging databases. Every mutation of any of them is appended to ONE global
// write log as a unit: a single Set/Delete, or a whole batch (batches are atomic on every backend the node uses).
// Any prefix of the log can be materialised into fresh databases ("the process crashed right after unit n"):
// completed writes survive a process crash. For the power-loss tier each unit also carries whether it was a
// synchronous write; MaterializeLossy additionally drops, per device, a suffix of writes issued after that
// device's last synchronous unit.

type OpKind int

const (
	OpSet OpKind = iota
	OpDelete
)

type Op struct {
	Kind  OpKind
	Key   []byte
	Value []byte
}

// Unit is one atomic write to one device.
type Unit struct {
	DB   string
	Ops  []Op
	Sync bool
	Tag  string // harness marker active when the unit was written (e.g. "block 2")
}

type Recorder struct {
	mu    sync.Mutex
	Log   []Unit
	dbs   map[string]*LogDB
	names []string
	tag   string
}

func NewRecorder() *Recorder { return &Recorder{dbs: map[string]*LogDB{}} }

// SetTag labels subsequently written units.
func (r *Recorder) SetTag(t string) { r.mu.Lock(); r.tag = t; r.mu.Unlock() }

// Len is the number of units written so far.
func (r *Recorder) Len() int { r.mu.Lock(); defer r.mu.Unlock(); return len(r.Log) }

// DB returns (creating on first use) the logging database with this name, optionally seeded from base.
func (r *Recorder) DB(name string) *LogDB {
	r.mu.Lock()
	defer r.mu.Unlock()
	if d, ok := r.dbs[name]; ok {
		return d
	}
	d := &LogDB{CopyDB: NewCopyDB(), name: name, rec: r}
	r.dbs[name] = d
	r.names = append(r.names, name)
	return d
}

// Names lists the devices in creation order.
func (r *Recorder) Names() []string { return append([]string{}, r.names...) }

func (r *Recorder) record(u Unit) {
	r.mu.Lock()
	u.Tag = r.tag
	r.Log = append(r.Log, u)
	r.mu.Unlock()
}

// Materialize builds fresh plain databases holding the state after the first n units.
func (r *Recorder) Materialize(n int) map[string]*CopyDB {
	return r.MaterializeSkipping(n, nil)
}

// MaterializeSkipping is Materialize with some units (by index) left out: used for the power-loss tier, where
// unsynchronised writes of a device may be lost although later writes to OTHER devices survived.
func (r *Recorder) MaterializeSkipping(n int, skip map[int]bool) map[string]*CopyDB {
	r.mu.Lock()
	defer r.mu.Unlock()
	out := map[string]*CopyDB{}
	for _, name := range r.names {
		out[name] = NewCopyDB()
	}
	for i := 0; i < n && i < len(r.Log); i++ {
		if skip[i] {
			continue
		}
		u := r.Log[i]
		d := out[u.DB]
		for _, op := range u.Ops {
			if op.Kind == OpSet {
				d.MemDB.Set(cp(op.Key), cp(op.Value))
			} else {
				d.MemDB.Delete(cp(op.Key))
			}
		}
	}
	return out
}

// LossyTails returns, for a crash after n units, the per-device lists of unit indices that were written after the
// device's last synchronous unit (candidates for being lost at power failure). A lost write implies that every later
// write of the same device is lost too (devices persist in order), so callers drop suffixes.
func (r *Recorder) LossyTails(n int) map[string][]int {
	r.mu.Lock()
	defer r.mu.Unlock()
	tails := map[string][]int{}
	for i := 0; i < n && i < len(r.Log); i++ {
		u := r.Log[i]
		if u.Sync {
			tails[u.DB] = nil
		} else {
			tails[u.DB] = append(tails[u.DB], i)
		}
	}
	return tails
}

// LogDB is a MemDB (copying) that reports every mutation to its Recorder.
type LogDB struct {
	*CopyDB
	name string
	rec  *Recorder
}

func (d *LogDB) one(kind OpKind, k, v []byte, sync bool) {
	d.rec.record(Unit{DB: d.name, Ops: []Op{{kind, cp(k), cp(v)}}, Sync: sync})
}

func (d *LogDB) Set(k, v []byte)       { d.one(OpSet, k, v, false); d.CopyDB.Set(k, v) }
func (d *LogDB) SetSync(k, v []byte)   { d.one(OpSet, k, v, true); d.CopyDB.SetSync(k, v) }
func (d *LogDB) Put(k, v []byte) error { d.one(OpSet, k, v, false); return d.CopyDB.Put(k, v) }
func (d *LogDB) Delete(k []byte)       { d.one(OpDelete, k, nil, false); d.CopyDB.MemDB.Delete(cp(k)) }
func (d *LogDB) DeleteSync(k []byte)   { d.one(OpDelete, k, nil, true); d.CopyDB.MemDB.DeleteSync(cp(k)) }
func (d *LogDB) Del(k []byte) error    { d.one(OpDelete, k, nil, false); return d.CopyDB.MemDB.Del(cp(k)) }

type logBatch struct {
	d   *LogDB
	ops []Op
	sz  int
}

func (d *LogDB) NewBatch() dbm.Batch { return &logBatch{d: d} }

func (b *logBatch) Set(k, v []byte) { b.ops = append(b.ops, Op{OpSet, cp(k), cp(v)}); b.sz += len(v) }
func (b *logBatch) Delete(k []byte) { b.ops = append(b.ops, Op{OpDelete, cp(k), nil}); b.sz++ }
func (b *logBatch) ValueSize() int  { return b.sz }
func (b *logBatch) Reset()          { b.ops, b.sz = nil, 0 }
func (b *logBatch) write(sync bool) {
	if len(b.ops) == 0 {
		return
	}
	b.d.rec.record(Unit{DB: b.d.name, Ops: append([]Op{}, b.ops...), Sync: sync})
	for _, op := range b.ops {
		if op.Kind == OpSet {
			b.d.CopyDB.MemDB.Set(cp(op.Key), cp(op.Value))
		} else {
			b.d.CopyDB.MemDB.Delete(cp(op.Key))
		}
	}
}
func (b *logBatch) Write()        { b.write(false) }
func (b *logBatch) WriteSync()    { b.write(true) }
func (b *logBatch) Commit() error { b.write(false); return nil }
