// Package kv holds harness-side key-value devices built on the repository's MemDB.
package kv

import (
	"errors"

	dbm "github.com/lianxiangcloud/linkchain/libs/db"
)

// CopyDB is the repository's MemDB whose batches copy keys and values at Set/Delete time, the way
// every on-disk backend (goleveldb, bolt, badger) does. MemDB's own batch keeps the caller's slices,
// so code that re-uses a key buffer after Set (trie.Database.Cap does) only works on copying backends;
// production runs on leveldb, and the harness models that.
type CopyDB struct {
	*dbm.MemDB
}

func NewCopyDB() *CopyDB { return &CopyDB{dbm.NewMemDB()} }

// ErrNotFound mirrors goleveldb's error for a missing key.
var ErrNotFound = errors.New("leveldb: not found")

// Load behaves like the production backend (goleveldb): a missing key is an error, not (nil, nil) as in MemDB.
// (The node's code relies on it, e.g. loadStartDeleteHeight; which error value is returned is backend-specific.)
func (d *CopyDB) Load(key []byte) ([]byte, error) {
	if !d.MemDB.Has(key) {
		return nil, ErrNotFound
	}
	return d.MemDB.Get(key), nil
}

// Exist mirrors GoLevelDB.Exist (value != nil, error of Load).
func (d *CopyDB) Exist(key []byte) (bool, error) {
	v, err := d.Load(key)
	return v != nil, err
}

func cp(b []byte) []byte {
	if b == nil {
		return nil
	}
	return append([]byte{}, b...)
}

func (d *CopyDB) Set(k, v []byte)       { d.MemDB.Set(cp(k), cp(v)) }
func (d *CopyDB) SetSync(k, v []byte)   { d.MemDB.SetSync(cp(k), cp(v)) }
func (d *CopyDB) Put(k, v []byte) error { return d.MemDB.Put(cp(k), cp(v)) }

type copyBatch struct{ dbm.Batch }

func (b copyBatch) Set(k, v []byte) { b.Batch.Set(cp(k), cp(v)) }
func (b copyBatch) Delete(k []byte) { b.Batch.Delete(cp(k)) }

func (d *CopyDB) NewBatch() dbm.Batch { return copyBatch{d.MemDB.NewBatch()} }
