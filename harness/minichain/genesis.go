package minichain

import (
	"time"

	bc "github.com/lianxiangcloud/linkchain/blockchain"
	cs "github.com/lianxiangcloud/linkchain/consensus"
	"github.com/lianxiangcloud/linkchain/libs/common"
	dbm "github.com/lianxiangcloud/linkchain/libs/db"
	"github.com/lianxiangcloud/linkchain/state"
	"github.com/lianxiangcloud/linkchain/types"
)

// voteTime is the timestamp of every vote the fixture signs (same value as csnet's).
var voteTime = time.Unix(1500000000, 0).UTC()

// genesisDoc is the fixture's genesis document: csnet's validators and chain id plus the allocated accounts.
func genesisDoc(o *Options) *types.GenesisDoc {
	g := *o.Fixture.Gen
	g.GenesisTime = "verif" // any non-empty string: ValidateAndComplete would otherwise read the clock
	g.AllocAccounts = map[string]types.GenesisAccount{}
	for _, a := range o.Alloc {
		bal := a.Balance
		if bal == nil {
			bal = common.Big0
		}
		g.AllocAccounts[a.Addr.Hex()] = types.GenesisAccount{Balance: bal, Nonce: a.Nonce}
	}
	return &g
}

// writeGenesis mirrors cmd/commands/init.go createGenesisBlock followed by createConsensusStatus
// (`linkchain init`), statement by statement, with these differences:
//   - no system WASM contracts (deployOriginalContract, contractData): the candidates, coefficient, committee,
//     foundation, pledge, consensus-committee, blacklist and validators contracts do not exist on this chain;
//   - the databases are the fixture's, and they stay open;
//   - header.Time is Options.GenesisTime (init.go picks one of two constants by comparing with time.Now());
//   - the status' LastBlockTime is Options.GenesisTime (MakeGenesisStatus stores time.Now());
//   - Alloc.Tokens (an extension) is applied with AddTokenBalance.
func writeGenesis(o *Options, dbs map[string]dbm.DB, walDir string) error {
	genDoc := genesisDoc(o)

	blockStoreDB := dbs["blockstore"]
	stateDB := dirDB{dbs["state"], walDir}
	balanceRecordDB := dbs["balance_record"]

	saveRecords := !o.NoBalanceRecords
	balanceRecordStore := bc.NewBalanceRecordStore(balanceRecordDB, saveRecords)

	isTrie := o.IsTrie
	stateRoot := common.EmptyHash
	// cache 0: even in flat mode no undo log is opened for the genesis state
	storeState, err := state.New(stateRoot, state.NewKeyValueDBWithCache(stateDB, 0, isTrie, 0))
	if err != nil {
		return err
	}

	blockStore := bc.NewBlockStore(blockStoreDB)
	blockStore.SaveInitHeight(types.BlockHeightZero)
	defaultParams := genDoc.ConsensusParams
	if defaultParams == nil {
		defaultParams = types.DefaultConsensusParams()
	}

	for straddr, account := range genDoc.AllocAccounts {
		addr := common.HexToAddress(straddr)
		storeState.AddBalance(addr, account.Balance)
		storeState.SetNonce(addr, account.Nonce)
	}
	for _, a := range o.Alloc {
		for token, amount := range a.Tokens {
			storeState.AddTokenBalance(a.Addr, token, amount)
		}
	}

	header := &types.Header{
		ChainID:    genDoc.ChainID, // init.go: config.ChainID, which is also what it writes into the genesis file
		Height:     types.BlockHeightZero,
		Coinbase:   common.HexToAddress("0x0000000000000000000000000000000000000000"),
		Time:       o.GenesisTime,
		NumTxs:     0,
		TotalTxs:   0,
		ParentHash: common.EmptyHash,
		StateHash:  common.EmptyHash,
		GasLimit:   defaultParams.BlockSize.MaxGas,
	}
	types.SaveBalanceRecord = saveRecords

	stateHash := storeState.IntermediateRoot(false)

	trieRoot, err := storeState.Commit(false, header.Height)
	if err != nil {
		return err
	}

	storeState.Database().TrieDB().Commit(trieRoot, false) // flat mode: returns "unimplemented", ignored as in init.go
	txsResult := types.TxsResult{TrieRoot: trieRoot, StateHash: stateHash}

	header.StateHash = stateHash

	block := &types.Block{
		Header:     header,
		Data:       &types.Data{},
		LastCommit: &types.Commit{},
	}

	blockStore.SaveBlock(block, block.MakePartSet(defaultParams.BlockGossip.BlockPartSizeBytes), nil, nil, &txsResult)

	types.BlockBalanceRecordsInstance.SetBlockTime(block.Time())
	types.BlockBalanceRecordsInstance.SetBlockHash(block.Hash())
	balanceRecordStore.Save(block.Height, types.BlockBalanceRecordsInstance)
	types.BlockBalanceRecordsInstance.Reset()

	// createConsensusStatus: cs.CreateStatusFromGenesisDoc = MakeGenesisStatus + SaveStatus
	status, err := cs.MakeGenesisStatus(genDoc)
	if err != nil {
		return err
	}
	status.LastBlockTime = o.GenesisTime
	cs.SaveStatus(dbs["consensus_state"], status)
	return nil
}
