package minichain

import (
	"bytes"
	"fmt"
	"math/big"
	"sort"

	cfg "github.com/lianxiangcloud/linkchain/config"
	"github.com/lianxiangcloud/linkchain/libs/common"
	"github.com/lianxiangcloud/linkchain/libs/crypto"
	"github.com/lianxiangcloud/linkchain/libs/ser"
	"github.com/lianxiangcloud/linkchain/libs/trie"
	"github.com/lianxiangcloud/linkchain/state"
	"github.com/lianxiangcloud/linkchain/types"
)

// AccountDump is one account as persisted by the last committed block.
type AccountDump struct {
	Address     common.Address
	Known       bool        // false: the fixture could not attribute an address (Address is zero; see Unattributed)
	AddrHash    common.Hash // keccak256(Address): the key of the account in both storage modes
	Nonce       uint64
	Balance     *big.Int
	Tokens      map[common.Address]*big.Int // non-nil; zero entries are kept as the state keeps them
	StorageRoot common.Hash                 // storage trie root (trie mode) / hash of the last storage update set (flat mode)
	CodeHash    []byte
	Code        []byte
	Storage     map[common.Hash][]byte // keccak256(slot) -> stored value, identical key space in both modes
}

// Track adds addresses to the address universe of the chain (needed in flat mode, where account keys are
// hashes: AllAccounts can only name accounts whose address it has seen). Automatically tracked: genesis
// accounts, the fee collector (config.ContractFoundationAddr), validator coinbases, and for every committed
// block the senders, recipients, account outputs of confidential transactions and created contracts.
// NOT seen by the fixture: addresses that only contract code touches (SELFDESTRUCT beneficiaries, TRANSFERTOKEN
// targets, inner CREATEs) - Track them, or look at Unattributed().
func (c *Chain) Track(addrs ...common.Address) {
	if c.replica != nil {
		c.replica.Track(addrs...) // the attached replica shares the universe
	}
	for _, a := range addrs {
		h := crypto.Keccak256Hash(a[:])
		if _, ok := c.known[h]; !ok {
			c.known[h] = a
			c.knownList = append(c.knownList, a)
		}
	}
}

// Universe returns the tracked addresses in the order they were first seen.
func (c *Chain) Universe() []common.Address { return append([]common.Address{}, c.knownList...) }

func (c *Chain) adoptUniverse(o *Chain) {
	for _, a := range o.knownList {
		c.Track(a)
	}
}

func (c *Chain) trackBlock(b *types.Block) {
	c.Track(b.Coinbase())
	for _, tx := range b.Data.Txs {
		if from, err := tx.From(); err == nil {
			c.Track(from)
		}
		if to := tx.To(); to != nil {
			c.Track(*to)
		}
		if u, ok := tx.(*types.UTXOTransaction); ok {
			c.Track(u.ToAddrs()...)
		}
	}
	if rs := c.blockStore.GetReceipts(b.Height); rs != nil {
		for _, r := range *rs {
			if r != nil && r.ContractAddress != common.EmptyAddress {
				c.Track(r.ContractAddress)
			}
		}
	}
	c.Track(cfg.ContractFoundationAddr)
}

func decodeAccount(val []byte) (state.Account, error) {
	var a state.Account
	err := ser.DecodeBytes(val, &a)
	if err == nil && a.Balance == nil {
		a.Balance = new(big.Int)
	}
	return a, err
}

func dumpOf(addrHash common.Hash, a state.Account) AccountDump {
	d := AccountDump{AddrHash: addrHash, Nonce: a.Nonce, Balance: a.Balance, Tokens: a.Tokens, StorageRoot: a.Root, CodeHash: a.CodeHash,
		Storage: map[common.Hash][]byte{}}
	if d.Tokens == nil {
		d.Tokens = map[common.Address]*big.Int{}
	}
	return d
}

var emptyCodeHash = crypto.Keccak256(nil)

// keccakSlack hashes a copy of v that sits in a roomier allocation. x/crypto/sha3 at the repository's pinned version
// views its input through a *[21]uint64; under -race (checkptr) that aborts the process ("converted pointer straddles
// multiple allocations") when an input of >= 136 bytes ends less than 168 bytes before the end of its allocation.
func keccakSlack(v []byte) []byte {
	buf := make([]byte, len(v), len(v)+256)
	copy(buf, v)
	return crypto.Keccak256(buf)
}

// accounts reads every persisted account. Trie mode: walk of the account trie at the committed root (and of
// every storage trie). Flat mode: scan of the state database, where an account lives under keccak256(address)
// (32-byte key), code under its hash (32-byte key, recognised by keccak256(value) == key) and a storage slot
// under keccak256(address) ++ keccak256(slot) (64-byte key).
func (c *Chain) accounts() (known map[common.Address]AccountDump, unknown []AccountDump) {
	known = map[common.Address]AccountDump{}
	if c.opts.IsTrie {
		st := c.app.GetLatestStateDB() // a copy of the committed state
		tr, err := st.Database().OpenTrie(c.StateRoot())
		if err != nil {
			panic(fmt.Sprintf("minichain: open account trie: %v", err))
		}
		it := trie.NewIterator(tr.NodeIterator(nil))
		for it.Next() {
			if len(it.Key) != common.HashLength {
				continue
			}
			h := common.BytesToHash(it.Key)
			acc, err := decodeAccount(it.Value)
			if err != nil {
				panic(fmt.Sprintf("minichain: account %x does not decode: %v", it.Key, err))
			}
			d := dumpOf(h, acc)
			if pre := tr.GetKey(it.Key); len(pre) == common.AddressLength {
				d.Address, d.Known = common.BytesToAddress(pre), true
			} else if a, ok := c.known[h]; ok {
				d.Address, d.Known = a, true
			}
			if !bytes.Equal(acc.CodeHash, emptyCodeHash) && len(acc.CodeHash) > 0 {
				d.Code, _ = st.Database().ContractCode(h, common.BytesToHash(acc.CodeHash))
			}
			if acc.Root != (common.Hash{}) && acc.Root != crypto.Keccak256Hash(nil) {
				if stTrie, err := st.Database().OpenStorageTrie(h, acc.Root); err == nil {
					sit := trie.NewIterator(stTrie.NodeIterator(nil))
					for sit.Next() {
						d.Storage[common.BytesToHash(sit.Key)] = append([]byte{}, sit.Value...)
					}
				}
			}
			if d.Known {
				known[d.Address] = d
				c.Track(d.Address)
			} else {
				unknown = append(unknown, d)
			}
		}
		return known, unknown
	}
	db := c.dbs["state"]
	byHash := map[common.Hash]*AccountDump{}
	var order []common.Hash
	type slot struct {
		acc, key common.Hash
		val      []byte
	}
	var slots []slot
	it := db.Iterator(nil, nil)
	for ; it.Valid(); it.Next() {
		k, v := it.Key(), it.Value()
		switch len(k) {
		case common.HashLength:
			if bytes.Equal(keccakSlack(v), k) {
				continue // contract code stored under its hash
			}
			acc, err := decodeAccount(v)
			if err != nil {
				continue // neither code nor an account: not written by the state package
			}
			h := common.BytesToHash(k)
			d := dumpOf(h, acc)
			if a, ok := c.known[h]; ok {
				d.Address, d.Known = a, true
			}
			if !bytes.Equal(acc.CodeHash, emptyCodeHash) && len(acc.CodeHash) > 0 {
				d.Code = append([]byte{}, db.Get(acc.CodeHash)...)
			}
			byHash[h] = &d
			order = append(order, h)
		case 2 * common.HashLength:
			slots = append(slots, slot{common.BytesToHash(k[:32]), common.BytesToHash(k[32:]), append([]byte{}, v...)})
		}
	}
	it.Close()
	for _, s := range slots {
		if d := byHash[s.acc]; d != nil {
			d.Storage[s.key] = s.val
		}
	}
	for _, h := range order {
		d := *byHash[h]
		if d.Known {
			known[d.Address] = d
		} else {
			unknown = append(unknown, d)
		}
	}
	sort.Slice(unknown, func(i, j int) bool { return bytes.Compare(unknown[i].AddrHash[:], unknown[j].AddrHash[:]) < 0 })
	return known, unknown
}

// AllAccounts dumps every account of the committed state whose address is known: in trie mode that is every
// account (the trie database keeps the preimages of its keys); in flat mode every account whose address is
// in the universe (see Track). Accounts that exist in the state but could not be named are returned by
// Unattributed(), so that sums over "all accounts" stay complete in both modes.
func (c *Chain) AllAccounts() map[common.Address]AccountDump {
	k, _ := c.accounts()
	return k
}

// Unattributed returns the persisted accounts whose address the fixture does not know (flat mode; in trie
// mode only if a preimage is missing), sorted by AddrHash.
func (c *Chain) Unattributed() []AccountDump {
	_, u := c.accounts()
	return u
}

// Supply sums, per token (the zero address = native coin), the balances of ALL persisted accounts, named or not.
func (c *Chain) Supply() map[common.Address]*big.Int {
	k, u := c.accounts()
	sum := map[common.Address]*big.Int{common.EmptyAddress: new(big.Int)}
	add := func(d AccountDump) {
		sum[common.EmptyAddress].Add(sum[common.EmptyAddress], d.Balance)
		for t, v := range d.Tokens {
			if t == common.EmptyAddress {
				continue // never written by the state package (token zero IS Balance); defensive
			}
			if sum[t] == nil {
				sum[t] = new(big.Int)
			}
			sum[t].Add(sum[t], v)
		}
	}
	for _, d := range k {
		add(d)
	}
	for _, d := range u {
		add(d)
	}
	return sum
}
