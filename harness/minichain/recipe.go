package minichain

import (
	"crypto/sha256"
	"encoding/hex"
	"fmt"
	"io/ioutil"
	"os"
	"path/filepath"
	"strings"

	"verif/kv"

	"github.com/lianxiangcloud/linkchain/app"
	bc "github.com/lianxiangcloud/linkchain/blockchain"
	cs "github.com/lianxiangcloud/linkchain/consensus"
	"github.com/lianxiangcloud/linkchain/evidence"
	"github.com/lianxiangcloud/linkchain/libs/common"
	dbm "github.com/lianxiangcloud/linkchain/libs/db"
	"github.com/lianxiangcloud/linkchain/libs/log"
	"github.com/lianxiangcloud/linkchain/libs/txmgr"
	mempl "github.com/lianxiangcloud/linkchain/mempool"
	"github.com/lianxiangcloud/linkchain/types"
	"github.com/lianxiangcloud/linkchain/utxo"
)

// The start-up recipe below mirrors the span of /repo/node/node.go (func NewNode) that starts at the line
// RecipeSpanStart and ends just before the line RecipeSpanEnd. RecipeSpanSHA256 is the SHA-256 of that span
// at the revision the mirror was written against.
const (
	RecipeSpanStart  = "\t// Get BlockStore\n"
	RecipeSpanEnd    = "\t//mempool.InitWAL()"
	RecipeSpanSHA256 = "a627cde179edb2637b7834fa719df1000848134317b32c92834cb7c8bc6995cf"
)

// RecipeAssumption is the sentence a harness adds to its evidence when RecipeFingerprintOK() is false.
const RecipeAssumption = "restart recipe (node/node.go NewNode) changed since minichain's mirror of it was written"

func repoRoot() string {
	if r := os.Getenv("VERIF_REPO"); r != "" {
		return r
	}
	return "/repo"
}

// RecipeFingerprint hashes the mirrored span of the CURRENT node/node.go.
func RecipeFingerprint() (string, error) {
	bz, err := ioutil.ReadFile(filepath.Join(repoRoot(), "node", "node.go"))
	if err != nil {
		return "", err
	}
	s := string(bz)
	a := strings.Index(s, RecipeSpanStart)
	b := strings.Index(s, RecipeSpanEnd)
	if a < 0 || b < 0 || b < a {
		return "", fmt.Errorf("minichain: span markers not found in node/node.go")
	}
	h := sha256.Sum256([]byte(s[a:b]))
	return hex.EncodeToString(h[:]), nil
}

// RecipeFingerprintOK reports whether node/node.go still contains the span the recipe mirrors.
func RecipeFingerprintOK() bool {
	h, err := RecipeFingerprint()
	return err == nil && h == RecipeSpanSHA256
}

// boot mirrors node.NewNode from "Get BlockStore" to the creation of the mempool. Lines of NewNode that have no
// counterpart: boot-node lookup, accounts manager, roll-back option (config.BaseConfig.RollBack, off by
// default), p2p manager, sync manager, reactors, ConsensusState, RPC. Comments quote node.go.
func boot(o *Options, dbs map[string]dbm.DB, walDir string, ownWal bool) (c *Chain, err error) {
	defer func() {
		if r := recover(); r != nil {
			c, err = nil, fmt.Errorf("minichain: start-up panicked: %v", r)
		}
	}()
	logger := log.NewNopLogger()
	c = &Chain{opts: *o, fix: o.Fixture, dbs: dbs, walDir: walDir, ownWal: ownWal, known: map[common.Hash]common.Address{}}

	// Get BlockStore
	blockStoreDB := dbs["blockstore"]
	blockStore := bc.NewBlockStore(blockStoreDB)
	initHeight, err := blockStore.LoadInitHeight()
	if err != nil {
		return nil, err
	}
	types.UpdateBlockHeightZero(initHeight) // process-wide

	// Get Balance Records Store
	balanceRecordStoreDB := dbs["balance_record"]
	saveRecords := !o.NoBalanceRecords
	balanceRecord := bc.NewBalanceRecordStore(balanceRecordStoreDB, saveRecords)
	types.SaveBalanceRecord = saveRecords // process-wide

	// Get TxService
	txDB := dbs["txmgr"]
	txService := txmgr.NewCrossState(txDB, blockStore)
	txService.SetLogger(logger)
	blockStore.SetCrossState(txService)

	// Init Prometheus Metrics: process-wide singleton, initialised once by package csnet's init()

	// Get Consensus Status
	statusDB := dbs["consensus_state"]
	status, err := cs.LoadStatus(statusDB)
	if err != nil {
		return nil, err
	}

	// Create Account state DB
	newDB := dirDB{dbs["state"], walDir}

	// Create Evidence DB
	evidenceDB := dbs["evidence"]

	// Make EventBus
	eventBus := types.NewEventBus()
	eventBus.SetLogger(logger)

	// Make Evidence Reactor (the pool only)
	evidenceStore := evidence.NewEvidenceStore(evidenceDB)
	evidencePool := evidence.NewEvidencePool(statusDB, evidenceStore, status.Copy())
	evidencePool.SetLogger(logger)

	// blacklist use evidence db
	types.BlacklistInstance.Init(evidenceDB) // process-wide

	// Create Utxo DB
	utxoStore := utxo.NewUtxoStore(dbs["utxo"], dbs["utxo_output"], dbs["utxo_output_token"])
	utxoStore.SetLogger(logger)

	//create app
	isTrie := o.IsTrie
	// node.go passes app.SetPoceeds, app.AllocAward (calls into the foundation contract). Here: a no-op proceeds
	// handler (the fee credit to config.ContractFoundationAddr in processBlock still happens) and no award handler
	// (processBlock skips the award when the handler is nil; it would also skip it because there are no candidates).
	appHandle, err := app.NewLinkApplication(newDB, blockStore, utxoStore, txService, eventBus, isTrie, balanceRecord, noPoceeds, nil)
	if err != nil {
		return nil, err
	}
	appHandle.SetLogger(logger)

	// make block executor for update consensus status
	blockExec := cs.NewBlockExecutor(statusDB, logger, evidencePool)

	// Check consensus status with application storage, rebuild status if not consist
	appHeight := appHandle.Height()
	if status.LastBlockHeight+1 == appHeight {
		blockMeta := appHandle.LoadBlockMeta(appHeight)
		block := appHandle.LoadBlock(appHeight)
		if blockMeta == nil || block == nil {
			return nil, types.ErrUnknownBlock
		}
		validators := appHandle.GetValidators(appHeight)
		if o.ValidatorsAt != nil { // fixture seam, see Options.ValidatorsAt (no counterpart in node.go)
			if v := o.ValidatorsAt(appHeight); v != nil {
				validators = v
			}
		}
		newStatus, err := blockExec.ApplyBlock(status, blockMeta.BlockID, block, validators)
		if err != nil {
			return nil, err
		}
		status = newStatus.Copy()
		c.RebuiltStatus = true
	}

	// Make MempoolReactor (the pool only)
	mcfg := *o.Mempool
	if o.MempoolCache == "light" || o.MempoolCache == "none" {
		mcfg.CacheSize = 0 // NewMempool installs nopTxCache and starts no cache goroutines
	} else if mcfg.CacheSize <= 0 {
		mcfg.CacheSize = 1
	}
	mempool := mempl.NewMempool(&mcfg, status.LastBlockHeight, nil, mempl.WithMetrics(mempl.NopMetrics()))
	if o.MempoolCache == "light" {
		mempl.VerifMinichainLightCache(mempool)
	}
	mempool.SetLogger(logger)
	mempool.SetApp(appHandle)
	appHandle.SetMempool(mempool)
	// appHandle.SetConm(p2pmanager.GetConManager()): there is no p2p manager (see README, height 1321)

	// Node.OnStart: the event bus runs
	if err := eventBus.Start(); err != nil {
		return nil, err
	}

	// cs.NewConsensusState -> updateToStatus: the zero status' LastHeightValidatorsChanged (0) differs from any
	// real one (>= 1), so the application always learns the validator set at start-up
	appHandle.SetLastChangedVals(status.LastHeightValidatorsChanged, status.Validators.Copy().Validators)

	c.blockStore, c.balanceRecord, c.txService = blockStore, balanceRecord, txService
	c.statusDB, c.stateDB = statusDB, newDB
	c.evStore, c.evPool, c.utxoStore = evidenceStore, evidencePool, utxoStore
	c.app, c.blockExec, c.mempool, c.eventBus = appHandle, blockExec, mempool, eventBus
	c.status = status.Copy()
	return c, nil
}

// Restart stops this chain's goroutines and runs the start-up recipe again on the SAME database objects and
// WAL directory (a clean process restart: nothing was lost). The receiver must not be used afterwards; the
// returned chain owns the WAL directory. The attached replica (if any) moves to the new chain.
func (c *Chain) Restart() (*Chain, error) {
	c.stop()
	n, err := boot(&c.opts, c.dbs, c.walDir, c.ownWal)
	if err != nil {
		return nil, err
	}
	c.ownWal = false
	n.adoptUniverse(c)
	n.replica, c.replica = c.replica, nil
	return n, nil
}

// RestartOn runs the start-up recipe on databases and a WAL directory handed in by the harness (the surviving
// bytes of a crash state). dbs must contain every name of DBNames. walDir must exist; in flat mode the
// recipe opens (creates) walDir/kvState.wal. The new chain does not own walDir (Close leaves it alone);
// the receiver is not touched and stays usable as the crash-free reference.
func (c *Chain) RestartOn(dbs map[string]dbm.DB, walDir string) (*Chain, error) {
	for _, n := range DBNames {
		if dbs[n] == nil {
			return nil, fmt.Errorf("minichain: RestartOn: database %q missing", n)
		}
	}
	m := map[string]dbm.DB{}
	for k, v := range dbs {
		m[k] = v
	}
	n, err := boot(&c.opts, m, walDir, false)
	if err != nil {
		return nil, err
	}
	n.adoptUniverse(c)
	return n, nil
}

// NewWalDir creates a fresh per-instance directory (for RestartOn). The caller removes it.
func NewWalDir(root string) (string, error) {
	if root == "" {
		root = "/dev/shm"
	}
	return newWalDir(root)
}

// RestartOnCopies is RestartOn for the map kv.Recorder.Materialize returns.
func (c *Chain) RestartOnCopies(dbs map[string]*kv.CopyDB, walDir string) (*Chain, error) {
	m := map[string]dbm.DB{}
	for k, v := range dbs {
		m[k] = v
	}
	return c.RestartOn(m, walDir)
}

// WalBytes returns the current content of kvState.wal (nil if the file does not exist: trie mode).
func (c *Chain) WalBytes() []byte {
	bz, err := ioutil.ReadFile(c.WalPath())
	if err != nil {
		return nil
	}
	return bz
}

// PutWal writes content as dir/kvState.wal (a crash harness restoring a snapshot of the undo log before RestartOn).
// content == nil removes the file.
func PutWal(dir string, content []byte) error {
	p := filepath.Join(dir, WalFileName)
	if content == nil {
		err := os.Remove(p)
		if os.IsNotExist(err) {
			return nil
		}
		return err
	}
	return ioutil.WriteFile(p, content, 0600)
}
