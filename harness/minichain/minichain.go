// Package minichain: one real linkchain node core (application, stores, mempool, block executor) without
// consensus rounds, p2p and RPC, driven synchronously by a harness. See README.md in this directory.
//
// Everything that executes is the repository's code: app.LinkApplication, blockchain.BlockStore,
// utxo.UtxoStore, txmgr.Service, blockchain.BalanceRecordStore, state.StateDB on
// state.NewKeyValueDBWithCache (trie mode and flat key/value mode), mempool.Mempool,
// consensus.BlockExecutor + the consensus status database, evidence.EvidencePool. The fixture only plays the
// roles of `linkchain init` (genesis.go), of node.NewNode (recipe.go) and of ConsensusState's
// createProposalBlock / finalizeCommit (this file), mirroring them call by call.
package minichain

import (
	"bytes"
	"errors"
	"fmt"
	"io/ioutil"
	"math/big"
	"os"
	"path/filepath"
	"sync"
	"sync/atomic"
	"time"

	"verif/csnet"
	"verif/kv"

	"github.com/lianxiangcloud/linkchain/app"
	bc "github.com/lianxiangcloud/linkchain/blockchain"
	cfg "github.com/lianxiangcloud/linkchain/config"
	cs "github.com/lianxiangcloud/linkchain/consensus"
	"github.com/lianxiangcloud/linkchain/evidence"
	"github.com/lianxiangcloud/linkchain/libs/common"
	"github.com/lianxiangcloud/linkchain/libs/crypto"
	lktypes "github.com/lianxiangcloud/linkchain/libs/cryptonote/types"
	dbm "github.com/lianxiangcloud/linkchain/libs/db"
	"github.com/lianxiangcloud/linkchain/libs/log"
	"github.com/lianxiangcloud/linkchain/libs/ser"
	"github.com/lianxiangcloud/linkchain/libs/txmgr"
	mempl "github.com/lianxiangcloud/linkchain/mempool"
	"github.com/lianxiangcloud/linkchain/types"
	"github.com/lianxiangcloud/linkchain/utxo"
	"github.com/lianxiangcloud/linkchain/vm/wasm"
)

// DBNames lists every database of a Chain, in the order node.NewNode opens them.
// ("p2p" is the only database of a node that the fixture does not have.)
var DBNames = []string{"blockstore", "balance_record", "txmgr", "consensus_state", "state", "evidence", "utxo", "utxo_output", "utxo_output_token"}

// WalFileName is the name of the flat-state undo log inside Chain.WalDir() (state/keyvalue.go `walFile`).
const WalFileName = "kvState.wal"

// DefaultGenesisTime is the genesis block time that `linkchain init` writes today (cmd/commands/init.go:
// 1507737600, replaced by 1569409200 when the wall clock is past that date). The fixture never reads the clock.
const DefaultGenesisTime uint64 = 1569409200

// Alloc is one genesis account. Tokens is an extension over init.go (which can only allocate the native
// coin): it lets token transfers be exercised on chains where no issuing contract has run yet.
type Alloc struct {
	Addr    common.Address
	Balance *big.Int
	Nonce   uint64
	Tokens  map[common.Address]*big.Int
}

// Options of a Chain. The zero value is usable (flat key/value state, 4 equal validators, no accounts).
type Options struct {
	// IsTrie selects the storage mode of the account state (config.FullNode): true = Merkle-Patricia tries,
	// false = flat key/value state with the kvState.wal undo log.
	IsTrie bool
	// Fixture provides the validator keys and the genesis validator set. Default: 4 validators of power 10.
	Fixture *csnet.Fixture
	// Alloc: genesis accounts.
	Alloc []Alloc
	// NewDB creates the database called name (one of DBNames). Default: kv.NewCopyDB(). An injected device
	// MUST copy keys and values when Set/batch.Set is called (every on-disk backend does; the repository
	// re-uses global scratch buffers for some keys and values, e.g. state.hBytes).
	NewDB func(name string) dbm.DB
	// Mempool configuration. Default: DefaultMempoolConfig(). Broadcast is forced off (there is no p2p).
	Mempool *cfg.MempoolConfig
	// MempoolCache: "light" (default; the real cache type without its unstoppable expiry goroutines and its
	// 100000-entry pre-allocations, see hooks/mempool/minichain_hooks.go), "real" (exactly NewMempool's
	// cache: ~20 MB and 4 leaked goroutines per Chain), "none" (config.CacheSize = 0: nopTxCache).
	MempoolCache string
	// NoBalanceRecords turns the per-block transfer journal (database "balance_record") off. NOTE: the
	// switch the repository reads while executing, types.SaveBalanceRecord, is process-wide.
	NoBalanceRecords bool
	// WalRoot: directory under which the per-instance directory minichain-<pid>-<n> is created. Default /dev/shm.
	WalRoot string
	// WalDir, if set, is used as the instance directory as it is (created if missing, never removed by Close):
	// for harnesses that must know the path of kvState.wal before New returns (e.g. to snapshot the file from
	// inside an injected database device). Two live chains must not share it.
	WalDir string
	// GenesisTime: time of block 0; block h gets GenesisTime + h. Default DefaultGenesisTime.
	GenesisTime uint64
	// ValidatorsAt, if set, stands in for the candidate/white-list contracts: a non-nil result for height h replaces the
	// validator list that app.CommitBlock (in Commit) AND app.GetValidators(h) (in the start-up recipe's "rebuild status"
	// path) hand to BlockExecutor.ApplyBlock for block h. Being a pure function of the height it gives the same answer
	// before and after a restart, as the contracts would; InjectValidators does not survive one. It takes precedence over
	// InjectValidators. Replica, Restart and RestartOn inherit it. Default nil: the application's own (empty) list.
	ValidatorsAt func(height uint64) []*types.Validator
}

// DefaultMempoolConfig is config.DefaultMempoolConfig() with broadcasting off, a small broadcast queue and no
// wall-clock expiry of queued special transactions.
func DefaultMempoolConfig() *cfg.MempoolConfig {
	m := cfg.DefaultMempoolConfig()
	m.Broadcast = false
	m.BroadcastChanSize = 1
	m.Lifetime = 1000 * time.Hour // wall-clock life time of queued special transactions (60 s in the repository)
	return m
}

// Chain is one node core.
type Chain struct {
	opts   Options
	fix    *csnet.Fixture
	dbs    map[string]dbm.DB // as handed out by NewDB (unwrapped)
	walDir string
	ownWal bool
	closed bool

	blockStore    *bc.BlockStore
	balanceRecord *bc.BalanceRecordStore
	txService     *txmgr.Service
	statusDB      dbm.DB
	stateDB       dbm.DB // dbs["state"] wrapped so that Dir() is walDir
	evStore       *evidence.EvidenceStore
	evPool        *evidence.EvidencePool
	utxoStore     *utxo.UtxoStore
	app           *app.LinkApplication
	blockExec     *cs.BlockExecutor
	mempool       *mempl.Mempool
	eventBus      *types.EventBus
	status        cs.NewStatus

	// RebuiltStatus is true when the start-up recipe took the "rebuild status" path (block store one ahead
	// of the consensus status).
	RebuiltStatus bool

	lastCommit *types.Commit // commit for block status.LastBlockHeight (goes into the next block)
	replica    *Chain
	injectVals []*types.Validator
	known      map[common.Hash]common.Address // keccak(address) -> address: the address universe
	knownList  []common.Address
}

var instanceCounter uint64

// dirDB gives a database a directory: state.NewKeyValueDBWithCache opens filepath.Join(db.Dir(), "kvState.wal").
type dirDB struct {
	dbm.DB
	dir string
}

func (d dirDB) Dir() string { return d.dir }

func init() {
	// types/tx.go's init() points the root logger at stdout; trace logging costs more than the execution.
	log.Root().SetHandler(log.DiscardHandler())
	// The fixture owns time: the mempool drops a good transaction that has waited for GoodTxDropTime (60 s) of WALL
	// CLOCK time when the next block is committed. A harness paused in a debugger or starved on a loaded machine
	// would see different pools from run to run. Both are package variables meant to be configured.
	mempl.GoodTxDropTime = 1000 * time.Hour
	mempl.GoodTxRebroadcastTime = 1000 * time.Hour
}

// noPoceeds is the PoceedHandle of a chain without the foundation contract: it does nothing and succeeds.
// With a NON-nil handle app.processBlock credits gasUsed*ParGasPrice to config.ContractFoundationAddr
// before calling it (with a nil handle the fees would simply vanish from the state).
func noPoceeds(w *wasm.WASM, coinbase common.Address, amount *big.Int, logger log.Logger) error {
	return nil
}

func (o *Options) fill() {
	if o.Fixture == nil {
		o.Fixture = csnet.NewFixture([]int64{10, 10, 10, 10})
	}
	if o.NewDB == nil {
		o.NewDB = func(string) dbm.DB { return kv.NewCopyDB() }
	}
	if o.Mempool == nil {
		o.Mempool = DefaultMempoolConfig()
	} else {
		m := *o.Mempool
		m.Broadcast = false
		o.Mempool = &m
	}
	if o.MempoolCache == "" {
		o.MempoolCache = "light"
	}
	if o.WalRoot == "" {
		o.WalRoot = "/dev/shm"
	}
	if o.GenesisTime == 0 {
		o.GenesisTime = DefaultGenesisTime
	}
}

var sweepOnce sync.Once

// SweepStale removes the instance directories (minichain-<pid>-<n>) under root that belong to processes which no
// longer exist (a harness that exits through os.Exit or a kill cannot run Close). New does it once per process.
func SweepStale(root string) {
	ents, err := ioutil.ReadDir(root)
	if err != nil {
		return
	}
	for _, e := range ents {
		var pid, n int
		if !e.IsDir() {
			continue
		}
		if k, _ := fmt.Sscanf(e.Name(), "minichain-%d-%d", &pid, &n); k != 2 || pid == os.Getpid() {
			continue
		}
		if _, err := os.Stat(fmt.Sprintf("/proc/%d", pid)); os.IsNotExist(err) {
			os.RemoveAll(filepath.Join(root, e.Name()))
		}
	}
}

func newWalDir(root string) (string, error) {
	sweepOnce.Do(func() { SweepStale(root) })
	n := atomic.AddUint64(&instanceCounter, 1)
	dir := filepath.Join(root, fmt.Sprintf("minichain-%d-%d", os.Getpid(), n))
	if err := os.MkdirAll(dir, 0700); err != nil {
		return "", err
	}
	return dir, nil
}

// New creates the databases, writes genesis (genesis.go) and starts the node core (recipe.go).
func New(opts Options) (c *Chain, err error) {
	opts.fill()
	switch opts.MempoolCache {
	case "light", "real", "none":
	default:
		return nil, fmt.Errorf("minichain: unknown MempoolCache %q", opts.MempoolCache)
	}
	dbs := map[string]dbm.DB{}
	for _, n := range DBNames {
		dbs[n] = opts.NewDB(n)
	}
	dir, own := opts.WalDir, false
	if dir == "" {
		if dir, err = newWalDir(opts.WalRoot); err != nil {
			return nil, err
		}
		own = true
	} else if err = os.MkdirAll(dir, 0700); err != nil {
		return nil, err
	}
	cleanup := func() {
		if own {
			os.RemoveAll(dir)
		}
	}
	defer func() {
		if r := recover(); r != nil {
			cleanup()
			c, err = nil, fmt.Errorf("minichain.New: panic: %v", r)
		}
	}()
	if err = writeGenesis(&opts, dbs, dir); err != nil {
		cleanup()
		return nil, err
	}
	c, err = boot(&opts, dbs, dir, own)
	if err != nil {
		cleanup()
		return nil, err
	}
	c.Track(cfg.ContractFoundationAddr)
	for _, a := range opts.Alloc {
		c.Track(a.Addr)
	}
	for _, v := range c.fix.Vals {
		c.Track(v.CoinBase)
	}
	return c, nil
}

// Options returns the (defaulted) options the chain was built with.
func (c *Chain) Options() Options { return c.opts }

// Fixture returns the validator fixture.
func (c *Chain) Fixture() *csnet.Fixture { return c.fix }

// DB returns the database called name exactly as Options.NewDB returned it.
func (c *Chain) DB(name string) dbm.DB { return c.dbs[name] }

// DBs returns all databases by name.
func (c *Chain) DBs() map[string]dbm.DB {
	m := map[string]dbm.DB{}
	for k, v := range c.dbs {
		m[k] = v
	}
	return m
}

// WalDir is the per-instance directory that holds kvState.wal (flat mode; empty file or absent in trie mode).
func (c *Chain) WalDir() string { return c.walDir }

// WalPath is filepath.Join(WalDir(), WalFileName).
func (c *Chain) WalPath() string { return filepath.Join(c.walDir, WalFileName) }

func (c *Chain) stop() {
	if c.closed {
		return
	}
	c.closed = true
	if c.mempool != nil {
		c.mempool.Stop()
	}
	if c.eventBus != nil && c.eventBus.IsRunning() {
		c.eventBus.Stop()
	}
}

// Close stops the goroutines of the chain (mempool loop, event bus) and removes the WAL directory if the
// chain owns it. The attached replica, if any, is closed too. Databases are left to the garbage collector.
func (c *Chain) Close() {
	if c.replica != nil {
		c.replica.Close()
		c.replica = nil
	}
	c.stop()
	if c.ownWal {
		os.RemoveAll(c.walDir)
		c.ownWal = false
	}
}

// ---------------------------------------------------------------------------------------------------
// proposer side: ConsensusState.createProposalBlock

// BlockOpts are the degrees of freedom a proposer has.
type BlockOpts struct {
	// Time of the block; 0 = GenesisTime + height.
	Time uint64
	// Evidence added before the mandatory FaultValidatorsEvidence (what evpool.PendingEvidence() would return
	// is added in any case).
	Evidence []types.Evidence
	// LastCommit overrides the commit for the previous block (default: the commit the fixture validators
	// signed when the previous block was committed, all validators, round 0).
	LastCommit *types.Commit
	// SkipPreRun leaves StateHash/ReceiptHash/GasUsed as CreateBlock set them (= the previous block's values)
	// instead of calling PreRunBlock: a proposal that an honest proposer would never send.
	SkipPreRun bool
}

// reapStub stands in for the mempool while CreateBlock runs on an explicit transaction list, so that the
// block is assembled by the application's own CreateBlock and not by a copy of it.
type reapStub struct {
	types.Mempool
	txs types.Txs
}

func (r reapStub) Reap(int) types.Txs { return r.txs }

// ErrPreRun is returned by MakeBlock when app.PreRunBlock panicked ("processBlock fail, should not happen"):
// the transaction list is not executable on the current state.
var ErrPreRun = errors.New("minichain: PreRunBlock panicked")

func (c *Chain) blockTime(height uint64) uint64 { return c.opts.GenesisTime + height }

// lastCommitFor returns the commit that goes into block height.
func (c *Chain) lastCommitFor(height uint64) *types.Commit {
	if height == types.BlockHeightOne {
		return &types.Commit{} // "The commit is empty, but not nil."
	}
	if c.lastCommit != nil {
		return c.lastCommit
	}
	// after a restart: what ConsensusState.reconstructLastCommit uses
	return c.blockStore.LoadSeenCommit(height - 1)
}

// Propose mirrors ConsensusState.createProposalBlock for the validator whose turn it is (round 0):
// app.CreateBlock, the consensus-side header fields, app.PreRunBlock. txs == nil && fromPool: the mempool is
// reaped (at most maxTxs; <= 0 means ConsensusParams.BlockSize.MaxTxs).
func (c *Chain) Propose(txs types.Txs, fromPool bool, maxTxs int, o BlockOpts) (block *types.Block, parts *types.PartSet, err error) {
	st := c.status
	height := st.LastBlockHeight + 1
	commit := o.LastCommit
	if commit == nil {
		commit = c.lastCommitFor(height)
	}
	if commit == nil {
		return nil, nil, fmt.Errorf("minichain: no commit for block %d", height-1)
	}
	if maxTxs <= 0 {
		maxTxs = st.ConsensusParams.BlockSize.MaxTxs
	}
	tm := o.Time
	if tm == 0 {
		tm = c.blockTime(height)
	}
	coinbase := st.Validators.GetProposer().CoinBase
	if fromPool {
		block = c.app.CreateBlock(height, maxTxs, st.ConsensusParams.BlockSize.MaxGas, tm)
	} else {
		if txs == nil {
			txs = types.Txs{}
		}
		c.app.SetMempool(reapStub{c.mempool, txs})
		block = c.app.CreateBlock(height, maxTxs, st.ConsensusParams.BlockSize.MaxGas, tm)
		c.app.SetMempool(c.mempool)
	}
	if block == nil {
		return nil, nil, fmt.Errorf("minichain: CreateBlock(%d) returned nil (application height %d)", height, c.app.Height())
	}
	block.Header.Coinbase = coinbase
	block.AddEvidence(c.evPool.PendingEvidence())
	block.AddEvidence(o.Evidence)
	if evi := c.lastFaultValsInfo(commit); evi != nil {
		block.AddEvidence([]types.Evidence{evi})
	}
	block.Recover = 0
	block.ChainID = st.ChainID
	block.LastCommit = commit
	block.LastBlockID = st.LastBlockID
	block.LastCommitHash = block.LastCommit.Hash()
	block.EvidenceHash = block.Evidence.Hash()
	block.ConsensusHash = common.BytesToHash(st.ConsensusParams.Hash())
	block.ValidatorsHash = common.BytesToHash(st.Validators.Hash())
	if !o.SkipPreRun {
		if perr := catch(func() { c.app.PreRunBlock(block) }); perr != nil {
			return block, nil, fmt.Errorf("%w: %v", ErrPreRun, perr)
		}
	}
	parts = block.MakePartSet(st.ConsensusParams.BlockGossip.BlockPartSizeBytes)
	// The object createProposalBlock returns is only used for its part set: the proposer sends the parts to itself
	// and works, like every other validator, on the block DECODED from them (addProposalBlockPart). That matters:
	// processBlock logs block.Hash() before PreRunBlock fills in StateHash/ReceiptHash/GasUsed, and Block.Hash()
	// caches, so the object built here carries a stale hash.
	block, err = BlockFromParts(parts, st.ConsensusParams.BlockSize.MaxBytes)
	if err != nil {
		return nil, nil, err
	}
	return block, parts, nil
}

// BlockFromParts decodes a block from a complete part set exactly as ConsensusState.addProposalBlockPart does.
func BlockFromParts(parts *types.PartSet, maxBytes int) (*types.Block, error) {
	if !parts.IsComplete() {
		return nil, fmt.Errorf("minichain: part set incomplete")
	}
	var b *types.Block
	if _, err := ser.DecodeReader(parts.GetReader(), &b, int64(maxBytes)); err != nil {
		return nil, fmt.Errorf("minichain: decode block from parts: %v", err)
	}
	return b, nil
}

// CopyParts rebuilds a part set part by part from its header, as a peer that received the parts does (every part's
// Merkle proof is verified by AddPart).
func CopyParts(parts *types.PartSet) (*types.PartSet, error) {
	ps := types.NewPartSetFromHeader(parts.Header())
	for i := 0; i < parts.Total(); i++ {
		p := parts.GetPart(i)
		cp := &types.Part{Index: p.Index, Bytes: append([]byte{}, p.Bytes...), Proof: p.Proof}
		if _, err := ps.AddPart(cp); err != nil {
			return nil, err
		}
	}
	return ps, nil
}

// lastFaultValsInfo mirrors ConsensusState.getLastFaultValsInfo.
func (c *Chain) lastFaultValsInfo(lastCommit *types.Commit) types.Evidence {
	st := c.status
	height := st.LastBlockHeight + 1
	if height > types.BlockHeightOne && !st.LastRecover {
		fp := lastCommit.FirstPrecommit()
		if fp == nil {
			return nil
		}
		lastRound := fp.Round
		fvi := &types.FaultValidatorsEvidence{BlockHeight: height - 1, Round: lastRound}
		if lastRound == 0 {
			fvi.FaultVal = nil
			fvi.Proposer = st.LastValidators.GetProposer().PubKey
		} else {
			fvi.FaultVal = st.LastValidators.GetProposer().PubKey
			valset := st.LastValidators.Copy()
			valset.IncrementAccum(lastRound)
			fvi.Proposer = valset.GetProposer().PubKey
		}
		return fvi
	}
	return nil
}

// MakeBlock builds the next block from an explicit transaction list (in that order).
func (c *Chain) MakeBlock(txs types.Txs) (*types.Block, *types.PartSet, error) {
	return c.Propose(txs, false, 0, BlockOpts{})
}

// MakeBlockFromMempool builds the next block from Mempool().Reap(maxTxs) (maxTxs <= 0: the consensus parameter).
func (c *Chain) MakeBlockFromMempool(maxTxs int) (*types.Block, *types.PartSet, error) {
	return c.Propose(nil, true, maxTxs, BlockOpts{})
}

// ---------------------------------------------------------------------------------------------------
// validator side

// CheckBlock is app.CheckBlock (what defaultDoPrevote and finalizeCommit call). It caches the execution
// result under the block hash; CommitBlock refuses a block that was never checked.
func (c *Chain) CheckBlock(b *types.Block) bool { return c.app.CheckBlock(b) }

// CloneBlock returns the block as a peer would receive it: encoded and decoded again (no shared sender
// caches, no cached hashes).
func CloneBlock(b *types.Block) *types.Block {
	bz, err := ser.EncodeToBytes(b)
	if err != nil {
		panic(fmt.Sprintf("minichain: encode block: %v", err))
	}
	nb := new(types.Block)
	if err := ser.DecodeBytes(bz, nb); err != nil {
		panic(fmt.Sprintf("minichain: decode block: %v", err))
	}
	return nb
}

// BlockID of a block and its part set.
func BlockID(b *types.Block, ps *types.PartSet) types.BlockID {
	return types.BlockID{Hash: b.Hash(), PartsHeader: ps.Header()}
}

func (c *Chain) keyFor(addr []byte) (crypto.PrivKeyEd25519, bool) {
	for _, k := range c.fix.Keys {
		if bytes.Equal(k.PubKey().Address(), addr) {
			return k, true
		}
	}
	return crypto.PrivKeyEd25519{}, false
}

// SignCommit returns precommits for id at (height, round) by every validator of vals whose key the fixture
// holds (nil entries for the others), in validator-set order, with the fixed vote time of csnet.
func (c *Chain) SignCommit(vals *types.ValidatorSet, id types.BlockID, height uint64, round int) *types.Commit {
	commit := &types.Commit{BlockID: id, Precommits: make([]*types.Vote, vals.Size())}
	for i, v := range vals.Validators {
		k, ok := c.keyFor(v.Address)
		if !ok {
			continue
		}
		vote := &types.Vote{ValidatorAddress: v.Address, ValidatorIndex: i, ValidatorSize: vals.Size(), Height: height, Round: round,
			Timestamp: voteTime, Type: types.VoteTypePrecommit, BlockID: id}
		sig, err := k.Sign(vote.SignBytes(c.status.ChainID))
		if err != nil {
			panic(err)
		}
		vote.Signature = sig
		commit.Precommits[i] = vote
	}
	return commit
}

// Errors of Commit.
var (
	ErrCheckBlock      = errors.New("minichain: CheckBlock rejected the block (+2/3 committed an invalid block)")
	ErrReplicaRejected = errors.New("minichain: the replica's CheckBlock rejected the proposer's block")
)

// InjectValidators makes the next Commit hand vals to BlockExecutor.ApplyBlock instead of the list
// app.CommitBlock returned (the candidate/white-list contracts that normally produce it are not deployed).
func (c *Chain) InjectValidators(vals []*types.Validator) { c.injectVals = vals }

// Commit makes the calls of ConsensusState.finalizeCommit, in its order: app.CheckBlock, app.CommitBlock(block,
// parts, seenCommit, false), [the consensus WAL's EndHeightMessage is not modelled], BlockExecutor.ApplyBlock,
// and updateToStatus' SetLastChangedVals. The seen commit is signed by all fixture validators at round 0.
func (c *Chain) Commit(b *types.Block, parts *types.PartSet) error {
	return c.commit(b, parts, nil, false)
}

// CommitWithSeen is Commit with a caller-built seen commit (e.g. another round, fewer signers).
func (c *Chain) CommitWithSeen(b *types.Block, parts *types.PartSet, seen *types.Commit) error {
	return c.commit(b, parts, seen, false)
}

// CommitFastSync makes the calls of BlockchainReactor.poolRoutine for one block: the part set is rebuilt
// from the block, VerifyCommit(nextLastCommit), app.CheckBlock, app.CommitBlock(block, parts, nextLastCommit,
// true), BlockExecutor.ApplyBlock, SetLastChangedVals. nextLastCommit is the LastCommit of the FOLLOWING block
// (nil: signed by the fixture). The `fastsync` flag is ignored by app.CommitBlock at the pinned revision.
func (c *Chain) CommitFastSync(b *types.Block, nextLastCommit *types.Commit) error {
	parts := b.MakePartSet(c.status.ConsensusParams.BlockPartSizeBytes)
	id := BlockID(b, parts)
	if nextLastCommit == nil {
		nextLastCommit = c.SignCommit(c.status.Validators, id, b.Height, 0)
	}
	if err := c.status.Validators.VerifyCommit(c.status.ChainID, id, b.Height, nextLastCommit); err != nil {
		return fmt.Errorf("minichain: fast sync VerifyCommit: %v", err)
	}
	return c.commit(b, parts, nextLastCommit, true)
}

func (c *Chain) commit(b *types.Block, parts *types.PartSet, seen *types.Commit, fastsync bool) (err error) {
	defer func() {
		if r := recover(); r != nil {
			err = fmt.Errorf("minichain: panic during commit: %v", r)
		}
	}()
	id := BlockID(b, parts)
	if !c.app.CheckBlock(b) {
		return ErrCheckBlock
	}
	if seen == nil {
		seen = c.SignCommit(c.status.Validators, id, b.Height, 0)
	}
	var validators []*types.Validator
	if c.app.Height() < b.Height {
		validators, err = c.app.CommitBlock(b, parts, seen, fastsync)
		if err != nil {
			return fmt.Errorf("minichain: CommitBlock: %v", err)
		}
	} else {
		validators = c.app.GetValidators(b.Height)
	}
	if c.injectVals != nil {
		validators, c.injectVals = c.injectVals, nil
	}
	if c.opts.ValidatorsAt != nil {
		if v := c.opts.ValidatorsAt(b.Height); v != nil {
			validators = v
		}
	}
	old := c.status
	newStatus, err := c.blockExec.ApplyBlock(c.status.Copy(), id, b, validators)
	if err != nil {
		return fmt.Errorf("minichain: ApplyBlock: %v", err)
	}
	if old.LastHeightValidatorsChanged != newStatus.LastHeightValidatorsChanged {
		c.app.SetLastChangedVals(newStatus.LastHeightValidatorsChanged, newStatus.Validators.Copy().Validators)
	}
	c.status = newStatus
	c.lastCommit = seen
	c.trackBlock(b)
	return nil
}

// Attach makes r the replica that Step checks every block against and keeps in step. r must be at the same height.
func (c *Chain) Attach(r *Chain) {
	c.replica = r
	if r != nil {
		r.adoptUniverse(c)
	}
}

// Attached returns the attached replica or nil.
func (c *Chain) Attached() *Chain { return c.replica }

// Step = MakeBlock(txs) -> CheckBlock on the attached replica (if any) of the block decoded from a copy of the
// proposer's parts -> Commit -> Commit on the replica. The block returned is the proposer's.
func (c *Chain) Step(txs types.Txs) (*types.Block, error) {
	b, parts, err := c.MakeBlock(txs)
	if err != nil {
		return b, err
	}
	return b, c.finishStep(b, parts)
}

// StepFromMempool is Step with the transactions reaped from the mempool.
func (c *Chain) StepFromMempool(maxTxs int) (*types.Block, error) {
	b, parts, err := c.MakeBlockFromMempool(maxTxs)
	if err != nil {
		return b, err
	}
	return b, c.finishStep(b, parts)
}

func (c *Chain) finishStep(b *types.Block, parts *types.PartSet) error {
	var rb *types.Block
	var rparts *types.PartSet
	if c.replica != nil {
		// the replica receives the proposer's parts and decodes its own block object from them
		var err error
		if rparts, err = CopyParts(parts); err != nil {
			return err
		}
		if rb, err = BlockFromParts(rparts, c.status.ConsensusParams.BlockSize.MaxBytes); err != nil {
			return err
		}
		if !c.replica.CheckBlock(rb) {
			return ErrReplicaRejected
		}
	}
	if err := c.Commit(b, parts); err != nil {
		return err
	}
	if c.replica != nil {
		if err := c.replica.Commit(rb, rparts); err != nil {
			return fmt.Errorf("replica: %v", err)
		}
	}
	return nil
}

// Replica builds an independent chain with the same options and genesis (own databases, own WAL directory)
// and brings it to the same height by executing wire copies of this chain's blocks (CheckBlock + Commit with
// the seen commits of this chain). It is NOT attached.
//
// The replica's databases are plain kv.NewCopyDB()s, NOT Options.NewDB: a factory that hands out named devices (a
// kv.Recorder returns the SAME device for the same name) would make the replica write into this chain's databases.
// Use ReplicaOn to choose the devices.
func (c *Chain) Replica() (*Chain, error) { return c.ReplicaOn(nil) }

// ReplicaOn is Replica with the replica's databases created by newDB (nil: kv.NewCopyDB()).
func (c *Chain) ReplicaOn(newDB func(name string) dbm.DB) (*Chain, error) {
	o := c.opts
	o.NewDB = newDB
	o.WalDir = "" // never share the undo log
	r, err := New(o)
	if err != nil {
		return nil, err
	}
	for h := uint64(1); h <= c.Height(); h++ {
		parts, err := c.LoadParts(h)
		if err != nil {
			r.Close()
			return nil, err
		}
		b, err := BlockFromParts(parts, r.status.ConsensusParams.BlockSize.MaxBytes)
		if err != nil {
			r.Close()
			return nil, err
		}
		if err := r.CommitWithSeen(b, parts, c.blockStore.LoadSeenCommit(h)); err != nil {
			r.Close()
			return nil, fmt.Errorf("minichain: replica replay of block %d: %v", h, err)
		}
	}
	for _, a := range c.knownList {
		r.Track(a)
	}
	return r, nil
}

// ---------------------------------------------------------------------------------------------------
// observers

func (c *Chain) App() *app.LinkApplication              { return c.app }
func (c *Chain) Mempool() *mempl.Mempool                { return c.mempool }
func (c *Chain) BlockStore() *bc.BlockStore             { return c.blockStore }
func (c *Chain) UtxoStore() *utxo.UtxoStore             { return c.utxoStore }
func (c *Chain) TxService() *txmgr.Service              { return c.txService }
func (c *Chain) BalanceRecords() *bc.BalanceRecordStore { return c.balanceRecord }
func (c *Chain) BlockExecutor() *cs.BlockExecutor       { return c.blockExec }
func (c *Chain) EvidencePool() *evidence.EvidencePool   { return c.evPool }
func (c *Chain) EventBus() *types.EventBus              { return c.eventBus }
func (c *Chain) Status() cs.NewStatus                   { return c.status }
func (c *Chain) ChainID() string                        { return c.status.ChainID }
func (c *Chain) IsTrie() bool                           { return c.opts.IsTrie }

// Height of the block store (= application height).
func (c *Chain) Height() uint64 { return c.blockStore.Height() }

// LoadParts returns the stored part set of block h (the proposer's bytes).
func (c *Chain) LoadParts(h uint64) (*types.PartSet, error) {
	meta := c.blockStore.LoadBlockMeta(h)
	if meta == nil {
		return nil, fmt.Errorf("minichain: block %d missing", h)
	}
	ps := types.NewPartSetFromHeader(meta.BlockID.PartsHeader)
	for i := 0; i < meta.BlockID.PartsHeader.Total; i++ {
		p := c.blockStore.LoadBlockPart(h, i)
		if p == nil {
			return nil, fmt.Errorf("minichain: part %d of block %d missing", i, h)
		}
		if _, err := ps.AddPart(p); err != nil {
			return nil, err
		}
	}
	return ps, nil
}

// LoadBlock returns block h from the block store (nil if absent).
func (c *Chain) LoadBlock(h uint64) *types.Block { return c.blockStore.LoadBlock(h) }

// TxsResult returns the persisted execution result of block h.
func (c *Chain) TxsResult(h uint64) (*types.TxsResult, error) { return c.blockStore.LoadTxsResult(h) }

// TxsResultHash returns the StateHash stored for block h (zero if absent).
func (c *Chain) TxsResultHash(h uint64) common.Hash {
	r, err := c.blockStore.LoadTxsResult(h)
	if err != nil || r == nil {
		return common.Hash{}
	}
	return r.StateHash
}

// LastTxsResult is the in-memory result of the last committed block, including the fields that are not
// persisted (UTXOOutputs(), KeyImages(), SpecialTxs()).
func (c *Chain) LastTxsResult() types.TxsResult { return c.app.VerifLastTxsResult() }

// Receipts of block h (nil if absent).
func (c *Chain) Receipts(h uint64) types.Receipts {
	r := c.blockStore.GetReceipts(h)
	if r == nil {
		return nil
	}
	return *r
}

// StateHash is the state hash of the last committed block (TxsResult.StateHash; it goes into the NEXT
// block's parent fields and is what replicas must agree on). In both storage modes it is the hash of the
// sorted update set of the block, not a root of the whole state (state/keyvalue.go wrappedTrie.Hash).
func (c *Chain) StateHash() common.Hash { return c.app.VerifLastTxsResult().StateHash }

// StateRoot is TxsResult.TrieRoot of the last committed block: the account trie root in trie mode, the zero
// hash in flat mode.
func (c *Chain) StateRoot() common.Hash { return c.app.VerifLastTxsResult().TrieRoot }

// ReceiptHash of the last committed block.
func (c *Chain) ReceiptHash() common.Hash { return c.app.VerifLastTxsResult().ReceiptHash }

// Balance, TokenBalance, Nonce, Code read the committed state (not the mempool's check state).
func (c *Chain) Balance(a common.Address) *big.Int {
	return new(big.Int).Set(c.app.VerifStoreState().GetBalance(a))
}
func (c *Chain) TokenBalance(a, token common.Address) *big.Int {
	return new(big.Int).Set(c.app.VerifStoreState().GetTokenBalance(a, token))
}
func (c *Chain) Nonce(a common.Address) uint64 { return c.app.VerifStoreState().GetNonce(a) }
func (c *Chain) Code(a common.Address) []byte  { return c.app.VerifStoreState().GetCode(a) }

// PendingNonce / PendingBalance read the state the mempool checks against (app.checkTxState).
func (c *Chain) PendingNonce(a common.Address) uint64 { return c.app.GetNonce(a) }
func (c *Chain) PendingBalance(a common.Address) *big.Int {
	return new(big.Int).Set(c.app.GetBalance(a))
}

// KeyImageSpent asks the UTXO store.
func (c *Chain) KeyImageSpent(ki lktypes.Key) bool { return c.utxoStore.HaveTxKeyimgAsSpent(&ki) }

// MaxUtxoOutputSeq is the highest global output index of the native coin (-1: none yet).
func (c *Chain) MaxUtxoOutputSeq() int64 { return c.utxoStore.GetMaxUtxoOutputSeq(common.EmptyAddress) }

// MaxUtxoOutputSeqOf is the highest global output index of token (-1: none yet).
func (c *Chain) MaxUtxoOutputSeqOf(token common.Address) int64 {
	return c.utxoStore.GetMaxUtxoOutputSeq(token)
}

func catch(f func()) (err error) {
	defer func() {
		if r := recover(); r != nil {
			err = fmt.Errorf("%v", r)
		}
	}()
	f()
	return nil
}
