// Package schedx: preemption-bounded exhaustive exploration of goroutine interleavings of instrumented repo
// code (engine E2): vsched runs the threads cooperatively, vk.ExploreDeviations enumerates every schedule with at
// most `bound` preemptions (switching away from a thread that could continue costs 1; switching when the running
// thread blocks, finishes or polls costs 0).
package schedx

import (
	"fmt"
	"time"

	"verif/vk"

	"github.com/lianxiangcloud/linkchain/libs/vsched"
)

// Thread is one harness thread.
type Thread struct {
	Name string
	Body func()
}

// Outcome of one schedule.
type Outcome struct {
	Trace    []int
	Deadlock bool
	Stuck    string
	Panics   []string
}

// Explore runs setup() (fresh instance, returns the threads and a function evaluated after all threads finished)
// under every schedule with <= bound preemptions. after receives the outcome; it returns a violation key+text or "".
func Explore(r *vk.Run, name string, bound int, setup func() (threads []Thread, after func(o Outcome) (string, string))) vk.DevStats {
	return r.ExploreDeviations(bound, func(c *vk.Chooser) {
		threads, after := setup()
		s := vsched.New(func(ids []int, preempt bool) int {
			costs := make([]int, len(ids))
			if preempt {
				for i := 1; i < len(costs); i++ {
					costs[i] = 1
				}
			}
			return c.Choose(costs)
		})
		for _, t := range threads {
			s.Go(t.Name, t.Body)
		}
		s.Run(20 * time.Second)
		o := Outcome{Trace: s.Trace, Deadlock: s.Deadlock, Stuck: s.Stuck}
		for _, t := range s.Threads() {
			if t.Panic != nil {
				o.Panics = append(o.Panics, fmt.Sprintf("%s: %v", t.Name, t.Panic))
			}
		}
		if s.Stuck != "" && !s.Deadlock && len(s.Stuck) > 0 && s.Stuck[:4] != "live" {
			vk.Fatalf("%s: %s (schedule %v)", name, s.Stuck, s.Trace)
		}
		if k, w := after(o); k != "" {
			r.Violation(k, w, map[string]interface{}{"scenario": name, "schedule_thread_ids": s.Trace, "choices": append([]int{}, c.Choices...)})
		}
	})
}
