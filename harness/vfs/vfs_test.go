package vfs

import (
	"io/ioutil"
	"os"
	"sort"
	"testing"

	cmn "github.com/lianxiangcloud/linkchain/libs/common"
)

// run with: cd /verif/harness && go test -tags verif -overlay <overlay> -vet=off ./vfs

func atomicWrite(t *testing.T, dir string, flag int, data string) {
	t.Helper()
	f, err := cmn.VerifOpenFile(dir+"/tmp1", flag, 0600)
	if err != nil {
		t.Fatal(err)
	}
	if _, err := f.Write([]byte(data)); err != nil {
		t.Fatal(err)
	}
	if err := f.Close(); err != nil {
		t.Fatal(err)
	}
	if err := f.Close(); err == nil {
		t.Fatal("second close must fail")
	}
	if err := cmn.VerifRename(dir+"/tmp1", dir+"/dst"); err != nil {
		t.Fatal(err)
	}
	if err := cmn.VerifRemove(dir + "/tmp1"); !os.IsNotExist(err) {
		t.Fatalf("remove of renamed temp: %v", err)
	}
}

func dstStates(fs *FS, dir string, powerLoss bool) []string {
	set := map[string]bool{}
	for _, cp := range fs.CrashPoints(powerLoss) {
		st := fs.Materialize(cp)
		b, ok := st.Content(dir + "/dst")
		if !ok {
			set["<absent>"] = true
		} else {
			set[string(b)] = true
		}
	}
	var out []string
	for s := range set {
		out = append(out, s)
	}
	sort.Strings(out)
	return out
}

func eq(a, b []string) bool {
	if len(a) != len(b) {
		return false
	}
	for i := range a {
		if a[i] != b[i] {
			return false
		}
	}
	return true
}

func TestAtomicReplaceSynced(t *testing.T) {
	dir := cmn.VerifVFSRoot + "t1"
	fs := NewWith(map[string][]byte{dir + "/dst": []byte("OLD")})
	Mount("t1", fs)
	defer Unmount("t1")
	atomicWrite(t, dir, os.O_WRONLY|os.O_CREATE|os.O_SYNC|os.O_TRUNC, "NEWNEW")
	log := fs.Log()
	if len(log) != 6 {
		t.Fatalf("want 6 logged ops (open write close close rename remove), got %d: %v", len(log), log)
	}
	if !log[0].OSync || !log[0].Created || !log[1].OSync || log[3].Err == "" || log[5].Err == "" {
		t.Fatalf("log fields wrong: %v", log)
	}
	for _, pl := range []bool{false, true} {
		if got := dstStates(fs, dir, pl); !eq(got, []string{"NEWNEW", "OLD"}) {
			t.Fatalf("powerLoss=%v: dst states %q, want exactly OLD and NEWNEW", pl, got)
		}
	}
	// 7 prefixes + 1 torn write
	if n := len(fs.CrashPoints(false)); n != 8 {
		t.Fatalf("process-crash points: %d", n)
	}
	if n := len(fs.CrashPoints(true)); n != 8 {
		t.Fatalf("power-loss points on fully synced log: %d", n)
	}
	// the temp file is torn at the torn point
	st := fs.Materialize(CrashPoint{Prefix: 1, Torn: 3})
	if b, _ := st.Content(dir + "/tmp1"); string(b) != "NEW" {
		t.Fatalf("torn temp = %q", b)
	}
	// reading through the redirect from a materialised state
	Mount("t1", st)
	if b, err := cmn.VerifReadFile(dir + "/dst"); err != nil || string(b) != "OLD" {
		t.Fatalf("read after crash: %q %v", b, err)
	}
}

func TestAtomicReplaceUnsynced(t *testing.T) {
	dir := cmn.VerifVFSRoot + "t2"
	fs := NewWith(map[string][]byte{dir + "/dst": []byte("OLD")})
	Mount("t2", fs)
	defer Unmount("t2")
	atomicWrite(t, dir, os.O_WRONLY|os.O_CREATE|os.O_TRUNC, "NEWNEW")
	if got := dstStates(fs, dir, false); !eq(got, []string{"NEWNEW", "OLD"}) {
		t.Fatalf("process crash: %q", got)
	}
	// power loss: the renamed file may have lost all or half of its unsynced data
	if got := dstStates(fs, dir, true); !eq(got, []string{"", "NEW", "NEWNEW", "OLD"}) {
		t.Fatalf("power loss: %q", got)
	}
}

func TestSyncMakesDurable(t *testing.T) {
	dir := cmn.VerifVFSRoot + "t3"
	fs := New()
	Mount("t3", fs)
	defer Unmount("t3")
	f, _ := cmn.VerifOpenFile(dir+"/a", os.O_RDWR|os.O_CREATE, 0644)
	f.Write([]byte("11"))
	f.Write([]byte("22"))
	f.Sync()
	f.Write([]byte("33"))
	set := map[string]bool{}
	for _, cp := range fs.CrashPoints(true) {
		if cp.Prefix < fs.LogLen() {
			continue
		}
		b, _ := fs.Materialize(cp).Content(dir + "/a")
		set[string(b)] = true
	}
	if len(set) != 3 || !set["1122"] || !set["11223"] || !set["112233"] {
		t.Fatalf("states after the last op: %v", set)
	}
}

func TestBasics(t *testing.T) {
	dir := cmn.VerifVFSRoot + "t4"
	fs := New()
	Mount("t4", fs)
	defer Unmount("t4")
	if _, err := cmn.VerifOpenFile(dir+"/sub/x", os.O_WRONLY|os.O_CREATE, 0600); !os.IsNotExist(err) {
		t.Fatalf("create in missing dir: %v", err)
	}
	if err := cmn.VerifMkdirAll(dir+"/sub/deep", 0755); err != nil {
		t.Fatal(err)
	}
	if err := cmn.VerifWriteFile(dir+"/sub/x", []byte("hello"), 0600); err != nil {
		t.Fatal(err)
	}
	if fi, err := cmn.VerifStat(dir + "/sub/x"); err != nil || fi.Size() != 5 || fi.IsDir() {
		t.Fatalf("stat: %v %v", fi, err)
	}
	if fi, err := cmn.VerifStat(dir + "/sub"); err != nil || !fi.IsDir() {
		t.Fatalf("stat dir: %v %v", fi, err)
	}
	f, err := cmn.VerifOpenFile(dir+"/sub/x", os.O_RDWR|os.O_APPEND, 0)
	if err != nil {
		t.Fatal(err)
	}
	f.WriteString(" world")
	f.Seek(0, 0)
	b, _ := ioutil.ReadAll(f)
	if string(b) != "hello world" {
		t.Fatalf("read back %q", b)
	}
	f.Truncate(4)
	f.Close()
	if _, err := f.Write([]byte("x")); err == nil {
		t.Fatal("write after close must fail")
	}
	if b, _ := cmn.VerifReadFile(dir + "/sub/x"); string(b) != "hell" {
		t.Fatalf("after truncate %q", b)
	}
	if _, err := cmn.VerifOpenFile(dir+"/sub/x", os.O_WRONLY|os.O_CREATE|os.O_EXCL, 0600); !os.IsExist(err) {
		t.Fatalf("O_EXCL on existing: %v", err)
	}
	tf, err := cmn.VerifTempFile(dir+"/sub", "t-*.tmp")
	if err != nil || tf.Name() != dir+"/sub/t-000000001.tmp" {
		t.Fatalf("tempfile %v %v", tf, err)
	}
	if err := cmn.VerifRemove(dir + "/sub"); err == nil {
		t.Fatal("rmdir of non-empty dir must fail")
	}
	if err := cmn.VerifRename(dir+"/sub", dir+"/moved"); err != nil {
		t.Fatal(err)
	}
	if b, err := cmn.VerifReadFile(dir + "/moved/x"); err != nil || string(b) != "hell" {
		t.Fatalf("after dir rename %q %v", b, err)
	}
	// the full log replays to the live state
	st := fs.Materialize(CrashPoint{Prefix: fs.LogLen(), Torn: -1})
	live, got := fs.Files(), st.Files()
	if len(live) != len(got) {
		t.Fatalf("replay differs: %v vs %v", live, got)
	}
	for p, d := range live {
		if string(got[p]) != string(d) {
			t.Fatalf("replay differs at %s", p)
		}
	}
	// unmounted shim paths never reach the disk
	if _, err := cmn.VerifReadFile(cmn.VerifVFSRoot + "nosuchmount/x"); !os.IsNotExist(err) {
		t.Fatalf("unmounted: %v", err)
	}
	// pass-through
	tmp, err := cmn.VerifTempFile("", "C04-vfs-test-")
	if err != nil {
		t.Fatal(err)
	}
	defer os.Remove(tmp.Name())
	tmp.Write([]byte("real"))
	tmp.Close()
	if b, err := cmn.VerifReadFile(tmp.Name()); err != nil || string(b) != "real" {
		t.Fatalf("pass-through read: %q %v", b, err)
	}
	if _, err := cmn.VerifOpenFile("/nonexistent-dir-C04/x", os.O_RDONLY, 0); !os.IsNotExist(err) {
		t.Fatalf("pass-through error: %v", err)
	}
}
