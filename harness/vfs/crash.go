package vfs

import (
	"fmt"
	"os"
	"sort"
)

// Cut says how much of the unsynced data of one inode survives a power loss: the first Keep pending writes
// completely and, if Torn >= 0, the first Torn bytes of the next one.
type Cut struct {
	Ino  int
	Keep int
	Torn int
}

// CrashPoint identifies one state a crash can leave behind.
type CrashPoint struct {
	Prefix int   // operations [0, Prefix) of the log completed
	Torn   int   // -1, or: operation Prefix is a write of which only the first Torn bytes were applied
	Cuts   []Cut // power loss only: inodes whose unsynced data is (partly) lost; nil = everything written survives
}

// PowerLoss reports whether the crash point needs the power-loss model (some written data is lost).
func (cp CrashPoint) PowerLoss() bool { return len(cp.Cuts) > 0 }

func (cp CrashPoint) String() string {
	s := fmt.Sprintf("prefix=%d", cp.Prefix)
	if cp.Torn >= 0 {
		s += fmt.Sprintf(",torn=%d", cp.Torn)
	}
	for _, c := range cp.Cuts {
		s += fmt.Sprintf(",cut(ino%d:keep%d", c.Ino, c.Keep)
		if c.Torn >= 0 {
			s += fmt.Sprintf("+%dB", c.Torn)
		}
		s += ")"
	}
	return s
}

type pendWrite struct {
	off  int64
	data []byte
}

type rIno struct {
	view    []byte      // what the process sees
	durable []byte      // what is on stable storage for sure
	pend    []pendWrite // unsynced writes, in order: view = durable + pend
	mode    os.FileMode
}

type rState struct {
	files   map[string]int
	inos    map[int]*rIno
	dirs    map[string]bool
	nextIno int
}

func (fs *FS) baseState() *rState {
	st := &rState{files: map[string]int{}, inos: map[int]*rIno{}, dirs: map[string]bool{}, nextIno: fs.base.nextIno}
	for p, id := range fs.base.files {
		st.files[p] = id
	}
	for id, si := range fs.base.inodes {
		d := append([]byte(nil), si.data...)
		st.inos[id] = &rIno{view: d, durable: append([]byte(nil), d...), mode: si.mode}
	}
	for d := range fs.base.dirs {
		st.dirs[d] = true
	}
	return st
}

func (in *rIno) flush() {
	in.durable = append([]byte(nil), in.view...)
	in.pend = nil
}

// apply replays one successful operation; torn >= 0 applies only that many bytes of a write.
func (st *rState) apply(op *Op, torn int) {
	if op.Err != "" {
		return
	}
	switch op.Kind {
	case OpOpen:
		if op.Created {
			st.inos[op.Ino] = &rIno{mode: op.Perm & os.ModePerm}
			st.files[op.Path] = op.Ino
			if op.Ino >= st.nextIno {
				st.nextIno = op.Ino + 1
			}
		}
		if op.Truncated {
			in := st.inos[op.Ino]
			in.view = nil
			in.flush()
		}
	case OpWrite:
		in := st.inos[op.Ino]
		data := op.Data
		if torn >= 0 && torn < len(data) {
			data = data[:torn]
		}
		in.view = writeAt(in.view, op.Off, data)
		if op.OSync {
			in.flush()
		} else {
			in.pend = append(in.pend, pendWrite{op.Off, data})
		}
	case OpSync:
		st.inos[op.Ino].flush()
	case OpTruncate:
		in := st.inos[op.Ino]
		in.view = resize(in.view, op.Size)
		in.flush()
	case OpChmod:
		if in := st.inos[op.Ino]; in != nil {
			in.mode = op.Perm & os.ModePerm
		}
	case OpRename:
		if st.dirs[op.Path] {
			for _, f := range subtree(op.Path, func(yield func(string)) {
				for f := range st.files {
					yield(f)
				}
			}) {
				st.files[op.Path2+f[len(op.Path):]] = st.files[f]
				delete(st.files, f)
			}
			moveDirs(st.dirs, op.Path, op.Path2)
			return
		}
		if op.Path != op.Path2 {
			st.files[op.Path2] = st.files[op.Path]
			delete(st.files, op.Path)
		}
	case OpRemove:
		if _, ok := st.files[op.Path]; ok {
			delete(st.files, op.Path)
		} else {
			delete(st.dirs, op.Path)
		}
	case OpMkdir:
		mkdirAllIn(st.dirs, op.Path)
	}
}

func (fs *FS) replay(prefix, torn int) *rState {
	st := fs.baseState()
	for i := 0; i < prefix && i < len(fs.log); i++ {
		st.apply(&fs.log[i], -1)
	}
	if torn >= 0 && prefix < len(fs.log) && fs.log[prefix].Kind == OpWrite {
		st.apply(&fs.log[prefix], torn)
	}
	return st
}

// linked returns the inodes that still have a name, in id order.
func (st *rState) linked() []int {
	seen := map[int]bool{}
	var ids []int
	for _, id := range st.files {
		if !seen[id] {
			seen[id] = true
			ids = append(ids, id)
		}
	}
	sort.Ints(ids)
	return ids
}

// TornSizes returns the byte counts tried for a torn write of n bytes besides "nothing" and "all"
// (which coincide with the neighbouring crash points): half of it.
func TornSizes(n int) []int {
	if n < 2 {
		return nil
	}
	return []int{n / 2}
}

// CrashPoints enumerates every crash state of the log, in log order: every prefix (0..len(log)), for a
// write in flight each torn size, and - with powerLoss - for each of those every combination of lost
// unsynced data (per inode: any prefix of its pending writes, the first lost one possibly torn).
// Without powerLoss this is the "process crash" tier; with it the result is a superset.
func (fs *FS) CrashPoints(powerLoss bool) []CrashPoint {
	fs.mu.Lock()
	defer fs.mu.Unlock()
	var out []CrashPoint
	add := func(prefix, torn int) {
		out = append(out, CrashPoint{Prefix: prefix, Torn: torn})
		if !powerLoss {
			return
		}
		st := fs.replay(prefix, torn)
		type choice struct{ keep, torn int }
		var inos []int
		var choices [][]choice
		for _, id := range st.linked() {
			in := st.inos[id]
			if len(in.pend) == 0 {
				continue
			}
			var cs []choice
			// most data kept first; the all-kept choice is the process-crash state
			cs = append(cs, choice{len(in.pend), -1})
			for j := len(in.pend) - 1; j >= 0; j-- {
				for _, t := range TornSizes(len(in.pend[j].data)) {
					cs = append(cs, choice{j, t})
				}
				cs = append(cs, choice{j, -1})
			}
			inos = append(inos, id)
			choices = append(choices, cs)
		}
		if len(inos) == 0 {
			return
		}
		idx := make([]int, len(inos))
		for {
			// next combination (odometer); skip the all-zero one (= nothing lost)
			k := 0
			for k < len(idx) {
				idx[k]++
				if idx[k] < len(choices[k]) {
					break
				}
				idx[k] = 0
				k++
			}
			if k == len(idx) {
				break
			}
			var cuts []Cut
			for i, id := range inos {
				c := choices[i][idx[i]]
				if c.keep == len(st.inos[id].pend) {
					continue
				}
				cuts = append(cuts, Cut{Ino: id, Keep: c.keep, Torn: c.torn})
			}
			out = append(out, CrashPoint{Prefix: prefix, Torn: torn, Cuts: cuts})
		}
	}
	for k := 0; k <= len(fs.log); k++ {
		add(k, -1)
		if k < len(fs.log) && fs.log[k].Kind == OpWrite && fs.log[k].Err == "" {
			for _, t := range TornSizes(len(fs.log[k].Data)) {
				add(k, t)
			}
		}
	}
	return out
}

// Materialize returns a NEW file system (empty log, not mounted) holding the state the crash point leaves
// on disk. Paths are the same as in fs, so mounting it under the same name makes it reachable under the
// same paths.
func (fs *FS) Materialize(cp CrashPoint) *FS {
	fs.mu.Lock()
	defer fs.mu.Unlock()
	st := fs.replay(cp.Prefix, cp.Torn)
	for _, c := range cp.Cuts {
		in := st.inos[c.Ino]
		if in == nil || c.Keep > len(in.pend) {
			panic(fmt.Sprintf("vfs: crash point %v does not fit the log", cp))
		}
		data := append([]byte(nil), in.durable...)
		for j := 0; j < c.Keep; j++ {
			data = writeAt(data, in.pend[j].off, in.pend[j].data)
		}
		if c.Torn >= 0 && c.Keep < len(in.pend) {
			p := in.pend[c.Keep]
			t := c.Torn
			if t > len(p.data) {
				t = len(p.data)
			}
			data = writeAt(data, p.off, p.data[:t])
		}
		in.view = data
	}
	n := &FS{files: map[string]*inode{}, dirs: map[string]bool{}, nextIno: st.nextIno, tempSeq: fs.tempSeq}
	byID := map[int]*inode{}
	for p, id := range st.files {
		in := byID[id]
		if in == nil {
			ri := st.inos[id]
			in = &inode{id: id, data: append([]byte(nil), ri.view...), mode: ri.mode}
			byID[id] = in
		}
		n.files[p] = in
	}
	for d := range st.dirs {
		n.dirs[d] = true
	}
	n.checkpointLocked()
	return n
}

// Boundary describes where a crash point lies: "end" (after the last operation), "before:<kind>" or
// "torn:<kind>" of the operation in flight.
func (fs *FS) Boundary(cp CrashPoint) string {
	fs.mu.Lock()
	defer fs.mu.Unlock()
	if cp.Prefix >= len(fs.log) {
		return "end"
	}
	if cp.Torn >= 0 {
		return "torn:" + fs.log[cp.Prefix].Kind.String()
	}
	return "before:" + fs.log[cp.Prefix].Kind.String()
}
