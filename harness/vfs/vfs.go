// Package vfs is the file-system half of engine E3 ("crashx"): an in-memory file system that repo code
// reaches through the redirect in libs/common (hook file /verif/hooks/libs/common/vfs_hook.go: every path
// under cmn.VerifVFSRoot+"<mount>/" routes to the FS mounted under <mount>), that logs every operation, and
// that can materialise the state a real disk could be left in by a crash at ANY point of the log.
//
// Crash model (stated in the evidence of every check that uses it):
//
//   - process crash: every completed operation survives; the operation in flight at the crash either did not
//     happen, happened completely, or - if it is a write - was applied up to a byte prefix (torn write);
//   - power loss (superset): additionally, data written through a handle that was not opened O_SYNC/O_DSYNC
//     and not yet fsync'ed may be lost from the end: of the unsynced writes of an inode any PREFIX (in write
//     order) survives, the first lost write possibly torn. Name-space operations (create, rename, remove,
//     mkdir) and truncations are atomic and durable when they return and do NOT flush file data (a file
//     renamed into place with unsynced data may come back short). A synchronous write, an fsync or a
//     truncation makes all earlier writes of that inode durable. Directory-entry durability without a
//     directory fsync is not modelled.
//
// Typical use:
//
//	fs := vfs.New(); dir := vfs.Mount("w3", fs); defer vfs.Unmount("w3")
//	... set up files through fs or through the repo code ...; fs.Checkpoint()
//	... run the real write path ...
//	for _, cp := range fs.CrashPoints(true) { st := fs.Materialize(cp); vfs.Mount("w3", st); ... real recovery ... }
package vfs

import (
	"fmt"
	"io"
	"os"
	"path/filepath"
	"sort"
	"strings"
	"sync"
	"syscall"
	"time"

	cmn "github.com/lianxiangcloud/linkchain/libs/common"
)

// Root is the path prefix that selects a mounted FS.
const Root = cmn.VerifVFSRoot

// Mount registers fs under name and returns its directory ("/.verif-vfs/<name>").
func Mount(name string, fs *FS) string { return cmn.VerifMount(name, fs) }

// Unmount removes a mount.
func Unmount(name string) { cmn.VerifUnmount(name) }

// OpKind is the kind of a logged operation.
type OpKind uint8

const (
	OpOpen     OpKind = iota + 1 // open(2): Created / Truncated say what it changed
	OpWrite                      // write(2) through a handle: Ino, Off, Data, OSync
	OpSync                       // fsync(2)
	OpClose                      // close(2)
	OpRename                     // rename(2) Path -> Path2
	OpRemove                     // unlink(2) / rmdir(2)
	OpTruncate                   // truncate(2) / ftruncate(2) to Size
	OpMkdir                      // mkdir -p
	OpChmod                      // chmod
	OpRead                       // read of a whole file or through a handle (no effect)
	OpStat                       // stat (no effect)
)

var opNames = map[OpKind]string{OpOpen: "open", OpWrite: "write", OpSync: "fsync", OpClose: "close", OpRename: "rename",
	OpRemove: "remove", OpTruncate: "truncate", OpMkdir: "mkdir", OpChmod: "chmod", OpRead: "read", OpStat: "stat"}

func (k OpKind) String() string { return opNames[k] }

// Op is one logged file-system operation. Operations that failed (Err != "") are logged too: they are
// boundaries of the execution but have no effect on the state.
type Op struct {
	Kind      OpKind
	Path      string
	Path2     string // rename target
	Ino       int    // inode the operation acted on (0: none)
	Flag      int    // open flags
	Perm      os.FileMode
	OSync     bool // the handle was opened O_SYNC / O_DSYNC: its writes are durable when they return
	Created   bool // open created the file
	Truncated bool // open truncated an existing file
	Off       int64
	Data      []byte // bytes written
	Size      int64  // truncate size / bytes read
	Err       string // non-empty: the operation failed and changed nothing
	Annot     int64  // value of FS.Annot() when the operation started (harness bookkeeping)
}

// Mutates reports whether the operation changed the file-system state.
func (o Op) Mutates() bool {
	if o.Err != "" {
		return false
	}
	switch o.Kind {
	case OpOpen:
		return o.Created || o.Truncated
	case OpWrite, OpRename, OpRemove, OpTruncate, OpMkdir, OpChmod, OpSync:
		return true
	}
	return false
}

func (o Op) String() string {
	s := o.Kind.String()
	switch o.Kind {
	case OpOpen:
		s += fmt.Sprintf("(%s,flag=%#x", o.Path, o.Flag)
		if o.OSync {
			s += ",O_SYNC"
		}
		if o.Created {
			s += ",created"
		}
		if o.Truncated {
			s += ",truncated"
		}
		s += ")"
	case OpWrite:
		s += fmt.Sprintf("(%s,off=%d,len=%d", o.Path, o.Off, len(o.Data))
		if o.OSync {
			s += ",O_SYNC"
		}
		s += ")"
	case OpRename:
		s += "(" + o.Path + " -> " + o.Path2 + ")"
	case OpTruncate:
		s += fmt.Sprintf("(%s,%d)", o.Path, o.Size)
	default:
		s += "(" + o.Path + ")"
	}
	if o.Err != "" {
		s += " = error: " + o.Err
	}
	return s
}

type inode struct {
	id   int
	data []byte
	mode os.FileMode
}

type snapIno struct {
	data []byte
	mode os.FileMode
}

type snapshot struct {
	files   map[string]int
	inodes  map[int]snapIno
	dirs    map[string]bool
	nextIno int
}

// FS is one in-memory file system with an operation log. All methods are safe for concurrent use; the
// log order is the order in which operations took the lock.
type FS struct {
	mu      sync.Mutex
	files   map[string]*inode
	dirs    map[string]bool
	nextIno int
	tempSeq int
	base    snapshot
	log     []Op

	// Annot, if set, is called at the start of every operation (outside the lock); its value is stored in
	// Op.Annot. Harnesses use it to tag operations with "which request" / "what was visible then".
	Annot func() int64
	// Fault, if set, is consulted before an operation takes effect (i = index the op will get in the log);
	// a non-nil error makes the operation fail with that error and without effect (I/O error injection).
	Fault func(i int, op *Op) error
}

// New returns an empty file system (no files, no directories besides the implicit mount directory).
func New() *FS {
	fs := &FS{files: map[string]*inode{}, dirs: map[string]bool{}, nextIno: 1}
	fs.Checkpoint()
	return fs
}

// NewWith returns a file system holding the given files (path -> content, mode 0600, parent directories
// created) as its durable base state.
func NewWith(files map[string][]byte) *FS {
	fs := &FS{files: map[string]*inode{}, dirs: map[string]bool{}, nextIno: 1}
	paths := make([]string, 0, len(files))
	for p := range files {
		paths = append(paths, p)
	}
	sort.Strings(paths)
	for _, p := range paths {
		p = clean(p)
		fs.mkdirAllLocked(filepath.Dir(p))
		fs.files[p] = &inode{id: fs.nextIno, data: append([]byte(nil), files[p]...), mode: 0600}
		fs.nextIno++
	}
	fs.Checkpoint()
	return fs
}

func clean(p string) string { return filepath.Clean(p) }

// Checkpoint declares the current state durable: it becomes the base of the log and the log is cleared.
func (fs *FS) Checkpoint() {
	fs.mu.Lock()
	defer fs.mu.Unlock()
	fs.checkpointLocked()
}

func (fs *FS) checkpointLocked() {
	b := snapshot{files: map[string]int{}, inodes: map[int]snapIno{}, dirs: map[string]bool{}, nextIno: fs.nextIno}
	for p, in := range fs.files {
		b.files[p] = in.id
		b.inodes[in.id] = snapIno{data: append([]byte(nil), in.data...), mode: in.mode}
	}
	for d := range fs.dirs {
		b.dirs[d] = true
	}
	fs.base = b
	fs.log = nil
}

// Log returns a copy of the operation log since the last checkpoint.
func (fs *FS) Log() []Op {
	fs.mu.Lock()
	defer fs.mu.Unlock()
	return append([]Op(nil), fs.log...)
}

// LogLen returns the number of logged operations.
func (fs *FS) LogLen() int {
	fs.mu.Lock()
	defer fs.mu.Unlock()
	return len(fs.log)
}

// Files returns the current content of every file (as the running process sees it).
func (fs *FS) Files() map[string][]byte {
	fs.mu.Lock()
	defer fs.mu.Unlock()
	out := map[string][]byte{}
	for p, in := range fs.files {
		out[p] = append([]byte(nil), in.data...)
	}
	return out
}

// Content returns the current content of one file without logging a read (harness-side inspection).
func (fs *FS) Content(path string) ([]byte, bool) {
	fs.mu.Lock()
	defer fs.mu.Unlock()
	in, ok := fs.files[clean(path)]
	if !ok {
		return nil, false
	}
	return append([]byte(nil), in.data...), true
}

func (fs *FS) annot() int64 {
	if fs.Annot != nil {
		return fs.Annot()
	}
	return 0
}

// record appends op (already filled in) and returns its index. Caller holds the lock.
func (fs *FS) record(op Op) int {
	fs.log = append(fs.log, op)
	return len(fs.log) - 1
}

func (fs *FS) fault(op *Op) error {
	if fs.Fault != nil {
		return fs.Fault(len(fs.log), op)
	}
	return nil
}

// implicitDir: directories that exist without having been created ("/", the shim root, a mount directory).
func implicitDir(d string) bool {
	if d == "/" || d == "." || d+"/" == Root {
		return true
	}
	return strings.HasPrefix(d, Root) && !strings.Contains(d[len(Root):], "/")
}

func mkdirAllIn(dirs map[string]bool, d string) {
	for !implicitDir(d) && !dirs[d] {
		dirs[d] = true
		d = filepath.Dir(d)
	}
}

func (fs *FS) dirExists(d string) bool { return implicitDir(d) || fs.dirs[d] }

func (fs *FS) mkdirAllLocked(d string) { mkdirAllIn(fs.dirs, d) }

func pathErr(op, path string, err error) error { return &os.PathError{Op: op, Path: path, Err: err} }

// ---- cmn.VerifFileSystem ----

// OpenFile is os.OpenFile.
func (fs *FS) OpenFile(name string, flag int, perm os.FileMode) (cmn.VerifFile, error) {
	f, err := fs.open(name, flag, perm)
	if err != nil {
		return nil, err
	}
	return f, nil
}

// Open opens a file read-only and returns the concrete handle type.
func (fs *FS) Open(name string) (*File, error) { return fs.open(name, os.O_RDONLY, 0) }

func (fs *FS) open(name string, flag int, perm os.FileMode) (*File, error) {
	an := fs.annot()
	fs.mu.Lock()
	defer fs.mu.Unlock()
	p := clean(name)
	op := Op{Kind: OpOpen, Path: p, Flag: flag, Perm: perm, OSync: flag&syscall.O_DSYNC != 0, Annot: an}
	fail := func(e error) (*File, error) {
		err := pathErr("open", name, e)
		op.Err = err.Error()
		fs.record(op)
		return nil, err
	}
	if e := fs.fault(&op); e != nil {
		return fail(e)
	}
	if fs.dirs[p] || fs.dirExists(p) {
		return fail(syscall.EISDIR)
	}
	acc := flag & (os.O_RDONLY | os.O_WRONLY | os.O_RDWR)
	in, ok := fs.files[p]
	switch {
	case ok && flag&os.O_CREATE != 0 && flag&os.O_EXCL != 0:
		return fail(syscall.EEXIST)
	case !ok && flag&os.O_CREATE == 0:
		return fail(syscall.ENOENT)
	case !ok:
		if !fs.dirExists(filepath.Dir(p)) {
			return fail(syscall.ENOENT)
		}
		in = &inode{id: fs.nextIno, mode: perm & os.ModePerm}
		fs.nextIno++
		fs.files[p] = in
		op.Created = true
	case flag&os.O_TRUNC != 0 && acc != os.O_RDONLY:
		in.data = nil
		op.Truncated = true
	}
	op.Ino = in.id
	fs.record(op)
	return &File{fs: fs, ino: in, name: name, flag: flag, osync: op.OSync}, nil
}

// Rename is os.Rename (atomic; replaces an existing target file).
func (fs *FS) Rename(oldpath, newpath string) error {
	an := fs.annot()
	fs.mu.Lock()
	defer fs.mu.Unlock()
	o, n := clean(oldpath), clean(newpath)
	op := Op{Kind: OpRename, Path: o, Path2: n, Annot: an}
	fail := func(e error) error {
		err := &os.LinkError{Op: "rename", Old: oldpath, New: newpath, Err: e}
		op.Err = err.Error()
		fs.record(op)
		return err
	}
	if e := fs.fault(&op); e != nil {
		return fail(e)
	}
	if fs.dirs[o] {
		if _, isFile := fs.files[n]; isFile {
			return fail(syscall.ENOTDIR)
		}
		if !fs.dirExists(filepath.Dir(n)) {
			return fail(syscall.ENOENT)
		}
		fs.record(op)
		for _, f := range subtree(o, func(yield func(string)) {
			for f := range fs.files {
				yield(f)
			}
		}) {
			fs.files[n+f[len(o):]] = fs.files[f]
			delete(fs.files, f)
		}
		moveDirs(fs.dirs, o, n)
		return nil
	}
	in, ok := fs.files[o]
	if !ok {
		return fail(syscall.ENOENT)
	}
	if fs.dirs[n] {
		return fail(syscall.EISDIR)
	}
	if !fs.dirExists(filepath.Dir(n)) {
		return fail(syscall.ENOENT)
	}
	op.Ino = in.id
	fs.record(op)
	if o != n {
		fs.files[n] = in
		delete(fs.files, o)
	}
	return nil
}

// subtree returns the keys strictly below directory o.
func subtree(o string, each func(yield func(string))) []string {
	var out []string
	each(func(k string) {
		if strings.HasPrefix(k, o+"/") {
			out = append(out, k)
		}
	})
	sort.Strings(out)
	return out
}

// moveDirs renames directory o and every directory below it to n.
func moveDirs(dirs map[string]bool, o, n string) {
	ds := subtree(o, func(yield func(string)) {
		for d := range dirs {
			yield(d)
		}
	})
	if dirs[o] {
		ds = append(ds, o)
	}
	for _, d := range ds {
		delete(dirs, d)
	}
	for _, d := range ds {
		dirs[n+d[len(o):]] = true
	}
}

// Remove is os.Remove (a file, or an empty directory).
func (fs *FS) Remove(name string) error {
	an := fs.annot()
	fs.mu.Lock()
	defer fs.mu.Unlock()
	p := clean(name)
	op := Op{Kind: OpRemove, Path: p, Annot: an}
	fail := func(e error) error {
		err := pathErr("remove", name, e)
		op.Err = err.Error()
		fs.record(op)
		return err
	}
	if e := fs.fault(&op); e != nil {
		return fail(e)
	}
	if in, ok := fs.files[p]; ok {
		op.Ino = in.id
		fs.record(op)
		delete(fs.files, p)
		return nil
	}
	if fs.dirs[p] {
		for f := range fs.files {
			if strings.HasPrefix(f, p+"/") {
				return fail(syscall.ENOTEMPTY)
			}
		}
		for d := range fs.dirs {
			if strings.HasPrefix(d, p+"/") {
				return fail(syscall.ENOTEMPTY)
			}
		}
		fs.record(op)
		delete(fs.dirs, p)
		return nil
	}
	return fail(syscall.ENOENT)
}

// ReadFile is ioutil.ReadFile (logged as one read).
func (fs *FS) ReadFile(name string) ([]byte, error) {
	an := fs.annot()
	fs.mu.Lock()
	defer fs.mu.Unlock()
	p := clean(name)
	op := Op{Kind: OpRead, Path: p, Annot: an}
	in, ok := fs.files[p]
	if e := fs.fault(&op); e != nil || !ok {
		if e == nil {
			e = syscall.ENOENT
			if fs.dirs[p] {
				e = syscall.EISDIR
			}
		}
		err := pathErr("open", name, e)
		op.Err = err.Error()
		fs.record(op)
		return nil, err
	}
	op.Ino, op.Size = in.id, int64(len(in.data))
	fs.record(op)
	return append([]byte{}, in.data...), nil
}

// WriteFile is ioutil.WriteFile: open(O_WRONLY|O_CREATE|O_TRUNC), one write, close - three logged operations.
func (fs *FS) WriteFile(name string, data []byte, perm os.FileMode) error {
	f, err := fs.open(name, os.O_WRONLY|os.O_CREATE|os.O_TRUNC, perm)
	if err != nil {
		return err
	}
	_, err = f.Write(data)
	if e := f.Close(); err == nil {
		err = e
	}
	return err
}

// TempFile is ioutil.TempFile with deterministic names (a per-FS counter replaces the random part).
func (fs *FS) TempFile(dir, pattern string) (cmn.VerifFile, error) {
	for {
		fs.mu.Lock()
		fs.tempSeq++
		seq := fmt.Sprintf("%09d", fs.tempSeq)
		fs.mu.Unlock()
		name := pattern + seq
		if i := strings.LastIndex(pattern, "*"); i >= 0 {
			name = pattern[:i] + seq + pattern[i+1:]
		}
		f, err := fs.open(filepath.Join(dir, name), os.O_RDWR|os.O_CREATE|os.O_EXCL, 0600)
		if os.IsExist(err) {
			continue
		}
		if err != nil {
			return nil, err
		}
		return f, nil
	}
}

type fileInfo struct {
	name string
	size int64
	mode os.FileMode
	dir  bool
}

func (fi fileInfo) Name() string { return fi.name }
func (fi fileInfo) Size() int64  { return fi.size }
func (fi fileInfo) Mode() os.FileMode {
	if fi.dir {
		return fi.mode | os.ModeDir
	}
	return fi.mode
}
func (fi fileInfo) ModTime() time.Time { return time.Unix(0, 0) }
func (fi fileInfo) IsDir() bool        { return fi.dir }
func (fi fileInfo) Sys() interface{}   { return nil }

// Stat is os.Stat.
func (fs *FS) Stat(name string) (os.FileInfo, error) {
	an := fs.annot()
	fs.mu.Lock()
	defer fs.mu.Unlock()
	p := clean(name)
	op := Op{Kind: OpStat, Path: p, Annot: an}
	if in, ok := fs.files[p]; ok {
		op.Ino = in.id
		fs.record(op)
		return fileInfo{name: filepath.Base(p), size: int64(len(in.data)), mode: in.mode}, nil
	}
	if fs.dirExists(p) {
		fs.record(op)
		return fileInfo{name: filepath.Base(p), mode: 0755, dir: true}, nil
	}
	err := pathErr("stat", name, syscall.ENOENT)
	op.Err = err.Error()
	fs.record(op)
	return nil, err
}

// MkdirAll is os.MkdirAll.
func (fs *FS) MkdirAll(path string, perm os.FileMode) error {
	an := fs.annot()
	fs.mu.Lock()
	defer fs.mu.Unlock()
	p := clean(path)
	op := Op{Kind: OpMkdir, Path: p, Perm: perm, Annot: an}
	for d := p; d != "/" && d != "."; d = filepath.Dir(d) {
		if _, isFile := fs.files[d]; isFile {
			err := pathErr("mkdir", path, syscall.ENOTDIR)
			op.Err = err.Error()
			fs.record(op)
			return err
		}
	}
	if e := fs.fault(&op); e != nil {
		err := pathErr("mkdir", path, e)
		op.Err = err.Error()
		fs.record(op)
		return err
	}
	fs.record(op)
	fs.mkdirAllLocked(p)
	return nil
}

// Truncate is os.Truncate.
func (fs *FS) Truncate(name string, size int64) error {
	an := fs.annot()
	fs.mu.Lock()
	defer fs.mu.Unlock()
	p := clean(name)
	op := Op{Kind: OpTruncate, Path: p, Size: size, Annot: an}
	in, ok := fs.files[p]
	e := fs.fault(&op)
	if e == nil && !ok {
		e = syscall.ENOENT
	}
	if e == nil && size < 0 {
		e = syscall.EINVAL
	}
	if e != nil {
		err := pathErr("truncate", name, e)
		op.Err = err.Error()
		fs.record(op)
		return err
	}
	op.Ino = in.id
	fs.record(op)
	in.data = resize(in.data, size)
	return nil
}

// Chmod is os.Chmod.
func (fs *FS) Chmod(name string, mode os.FileMode) error {
	an := fs.annot()
	fs.mu.Lock()
	defer fs.mu.Unlock()
	p := clean(name)
	op := Op{Kind: OpChmod, Path: p, Perm: mode, Annot: an}
	in, ok := fs.files[p]
	if !ok {
		if fs.dirExists(p) {
			fs.record(op)
			return nil
		}
		err := pathErr("chmod", name, syscall.ENOENT)
		op.Err = err.Error()
		fs.record(op)
		return err
	}
	op.Ino = in.id
	fs.record(op)
	in.mode = mode & os.ModePerm
	return nil
}

func resize(b []byte, size int64) []byte {
	if int64(len(b)) >= size {
		return b[:size]
	}
	return append(b, make([]byte, size-int64(len(b)))...)
}

func writeAt(b []byte, off int64, p []byte) []byte {
	if end := off + int64(len(p)); end > int64(len(b)) {
		b = resize(b, end)
	}
	copy(b[off:], p)
	return b
}

// ---- File ----

// File is an open handle. It implements cmn.VerifFile (the method set of *os.File the redirected code uses).
type File struct {
	fs     *FS
	ino    *inode
	name   string
	flag   int
	osync  bool
	off    int64
	closed bool
}

var _ cmn.VerifFile = (*File)(nil)
var _ cmn.VerifFileSystem = (*FS)(nil)

// Name returns the name the file was opened with (as *os.File does).
func (f *File) Name() string { return f.name }

func (f *File) acc() int { return f.flag & (os.O_RDONLY | os.O_WRONLY | os.O_RDWR) }

func (f *File) write(p []byte, at int64, positional bool) (int, error) {
	an := f.fs.annot()
	f.fs.mu.Lock()
	defer f.fs.mu.Unlock()
	op := Op{Kind: OpWrite, Path: clean(f.name), Ino: f.ino.id, OSync: f.osync, Data: append([]byte(nil), p...), Annot: an}
	var e error
	switch {
	case f.closed:
		e = os.ErrClosed
	case f.acc() == os.O_RDONLY:
		e = syscall.EBADF
	default:
		e = f.fs.fault(&op)
	}
	if e != nil {
		err := pathErr("write", f.name, e)
		op.Err = err.Error()
		f.fs.record(op)
		return 0, err
	}
	off := at
	if !positional {
		off = f.off
		if f.flag&os.O_APPEND != 0 {
			off = int64(len(f.ino.data))
		}
	}
	op.Off = off
	f.fs.record(op)
	f.ino.data = writeAt(f.ino.data, off, p)
	if !positional {
		f.off = off + int64(len(p))
	}
	return len(p), nil
}

// Write is (*os.File).Write: one logged write per call.
func (f *File) Write(p []byte) (int, error) { return f.write(p, 0, false) }

// WriteString is (*os.File).WriteString.
func (f *File) WriteString(s string) (int, error) { return f.write([]byte(s), 0, false) }

// WriteAt is (*os.File).WriteAt.
func (f *File) WriteAt(p []byte, off int64) (int, error) {
	if off < 0 {
		return 0, pathErr("writeat", f.name, syscall.EINVAL)
	}
	return f.write(p, off, true)
}

func (f *File) read(p []byte, at int64, positional bool) (int, error) {
	an := f.fs.annot()
	f.fs.mu.Lock()
	defer f.fs.mu.Unlock()
	op := Op{Kind: OpRead, Path: clean(f.name), Ino: f.ino.id, Annot: an}
	var e error
	switch {
	case f.closed:
		e = os.ErrClosed
	case f.acc() == os.O_WRONLY:
		e = syscall.EBADF
	default:
		e = f.fs.fault(&op)
	}
	if e != nil {
		err := pathErr("read", f.name, e)
		op.Err = err.Error()
		f.fs.record(op)
		return 0, err
	}
	off := at
	if !positional {
		off = f.off
	}
	op.Off = off
	var n int
	if off < int64(len(f.ino.data)) {
		n = copy(p, f.ino.data[off:])
	}
	op.Size = int64(n)
	f.fs.record(op)
	if !positional {
		f.off += int64(n)
	}
	if n == 0 && len(p) > 0 {
		return 0, io.EOF
	}
	if positional && n < len(p) {
		return n, io.EOF
	}
	return n, nil
}

// Read is (*os.File).Read.
func (f *File) Read(p []byte) (int, error) { return f.read(p, 0, false) }

// ReadAt is (*os.File).ReadAt.
func (f *File) ReadAt(p []byte, off int64) (int, error) {
	if off < 0 {
		return 0, pathErr("readat", f.name, syscall.EINVAL)
	}
	return f.read(p, off, true)
}

// Seek is (*os.File).Seek (not logged).
func (f *File) Seek(offset int64, whence int) (int64, error) {
	f.fs.mu.Lock()
	defer f.fs.mu.Unlock()
	if f.closed {
		return 0, pathErr("seek", f.name, os.ErrClosed)
	}
	var n int64
	switch whence {
	case io.SeekStart:
		n = offset
	case io.SeekCurrent:
		n = f.off + offset
	case io.SeekEnd:
		n = int64(len(f.ino.data)) + offset
	default:
		return 0, pathErr("seek", f.name, syscall.EINVAL)
	}
	if n < 0 {
		return 0, pathErr("seek", f.name, syscall.EINVAL)
	}
	f.off = n
	return n, nil
}

// Stat is (*os.File).Stat.
func (f *File) Stat() (os.FileInfo, error) {
	f.fs.mu.Lock()
	defer f.fs.mu.Unlock()
	if f.closed {
		return nil, pathErr("stat", f.name, os.ErrClosed)
	}
	return fileInfo{name: filepath.Base(f.name), size: int64(len(f.ino.data)), mode: f.ino.mode}, nil
}

// Sync is (*os.File).Sync: everything written to this inode so far becomes durable.
func (f *File) Sync() error {
	an := f.fs.annot()
	f.fs.mu.Lock()
	defer f.fs.mu.Unlock()
	op := Op{Kind: OpSync, Path: clean(f.name), Ino: f.ino.id, Annot: an}
	var e error
	if f.closed {
		e = os.ErrClosed
	} else {
		e = f.fs.fault(&op)
	}
	if e != nil {
		err := pathErr("sync", f.name, e)
		op.Err = err.Error()
		f.fs.record(op)
		return err
	}
	f.fs.record(op)
	return nil
}

// Truncate is (*os.File).Truncate.
func (f *File) Truncate(size int64) error {
	an := f.fs.annot()
	f.fs.mu.Lock()
	defer f.fs.mu.Unlock()
	op := Op{Kind: OpTruncate, Path: clean(f.name), Ino: f.ino.id, Size: size, Annot: an}
	var e error
	switch {
	case f.closed:
		e = os.ErrClosed
	case f.acc() == os.O_RDONLY || size < 0:
		e = syscall.EINVAL
	default:
		e = f.fs.fault(&op)
	}
	if e != nil {
		err := pathErr("truncate", f.name, e)
		op.Err = err.Error()
		f.fs.record(op)
		return err
	}
	f.fs.record(op)
	f.ino.data = resize(f.ino.data, size)
	return nil
}

// Chmod is (*os.File).Chmod.
func (f *File) Chmod(mode os.FileMode) error {
	an := f.fs.annot()
	f.fs.mu.Lock()
	defer f.fs.mu.Unlock()
	op := Op{Kind: OpChmod, Path: clean(f.name), Ino: f.ino.id, Perm: mode, Annot: an}
	if f.closed {
		err := pathErr("chmod", f.name, os.ErrClosed)
		op.Err = err.Error()
		f.fs.record(op)
		return err
	}
	f.fs.record(op)
	f.ino.mode = mode & os.ModePerm
	return nil
}

// Close is (*os.File).Close; a second Close fails with os.ErrClosed as the real one does. Close does not
// make anything durable.
func (f *File) Close() error {
	an := f.fs.annot()
	f.fs.mu.Lock()
	defer f.fs.mu.Unlock()
	op := Op{Kind: OpClose, Path: clean(f.name), Ino: f.ino.id, Annot: an}
	if f.closed {
		err := pathErr("close", f.name, os.ErrClosed)
		op.Err = err.Error()
		f.fs.record(op)
		return err
	}
	f.closed = true
	f.fs.record(op)
	return nil
}
