package main

import (
	"sort"
	"sync"

	"verif/vk"
)

// reporter turns failing cases into violations whose key names the root cause:
//   - site: the function that is wrong. A call site (block validation, fast sync) that accepts a commit which
//     VerifyCommit itself wrongly accepts under the set in force is attributed to VerifyCommit, so a defect of the
//     shared function has ONE key however many callers expose it;
//   - cause: the single clause of the reference whose removal explains the acceptance. Cases explained by no or
//     by several clauses are kept aside and only reported (as ":unclassified") if the site has no classified case.
type reporter struct {
	r        *vk.Run
	mu       sync.Mutex
	specific map[string]bool
	deferred map[string][3]interface{}
}

func newReporter(r *vk.Run) *reporter {
	return &reporter{r: r, specific: map[string]bool{}, deferred: map[string][3]interface{}{}}
}

// accepts: site accepted slots as a commit for claimed although the reference refuses.
func (rp *reporter) accepts(site string, w *world, slots []*vdesc, claimed int, off int, what string, replay interface{}) {
	prefix := site + ":accepts-without-quorum"
	cause, ok := w.cause(slots, claimed, H, off)
	rp.mu.Lock()
	defer rp.mu.Unlock()
	if ok {
		rp.specific[prefix] = true
		rp.r.Violation(prefix+":"+cause, what, replay)
		return
	}
	if _, have := rp.deferred[prefix]; !have {
		rp.deferred[prefix] = [3]interface{}{cause, what, replay}
	}
}

func (rp *reporter) flush() {
	rp.mu.Lock()
	defer rp.mu.Unlock()
	var ks []string
	for k := range rp.deferred {
		ks = append(ks, k)
	}
	sort.Strings(ks)
	for _, k := range ks {
		if !rp.specific[k] {
			d := rp.deferred[k]
			rp.r.Violation(k+":unclassified", d[1].(string)+" (clauses that would each explain it: "+d[0].(string)+")", d[2])
		}
	}
}
