// C03 — only more than 2/3 of the voting power, correctly signed for exactly that block, makes a commit.
//
//	part 1  ValidatorSet.VerifyCommit on every assignment of slot variants x claimed block id
//	part 2  VoteSet: explicit-state search over arrival orders (votes, duplicates, equivocations, invalid
//	        votes, peer-claimed majorities) against a reference tally
//	part 3  the call sites: BlockExecutor.ValidateBlock (LastCommit of a height-2 block) and the fast-sync
//	        loop of the blockchain reactor, against the same math/big reference
//
// The reference (world.refCommit, model in part2.go) decides validity from the DESCRIPTION of each vote (which key
// signed which content), in math/big; it never calls the repository's verification code.
package main

import (
	"fmt"
	"sort"
	"sync"
	"sync/atomic"
	"time"

	"verif/vk"

	"github.com/lianxiangcloud/linkchain/libs/log"
	"github.com/lianxiangcloud/linkchain/types"
)

func verdictMap(m *sync.Map) map[string]int {
	out := map[string]int{}
	m.Range(func(k, v interface{}) bool { out[k.(string)] = int(atomic.LoadInt64(v.(*int64))); return true })
	return out
}

func main() {
	log.Root().SetHandler(log.DiscardHandler())
	r := vk.Start("C03", "model_checking")
	if r.ReplayPath != "" {
		vk.Fatalf("replay files of C03 name the case completely (validators, slots / op list); re-run the tier instead")
	}
	initFastSyncIDs()
	progress := func(what string, t time.Time) {
		fmt.Printf("  %-28s %6.1fs\n", what, time.Since(t).Seconds())
	}

	// ---- part 1 ----
	t := time.Now()
	st1 := &p1stats{}
	rp := newReporter(r)
	part1(rp, st1)
	progress("part 1 VerifyCommit", t)

	// ---- part 2 ----
	t = time.Now()
	states, trans, searches := part2(r)
	progress("part 2 VoteSet", t)

	// ---- part 3 ----
	t = time.Now()
	st3a, st3b := &p3stats{}, &p3stats{}
	part3(rp, st3a, st3b)
	rp.flush()
	progress("part 3 call sites", t)

	if r.Expired() {
		r.Capped("deadline reached; parts finished before it are complete, see voteset_searches[].depth_completed")
	}

	// ---- coverage, non-vacuity ----
	v1, v3a, v3b := verdictMap(&st1.verdicts), verdictMap(&st3a.verdicts), verdictMap(&st3b.verdicts)
	var classes []string
	p2classes.Range(func(k, _ interface{}) bool { classes = append(classes, k.(string)); return true })
	sort.Strings(classes)
	cases := int(st1.cases + st3a.cases + st3b.cases)
	accepted := int(st1.accepted + st3a.accepted + st3b.accepted)
	r.Set("verifycommit_cases", int(st1.cases))
	r.Set("verifycommit_accepted", int(st1.accepted))
	r.Set("verifycommit_reference_accepts", int(st1.refAccept))
	r.Set("verifycommit_clean_cases", int(st1.cleanCases))
	r.Set("verifycommit_verdicts", v1)
	r.Set("verifycommit_panics", int(st1.panics))
	r.Set("validateblock_cases", int(st3a.cases))
	r.Set("validateblock_accepted", int(st3a.accepted))
	r.Set("validateblock_verdicts", v3a)
	r.Set("validateblock_panics", int(st3a.panics))
	r.Set("fastsync_cases", int(st3b.cases))
	r.Set("fastsync_accepted", int(st3b.accepted))
	r.Set("fastsync_verdicts", v3b)
	r.Set("fastsync_panics", int(st3b.panics))
	r.Set("voteset_searches", searches)
	r.Set("voteset_addvote_calls", p2count.addVotes)
	r.Set("voteset_setpeermaj23_calls", p2count.claims)
	r.Set("voteset_outcome_classes", classes)
	r.Set("voteset_states_with_majority", p2count.maj23States)
	r.Set("voteset_conflict_steps", p2count.conflictSteps)
	r.Set("voteset_invalid_vote_steps", p2count.invalidSteps)
	r.Set("voteset_makecommit_checked", p2count.makeCommits)
	r.Set("signatures_produced", signings)
	r.Set("states", states)
	r.Set("transitions", trans)
	r.Set("traces_validated_against_impl", trans+cases)
	r.Set("evaluations", trans+cases)
	r.Set("distinct_nontrivial", states+accepted)
	r.Set("rule", "part 1/3: every assignment of slot variants x claimed id is one call of the real VerifyCommit / ValidateBlock / fast-sync loop, judged by a math/big reference over the vote descriptions; part 2: BFS over event sequences on a fresh real VoteSet per history (state = reference tally), every transition compared with the reference. non-trivial = distinct vote-set states + commits the real code accepted")
	r.Assume("ed25519 and the canonical-JSON sign-bytes are trusted as primitives: the reference knows which key signed which content by construction and does not re-verify signatures")
	r.Assume("validator index/address/size fields of a precommit are not part of the signed bytes; inside a Commit a slot counts when its signature is by the validator AT THAT SLOT, whatever those fields say")
	r.Assume("on commits whose present slots are all correctly signed precommits of one height and round, acceptance must coincide with the reference in both directions; on all other commits only 'accept => reference accepts' is required (the code is deliberately stricter there)")
	r.Assume("block validation is exercised with status.LastRecover=true so that no fault-validator record is required and LastCommit is the only varying clause; fast sync is driven through the real poolRoutine with stub app / p2p manager, the set in force for a block with Recover>0 being the recover set the app returns")
	r.Assume("total voting power < 2^62 (the property's bound); reconstructLastCommit is not exercised")

	if !r.Expired() && r.NViolations() == 0 {
		need := func(ok bool, what string) {
			if !ok {
				vk.Fatalf("vacuity self-test failed: %s", what)
			}
		}
		need(st1.accepted > 0 && st1.accepted < st1.cases && len(v1) >= 5, "VerifyCommit outcomes are not diverse")
		need(st3a.accepted > 0 && st3a.accepted < st3a.cases && len(v3a) >= 5, "ValidateBlock outcomes are not diverse")
		need(st3b.accepted > 0 && st3b.accepted < st3b.cases, "fast-sync outcomes are not diverse")
		need(p2count.maj23States > 0 && p2count.conflictSteps > 0 && p2count.invalidSteps > 0 && len(classes) >= 9, "VoteSet outcomes are not diverse")
	}
	r.Finish()
}

func part1(rp *reporter, st *p1stats) {
	r := rp.r
	all := len(slotVariants)
	claimed := []int{idA, idB, idNil}
	// (a) the full slot alphabet
	var full [][]int64
	if r.Quick() {
		full = [][]int64{{1}, {1, 1}, {1, 2}, {1, 1, 1}, {1, 2, 3}, {1, 2, 3, 5}}
	} else {
		for n := 1; n <= 3; n++ {
			full = append(full, powerVectors(n)...)
		}
		for _, pv := range powerVectors(4) { // four validators: the 16 vectors over {1,5}, plus one mixed
			ok := true
			for _, p := range pv {
				ok = ok && (p == 1 || p == 5)
			}
			if ok {
				full = append(full, pv)
			}
		}
		full = append(full, []int64{1, 2, 3, 5}, []int64{5, 3, 2, 1})
	}
	for _, pv := range full {
		if r.Expired() {
			return
		}
		runVerifyCommit(rp, st, newWorld(pv), all, claimed)
	}
	// (b) threshold arithmetic: every power vector over {1,2,3,5}; slots in {absent, nil, A}, claimed A, i.e. every subset
	// of the validators voting for the block and every subset of the rest voting for something else (quick) / all correctly
	// signed variants x all claimed ids (thorough). Slots that are not correctly signed precommits of the right height make VerifyCommit
	// fail whatever the powers are, so (a) x (b) covers the product.
	for n := 1; n <= 4; n++ {
		for _, pv := range powerVectors(n) {
			if r.Quick() {
				runVerifyCommit(rp, st, newWorld(pv), 3, []int{idA})
			} else if n == 4 {
				runVerifyCommit(rp, st, newWorld(pv), numClean, claimed)
			}
		}
	}
	// (c) totals just below 2^62
	for _, pv := range boundaryVectors() {
		nv := all
		if r.Quick() && len(pv) == 4 {
			nv = numClean
		}
		runVerifyCommit(rp, st, newWorld(pv), nv, claimed)
	}
	// (d) wrong number of slots
	for _, pv := range [][]int64{{1}, {1, 1}, {1, 1, 1}, {1, 2, 3}, {1, 1, 1, 1}, {5, 1, 1, 1}} {
		runWrongSize(rp, st, newWorld(pv))
	}
}

func part3(rp *reporter, sa, sb *p3stats) {
	r := rp.r
	all := len(slotVariants)
	type cfg struct {
		pv []int64
		nv int
	}
	var va, vb []cfg
	if r.Quick() {
		va = []cfg{{[]int64{1}, all}, {[]int64{1, 1}, all}, {[]int64{1, 2}, all}, {[]int64{1, 1, 1}, all}, {[]int64{1, 2, 3}, all}, {[]int64{1, 1, 1, 1}, numClean}, {[]int64{5, 1, 1, 1}, numClean}, {[]int64{1 << 61, 1<<61 - 1}, all}}
		vb = []cfg{{[]int64{1}, all}, {[]int64{1, 2}, all}, {[]int64{1, 2, 3}, all}, {[]int64{1, 1, 1, 1}, numClean}, {[]int64{1 << 61, 1<<61 - 1}, numClean}}
	} else {
		for n := 1; n <= 3; n++ {
			for _, pv := range powerVectors(n) {
				va = append(va, cfg{pv, all})
			}
		}
		va = append(va, cfg{[]int64{1, 1, 1, 1}, all}, cfg{[]int64{5, 1, 1, 1}, all}, cfg{[]int64{1, 2, 3, 5}, all})
		for _, pv := range powerVectors(4) {
			va = append(va, cfg{pv, numClean})
		}
		for _, pv := range boundaryVectors() {
			va = append(va, cfg{pv, numClean})
		}
		vb = []cfg{{[]int64{1}, all}, {[]int64{1, 1}, all}, {[]int64{1, 2}, all}, {[]int64{1, 1, 1}, all}, {[]int64{1, 2, 3}, all}, {[]int64{3, 1, 1}, all},
			{[]int64{1, 1, 1, 1}, numClean}, {[]int64{5, 1, 1, 1}, numClean}, {[]int64{1, 2, 3, 5}, numClean}}
		for _, pv := range boundaryVectors() {
			vb = append(vb, cfg{pv, numClean})
		}
	}
	for _, c := range va {
		if r.Expired() {
			return
		}
		runValidateBlock(rp, sa, newWorld(c.pv), c.nv)
	}
	for _, c := range vb {
		if r.Expired() {
			return
		}
		runFastSync(rp, sb, newWorld(c.pv), c.nv, fastSyncScenarios())
	}
	if !r.Quick() && !r.Expired() {
		// the full alphabet on four validators, ordinary-block scenario only (every case leaves two unstoppable
		// tickers of poolRoutine behind, which bounds how many cases are sensible in one process)
		runFastSync(rp, sb, newWorld([]int64{1, 2, 3, 5}), all, fastSyncScenarios()[:1])
	}
}

func part2(r *vk.Run) (states, trans int, per []interface{}) {
	type run struct {
		pv    []int64
		typ   byte
		depth int
		full  bool // include the second group of invalid-vote kinds
	}
	pc, pv := types.VoteTypePrecommit, types.VoteTypePrevote
	var runs []run
	if r.Quick() {
		runs = []run{
			{[]int64{1}, pc, 6, true},
			{[]int64{1, 1}, pc, 5, true},
			{[]int64{3, 1}, pc, 5, true},
			{[]int64{1<<62 - 2, 1}, pc, 4, true},
			{[]int64{1 << 61, 1<<61 - 1}, pc, 3, true},
			{[]int64{1, 1, 1}, pc, 4, true},
			{[]int64{3, 1, 1}, pc, 4, true},
			{[]int64{5, 1, 1, 1}, pc, 4, false},
		}
	} else {
		runs = []run{
			{[]int64{1}, pc, 10, true},
			{[]int64{1, 1}, pc, 9, true},
			{[]int64{3, 1}, pc, 8, true},
			{[]int64{2, 1}, pc, 8, true},
			{[]int64{1<<62 - 2, 1}, pc, 7, true},
			{[]int64{1 << 61, 1<<61 - 1}, pc, 7, true},
			{[]int64{1, 1}, pv, 7, true},
			{[]int64{1, 1, 1}, pc, 7, true},
			{[]int64{3, 1, 1}, pc, 6, true},
			{[]int64{1, 2, 3}, pc, 6, true},
			{[]int64{1, 1, 1}, pv, 5, true},
			{[]int64{1<<61 - 1, 1 << 60, 1 << 60}, pc, 5, true},
			{[]int64{1, 1, 1, 1}, pc, 6, true},
			{[]int64{5, 1, 1, 1}, pc, 5, true},
			{[]int64{1, 2, 3, 5}, pc, 5, true},
			{[]int64{1, 1, 1, 1}, pv, 4, true},
		}
	}
	// block-id alphabet of a search: A, one competitor, nil. The competitor cycles through B (other parts hash) and the
	// three near-collisions of A (parts hash differing in byte 6 / the last / the first byte only), so that ids which a
	// shortened or fingerprinted tally key would merge are voted for against each other; the reference is keyed by the
	// full id. Two extra searches put all near-collisions into one alphabet.
	alts := []int{idB, idAm, idAl, idAf}
	type job struct {
		run
		blocks []int
	}
	var jobs []job
	for i, ru := range runs {
		jobs = append(jobs, job{ru, []int{idA, alts[i%len(alts)], idNil}})
	}
	allNear := []int{idA, idAm, idAl, idAf, idNil}
	if r.Quick() {
		jobs = append(jobs, job{run{[]int64{1, 1}, pc, 4, false}, allNear})
	} else {
		jobs = append(jobs, job{run{[]int64{1, 1}, pc, 6, true}, allNear}, job{run{[]int64{3, 1, 1}, pc, 5, false}, allNear}, job{run{[]int64{1, 1, 1}, pc, 5, false}, allNear})
	}
	for _, jb := range jobs {
		if r.Expired() {
			break
		}
		ru := jb.run
		c := newVSCfg(newWorld(ru.pv), ru.typ, jb.blocks, ru.full)
		t := time.Now()
		res := runVoteSet(r, c, ru.depth)
		states += res.States
		trans += res.Transitions
		per = append(per, map[string]interface{}{"search": c.name, "alphabet": len(c.events), "depth": ru.depth, "depth_completed": res.DepthCompleted,
			"states": res.States, "transitions": res.Transitions, "per_depth": res.PerDepth, "merge_checks": res.MergeChecks, "fixpoint": res.PerDepth[len(res.PerDepth)-1] == 0})
		fmt.Printf("    %-70s ops=%d depth=%d states=%d transitions=%d %.1fs\n", c.name, len(c.events), ru.depth, res.States, res.Transitions, time.Since(t).Seconds())
	}
	return
}
