package main

import (
	"fmt"
	"sync"
	"sync/atomic"

	"verif/vk"

	"github.com/lianxiangcloud/linkchain/blockchain"
	"github.com/lianxiangcloud/linkchain/consensus"
	"github.com/lianxiangcloud/linkchain/libs/common"
	dbm "github.com/lianxiangcloud/linkchain/libs/db"
	"github.com/lianxiangcloud/linkchain/libs/log"
	"github.com/lianxiangcloud/linkchain/libs/p2p"
	"github.com/lianxiangcloud/linkchain/types"
)

// Part 3: the call sites that accept a commit.
//
//	3a  BlockExecutor.ValidateBlock on a height-2 block whose LastCommit ranges over the commits of part 1, every
//	    other clause of block validation held valid
//	3b  the fast-sync loop (BlockchainReactor.poolRoutine) on a pair of blocks whose second carries the commit
//
// Both are judged by the same math/big reference as part 1, never by VerifyCommit.

var params = types.DefaultConsensusParams()

// ---------------------------------------------------------------------------------------------------------------
// 3a

// shifted: a validator set that differs from w's in keys and powers (pool keys 1..n, powers rotated and +1). It is
// installed wherever the code must NOT look (status.Validators for LastCommit validation, status.LastValidators and
// the recover set for fast sync of a normal block).
func shifted(w *world) *world {
	p := make([]int64, w.n)
	for i := range p {
		p[i] = w.powers[(i+1)%w.n]%1000 + 1
	}
	return newWorld(p)
}

func height2Block(status consensus.NewStatus, commit *types.Commit) *types.Block {
	b := &types.Block{
		Header: &types.Header{
			ChainID:        status.ChainID,
			Height:         status.LastBlockHeight + 1,
			Time:           1577934246,
			NumTxs:         0,
			TotalTxs:       status.LastBlockTotalTx,
			LastBlockID:    status.LastBlockID,
			ValidatorsHash: common.BytesToHash(status.Validators.Hash()),
			ConsensusHash:  common.BytesToHash(status.ConsensusParams.Hash()),
		},
		Data:       &types.Data{},
		LastCommit: commit,
	}
	b.DataHash = b.Data.Hash()
	b.LastCommitHash = commit.Hash()
	b.EvidenceHash = b.Evidence.Hash()
	return b
}

func statusFor(w *world, claimed int) consensus.NewStatus {
	return consensus.NewStatus{
		ChainID:                     chainID,
		LastBlockHeight:             H,
		LastBlockTotalTx:            7,
		LastBlockID:                 blockIDs[claimed],
		LastBlockTime:               1577934245,
		Validators:                  shifted(w).valSetFrom(1),
		LastValidators:              w.valSet(),
		LastHeightValidatorsChanged: 1,
		LastRecover:                 true, // the block after a recover block needs no fault-validator record: LastCommit alone decides
		ConsensusParams:             *params,
	}
}

type p3stats struct {
	cases, accepted, refAccept, clean, panics int64
	verdicts                                  sync.Map
}

func (s *p3stats) verdict(k string) {
	v, _ := s.verdicts.LoadOrStore(k, new(int64))
	atomic.AddInt64(v.(*int64), 1)
}

// direct asks VerifyCommit itself, under the set in force, about the commit a call site mis-judged: if it gives the
// same wrong verdict (or panics as well) the root cause is VerifyCommit (part 1's site), otherwise the call site.
func direct(set *types.ValidatorSet, claimed int, pre []*types.Vote) (accepts, panicked bool) {
	panicked, _ = vk.Catch(func() {
		accepts = set.VerifyCommit(chainID, blockIDs[claimed], H, &types.Commit{BlockID: blockIDs[claimed], Precommits: pre}) == nil
	})
	return
}

func runValidateBlock(rp *reporter, st *p3stats, w *world, nv int) {
	r := rp.r
	tab := w.slotTable(0, stdIDs)
	exec := consensus.NewBlockExecutor(dbm.NewMemDB(), log.Root(), consensus.MockEvidencePool{})
	// self-test: with a unanimous commit every clause of validation holds, so LastCommit is the only variable
	{
		status := statusFor(w, idA)
		pre := make([]*types.Vote, w.n)
		for i := range pre {
			pre[i] = tab.votes[i][2]
		}
		if slotVariants[2].name != "A" {
			vk.Fatalf("slot alphabet order changed")
		}
		var err error
		panicked, _ := vk.Catch(func() {
			err = exec.ValidateBlock(status, height2Block(status, &types.Commit{BlockID: blockIDs[idA], Precommits: pre}))
		})
		if !panicked && err != nil && !contains(err.Error(), "Invalid commit") {
			// a complaint about the commit itself, or a panic, is the enumeration's business (reported below as a
			// violation); any other complaint means the harness built a block that fails a clause it was meant to satisfy
			vk.Fatalf("ValidateBlock rejects the harness's height-2 block for a reason other than its LastCommit (%s): %v", w, err)
		}
	}
	total := pow(nv, w.n)
	chunk := total / 256
	if chunk < 1 {
		chunk = 1
	} else if chunk > 128 {
		chunk = 128
	}
	vk.ParallelFor((total+chunk-1)/chunk, func(c int) {
		if r.Expired() {
			return
		}
		asg := make([]int, w.n)
		slots := make([]*vdesc, w.n)
		for a := c * chunk; a < (c+1)*chunk && a < total; a++ {
			decode(a, nv, w.n, asg)
			for i, v := range asg {
				slots[i] = tab.desc[i][v]
			}
			clean := w.clean(slots, H, 0)
			for _, claimed := range []int{idA, idB} {
				for _, field := range []int{claimed, idA + idB - claimed} { // Commit.BlockID field: the claimed id / the other one
					status := statusFor(w, claimed)
					pre := make([]*types.Vote, w.n)
					for i, v := range asg {
						pre[i] = tab.votes[i][v]
					}
					block := height2Block(status, &types.Commit{BlockID: blockIDs[field], Precommits: pre})
					var err error
					if p, pv := vk.Catch(func() { err = exec.ValidateBlock(status, block) }); p {
						err = fmt.Errorf("panic: %v", pv)
						atomic.AddInt64(&st.panics, 1)
						site := "validateblock"
						if _, dp := direct(w.valSet(), claimed, pre); dp {
							site = "verifycommit"
						}
						m := describe(w, tab, asg, claimed)
						m["commit_block_id_field"] = idName[field]
						m["site"] = "BlockExecutor.ValidateBlock(height-2 block)"
						r.Violation(panicKey(site), fmt.Sprintf("ValidateBlock panics (%v) instead of accepting or rejecting the block's LastCommit", pv), m)
					}
					ref := w.refCommit(slots, claimed, H, 0, relax{})
					atomic.AddInt64(&st.cases, 1)
					st.verdict("validateblock:" + errClass(err))
					if ref {
						atomic.AddInt64(&st.refAccept, 1)
					}
					d := func() map[string]interface{} {
						m := describe(w, tab, asg, claimed)
						m["commit_block_id_field"] = idName[field]
						m["site"] = "BlockExecutor.ValidateBlock(height-2 block)"
						return m
					}
					if err == nil {
						atomic.AddInt64(&st.accepted, 1)
						if !ref {
							site := "validateblock"
							if acc, _ := direct(w.valSet(), claimed, pre); acc {
								site = "verifycommit"
							}
							rp.accepts(site, w, append([]*vdesc{}, slots...), claimed, 0,
								fmt.Sprintf("ValidateBlock accepts a block whose LastCommit does not hold correctly signed precommits of more than 2/3 of LastValidators for the previous block id %s", idName[claimed]), d())
						}
					} else if clean && ref && errClass(err) != "panic" {
						key := "validateblock:rejects-valid-lastcommit"
						if acc, _ := direct(w.valSet(), claimed, pre); !acc {
							key = "verifycommit:rejects-valid-commit"
						}
						r.Violation(key, fmt.Sprintf("ValidateBlock rejects (%v) a block whose LastCommit is a valid commit for the previous block id", err), d())
					}
				}
			}
		}
	})
}

// ---------------------------------------------------------------------------------------------------------------
// 3b

type fsBlockKind int

const (
	fsF1 fsBlockKind = iota
	fsF2
	fsF3
	fsFR
)

func fsFirst(k fsBlockKind) *types.Block {
	b := &types.Block{
		Header:     &types.Header{ChainID: chainID, Height: H, Time: 1577934245},
		Data:       &types.Data{},
		LastCommit: &types.Commit{},
	}
	switch k {
	case fsF2:
		b.LastCommit = &types.Commit{BlockID: blockIDs[idA]} // not covered by the header hash: same hash, other parts
	case fsF3:
		b.Header.Time++
	case fsFR:
		b.Header.Recover = 1
	}
	return b
}

func blockIDOf(b *types.Block) types.BlockID {
	ps := b.MakePartSet(params.BlockGossip.BlockPartSizeBytes)
	return types.BlockID{Hash: b.Hash(), PartsHeader: ps.Header()}
}

func initFastSyncIDs() {
	blockIDs[idFA] = blockIDOf(fsFirst(fsF1))
	blockIDs[idFB] = blockIDOf(fsFirst(fsF2))
	blockIDs[idFC] = blockIDOf(fsFirst(fsF3))
	blockIDs[idFR] = blockIDOf(fsFirst(fsFR))
	for i := idFA; i <= idFR; i++ {
		for j := i + 1; j <= idFR; j++ {
			if blockIDs[i].Equals(blockIDs[j]) {
				vk.Fatalf("fast-sync block ids %s and %s coincide", idName[i], idName[j])
			}
		}
	}
	if blockIDs[idFA].Hash != blockIDs[idFB].Hash || blockIDs[idFA].Hash == blockIDs[idFC].Hash {
		vk.Fatalf("fast-sync block ids do not collide the way the harness intends")
	}
}

type fsAccepted struct{ commit *types.Commit }
type fsRejected struct{}

// fsApp: the application seen by the reactor. CommitBlock is the observable "fast sync accepted the commit".
type fsApp struct {
	recover     []*types.Validator
	recoverAsks int32
}

func (a *fsApp) Height() uint64                          { return H - 1 }
func (a *fsApp) LoadBlockMeta(uint64) *types.BlockMeta   { panic("c03: unexpected LoadBlockMeta") }
func (a *fsApp) LoadBlock(uint64) *types.Block           { panic("c03: unexpected LoadBlock") }
func (a *fsApp) LoadBlockPart(uint64, int) *types.Part   { panic("c03: unexpected LoadBlockPart") }
func (a *fsApp) LoadBlockCommit(uint64) *types.Commit    { panic("c03: unexpected LoadBlockCommit") }
func (a *fsApp) LoadSeenCommit(uint64) *types.Commit     { panic("c03: unexpected LoadSeenCommit") }
func (a *fsApp) GetValidators(uint64) []*types.Validator { panic("c03: unexpected GetValidators") }
func (a *fsApp) GetRecoverValidators(h uint64) []*types.Validator {
	atomic.AddInt32(&a.recoverAsks, 1)
	return a.recover
}
func (a *fsApp) CreateBlock(uint64, int, uint64, uint64) *types.Block {
	panic("c03: unexpected CreateBlock")
}
func (a *fsApp) PreRunBlock(*types.Block)     {}
func (a *fsApp) CheckBlock(*types.Block) bool { return true }
func (a *fsApp) CommitBlock(b *types.Block, ps *types.PartSet, seen *types.Commit, fast bool) ([]*types.Validator, error) {
	panic(fsAccepted{seen})
}
func (a *fsApp) SetLastChangedVals(uint64, []*types.Validator) {}

// fsSwitch: the p2p manager seen by the reactor; looking up the peers that delivered a rejected pair ends the run.
type fsSwitch struct{ p2p.P2PManager }

func (fsSwitch) Peers() p2p.IPeerSet                        { panic(fsRejected{}) }
func (fsSwitch) NumPeers() (outbound, inbound, dialing int) { return 0, 0, 0 }

type fsScenario struct {
	name    string
	first   fsBlockKind
	claimed int
	ids     [4]int // what the slot letters nil/A/B/C vote for
	signOff int    // pool offset of the keys that sign the slots
	refOff  int    // pool offset of the set in force for `first` (0 = status.Validators, 1 = recover set)
}

func runFastSync(rp *reporter, st *p3stats, w *world, nv int, scs []fsScenario) {
	r := rp.r
	rec := shifted(w)
	// the set in force: for a normal block status.Validators (= w, keys 0..), for a recover block the recover set
	// (= rec, keys 1..)
	type job struct {
		sc  *fsScenario
		asg int
	}
	total := pow(nv, w.n)
	tabs := map[string]*slotTable{}
	for i := range scs {
		sw := w
		if scs[i].signOff == 1 {
			sw = rec
		}
		tabs[scs[i].name] = sw.slotTable(scs[i].signOff, scs[i].ids)
	}
	var jobs []job
	for i := range scs {
		for a := 0; a < 2*total; a++ {
			jobs = append(jobs, job{&scs[i], a})
		}
	}
	var next int64
	var wg sync.WaitGroup
	const lanes = 384 // each case waits for the reactor's 50 ms sync tick; lanes overlap the waits
	for l := 0; l < lanes; l++ {
		wg.Add(1)
		go func() {
			defer wg.Done()
			for {
				j := int(atomic.AddInt64(&next, 1)) - 1
				if j >= len(jobs) || r.Expired() {
					return
				}
				sc := jobs[j].sc
				refW := w
				if sc.refOff == 1 {
					refW = rec
				}
				tab := tabs[sc.name]
				asg := make([]int, w.n)
				// the BlockID the pair itself names (second.LastCommit.BlockID, second.LastBlockID): the id of first, or
				// the id the "B" slots vote for — only the id computed from first may count
				field := sc.claimed
				if jobs[j].asg >= total {
					field = sc.ids[2]
				}
				decode(jobs[j].asg%total, nv, w.n, asg)
				slots := make([]*vdesc, w.n)
				pre := make([]*types.Vote, w.n)
				for i, v := range asg {
					slots[i], pre[i] = tab.desc[i][v], tab.votes[i][v]
				}
				status := consensus.NewStatus{
					ChainID:         chainID,
					LastBlockHeight: H - 1,
					Validators:      w.valSet(),
					LastValidators:  shifted(w).valSetFrom(1),
					ConsensusParams: *params,
				}
				app := &fsApp{recover: rec.valSetFrom(1).Validators}
				first := fsFirst(sc.first)
				second := &types.Block{
					Header:     &types.Header{ChainID: chainID, Height: H + 1, Time: 1577934246, LastBlockID: blockIDs[field]},
					Data:       &types.Data{},
					LastCommit: &types.Commit{BlockID: blockIDs[field], Precommits: pre},
				}
				exec := consensus.NewBlockExecutor(dbm.NewMemDB(), log.Root(), consensus.MockEvidencePool{})
				bcR := blockchain.NewBlockchainReactor(status, exec, app, true, fsSwitch{})
				bcR.SetLogger(log.Root())
				stopped := blockchain.VerifC03FastSyncOnce(bcR, first, second)
				ref := refW.refCommit(slots, sc.claimed, H, sc.refOff, relax{})
				atomic.AddInt64(&st.cases, 1)
				if ref {
					atomic.AddInt64(&st.refAccept, 1)
				}
				d := func() map[string]interface{} {
					m := describe(w, tab, asg, sc.claimed)
					m["site"] = "BlockchainReactor.poolRoutine"
					m["scenario"] = sc.name
					m["block_id_named_by_second_block"] = idName[field]
					m["signing_keys"] = fmt.Sprintf("pool keys %d..%d", sc.signOff, sc.signOff+w.n-1)
					m["set_in_force"] = fmt.Sprintf("%s, pool keys %d..", refW, sc.refOff)
					return m
				}
				switch s := stopped.(type) {
				case fsAccepted:
					atomic.AddInt64(&st.accepted, 1)
					st.verdict("fastsync:" + sc.name + ":accept")
					if s.commit != second.LastCommit {
						r.Violation("fastsync:commits-with-other-commit", "fast sync stores another commit than the one it verified", d())
					}
					if !ref {
						site := "fastsync"
						if acc, _ := direct(refW.valSetFrom(sc.refOff), sc.claimed, pre); acc {
							site = "verifycommit"
						}
						rp.accepts(site, refW, slots, sc.claimed, sc.refOff,
							fmt.Sprintf("fast sync commits block %s although second.LastCommit does not hold correctly signed precommits of more than 2/3 of the set in force for exactly that block id", idName[sc.claimed]), d())
					}
				case fsRejected:
					st.verdict("fastsync:" + sc.name + ":reject")
					if ref && refW.clean(slots, H, sc.refOff) {
						key := "fastsync:rejects-valid-commit"
						if acc, _ := direct(refW.valSetFrom(sc.refOff), sc.claimed, pre); !acc {
							key = "verifycommit:rejects-valid-commit"
						}
						r.Violation(key, "fast sync rejects a pair of blocks whose commit is valid for the first block", d())
					}
				case nil:
					// poolRoutine returned: it has no exit on the accept/reject paths of an injected pair
					st.verdict("fastsync:" + sc.name + ":loop-ended")
					r.Violation("fastsync:loop-ended-without-verdict:"+sc.name, "the fast-sync loop returned without committing or rejecting the injected pair of blocks", d())
				default:
					// anything else is a panic of the code under test while it judged the pair (in production it kills
					// the node): an observation of this scenario, never a harness fault — the reference has a verdict
					// for every enumerated commit
					atomic.AddInt64(&st.panics, 1)
					st.verdict("fastsync:" + sc.name + ":panic")
					key := panicKey("fastsync") + ":" + sc.name
					if _, dp := direct(refW.valSetFrom(sc.refOff), sc.claimed, pre); dp {
						key = panicKey("verifycommit")
					}
					verdict := "rejected"
					if ref {
						verdict = "accepted"
					}
					r.Violation(key, fmt.Sprintf("the fast-sync loop panics (%v) on a pair of blocks whose commit must be %s", s, verdict), d())
				}
				if asks := atomic.LoadInt32(&app.recoverAsks); (asks > 0) != (sc.first == fsFR) {
					st.verdict(fmt.Sprintf("fastsync:recover-set-asked-%d-times-for-%s", asks, sc.name))
				}
			}
		}()
	}
	wg.Wait()
}

func fastSyncScenarios() []fsScenario {
	return []fsScenario{
		{"normal-block", fsF1, idFA, [4]int{idNil, idFA, idFB, idFC}, 0, 0},
		{"normal-block-same-hash-other-parts", fsF2, idFB, [4]int{idNil, idFA, idFB, idFC}, 0, 0},
		{"recover-block-signed-by-recover-set", fsFR, idFR, [4]int{idNil, idFR, idFA, idFC}, 1, 1},
		{"recover-block-signed-by-ordinary-set", fsFR, idFR, [4]int{idNil, idFR, idFA, idFC}, 0, 1},
		{"normal-block-signed-by-recover-set", fsF1, idFA, [4]int{idNil, idFA, idFR, idFC}, 1, 0},
	}
}
