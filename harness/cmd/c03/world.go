package main

import (
	"bytes"
	"fmt"
	"math/big"
	"sort"
	"sync"
	"time"

	"github.com/lianxiangcloud/linkchain/libs/common"
	"github.com/lianxiangcloud/linkchain/libs/crypto"
	"github.com/lianxiangcloud/linkchain/types"
)

// ---- fixed universe: chain ids, block ids, keys ----

const (
	chainID    = "c03-chain"
	otherChain = "c03-other-chain"
)

// Block ids are chosen to collide as much as two different ids can: B shares the block hash with A
// (different parts hash), C shares the parts header with A (different block hash).
const (
	idNil = iota
	idA
	idB
	idC
	// ids of real blocks, used where the claimed id is computed from a block (fast sync); filled by part3's init
	idFA // block F1
	idFB // block F2: same header hash as F1, different parts
	idFC // block F3: different hash
	idFR // block FR: F1 with Recover=1 (same header hash as F1: Header.Hash does not cover Recover)
	// near-collisions of A: same block hash, same parts total, parts hash differing from A's in ONE byte only
	idAm // ... in byte 6 (the first byte after a 6-byte fingerprint)
	idAl // ... in the last byte
	idAf // ... in the first byte
	numIDs
)

var idName = [numIDs]string{"nil", "A", "B", "C", "F1", "F2", "F3", "FR", "A~byte6", "A~lastbyte", "A~firstbyte"}

// stdIDs maps the block letters used by the slot alphabet to the synthetic ids.
var stdIDs = [4]int{idNil, idA, idB, idC}

func fill(b byte, n int) []byte { return bytes.Repeat([]byte{b}, n) }

// flip returns a copy of b with the lowest bit of byte i inverted.
func flip(b []byte, i int) []byte {
	c := append([]byte{}, b...)
	c[i] ^= 0x01
	return c
}

var blockIDs = func() [numIDs]types.BlockID {
	hA := common.BytesToHash(fill(0xa1, 32))
	hC := common.BytesToHash(fill(0xc3, 32))
	pA := fill(0x0a, 32)
	pB := fill(0x0b, 32)
	return [numIDs]types.BlockID{
		idNil: {},
		idA:   {Hash: hA, PartsHeader: types.PartSetHeader{Total: 1, Hash: pA}},
		idB:   {Hash: hA, PartsHeader: types.PartSetHeader{Total: 1, Hash: pB}},
		idC:   {Hash: hC, PartsHeader: types.PartSetHeader{Total: 1, Hash: pA}},
		idAm:  {Hash: hA, PartsHeader: types.PartSetHeader{Total: 1, Hash: flip(pA, 6)}},
		idAl:  {Hash: hA, PartsHeader: types.PartSetHeader{Total: 1, Hash: flip(pA, 31)}},
		idAf:  {Hash: hA, PartsHeader: types.PartSetHeader{Total: 1, Hash: flip(pA, 0)}},
	}
}()

func idIndex(id types.BlockID) int {
	for i, b := range blockIDs {
		if b.Hash == id.Hash && b.PartsHeader.Total == id.PartsHeader.Total && bytes.Equal(b.PartsHeader.Hash, id.PartsHeader.Hash) {
			return i
		}
	}
	return -1
}

var timestamps = [2]time.Time{
	time.Date(2020, 1, 2, 3, 4, 5, 0, time.UTC),
	time.Date(2020, 1, 2, 3, 4, 6, 0, time.UTC),
}

// keyPool: fixed keys sorted by address, so that the first n keys, given to NewValidatorSet in any
// order, end up at set indices 0..n-1 in pool order. The last pool key is never a validator ("foreign").
const poolSize = 6

type keyEnt struct {
	priv crypto.PrivKeyEd25519
	pub  crypto.PubKey
	addr crypto.Address
}

var keyPool = func() []keyEnt {
	out := make([]keyEnt, poolSize)
	for i := range out {
		k := crypto.GenPrivKeyEd25519FromSecret([]byte(fmt.Sprintf("v%d", i)))
		out[i] = keyEnt{k, k.PubKey(), k.PubKey().Address()}
	}
	sort.Slice(out, func(a, b int) bool { return bytes.Compare(out[a].addr, out[b].addr) < 0 })
	return out
}()

// foreign returns the pool index of a key that is not among validators 0..n-1.
const foreign = poolSize - 1

// ---- vote descriptors ----

// vdesc is the complete content of one vote object: the fields it carries and how its signature was made.
// Validity is decided from the descriptor alone (which key signed which bytes), never by calling the
// repository's verification code.
type vdesc struct {
	idx     int // ValidatorIndex field
	addrOf  int // ValidatorAddress field = address of this pool key; -1 = empty
	size    int // ValidatorSize field
	height  uint64
	round   int
	typ     byte
	block   int // index into blockIDs
	ts      int // index into timestamps
	signer  int // pool key that produced the signature
	chain   string
	corrupt bool // one signature byte flipped after signing
}

func (d vdesc) String() string {
	s := fmt.Sprintf("vote{idx=%d addr=k%d size=%d h=%d r=%d type=%d block=%s ts=%d signedBy=k%d", d.idx, d.addrOf, d.size, d.height, d.round, d.typ, idName[d.block], d.ts, d.signer)
	if d.chain != chainID {
		s += " chain=" + d.chain
	}
	if d.corrupt {
		s += " sig-corrupted"
	}
	return s + "}"
}

// signedOK: the signature is a genuine signature by pool key `by` over exactly the content of this vote
// for this chain.
func (d vdesc) signedOK(by int) bool {
	return d.signer == by && d.chain == chainID && !d.corrupt
}

type sigKey struct {
	signer int
	chain  string
	height uint64
	round  int
	typ    byte
	block  int
	ts     int
}

var (
	sigMu    sync.Mutex
	sigCache = map[sigKey]crypto.SignatureEd25519{}
	signings int
)

// build materialises the vote. Signatures are produced once per distinct signed content and reused.
func (d vdesc) build() *types.Vote {
	v := &types.Vote{
		ValidatorIndex: d.idx,
		ValidatorSize:  d.size,
		Height:         d.height,
		Round:          d.round,
		Timestamp:      timestamps[d.ts],
		Type:           d.typ,
		BlockID:        blockIDs[d.block],
	}
	if d.addrOf >= 0 {
		v.ValidatorAddress = append(crypto.Address{}, keyPool[d.addrOf].addr...)
	}
	k := sigKey{d.signer, d.chain, d.height, d.round, d.typ, d.block, d.ts}
	sigMu.Lock()
	sig, ok := sigCache[k]
	if !ok {
		s, err := keyPool[d.signer].priv.Sign(v.SignBytes(d.chain))
		if err != nil {
			panic(err)
		}
		sig = s.(crypto.SignatureEd25519)
		sigCache[k] = sig
		signings++
	}
	sigMu.Unlock()
	if d.corrupt {
		sig[7] ^= 0x40
	}
	v.Signature = sig
	return v
}

// ---- validator sets ----

type world struct {
	n      int
	powers []int64
	total  *big.Int
}

func newWorld(powers []int64) *world {
	w := &world{n: len(powers), powers: powers, total: new(big.Int)}
	for _, p := range powers {
		w.total.Add(w.total, big.NewInt(p))
	}
	if w.total.Cmp(new(big.Int).Lsh(big.NewInt(1), 62)) >= 0 {
		panic("total power outside the property's bound")
	}
	return w
}

// valSet builds a fresh real validator set; validators are handed over in reverse order so the harness
// does not depend on the caller's order. Index i of the result is pool key i (checked).
func (w *world) valSet() *types.ValidatorSet { return w.valSetFrom(0) }

// valSetFrom uses pool keys off..off+n-1.
func (w *world) valSetFrom(off int) *types.ValidatorSet {
	vals := make([]*types.Validator, w.n)
	for i := 0; i < w.n; i++ {
		vals[w.n-1-i] = types.NewValidator(keyPool[off+i].pub, common.EmptyAddress, w.powers[i])
	}
	vs := types.NewValidatorSet(vals)
	for i := 0; i < w.n; i++ {
		a, v := vs.GetByIndex(i)
		if !bytes.Equal(a, keyPool[off+i].addr) || v.VotingPower != w.powers[i] {
			panic("validator set order differs from key pool order")
		}
	}
	vs.TotalVotingPower() // prime the lazily cached total before the set is shared between goroutines
	return vs
}

func (w *world) String() string { return fmt.Sprintf("n=%d powers=%v", w.n, w.powers) }

// quorum: 3*t > 2*total, in math/big.
func (w *world) quorum(t *big.Int) bool {
	return new(big.Int).Mul(t, big.NewInt(3)).Cmp(new(big.Int).Mul(w.total, big.NewInt(2))) > 0
}

// ---- commit reference ----

// relax switches off single clauses of the reference; used only to NAME the root cause of a violation.
type relax struct {
	blockID, signer, byAddr, byIdx, corrupt, chain, height, round, typ, equal bool
}

// refCommit decides whether the slots (descriptor per validator index, nil = absent) contain correctly
// signed precommits for exactly `claimed` at height h, in one common round, by validators holding more
// than two thirds of the power. Slot i counts only if signed by validator i's key (pool key off+i).
func (w *world) refCommit(slots []*vdesc, claimed int, h uint64, off int, rx relax) bool {
	rounds := map[int]*big.Int{}
	for i, d := range slots {
		if d == nil || i >= w.n {
			continue
		}
		if !rx.typ && d.typ != types.VoteTypePrecommit {
			continue
		}
		if !rx.height && d.height != h {
			continue
		}
		if !rx.blockID && d.block != claimed {
			continue
		}
		power := w.powers[i]
		if rx.byAddr {
			// tally by the address the vote names instead of by slot (double counts a validator whose vote is repeated)
			if d.addrOf < off || d.addrOf >= off+w.n || d.signer != d.addrOf {
				continue
			}
			power = w.powers[d.addrOf-off]
		} else if rx.byIdx {
			// tally by the validator index the vote declares (a field outside the signed bytes) instead of by slot
			if d.idx < 0 || d.idx >= w.n || d.signer != off+d.idx {
				continue
			}
			power = w.powers[d.idx]
		} else if !rx.signer && d.signer != off+i {
			continue
		}
		if !rx.corrupt && d.corrupt {
			continue
		}
		if !rx.chain && d.chain != chainID {
			continue
		}
		r := d.round
		if rx.round {
			r = 0
		}
		if rounds[r] == nil {
			rounds[r] = new(big.Int)
		}
		rounds[r].Add(rounds[r], big.NewInt(power))
	}
	if rx.equal && len(rounds) == 0 {
		rounds[0] = new(big.Int) // an empty tally is a tally of zero
	}
	for _, t := range rounds {
		if w.quorum(t) {
			return true
		}
		if rx.equal && w.quorum(new(big.Int).Add(t, big.NewInt(1))) {
			return true
		}
	}
	return false
}

// cause names the single clause of the reference that, if dropped, explains an acceptance the reference
// refuses. ok is false when no single clause or more than one explains it (such a case does not identify a
// root cause on its own).
func (w *world) cause(slots []*vdesc, claimed int, h uint64, off int) (name string, ok bool) {
	var hit []string
	for _, c := range []struct {
		name string
		rx   relax
	}{
		{"tally-one-short-of-quorum", relax{equal: true}},
		{"counts-other-block-id", relax{blockID: true}},
		{"counts-signature-of-other-key", relax{signer: true}},
		{"tallies-by-address-instead-of-slot", relax{byAddr: true}},
		{"tallies-by-index-field-instead-of-slot", relax{byIdx: true}},
		{"counts-corrupted-signature", relax{corrupt: true}},
		{"counts-signature-for-other-chain", relax{chain: true}},
		{"counts-other-height", relax{height: true}},
		{"counts-across-rounds", relax{round: true}},
		{"counts-non-precommit", relax{typ: true}},
	} {
		if w.refCommit(slots, claimed, h, off, c.rx) {
			hit = append(hit, c.name)
		}
	}
	if len(hit) == 1 {
		return hit[0], true
	}
	return fmt.Sprintf("%v", hit), false
}

// clean: every present slot is a correctly signed precommit of its own validator at height h and all
// present slots share one round (any block id). On such commits acceptance must coincide with the
// reference exactly.
func (w *world) clean(slots []*vdesc, h uint64, off int) bool {
	if len(slots) != w.n {
		return false
	}
	round, have := 0, false
	for i, d := range slots {
		if d == nil {
			continue
		}
		if d.typ != types.VoteTypePrecommit || d.height != h || !d.signedOK(off+i) {
			return false
		}
		if have && d.round != round {
			return false
		}
		round, have = d.round, true
	}
	return true
}

// ---- the slot alphabet of a commit ----

const (
	H = uint64(1) // height the commit is for (block validation needs a height-2 block on top of it)
	R = 1         // round of the honest votes (non-zero, so that a defaulted round is visible)
)

type slotVariant struct {
	name string
	mk   func(w *world, i, off int) *vdesc // nil = absent
}

func other(w *world, i, off int) int {
	if w.n == 1 {
		return foreign
	}
	return off + (i+1)%w.n
}

func base(w *world, i, off int) vdesc {
	return vdesc{idx: i, addrOf: off + i, size: w.n, height: H, round: R, typ: types.VoteTypePrecommit, block: idA, signer: off + i, chain: chainID}
}

func variant(name string, f func(w *world, i, off int, d *vdesc)) slotVariant {
	return slotVariant{name, func(w *world, i, off int) *vdesc {
		d := base(w, i, off)
		f(w, i, off, &d)
		return &d
	}}
}

// cleanVariants come first: index < numClean.
var slotVariants = []slotVariant{
	{"absent", func(*world, int, int) *vdesc { return nil }},
	variant("nil", func(w *world, i, off int, d *vdesc) { d.block = idNil }),
	variant("A", func(w *world, i, off int, d *vdesc) {}),
	variant("B", func(w *world, i, off int, d *vdesc) { d.block = idB }),
	variant("C", func(w *world, i, off int, d *vdesc) { d.block = idC }),
	variant("A@H+1", func(w *world, i, off int, d *vdesc) { d.height = H + 1 }),
	variant("A@H-1", func(w *world, i, off int, d *vdesc) { d.height = H - 1 }),
	variant("A@R+1", func(w *world, i, off int, d *vdesc) { d.round = R + 1 }),
	variant("A-prevote", func(w *world, i, off int, d *vdesc) { d.typ = types.VoteTypePrevote }),
	variant("A-other-chain", func(w *world, i, off int, d *vdesc) { d.chain = otherChain }),
	variant("A-bad-sig", func(w *world, i, off int, d *vdesc) { d.corrupt = true }),
	variant("A-sig-of-other-validator", func(w *world, i, off int, d *vdesc) { d.signer = other(w, i, off) }),
	variant("A-wrong-index-field", func(w *world, i, off int, d *vdesc) { d.idx = (i + 1) % (w.n + 1) }),
	variant("A-wrong-address-field", func(w *world, i, off int, d *vdesc) { d.addrOf = other(w, i, off) }),
	variant("A-wrong-size-field", func(w *world, i, off int, d *vdesc) { d.size = w.n + 1 }),
	variant("A-whole-vote-of-other-validator", func(w *world, i, off int, d *vdesc) {
		o := other(w, i, off)
		d.signer, d.addrOf, d.idx = o, o, o-off
	}),
}

const numClean = 5

// slotTable pre-builds (and pre-signs) every variant for every slot of a world.
type slotTable struct {
	desc  [][]*vdesc
	votes [][]*types.Vote
}

func (w *world) slotTable(off int, ids [4]int) *slotTable {
	t := &slotTable{}
	for i := 0; i < w.n; i++ {
		var ds []*vdesc
		var vs []*types.Vote
		for _, sv := range slotVariants {
			d := sv.mk(w, i, off)
			if d != nil {
				d.block = ids[d.block]
			}
			ds = append(ds, d)
			if d == nil {
				vs = append(vs, nil)
			} else {
				vs = append(vs, d.build())
			}
		}
		t.desc = append(t.desc, ds)
		t.votes = append(t.votes, vs)
	}
	return t
}

// powerVectors: all vectors over {1,2,3,5} of length n.
func powerVectors(n int) [][]int64 {
	vals := []int64{1, 2, 3, 5}
	var out [][]int64
	cur := make([]int64, n)
	var rec func(i int)
	rec = func(i int) {
		if i == n {
			out = append(out, append([]int64{}, cur...))
			return
		}
		for _, v := range vals {
			cur[i] = v
			rec(i + 1)
		}
	}
	rec(0)
	return out
}

// boundaryVectors: totals just below 2^62 (the property's bound).
func boundaryVectors() [][]int64 {
	return [][]int64{
		{1 << 61, 1<<61 - 1},
		{1<<62 - 2, 1},
		{(1<<63 - 1) / 4, (1<<63 - 1) / 4},
		{1<<61 - 1, 1 << 60, 1 << 60},
		{1 << 60, 1 << 60, 1 << 60, 1<<60 - 1},
		{1<<62 - 4, 1, 1, 1},
	}
}
