package main

import (
	"bytes"
	"fmt"
	"math/big"
	"sort"
	"strings"
	"sync"

	"verif/vk"

	"github.com/lianxiangcloud/linkchain/types"
	"github.com/pkg/errors"
)

// Part 2: VoteSet under every arrival order. Explicit-state search (vk.Explore) over sequences of
//   - valid votes of every validator for A, B, nil (and a second, differently signed vote for A),
//   - invalid votes (wrong height/round/type/chain, corrupted or foreign signature, wrong or out-of-range
//     index, wrong/empty address, wrong size, nil vote),
//   - SetPeerMaj23 claims of two peers,
// every step executed on a fresh real VoteSet and compared with a reference tally kept in plain maps.

type evKind int

const (
	evVote evKind = iota
	evClaim
	evNilVote
)

type event struct {
	kind  evKind
	name  string
	d     vdesc
	vote  *types.Vote
	valid bool // all fields right and correctly signed by validator d.idx
	peer  string
	block int
}

type vsCfg struct {
	w      *world
	typ    byte
	events []event
	byVote map[*types.Vote]int
	blocks []int // block-id alphabet: blocks[0] = A, blocks[1] = its main competitor, ..., nil last
	name   string
}

func newVSCfg(w *world, typ byte, blocks []int, fullInvalid bool) *vsCfg {
	c := &vsCfg{w: w, typ: typ, byVote: map[*types.Vote]int{}}
	var bn []string
	for _, b := range blocks {
		bn = append(bn, idName[b])
	}
	c.name = fmt.Sprintf("voteset/%s/type%d/ids=%s", w.String(), typ, strings.Join(bn, ","))
	c.blocks = blocks
	alt := blocks[1] // the block id that competes with A
	otherTyp := types.VoteTypePrevote
	if typ == types.VoteTypePrevote {
		otherTyp = types.VoteTypePrecommit
	}
	add := func(name string, d vdesc, valid bool) {
		c.events = append(c.events, event{kind: evVote, name: name, d: d, vote: d.build(), valid: valid})
	}
	b := func(i int) vdesc {
		d := base(w, i, 0)
		d.typ = typ
		return d
	}
	// valid votes first (simplest first)
	for _, blk := range blocks {
		for i := 0; i < w.n; i++ {
			d := b(i)
			d.block = blk
			add(fmt.Sprintf("v%d:%s", i, idName[blk]), d, true)
		}
	}
	for p := 0; p < 2; p++ {
		for _, blk := range blocks {
			if blk == idNil && p == 1 {
				continue
			}
			c.events = append(c.events, event{kind: evClaim, name: fmt.Sprintf("peer%d-claims-maj23:%s", p, idName[blk]), peer: fmt.Sprintf("peer%d", p), block: blk})
		}
	}
	for i := 0; i < w.n; i++ {
		d := b(i)
		d.ts = 1
		add(fmt.Sprintf("v%d:A-signed-again", i), d, true)
	}
	inv := []struct {
		name string
		f    func(i int, d *vdesc)
		full bool
	}{ // the part of the name before the first '-' or '@' is not a category; categories are derived in category()
		{"A-bad-sig", func(i int, d *vdesc) { d.corrupt = true }, false},
		{"B-bad-sig", func(i int, d *vdesc) { d.corrupt = true; d.block = alt }, false},
		{"A-sig-of-other-validator", func(i int, d *vdesc) { d.signer = other(w, i, 0) }, false},
		{"A-other-chain", func(i int, d *vdesc) { d.chain = otherChain }, false},
		{"A@H+1", func(i int, d *vdesc) { d.height = H + 1 }, false},
		{"A@R+1", func(i int, d *vdesc) { d.round = R + 1 }, false},
		{"A-other-type", func(i int, d *vdesc) { d.typ = otherTyp }, false},
		{"A-wrong-index", func(i int, d *vdesc) { d.idx = (i + 1) % (w.n + 1) }, false},
		{"A-wrong-address", func(i int, d *vdesc) { d.addrOf = other(w, i, 0) }, false},
		{"A-wrong-size", func(i int, d *vdesc) { d.size = w.n + 1 }, false},
		{"A-index-minus-1", func(i int, d *vdesc) { d.idx = -1 }, true},
		{"A-index-out-of-range", func(i int, d *vdesc) { d.idx = w.n }, true},
		{"A-empty-address", func(i int, d *vdesc) { d.addrOf = -1 }, true},
		{"A@R-1", func(i int, d *vdesc) { d.round = R - 1 }, true},
	}
	for _, iv := range inv {
		if iv.full && !fullInvalid {
			continue
		}
		for i := 0; i < w.n; i++ {
			d := b(i)
			iv.f(i, &d)
			add(fmt.Sprintf("v%d:%s", i, iv.name), d, false)
		}
	}
	c.events = append(c.events, event{kind: evNilVote, name: "nil-vote-pointer"})
	for i := range c.events {
		if c.events[i].vote != nil {
			c.byVote[c.events[i].vote] = i
		}
	}
	return c
}

// category maps an invalid-vote kind to the clause of the property it violates (one violation key per clause).
func category(kind string) string {
	switch kind {
	case "A-bad-sig", "B-bad-sig", "A-sig-of-other-validator", "A-other-chain":
		return "signature"
	case "A@H+1":
		return "height"
	case "A@R+1", "A@R-1":
		return "round"
	case "A-other-type":
		return "type"
	case "A-wrong-index", "A-index-minus-1", "A-index-out-of-range":
		return "index"
	case "A-wrong-address", "A-empty-address":
		return "address"
	case "A-wrong-size":
		return "size"
	}
	return kind
}

// ---- reference tally ----

type mblock struct {
	peer   bool
	voters map[int]int // validator -> event id of the counted vote
	sum    int64
}

type model struct {
	c      *vsCfg
	first  []int // event id of the vote kept as the validator's canonical vote (-1 none)
	sum    int64 // power of validators counted in the round total
	blocks map[int]*mblock
	maj23  int // block index, -1 none
	peers  map[string]int
}

func newModel(c *vsCfg) *model {
	m := &model{c: c, first: make([]int, c.w.n), blocks: map[int]*mblock{}, maj23: -1, peers: map[string]int{}}
	for i := range m.first {
		m.first[i] = -1
	}
	return m
}

// outcome classes of AddVote
const (
	clAdded           = "added"
	clDuplicate       = "duplicate"
	clConflictAdded   = "conflict-evidence+added"
	clConflictDropped = "conflict-evidence+dropped"
	clNil             = "nil-vote"
	clIndex           = "invalid-index"
	clAddress         = "invalid-address"
	clSize            = "invalid-size"
	clStep            = "unexpected-step"
	clSignature       = "invalid-signature"
	clNonDet          = "non-deterministic-signature"
)

func rejected(cl string) bool {
	switch cl {
	case clNil, clIndex, clAddress, clSize, clStep, clSignature, clNonDet:
		return true
	}
	return false
}

func (m *model) known(v, blk int) (int, bool) {
	if f := m.first[v]; f >= 0 && m.c.events[f].d.block == blk {
		return f, true
	}
	if b := m.blocks[blk]; b != nil {
		if e, ok := b.voters[v]; ok {
			return e, true
		}
	}
	return -1, false
}

func (m *model) quorumReached(before, after int64) bool {
	w := m.c.w
	return !w.quorum(big.NewInt(before)) && w.quorum(big.NewInt(after))
}

// addVote returns the expected class and, for conflicts, the event id of the vote it conflicts with.
func (m *model) addVote(eid int) (string, int) {
	c, w := m.c, m.c.w
	e := &c.events[eid]
	d := e.d
	switch {
	case d.idx < 0:
		return clIndex, -1
	case d.addrOf < 0:
		return clAddress, -1
	case d.size != w.n:
		return clSize, -1
	case d.height != H || d.round != R || d.typ != c.typ:
		return clStep, -1
	case d.idx >= w.n:
		return clIndex, -1
	case d.addrOf != d.idx:
		return clAddress, -1
	}
	v := d.idx
	if prev, ok := m.known(v, d.block); ok {
		if bytes.Equal(c.events[prev].vote.Signature.Bytes(), e.vote.Signature.Bytes()) {
			return clDuplicate, -1
		}
		return clNonDet, -1
	}
	if !d.signedOK(v) {
		return clSignature, -1
	}
	conflict := -1
	if m.first[v] >= 0 {
		conflict = m.first[v]
		if m.maj23 == d.block {
			m.first[v] = eid
		}
	} else {
		m.first[v] = eid
		m.sum += w.powers[v]
	}
	b := m.blocks[d.block]
	if b != nil {
		if conflict >= 0 && !b.peer {
			return clConflictDropped, conflict
		}
	} else {
		if conflict >= 0 {
			return clConflictDropped, conflict
		}
		b = &mblock{voters: map[int]int{}}
		m.blocks[d.block] = b
	}
	before := b.sum
	if _, ok := b.voters[v]; !ok {
		b.voters[v] = eid
		b.sum += w.powers[v]
	}
	if m.quorumReached(before, b.sum) && m.maj23 < 0 {
		m.maj23 = d.block
		for vv, ee := range b.voters {
			m.first[vv] = ee
		}
	}
	if conflict >= 0 {
		return clConflictAdded, conflict
	}
	return clAdded, -1
}

// claim returns whether an error is expected.
func (m *model) claim(peer string, blk int) bool {
	if ex, ok := m.peers[peer]; ok {
		return ex != blk
	}
	m.peers[peer] = blk
	if b := m.blocks[blk]; b != nil {
		b.peer = true
	} else {
		m.blocks[blk] = &mblock{peer: true, voters: map[int]int{}}
	}
	return false
}

func (m *model) key() string {
	var sb strings.Builder
	fmt.Fprintf(&sb, "f%v|s%d|m%d|", m.first, m.sum, m.maj23)
	bl := make([]int, 0, len(m.blocks))
	for b := range m.blocks {
		bl = append(bl, b)
	}
	sort.Ints(bl)
	for _, b := range bl {
		mb := m.blocks[b]
		fmt.Fprintf(&sb, "b%d:%v:", b, mb.peer)
		vs := make([]int, 0, len(mb.voters))
		for v := range mb.voters {
			vs = append(vs, v)
		}
		sort.Ints(vs)
		for _, v := range vs {
			fmt.Fprintf(&sb, "%d=%d,", v, mb.voters[v])
		}
		sb.WriteByte('|')
	}
	ps := make([]string, 0, len(m.peers))
	for p, b := range m.peers {
		ps = append(ps, fmt.Sprintf("%s=%d", p, b))
	}
	sort.Strings(ps)
	sb.WriteString(strings.Join(ps, ","))
	return sb.String()
}

// ---- observing the real vote set ----

func classify(added bool, err error) string {
	if err == nil {
		if added {
			return clAdded
		}
		return clDuplicate
	}
	if _, ok := err.(*types.ErrVoteConflictingVotes); ok {
		if added {
			return clConflictAdded
		}
		return clConflictDropped
	}
	cl := "other-error:" + err.Error()
	switch errors.Cause(err) {
	case types.ErrVoteNil:
		cl = clNil
	case types.ErrVoteInvalidValidatorIndex:
		cl = clIndex
	case types.ErrVoteInvalidValidatorAddress:
		cl = clAddress
	case types.ErrVoteInvalidValidatorSize:
		cl = clSize
	case types.ErrVoteUnexpectedStep:
		cl = clStep
	case types.ErrVoteInvalidSignature:
		cl = clSignature
	case types.ErrVoteNonDeterministicSignature:
		cl = clNonDet
	}
	if added {
		cl += "+added"
	}
	return cl
}

func snapString(t types.VerifC03Tally) string {
	var sb strings.Builder
	fmt.Fprintf(&sb, "sum=%d maj=%v votes=", t.Sum, t.Maj23)
	for _, v := range t.Votes {
		fmt.Fprintf(&sb, "%p,", v)
	}
	ks := make([]string, 0, len(t.ByBlock))
	for k := range t.ByBlock {
		ks = append(ks, k)
	}
	sort.Strings(ks)
	for _, k := range ks {
		b := t.ByBlock[k]
		fmt.Fprintf(&sb, "|%x:%v:%d:", k, b.PeerMaj23, b.Sum)
		for _, v := range b.Votes {
			fmt.Fprintf(&sb, "%p,", v)
		}
	}
	ps := make([]string, 0, len(t.Peers))
	for p, id := range t.Peers {
		ps = append(ps, p+"="+id.Key())
	}
	sort.Strings(ps)
	sb.WriteString(strings.Join(ps, ","))
	return sb.String()
}

var p2classes sync.Map // observed class -> true
var p2count struct {
	sync.Mutex
	addVotes, claims, makeCommits, maj23States, conflictSteps, invalidSteps int
}

// exec replays hist on a fresh real VoteSet and the model; the oracle is evaluated on the last step (every
// prefix was the last step of a shorter history).
func (c *vsCfg) exec(hist []int) (out vk.Outcome) {
	w := c.w
	valSet := w.valSet()
	vs := types.NewVoteSet(chainID, H, R, c.typ, valSet)
	m := newModel(c)
	fail := func(key, what string) vk.Outcome { return vk.Outcome{Err: key, What: what} }
	var addN, claimN int
	defer func() {
		p2count.Lock()
		p2count.addVotes += addN
		p2count.claims += claimN
		p2count.Unlock()
	}()
	for step, eid := range hist {
		last := step == len(hist)-1
		e := &c.events[eid]
		var before string
		var prevMaj int = m.maj23
		if last {
			before = snapString(types.VerifC03Snapshot(vs))
		}
		switch e.kind {
		case evClaim:
			claimN++
			var err error
			if p, pv := vk.Catch(func() { err = vs.SetPeerMaj23(e.peer, blockIDs[e.block]) }); p {
				return fail("voteset:panic:SetPeerMaj23", fmt.Sprint(pv))
			}
			wantErr := m.claim(e.peer, e.block)
			if last && wantErr != (err != nil) {
				return fail("voteset:model-divergence:SetPeerMaj23-error", fmt.Sprintf("SetPeerMaj23 error=%v, reference expects error=%v", err, wantErr))
			}
		case evVote, evNilVote:
			addN++
			var added bool
			var err error
			if p, pv := vk.Catch(func() { added, err = vs.AddVote(e.vote) }); p {
				return fail("voteset:panic:AddVote", fmt.Sprintf("AddVote(%s) panics: %v", e.name, pv))
			}
			got := classify(added, err)
			want, conflictWith := clNil, -1
			// the validator's canonical vote before this step: the first valid vote a validator delivers is always
			// kept, so "has a valid vote for another block id on record" is a fact of the history, not of a policy
			earlier := -1
			if e.kind == evVote && e.d.idx >= 0 && e.d.idx < w.n {
				earlier = m.first[e.d.idx]
			}
			if e.kind == evVote {
				want, conflictWith = m.addVote(eid)
			}
			if !last {
				continue
			}
			p2classes.Store(got, true)
			after := types.VerifC03Snapshot(vs)
			// -- what the property states, independent of the reference's bookkeeping policy --
			if e.kind == evNilVote || !e.valid {
				p2count.Lock()
				p2count.invalidSteps++
				p2count.Unlock()
				kind := "nil-vote"
				if e.kind == evVote {
					kind = e.name[strings.Index(e.name, ":")+1:]
				}
				_, isConf := err.(*types.ErrVoteConflictingVotes)
				if added || snapString(after) != before || err == nil || isConf {
					return fail("voteset:invalid-vote-not-rejected:"+category(kind), fmt.Sprintf("AddVote(%s) returned added=%v err=%v (tally changed: %v); an invalid vote must be refused with an error, leave the tally alone and never become evidence",
						e.d, added, err, snapString(after) != before))
				}
			}
			if e.kind == evVote && e.valid {
				equivocation := earlier >= 0 && c.events[earlier].d.block != e.d.block
				ce, isConf := err.(*types.ErrVoteConflictingVotes)
				if want != clDuplicate && want != clNonDet && equivocation && !isConf {
					return fail("voteset:equivocation-not-surfaced", fmt.Sprintf("validator %d already voted for another block id; AddVote(%s) returned added=%v err=%v instead of conflicting-vote evidence", e.d.idx, e.d, added, err))
				}
				if isConf {
					p2count.Lock()
					p2count.conflictSteps++
					p2count.Unlock()
					if k, what := c.checkEvidence(ce, e); k != "" {
						return fail(k, what)
					}
				}
			}
			if got != want {
				return fail("voteset:model-divergence:AddVote-result:"+want+"->"+got, fmt.Sprintf("AddVote(%s): got %s (err=%v), reference expects %s", e.d, got, err, want))
			}
			if ce, ok := err.(*types.ErrVoteConflictingVotes); ok && conflictWith >= 0 && ce.VoteA != c.events[conflictWith].vote {
				return fail("voteset:model-divergence:evidence-vote", "evidence names a different earlier vote than the reference")
			}
		}
		if !last {
			continue
		}
		if k, what := c.checkState(vs, m, prevMaj); k != "" {
			return fail(k, what)
		}
	}
	return vk.Outcome{Key: m.key()}
}

// checkEvidence: evidence must consist of two correctly signed votes of one validator of the set for different
// block ids at this height/round/type, the second being the vote just delivered.
func (c *vsCfg) checkEvidence(ce *types.ErrVoteConflictingVotes, e *event) (string, string) {
	if ce.DuplicateVoteEvidence == nil || ce.VoteA == nil || ce.VoteB == nil {
		return "voteset:bogus-evidence", "conflict error without two votes"
	}
	ia, oka := c.byVote[ce.VoteA]
	ib, okb := c.byVote[ce.VoteB]
	if !oka || !okb {
		return "voteset:bogus-evidence", "evidence contains a vote that was never delivered"
	}
	a, b := c.events[ia], c.events[ib]
	if ce.VoteB != e.vote || !a.valid || !b.valid || a.d.idx != b.d.idx || a.d.block == b.d.block ||
		!bytes.Equal(ce.PubKey.Address(), keyPool[a.d.idx].addr) {
		return "voteset:bogus-evidence", fmt.Sprintf("evidence {%s, %s} is not a pair of valid conflicting votes of the validator whose key it names", a.d, b.d)
	}
	return "", ""
}

func (c *vsCfg) checkState(vs *types.VoteSet, m *model, prevMaj int) (string, string) {
	w := c.w
	snap := types.VerifC03Snapshot(vs)
	// stored votes: only fully valid votes, each in its own validator's slot, each tally for one block id
	tallyPower := map[int]*big.Int{}
	for k, bt := range snap.ByBlock {
		var s int64
		blk := -1
		for v, vote := range bt.Votes {
			if vote == nil {
				continue
			}
			eid, known := c.byVote[vote]
			if !known || !c.events[eid].valid || c.events[eid].d.idx != v {
				return "voteset:block-tally-holds-invalid-vote", fmt.Sprintf("block tally %x slot %d holds a vote that is not a valid vote of that validator", k, v)
			}
			if blk >= 0 && blk != c.events[eid].d.block {
				return "voteset:block-tally-mixes-block-ids", "one block tally holds votes for two block ids"
			}
			blk = c.events[eid].d.block
			if blockIDs[blk].Key() != k {
				return "voteset:block-tally-mixes-block-ids", "vote stored under another block id's tally"
			}
			s += w.powers[v]
		}
		// every validator at most once per block id
		if s != bt.Sum {
			return "voteset:block-sum-wrong", fmt.Sprintf("block tally %x: sum %d, its distinct voters hold %d", k, bt.Sum, s)
		}
		if blk >= 0 {
			tallyPower[blk] = big.NewInt(s)
		}
	}
	anyPower := new(big.Int)
	anySum := int64(0)
	for v, vote := range snap.Votes {
		if vote == nil {
			continue
		}
		eid, known := c.byVote[vote]
		if !known || !c.events[eid].valid || c.events[eid].d.idx != v {
			return "voteset:canonical-vote-invalid", fmt.Sprintf("slot %d of the vote set holds a vote that is not a valid vote of that validator", v)
		}
		anyPower.Add(anyPower, big.NewInt(w.powers[v]))
		anySum += w.powers[v]
	}
	// every validator once in the round total
	if snap.Sum != anySum {
		return "voteset:round-sum-wrong", fmt.Sprintf("round sum %d, but the validators with a valid vote on record hold %d", snap.Sum, anySum)
	}
	// at most one majority, sound, stable
	id, ok := vs.TwoThirdsMajority()
	gotMaj := -1
	if ok {
		gotMaj = idIndex(id)
		if gotMaj < 0 {
			return "voteset:maj23-unknown-block-id", fmt.Sprintf("TwoThirdsMajority reports %v which nobody voted for", id)
		}
		t := tallyPower[gotMaj]
		if t == nil {
			t = new(big.Int)
		}
		if !w.quorum(t) {
			return "voteset:maj23-without-quorum", fmt.Sprintf("TwoThirdsMajority reports %s but the validators with a valid vote for it hold only %v of %v", idName[gotMaj], t, w.total)
		}
	}
	if prevMaj >= 0 && gotMaj != prevMaj {
		return "voteset:maj23-changed", fmt.Sprintf("two-thirds majority changed from %s to %v", idName[prevMaj], gotMaj)
	}
	if ok != vs.HasTwoThirdsMajority() || vs.IsCommit() != (ok && c.typ == types.VoteTypePrecommit) {
		return "voteset:maj23-observers-disagree", "TwoThirdsMajority / HasTwoThirdsMajority / IsCommit disagree"
	}
	if vs.HasTwoThirdsAny() && !w.quorum(anyPower) {
		return "voteset:two-thirds-any-without-quorum", fmt.Sprintf("HasTwoThirdsAny although validators holding only %v of %v voted", anyPower, w.total)
	}
	if vs.HasTwoThirdsAny() != w.quorum(anyPower) {
		return "voteset:model-divergence:HasTwoThirdsAny", fmt.Sprintf("HasTwoThirdsAny=%v with %v of %v", vs.HasTwoThirdsAny(), anyPower, w.total)
	}
	if vs.HasAll() != (anyPower.Cmp(w.total) == 0) {
		return "voteset:model-divergence:HasAll", "HasAll disagrees with the reference"
	}
	// exact agreement with the reference tally
	if gotMaj != m.maj23 {
		return "voteset:model-divergence:maj23", fmt.Sprintf("two-thirds majority: got %d, reference %d", gotMaj, m.maj23)
	}
	if snap.Sum != m.sum {
		return "voteset:model-divergence:sum", fmt.Sprintf("sum %d, reference %d", snap.Sum, m.sum)
	}
	if len(snap.ByBlock) != len(m.blocks) {
		return "voteset:model-divergence:block-tallies", fmt.Sprintf("%d block tallies, reference %d", len(snap.ByBlock), len(m.blocks))
	}
	for blk, mb := range m.blocks {
		bt, ok := snap.ByBlock[blockIDs[blk].Key()]
		if !ok || bt.Sum != mb.sum || bt.PeerMaj23 != mb.peer || len(bt.Voters) != len(mb.voters) {
			return "voteset:model-divergence:block-tallies", fmt.Sprintf("tally of %s: got %+v, reference sum=%d peer=%v voters=%v", idName[blk], bt, mb.sum, mb.peer, mb.voters)
		}
		for _, v := range bt.Voters {
			if e, ok := mb.voters[v]; !ok || c.events[e].vote != bt.Votes[v] {
				return "voteset:model-divergence:block-tallies", fmt.Sprintf("tally of %s: voter %d differs from the reference", idName[blk], v)
			}
		}
	}
	if len(snap.Peers) != len(m.peers) {
		return "voteset:model-divergence:peer-claims", "recorded peer claims differ from the reference"
	}
	for p, blk := range m.peers {
		if id, ok := snap.Peers[p]; !ok || !id.Equals(blockIDs[blk]) {
			return "voteset:model-divergence:peer-claims", "recorded peer claims differ from the reference"
		}
	}
	// the public per-block view, asked by the FULL block id
	for _, blk := range c.blocks {
		bb := vs.BitArrayByBlockID(blockIDs[blk])
		mb := m.blocks[blk]
		diverges := (bb == nil) != (mb == nil)
		for v := 0; !diverges && mb != nil && v < w.n; v++ {
			_, voted := mb.voters[v]
			diverges = bb.GetIndex(v) != voted
		}
		if !diverges {
			continue
		}
		// root cause, if it is this one: two different ids of the alphabet are filed under one tally key
		for _, o := range c.blocks {
			if o != blk && blockIDs[o].Key() == blockIDs[blk].Key() {
				return "voteset:distinct-block-ids-share-a-tally", fmt.Sprintf("the per-block view of %s shows the votes of another id: %s and %s are different block ids (%v vs %v) but are tallied under one key %q",
					idName[blk], idName[blk], idName[o], blockIDs[blk], blockIDs[o], blockIDs[blk].Key())
			}
		}
		return "voteset:model-divergence:BitArrayByBlockID", fmt.Sprintf("BitArrayByBlockID(%s) = %v differs from the reference tally of that id", idName[blk], bb)
	}
	ba := vs.BitArray()
	for v := 0; v < w.n; v++ {
		var want *types.Vote
		if m.first[v] >= 0 {
			want = c.events[m.first[v]].vote
		}
		if vs.GetByIndex(v) != want || snap.Votes[v] != want || ba.GetIndex(v) != (want != nil) {
			return "voteset:model-divergence:canonical-votes", fmt.Sprintf("canonical vote of validator %d differs from the reference", v)
		}
	}
	// a reported majority must yield a commit that is one by the reference, and that VerifyCommit accepts
	if ok && c.typ == types.VoteTypePrecommit {
		p2count.Lock()
		p2count.maj23States++
		p2count.makeCommits++
		p2count.Unlock()
		var commit *types.Commit
		if p, pv := vk.Catch(func() { commit = vs.MakeCommit() }); p {
			return "voteset:panic:MakeCommit", fmt.Sprint(pv)
		}
		slots := make([]*vdesc, len(commit.Precommits))
		for i, pc := range commit.Precommits {
			if pc == nil {
				continue
			}
			eid, known := c.byVote[pc]
			if !known {
				return "voteset:makecommit-foreign-vote", "MakeCommit contains a vote that was never delivered"
			}
			slots[i] = &c.events[eid].d
		}
		if !commit.BlockID.Equals(id) || !w.refCommit(slots, gotMaj, H, 0, relax{}) {
			return "voteset:makecommit-without-quorum", fmt.Sprintf("MakeCommit for %s is not a commit by the reference", idName[gotMaj])
		}
		var err error
		if p, pv := vk.Catch(func() { err = w.valSet().VerifyCommit(chainID, id, H, commit) }); p {
			return "voteset:panic:VerifyCommit(MakeCommit)", fmt.Sprint(pv)
		}
		if err != nil {
			return "voteset:makecommit-rejected-by-verifycommit", fmt.Sprintf("the commit the vote set produces for %s is rejected by VerifyCommit under the same validator set: %v", idName[gotMaj], err)
		}
	}
	return "", ""
}

func runVoteSet(r *vk.Run, c *vsCfg, depth int) vk.Result {
	return r.Explore(vk.Spec{
		Name:            c.name,
		NumOps:          len(c.events),
		OpName:          func(i int) string { return c.events[i].name },
		Depth:           depth,
		MergeCheckEvery: 499,
		Exec: func(hist []int) (out vk.Outcome) {
			defer func() {
				if e := recover(); e != nil {
					out = vk.Outcome{Err: "voteset:panic:harness-or-observer", What: fmt.Sprint(e)}
				}
			}()
			return c.exec(hist)
		},
	})
}
