package main

import (
	"fmt"
	"sync"
	"sync/atomic"

	"verif/vk"

	"github.com/lianxiangcloud/linkchain/types"
)

// Part 1: ValidatorSet.VerifyCommit on every assignment of slot variants, for every claimed block id.

type p1stats struct {
	cases, accepted, refAccept, cleanCases, cleanAccept, panics int64
	verdicts                                                    sync.Map // error class -> *int64
}

func (s *p1stats) verdict(k string) {
	v, _ := s.verdicts.LoadOrStore(k, new(int64))
	atomic.AddInt64(v.(*int64), 1)
}

// panicKey: the code under test at `site` panicked while judging a commit; the reference always has a verdict.
func panicKey(site string) string { return site + ":panic-instead-of-verdict" }

func errClass(err error) string {
	if err == nil {
		return "accept"
	}
	m := err.Error()
	if len(m) >= 6 && m[:6] == "panic:" {
		return "panic"
	}
	for _, k := range []string{"wrong set size", "wrong height", "wrong round", "not precommit", "invalid signature", "insufficient voting power",
		"Commit cannot be for nil block", "Invalid commit vote", "Invalid commit precommit height", "Invalid commit precommit round", "Wrong Block.Header.LastCommitHash"} {
		if len(m) >= len(k) && contains(m, k) {
			return k
		}
	}
	return "other:" + m
}

func contains(s, sub string) bool {
	for i := 0; i+len(sub) <= len(s); i++ {
		if s[i:i+len(sub)] == sub {
			return true
		}
	}
	return false
}

// decode writes the variant index of every slot for assignment number a (slot 0 = least significant).
func decode(a, nv, n int, out []int) {
	for i := 0; i < n; i++ {
		out[i] = a % nv
		a /= nv
	}
}

func pow(b, e int) int {
	r := 1
	for ; e > 0; e-- {
		r *= b
	}
	return r
}

func describe(w *world, tab *slotTable, asg []int, claimed int) map[string]interface{} {
	names := make([]string, len(asg))
	for i, v := range asg {
		names[i] = slotVariants[v].name
	}
	return map[string]interface{}{"validators": w.String(), "slots": names, "claimed": idName[claimed], "height": H}
}

// runVerifyCommit enumerates all nv^n assignments x claimed ids on world w. nv limits the alphabet to the
// first nv variants (numClean = clean alphabet, len(slotVariants) = everything).
func runVerifyCommit(rp *reporter, st *p1stats, w *world, nv int, claimedIDs []int) {
	r := rp.r
	tab := w.slotTable(0, stdIDs)
	vs := w.valSet()
	total := pow(nv, w.n)
	r.Sample(map[string]interface{}{"part": "VerifyCommit", "validators": w.String(), "slot_alphabet": nv, "assignments": total, "claimed_ids": len(claimedIDs)})
	chunk := total / 256 // enough chunks to occupy all CPUs even for small spaces
	if chunk < 1 {
		chunk = 1
	} else if chunk > 256 {
		chunk = 256
	}
	nchunks := (total + chunk - 1) / chunk
	vk.ParallelFor(nchunks, func(c int) {
		if r.Expired() {
			return
		}
		asg := make([]int, w.n)
		slots := make([]*vdesc, w.n)
		for a := c * chunk; a < (c+1)*chunk && a < total; a++ {
			decode(a, nv, w.n, asg)
			for i, v := range asg {
				slots[i] = tab.desc[i][v]
			}
			clean := w.clean(slots, H, 0)
			for ci, claimed := range claimedIDs {
				// the Commit's own BlockID field: the claimed id, and (up to three validators) also another id —
				// what counts is the id the caller asks about
				fields := []int{claimed}
				if w.n <= 3 && len(claimedIDs) > 1 {
					fields = append(fields, claimedIDs[(ci+1)%len(claimedIDs)])
				}
				for _, field := range fields {
					pre := make([]*types.Vote, w.n)
					for i, v := range asg {
						pre[i] = tab.votes[i][v]
					}
					commit := &types.Commit{BlockID: blockIDs[field], Precommits: pre}
					var err error
					if p, pv := vk.Catch(func() { err = vs.VerifyCommit(chainID, blockIDs[claimed], H, commit) }); p {
						// a panic of the code under test is an observation, not a harness fault: the commit gets neither of the
						// two verdicts the reference allows (and the node that verifies it dies)
						err = fmt.Errorf("panic: %v", pv)
						atomic.AddInt64(&st.panics, 1)
						r.Violation(panicKey("verifycommit"), fmt.Sprintf("VerifyCommit panics (%v) instead of accepting or rejecting a commit for %s", pv, idName[claimed]), describe(w, tab, asg, claimed))
					}
					ref := w.refCommit(slots, claimed, H, 0, relax{})
					atomic.AddInt64(&st.cases, 1)
					st.verdict(errClass(err))
					if ref {
						atomic.AddInt64(&st.refAccept, 1)
					}
					if clean {
						atomic.AddInt64(&st.cleanCases, 1)
					}
					if err == nil {
						atomic.AddInt64(&st.accepted, 1)
						if clean {
							atomic.AddInt64(&st.cleanAccept, 1)
						}
						if !ref {
							rp.accepts("verifycommit", w, append([]*vdesc{}, slots...), claimed, 0,
								fmt.Sprintf("VerifyCommit accepts a commit for %s at height %d although correctly signed precommits for exactly that id in one round do not exceed 2/3 of the power", idName[claimed], H),
								describe(w, tab, asg, claimed))
						}
					} else if clean && ref && errClass(err) != "panic" {
						r.Violation("verifycommit:rejects-valid-commit",
							fmt.Sprintf("VerifyCommit rejects (%v) a commit whose present slots are all correctly signed precommits of one round and whose votes for %s exceed 2/3", err, idName[claimed]),
							describe(w, tab, asg, claimed))
					}
				}
			}
		}
	})
}

// runWrongSize: commits with one slot too few / one too many (the extra slot holds a correctly signed vote of
// a key outside the set). Soundness only: acceptance needs the reference quorum over the set's own slots.
func runWrongSize(rp *reporter, st *p1stats, w *world) {
	r := rp.r
	tab := w.slotTable(0, stdIDs)
	vs := w.valSet()
	nv := numClean
	total := pow(nv, w.n)
	extra := vdesc{idx: w.n, addrOf: foreign, size: w.n, height: H, round: R, typ: types.VoteTypePrecommit, block: idA, signer: foreign, chain: chainID}
	extraVote := extra.build()
	vk.ParallelFor(total, func(a int) {
		asg := make([]int, w.n)
		decode(a, nv, w.n, asg)
		for _, shape := range []string{"one-slot-missing", "one-slot-extra"} {
			var pre []*types.Vote
			var slots []*vdesc
			for i, v := range asg {
				pre = append(pre, tab.votes[i][v])
				slots = append(slots, tab.desc[i][v])
			}
			if shape == "one-slot-missing" {
				pre, slots = pre[:w.n-1], slots[:w.n-1]
			} else {
				pre, slots = append(pre, extraVote), append(slots, &extra)
			}
			for _, claimed := range []int{idA, idB} {
				commit := &types.Commit{BlockID: blockIDs[claimed], Precommits: pre}
				var err error
				if p, pv := vk.Catch(func() { err = vs.VerifyCommit(chainID, blockIDs[claimed], H, commit) }); p {
					err = fmt.Errorf("panic: %v", pv)
					atomic.AddInt64(&st.panics, 1)
					d := describe(w, tab, asg, claimed)
					d["shape"] = shape
					r.Violation(panicKey("verifycommit")+":wrong-slot-count", fmt.Sprintf("VerifyCommit panics (%v) on a commit with %s", pv, shape), d)
				}
				atomic.AddInt64(&st.cases, 1)
				st.verdict(errClass(err))
				if err == nil {
					atomic.AddInt64(&st.accepted, 1)
					if !w.refCommit(slots, claimed, H, 0, relax{}) {
						d := describe(w, tab, asg, claimed)
						d["shape"] = shape
						r.Violation("verifycommit:accepts-without-quorum:wrong-slot-count", "VerifyCommit accepts a commit with "+shape+" without a quorum among the set's own slots", d)
					}
				}
			}
		}
	})
}
