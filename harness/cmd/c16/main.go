// C16 — no message from a single peer can halt a node's consensus.
//
// State x message product on ONE real ConsensusState + its real ConsensusReactor: the node is brought into
// each of a list of consensus states by a scripted prefix, then ONE hostile message (typed message with
// boundary-value fields, or raw bytes) is pushed through ConsensusReactor.Receive exactly as the p2p layer
// does; whatever the reactor queues is handed to handleMsg, then the node is asked to go on (timeouts).
// Oracle: no panic escapes handleMsg/handleTimeout (that would end receiveRoutine = consensus halt); a
// message the reference predicate calls invalid leaves the RoundState digest unchanged. A panic inside
// Receive itself is contained by MConnection's recover (the peer is dropped) and is only recorded.
package main

import (
	"bytes"
	"flag"
	"fmt"
	"io/ioutil"
	"math/big"
	"net"
	"os"
	"regexp"
	"sort"
	"strings"
	"sync"
	"sync/atomic"

	"verif/csnet"
	"verif/vk"

	cs "github.com/lianxiangcloud/linkchain/consensus"
	cstypes "github.com/lianxiangcloud/linkchain/consensus/types"
	cmn "github.com/lianxiangcloud/linkchain/libs/common"
	"github.com/lianxiangcloud/linkchain/libs/crypto"
	"github.com/lianxiangcloud/linkchain/libs/crypto/merkle"
	"github.com/lianxiangcloud/linkchain/libs/log"
	"github.com/lianxiangcloud/linkchain/libs/p2p"
	"github.com/lianxiangcloud/linkchain/libs/ser"
	"github.com/lianxiangcloud/linkchain/types"
)

// ---- fake p2p environment ----

type fakePeer struct {
	cmn.BaseService
	id    string
	polls int32
	data  map[string]interface{}
	mu    sync.Mutex
}

func newFakePeer(id string) *fakePeer {
	p := &fakePeer{id: id, data: map[string]interface{}{}}
	p.BaseService = *cmn.NewBaseService(nil, "fakePeer", p)
	return p
}
func (p *fakePeer) ID() string { return p.id }

// IsRunning: the gossip routines poll it once per iteration; the harness grants a bounded number of polls.
func (p *fakePeer) IsRunning() bool              { return atomic.AddInt32(&p.polls, -1) >= 0 }
func (p *fakePeer) RemoteAddr() net.Addr         { return &net.TCPAddr{IP: net.IPv4(10, 0, 0, 1), Port: 1} }
func (p *fakePeer) NodeInfo() p2p.NodeInfo       { return p2p.NodeInfo{} }
func (p *fakePeer) IsOutbound() bool             { return false }
func (p *fakePeer) Status() p2p.ConnectionStatus { return p2p.ConnectionStatus{} }
func (p *fakePeer) Send(byte, []byte) bool       { return true }
func (p *fakePeer) TrySend(byte, []byte) bool    { return true }
func (p *fakePeer) Close() error                 { return nil }
func (p *fakePeer) Set(k string, v interface{})  { p.mu.Lock(); p.data[k] = v; p.mu.Unlock() }
func (p *fakePeer) Get(k string) interface{}     { p.mu.Lock(); defer p.mu.Unlock(); return p.data[k] }

type fakeSwitch struct {
	cmn.BaseService
	stopped int
}

func newFakeSwitch() *fakeSwitch {
	s := &fakeSwitch{}
	s.BaseService = *cmn.NewBaseService(nil, "fakeSwitch", s)
	return s
}
func (s *fakeSwitch) GetByID(string) p2p.Peer                        { return nil }
func (s *fakeSwitch) StopPeerForError(p2p.Peer, interface{})         { s.stopped++ }
func (s *fakeSwitch) Reactor(string) p2p.Reactor                     { return nil }
func (s *fakeSwitch) AddReactor(n string, r p2p.Reactor) p2p.Reactor { return r }
func (s *fakeSwitch) Broadcast(byte, []byte) chan bool               { c := make(chan bool, 1); return c }
func (s *fakeSwitch) BroadcastE(byte, string, []byte) chan bool      { c := make(chan bool, 1); return c }
func (s *fakeSwitch) Peers() p2p.IPeerSet                            { return p2p.NewPeerSet() }
func (s *fakeSwitch) LocalNodeInfo() p2p.NodeInfo                    { return p2p.NodeInfo{} }
func (s *fakeSwitch) NumPeers() (int, int, int)                      { return 0, 0, 0 }
func (s *fakeSwitch) MarkBadNode(p2p.NodeInfo)                       {}
func (s *fakeSwitch) CloseAllConnection()                            {}

// ---- scenario ----

type world struct {
	f      *csnet.Fixture
	self   int
	others []int
	n      *csnet.Node
	re     *cs.ConsensusReactor
	sw     *fakeSwitch
	peer   *fakePeer
	blk    [2]*types.Block
	parts  [2]*types.PartSet
	ids    [2]types.BlockID
	h      uint64
}

const partSize = 150

func newFixture() *csnet.Fixture {
	f := csnet.NewFixture([]int64{1, 1, 1, 1})
	f.Gen.ConsensusParams.BlockGossip.BlockPartSizeBytes = partSize
	return f
}

func newWorld(f *csnet.Fixture) *world {
	st := f.GenesisStatus()
	self := f.ProposerAt(st, 3)
	w := &world{f: f, self: self, h: 1}
	for i := range f.Keys {
		if i != self {
			w.others = append(w.others, i)
		}
	}
	w.n = f.NewNode(self, 0)
	w.sw = newFakeSwitch()
	w.re = cs.VerifNewReactor(w.n.VerifNode, w.sw)
	w.peer = newFakePeer("peer-x")
	cs.VerifAttachPeer(w.peer)
	w.makeBlocks()
	return w
}

func (w *world) close() {
	vk.Catch(func() { w.re.BaseReactor.OnStop() })
	w.n.Close()
}

// makeBlocks builds the two candidate blocks of the node's current height.
func (w *world) makeBlocks() {
	st := w.n.VerifStatus()
	var lc *types.Commit
	if st.LastBlockHeight > 0 {
		lc = w.n.App.Seen[st.LastBlockHeight]
	}
	for b := 0; b < 2; b++ {
		app := csnet.NewTrivApp(w.f.Vals, uint64(b+1))
		for h, blk := range w.n.App.Blocks {
			app.Blocks[h] = blk
		}
		w.blk[b], w.parts[b] = w.f.MakeBlock(st, app, w.proposer(0), lc, nil)
		w.ids[b] = csnet.BlockID(w.blk[b], w.parts[b])
	}
	w.h = st.LastBlockHeight + 1
}

func (w *world) proposer(r int) int { return w.f.ProposerAt(w.n.VerifStatus(), r) }

func (w *world) round() int { return w.n.CS.GetRoundState().Round }

func (w *world) vote(j int, t byte, r int, id types.BlockID) *types.Vote {
	v := w.f.Vote(j, w.h, r, t, id)
	return v
}

func (w *world) proposal(r, b, pol int) *types.Proposal {
	return w.f.Proposal(w.proposer(r), w.h, r, w.parts[b].Header(), pol, types.BlockID{})
}

// scripted inputs
func (w *world) T()                       { w.n.FireTimeout(); w.n.Drain() }
func (w *world) in(m cs.ConsensusMessage) { w.n.Deliver(m, "script"); w.n.Drain() }
func (w *world) prop(r, b int)            { w.in(&cs.ProposalMessage{Proposal: w.proposal(r, b, -1)}) }
func (w *world) partsAll(r, b int) {
	for i := 0; i < w.parts[b].Total(); i++ {
		w.in(&cs.BlockPartMessage{Height: w.h, Round: r, Part: w.parts[b].GetPart(i)})
	}
}
func (w *world) pv(k, r int, id types.BlockID) {
	w.in(&cs.VoteMessage{Vote: w.vote(w.others[k], types.VoteTypePrevote, r, id)})
}
func (w *world) pc(k, r int, id types.BlockID) {
	w.in(&cs.VoteMessage{Vote: w.vote(w.others[k], types.VoteTypePrecommit, r, id)})
}

type state struct {
	name string
	prep func(w *world)
}

func states() []state {
	nilID := types.BlockID{}
	commitH1 := func(w *world) {
		w.T()
		w.prop(0, 0)
		w.partsAll(0, 0)
		w.pv(0, 0, w.ids[0])
		w.pv(1, 0, w.ids[0])
		w.pc(0, 0, w.ids[0])
		w.pc(1, 0, w.ids[0])
		if w.n.App.Height() != 1 {
			panic("honest height 1 (proposal, block, every other validator's prevote and precommit) did not commit")
		}
		w.makeBlocks()
	}
	commitHn := func(w *world) { // one more honest height on top of commitH1
		h := w.h
		w.T()
		w.prop(0, 0)
		w.partsAll(0, 0)
		w.pv(0, 0, w.ids[0])
		w.pv(1, 0, w.ids[0])
		w.pc(0, 0, w.ids[0])
		w.pc(1, 0, w.ids[0])
		if w.n.App.Height() != h {
			panic(fmt.Sprintf("honest height %d (proposal, block, every other validator's prevote and precommit) did not commit", h))
		}
		w.makeBlocks()
	}
	return []state{
		{"h1/NewHeight", func(w *world) {}},
		{"h1/Propose-no-proposal", func(w *world) { w.T() }},
		{"h1/Propose-proposal-no-parts", func(w *world) { w.T(); w.prop(0, 0) }},
		{"h1/Propose-proposal-first-part", func(w *world) {
			w.T()
			w.prop(0, 0)
			w.in(&cs.BlockPartMessage{Height: 1, Round: 0, Part: w.parts[0].GetPart(0)})
		}},
		{"h1/Prevote", func(w *world) { w.T(); w.prop(0, 0); w.partsAll(0, 0) }},
		{"h1/PrevoteWait", func(w *world) { w.T(); w.T(); w.pv(0, 0, w.ids[0]); w.pv(1, 0, w.ids[1]) }},
		{"h1/Precommit-locked", func(w *world) { w.T(); w.prop(0, 0); w.partsAll(0, 0); w.pv(0, 0, w.ids[0]); w.pv(1, 0, w.ids[0]) }},
		{"h1/Commit-waiting-for-block", func(w *world) { w.T(); w.pc(0, 0, w.ids[0]); w.pc(1, 0, w.ids[0]); w.pc(2, 0, w.ids[0]) }},
		{"h1/round1-Propose", func(w *world) {
			w.T()
			w.T()
			w.pv(0, 0, nilID)
			w.pv(1, 0, nilID)
			w.pc(0, 0, nilID)
			w.pc(1, 0, nilID)
			w.T()
		}},
		{"h2/NewHeight", commitH1},
		{"h2/Propose", func(w *world) { commitH1(w); w.T() }},
		// a node that prunes its history (DeleteHistoricalData): height 1 is gone from the block store
		{"h3/NewHeight/height1-pruned", func(w *world) { commitH1(w); commitHn(w); w.n.App.Pruned[1] = true }},
	}
}

// ---- hostile messages ----

type hostile struct {
	name       string
	ch         byte
	msg        func(w *world) interface{}   // typed message (encoded with the registered type prefix) ...
	raw        func(w *world) []byte        // ... or raw bytes
	follow     func(w *world) []interface{} // further typed messages of the same peer on the same channel, delivered right after
	fresh      bool                         // the peer has not announced any round step yet (first message of a new connection)
	mustIgnore bool                         // reference predicate: invalid under every reading => digest must not change
	flood      int                          // > 0: the messages are a flood of one peer; the node may keep state for at most this many of them
	wal        bool                         // the node runs with a real write-ahead log (every peer message is logged before it is looked at)
}

const bigInt = 1<<31 - 1

func garbage(n int) []byte { return bytes.Repeat([]byte{0xa5}, n) }

func voteMutations() []hostile {
	var out []hostile
	type mut struct {
		name    string
		f       func(w *world, v *types.Vote)
		invalid bool // invalid even when correctly re-signed
	}
	muts := []mut{
		{"valid", func(w *world, v *types.Vote) {}, false},
		{"Height=0", func(w *world, v *types.Vote) { v.Height = 0 }, false},
		{"Height=h-1", func(w *world, v *types.Vote) { v.Height = w.h - 1 }, false},
		{"Height=h+1", func(w *world, v *types.Vote) { v.Height = w.h + 1 }, true},
		{"Height=max", func(w *world, v *types.Vote) { v.Height = ^uint64(0) }, false},
		// a correctly signed vote for round -1 is authenticated validator behaviour (it lands in a per-peer bounded
		// catch-up vote set); only unauthenticated variants must leave the state untouched
		{"Round=-1", func(w *world, v *types.Vote) { v.Round = -1 }, false},
		{"Round=r+1", func(w *world, v *types.Vote) { v.Round = w.round() + 1 }, false},
		{"Round=r+2", func(w *world, v *types.Vote) { v.Round = w.round() + 2 }, false},
		{"Round=2^31-1", func(w *world, v *types.Vote) { v.Round = bigInt }, false},
		{"Round=2^62", func(w *world, v *types.Vote) { v.Round = 1 << 62 }, false},
		{"Type=0", func(w *world, v *types.Vote) { v.Type = 0 }, true},
		{"Type=3", func(w *world, v *types.Vote) { v.Type = 3 }, true},
		{"Type=255", func(w *world, v *types.Vote) { v.Type = 255 }, true},
		{"Type=precommit", func(w *world, v *types.Vote) { v.Type = types.VoteTypePrecommit }, false},
		{"Index=-1", func(w *world, v *types.Vote) { v.ValidatorIndex = -1 }, true},
		{"Index=n", func(w *world, v *types.Vote) { v.ValidatorIndex = len(w.f.Keys) }, true},
		{"Index=2^31-1", func(w *world, v *types.Vote) { v.ValidatorIndex = bigInt }, true},
		{"Index=other", func(w *world, v *types.Vote) { v.ValidatorIndex = w.others[1] }, true},
		{"Size=0", func(w *world, v *types.Vote) { v.ValidatorSize = 0 }, true},
		{"Size=n+1", func(w *world, v *types.Vote) { v.ValidatorSize = len(w.f.Keys) + 1 }, true},
		{"Size=-1", func(w *world, v *types.Vote) { v.ValidatorSize = -1 }, true},
		{"Address=nil", func(w *world, v *types.Vote) { v.ValidatorAddress = nil }, true},
		{"Address=short", func(w *world, v *types.Vote) { v.ValidatorAddress = crypto.Address{1, 2} }, true},
		{"Address=other", func(w *world, v *types.Vote) { v.ValidatorAddress = w.f.Keys[w.others[1]].PubKey().Address() }, true},
		{"BlockID=nil", func(w *world, v *types.Vote) { v.BlockID = types.BlockID{} }, false},
		{"BlockID=B", func(w *world, v *types.Vote) { v.BlockID = w.ids[1] }, false},
		{"BlockID=hash-only", func(w *world, v *types.Vote) { v.BlockID = types.BlockID{Hash: w.ids[0].Hash} }, false},
		{"BlockID=total-1", func(w *world, v *types.Vote) { v.BlockID.PartsHeader.Total = -1 }, false},
		{"BlockID=total-big", func(w *world, v *types.Vote) { v.BlockID.PartsHeader.Total = bigInt }, false},
	}
	for _, sigMode := range []string{"resigned", "stale-sig", "garbage-sig", "nil-sig", "foreign-sig"} {
		for _, m := range muts {
			m, sigMode := m, sigMode
			if m.name == "valid" && sigMode == "stale-sig" {
				continue
			}
			out = append(out, hostile{
				name: fmt.Sprintf("Vote{%s,%s}", m.name, sigMode), ch: cs.VoteChannel,
				mustIgnore: m.invalid || (sigMode != "resigned"),
				msg: func(w *world) interface{} {
					j := w.others[2]
					v := w.vote(j, types.VoteTypePrevote, w.round(), w.ids[0])
					cp := *v
					m.f(w, &cp)
					switch sigMode {
					case "resigned":
						sig, _ := w.f.Keys[j].Sign(cp.SignBytes(csnet.ChainID))
						cp.Signature = sig
					case "garbage-sig":
						cp.Signature = crypto.SignatureEd25519FromBytes(garbage(64))
					case "nil-sig":
						cp.Signature = nil
					case "foreign-sig":
						sig, _ := w.f.Keys[w.others[0]].Sign(cp.SignBytes(csnet.ChainID))
						cp.Signature = sig
					}
					return &cs.VoteMessage{Vote: &cp}
				}})
		}
	}
	out = append(out, hostile{name: "Vote{nil}", ch: cs.VoteChannel, mustIgnore: true, msg: func(w *world) interface{} { return &cs.VoteMessage{} }})
	// straggler precommits for the previous height with every signature mode
	for _, m := range []string{"resigned", "garbage-sig"} {
		m := m
		out = append(out, hostile{name: "Vote{precommit,Height=h-1," + m + "}", ch: cs.VoteChannel, mustIgnore: m != "resigned",
			msg: func(w *world) interface{} {
				j := w.others[2]
				id := w.ids[0]
				if w.h > 1 {
					id = w.n.VerifStatus().LastBlockID
				}
				v := *w.f.Vote(j, w.h-1, 0, types.VoteTypePrecommit, id)
				if m == "garbage-sig" {
					v.Signature = crypto.SignatureEd25519FromBytes(garbage(64))
				}
				return &cs.VoteMessage{Vote: &v}
			}})
	}
	return out
}

// voteFloods: one peer sends K votes for K different rounds the node does not track yet. Whatever the node thinks of the
// votes, what it keeps for them is bounded per peer (two catch-up rounds): a third unknown round from the same peer is
// refused, so state must not grow with K.
func voteFloods() []hostile {
	const K = 7
	var out []hostile
	for _, typ := range []byte{types.VoteTypePrevote, types.VoteTypePrecommit} {
		typ := typ
		for _, sigMode := range []string{"resigned", "garbage-sig", "nil-sig", "Index=n"} {
			sigMode := sigMode
			mk := func(w *world, i int) interface{} {
				j := w.others[0]
				v := *w.vote(j, typ, w.round()+2+i, w.ids[0])
				switch sigMode {
				case "garbage-sig":
					v.Signature = crypto.SignatureEd25519FromBytes(garbage(64))
				case "nil-sig":
					v.Signature = nil
				case "Index=n":
					v.ValidatorIndex = len(w.f.Keys)
				}
				return &cs.VoteMessage{Vote: &v}
			}
			out = append(out, hostile{name: fmt.Sprintf("VoteFlood{t%d,%s,%d unknown rounds}", typ, sigMode, K), ch: cs.VoteChannel, flood: 2,
				msg: func(w *world) interface{} { return mk(w, 0) },
				follow: func(w *world) []interface{} {
					var ms []interface{}
					for i := 1; i < K; i++ {
						ms = append(ms, mk(w, i))
					}
					return ms
				}})
		}
	}
	// the same for +2/3 claims: a claim for a round the node does not track creates nothing at all in the real code
	for _, typ := range []byte{types.VoteTypePrevote, types.VoteTypePrecommit} {
		typ := typ
		mk := func(w *world, i int) interface{} {
			return &cs.VoteSetMaj23Message{Height: w.h, Round: w.round() + 2 + i, Type: typ, BlockID: w.ids[0]}
		}
		out = append(out, hostile{name: fmt.Sprintf("VoteSetMaj23Flood{t%d,%d unknown rounds}", typ, K), ch: cs.StateChannel, flood: 2,
			msg: func(w *world) interface{} { return mk(w, 0) },
			follow: func(w *world) []interface{} {
				var ms []interface{}
				for i := 1; i < K; i++ {
					ms = append(ms, mk(w, i))
				}
				return ms
			}})
	}
	return out
}

// nearLimit: decodable messages whose wire size is at, or just below, the largest size the reactor accepts. The node logs every
// peer message in its write-ahead log before looking at it, inside an envelope (time, peer id, type prefixes) of about 60 bytes:
// every size limit on that path has to leave room for the envelope.
func nearLimit() []hostile {
	var out []hostile
	max := cs.VerifMaxMsgSize()
	for _, k := range []int{0, 1, 8, 40, 59, 60, 61, 64, 100, 1023, 1024, 1025} {
		target := max - k
		out = append(out, hostile{name: fmt.Sprintf("BlockPart{another height, wire size = max-%d}", k), ch: cs.DataChannel, wal: true,
			msg: func(w *world) interface{} {
				n := target - 64
				for try := 0; try < 8; try++ {
					m := &cs.BlockPartMessage{Height: w.h + 7, Round: 0, Part: &types.Part{Index: 0, Bytes: make([]byte, n)}}
					bz, err := ser.EncodeToBytesWithType(m)
					if err != nil {
						return nil
					}
					if len(bz) == target {
						return m
					}
					n += target - len(bz)
				}
				return nil // this exact size is not reachable (length-prefix step): no case
			}})
	}
	return out
}

// altSplit re-packs the bytes of candidate block b into parts of another size (optionally with trailing bytes appended):
// the same block (same header hash) under a different part-set header — what an equivocating proposer can sign.
func (w *world) altSplit(b, size int, trailing []byte) *types.PartSet {
	bz, err := ioutil.ReadAll(w.parts[b].GetReader())
	if err != nil {
		vk.Fatalf("reassembling block %d: %v", b, err)
	}
	ps := types.NewPartSetFromData(append(bz, trailing...), size)
	if ps.HasHeader(w.parts[b].Header()) {
		vk.Fatalf("altSplit(%d): part-set header did not change", size)
	}
	return ps
}

// otherBody re-packs candidate block b with the SAME header over a different body (kind "evidence": a duplicate-vote
// record with unverifiable votes is added; kind "data": the transaction list is emptied / a transaction is dropped):
// what an equivocating proposer can sign and send to one node while the rest of the network gets the genuine block.
func (w *world) otherBody(b int, kind string) *types.PartSet {
	var blk *types.Block
	if _, err := ser.DecodeReader(w.parts[b].GetReader(), &blk, 1<<26); err != nil {
		vk.Fatalf("decoding candidate block %d: %v", b, err)
	}
	switch kind {
	case "evidence":
		k := w.others[0]
		va := w.vote(k, types.VoteTypePrevote, 0, w.ids[0])
		vb := w.vote(k, types.VoteTypePrevote, 0, w.ids[1])
		vb.Signature = crypto.SignatureEd25519FromBytes(garbage(64))
		blk.Evidence.Evidence = append(blk.Evidence.Evidence, &types.DuplicateVoteEvidence{PubKey: w.f.Keys[k].PubKey(), VoteA: va, VoteB: vb})
	case "data":
		to := cmn.BytesToAddress([]byte{7})
		blk.Data = &types.Data{Txs: append(append(types.Txs{}, blk.Data.Txs...), types.NewTransaction(99, to, big.NewInt(1), 21000, big.NewInt(1e11), nil))}
	}
	ps := blk.MakePartSet(partSize)
	if ps.HasHeader(w.parts[b].Header()) {
		vk.Fatalf("otherBody(%s): part-set header did not change", kind)
	}
	return ps
}

func proposalMutations() []hostile {
	var out []hostile
	for _, kind := range []string{"evidence", "data"} {
		kind := kind
		out = append(out, hostile{name: fmt.Sprintf("Proposal{SameHeaderOtherBody(%s),proposer,parts=true}", kind), ch: cs.DataChannel,
			msg: func(w *world) interface{} {
				r := w.round()
				p := *w.proposal(r, 0, -1)
				p.BlockPartsHeader = w.otherBody(0, kind).Header()
				sig, _ := w.f.Keys[w.proposer(r)].Sign(p.SignBytes(csnet.ChainID))
				p.Signature = sig
				return &cs.ProposalMessage{Proposal: &p}
			},
			follow: func(w *world) []interface{} {
				ps := w.otherBody(0, kind)
				var ms []interface{}
				for i := 0; i < ps.Total(); i++ {
					ms = append(ms, &cs.BlockPartMessage{Height: w.h, Round: w.round(), Part: ps.GetPart(i)})
				}
				return ms
			}})
	}
	// the proposer of the round signs a SECOND proposal for the same block bytes split differently, and sends its parts
	for _, alt := range []struct {
		name     string
		size     int
		trailing []byte
	}{{"AltSplit(larger-parts)", partSize + 37, nil}, {"AltSplit(smaller-parts)", partSize - 41, nil}, {"AltSplit(one-part)", 1 << 20, nil},
		{"AltSplit(trailing-byte)", partSize, []byte{0}}} {
		alt := alt
		for _, withParts := range []bool{true, false} {
			withParts := withParts
			nm := fmt.Sprintf("Proposal{%s,proposer,parts=%v}", alt.name, withParts)
			h := hostile{name: nm, ch: cs.DataChannel, msg: func(w *world) interface{} {
				r := w.round()
				p := *w.proposal(r, 0, -1)
				p.BlockPartsHeader = w.altSplit(0, alt.size, alt.trailing).Header()
				sig, _ := w.f.Keys[w.proposer(r)].Sign(p.SignBytes(csnet.ChainID))
				p.Signature = sig
				return &cs.ProposalMessage{Proposal: &p}
			}}
			if withParts {
				h.follow = func(w *world) []interface{} {
					ps := w.altSplit(0, alt.size, alt.trailing)
					var ms []interface{}
					for i := 0; i < ps.Total(); i++ {
						ms = append(ms, &cs.BlockPartMessage{Height: w.h, Round: w.round(), Part: ps.GetPart(i)})
					}
					return ms
				}
			}
			out = append(out, h)
		}
	}
	type mut struct {
		name    string
		f       func(w *world, p *types.Proposal)
		invalid bool
	}
	muts := []mut{
		{"valid", func(w *world, p *types.Proposal) {}, false},
		{"Type=0", func(w *world, p *types.Proposal) { p.Type = 0 }, false},
		{"Type=recover", func(w *world, p *types.Proposal) { p.Type = types.ProposalTypeRecover }, false},
		{"Type=255", func(w *world, p *types.Proposal) { p.Type = 255 }, false},
		{"Height=0", func(w *world, p *types.Proposal) { p.Height = 0 }, true},
		{"Height=h+1", func(w *world, p *types.Proposal) { p.Height = w.h + 1 }, true},
		{"Round=-1", func(w *world, p *types.Proposal) { p.Round = -1 }, true},
		{"Round=r+1", func(w *world, p *types.Proposal) { p.Round = w.round() + 1 }, true},
		{"POLRound=-2", func(w *world, p *types.Proposal) { p.POLRound = -2 }, true},
		{"POLRound=r", func(w *world, p *types.Proposal) { p.POLRound = w.round() }, true},
		{"POLRound=r+1", func(w *world, p *types.Proposal) { p.POLRound = w.round() + 1 }, true},
		{"POLRound=2^31-1", func(w *world, p *types.Proposal) { p.POLRound = bigInt }, true},
		{"Total=-1", func(w *world, p *types.Proposal) { p.BlockPartsHeader.Total = -1 }, false},
		{"Total=0", func(w *world, p *types.Proposal) { p.BlockPartsHeader.Total = 0 }, false},
		{"Total=2^31-1", func(w *world, p *types.Proposal) { p.BlockPartsHeader.Total = bigInt }, false},
		{"Total=2^40", func(w *world, p *types.Proposal) { p.BlockPartsHeader.Total = 1 << 40 }, false},
		{"Hash=garbage", func(w *world, p *types.Proposal) { p.BlockPartsHeader.Hash = garbage(32) }, false},
		{"BlockB", func(w *world, p *types.Proposal) { p.BlockPartsHeader = w.parts[1].Header() }, false},
	}
	for _, signer := range []string{"proposer", "non-proposer", "garbage-sig", "nil-sig", "stale-sig"} {
		for _, m := range muts {
			m, signer := m, signer
			if m.name == "valid" && signer == "stale-sig" {
				continue
			}
			out = append(out, hostile{
				name: fmt.Sprintf("Proposal{%s,%s}", m.name, signer), ch: cs.DataChannel,
				// Proposal.Type is not covered by the sign-bytes: the original signature stays valid after changing it
				mustIgnore: m.invalid || (signer != "proposer" && !(signer == "stale-sig" && strings.HasPrefix(m.name, "Type="))),
				msg: func(w *world) interface{} {
					r := w.round()
					p := *w.proposal(r, 0, -1)
					m.f(w, &p)
					switch signer {
					case "proposer":
						sig, _ := w.f.Keys[w.proposer(r)].Sign(p.SignBytes(csnet.ChainID))
						p.Signature = sig
					case "non-proposer":
						k := w.others[0]
						if k == w.proposer(r) {
							k = w.others[1]
						}
						sig, _ := w.f.Keys[k].Sign(p.SignBytes(csnet.ChainID))
						p.Signature = sig
					case "garbage-sig":
						p.Signature = crypto.SignatureEd25519FromBytes(garbage(64))
					case "nil-sig":
						p.Signature = nil
					}
					return &cs.ProposalMessage{Proposal: &p}
				}})
		}
	}
	out = append(out, hostile{name: "Proposal{nil}", ch: cs.DataChannel, mustIgnore: true, msg: func(w *world) interface{} { return &cs.ProposalMessage{} }})
	return out
}

func partMutations() []hostile {
	var out []hostile
	type mut struct {
		name    string
		f       func(w *world, m *cs.BlockPartMessage)
		invalid bool
	}
	muts := []mut{
		{"valid#0", func(w *world, m *cs.BlockPartMessage) {}, false},
		{"valid#last", func(w *world, m *cs.BlockPartMessage) { p := *w.parts[0].GetPart(w.parts[0].Total() - 1); m.Part = &p }, false},
		{"partOfB", func(w *world, m *cs.BlockPartMessage) { p := *w.parts[1].GetPart(0); m.Part = &p }, false},
		{"Part=nil", func(w *world, m *cs.BlockPartMessage) { m.Part = nil }, true},
		{"Height=0", func(w *world, m *cs.BlockPartMessage) { m.Height = 0 }, true},
		{"Height=h+1", func(w *world, m *cs.BlockPartMessage) { m.Height = w.h + 1 }, true},
		{"Round=-1", func(w *world, m *cs.BlockPartMessage) { m.Round = -1 }, false},
		{"Round=r+1", func(w *world, m *cs.BlockPartMessage) { m.Round = w.round() + 1 }, false},
		{"Index=-1", func(w *world, m *cs.BlockPartMessage) { m.Part.Index = -1 }, true},
		{"Index=-2^31", func(w *world, m *cs.BlockPartMessage) { m.Part.Index = -(1 << 31) }, true},
		{"Index=total", func(w *world, m *cs.BlockPartMessage) { m.Part.Index = w.parts[0].Total() }, true},
		{"Index=2^31-1", func(w *world, m *cs.BlockPartMessage) { m.Part.Index = bigInt }, true},
		{"Index=1(wrong)", func(w *world, m *cs.BlockPartMessage) { m.Part.Index = 1 }, true},
		{"Bytes=empty", func(w *world, m *cs.BlockPartMessage) { m.Part.Bytes = nil }, true},
		{"Bytes=garbage", func(w *world, m *cs.BlockPartMessage) { m.Part.Bytes = garbage(partSize) }, true},
		{"Proof=none", func(w *world, m *cs.BlockPartMessage) { m.Part.Proof = merkle.SimpleProof{} }, true},
		{"Proof=garbage-aunt", func(w *world, m *cs.BlockPartMessage) {
			m.Part.Proof = merkle.SimpleProof{Aunts: [][]byte{garbage(20)}}
		}, true},
		{"Proof=100-aunts", func(w *world, m *cs.BlockPartMessage) {
			a := make([][]byte, 100)
			for i := range a {
				a[i] = garbage(20)
			}
			m.Part.Proof = merkle.SimpleProof{Aunts: a}
		}, true},
	}
	for _, m := range muts {
		m := m
		out = append(out, hostile{name: "BlockPart{" + m.name + "}", ch: cs.DataChannel, mustIgnore: m.invalid,
			msg: func(w *world) interface{} {
				p := *w.parts[0].GetPart(0)
				bm := &cs.BlockPartMessage{Height: w.h, Round: w.round(), Part: &p}
				m.f(w, bm)
				return bm
			}})
	}
	return out
}

func stateChannelMessages() []hostile {
	var out []hostile
	add := func(name string, ch byte, f func(w *world) interface{}) {
		out = append(out, hostile{name: name, ch: ch, msg: f})
	}
	for _, h := range []int{0, 1, 2} { // h-1, h, h+1 relative
		h := h
		hh := func(w *world) uint64 { return w.h - 1 + uint64(h) }
		for _, r := range []int{-1, 0, 1, bigInt} {
			r := r
			for _, st := range []cstypes.RoundStepType{0, cstypes.RoundStepPropose, cstypes.RoundStepCommit, 255} {
				st := st
				for _, lcr := range []int{-2, -1, 0, bigInt} {
					lcr := lcr
					add(fmt.Sprintf("NewRoundStep{h%+d,r%d,s%d,lcr%d}", h-1, r, st, lcr), cs.StateChannel, func(w *world) interface{} {
						return &cs.NewRoundStepMessage{Height: hh(w), Round: r, Step: st, LastCommitRound: lcr}
					})
				}
			}
			for _, t := range []byte{0, 1, 2, 3} {
				t := t
				for _, idx := range []int{-1, 0, 3, 4, bigInt} {
					idx := idx
					add(fmt.Sprintf("HasVote{h%+d,r%d,t%d,i%d}", h-1, r, t, idx), cs.StateChannel, func(w *world) interface{} {
						return &cs.HasVoteMessage{Height: hh(w), Round: r, Type: t, Index: idx}
					})
				}
				for _, bid := range []string{"A", "nil", "total-1"} {
					bid := bid
					id := func(w *world) types.BlockID {
						switch bid {
						case "A":
							return w.ids[0]
						case "total-1":
							x := w.ids[0]
							x.PartsHeader.Total = -1
							return x
						}
						return types.BlockID{}
					}
					add(fmt.Sprintf("VoteSetMaj23{h%+d,r%d,t%d,%s}", h-1, r, t, bid), cs.StateChannel, func(w *world) interface{} {
						return &cs.VoteSetMaj23Message{Height: hh(w), Round: r, Type: t, BlockID: id(w)}
					})
					for _, bits := range []int{-1, 0, 3, 4, 5, 100} {
						bits := bits
						add(fmt.Sprintf("VoteSetBits{h%+d,r%d,t%d,%s,bits%d}", h-1, r, t, bid, bits), cs.VoteSetBitsChannel, func(w *world) interface{} {
							var ba *cmn.BitArray
							if bits >= 0 {
								ba = cmn.NewBitArray(bits)
								if ba != nil && bits > 0 {
									ba.SetIndex(0, true)
								}
							}
							return &cs.VoteSetBitsMessage{Height: hh(w), Round: r, Type: t, BlockID: id(w), Votes: ba}
						})
					}
				}
			}
			for _, bits := range []int{-1, 0, 4, 100} {
				bits := bits
				add(fmt.Sprintf("ProposalPOL{h%+d,polr%d,bits%d}", h-1, r, bits), cs.DataChannel, func(w *world) interface{} {
					var ba *cmn.BitArray
					if bits >= 0 {
						ba = cmn.NewBitArray(bits)
					}
					return &cs.ProposalPOLMessage{Height: hh(w), ProposalPOLRound: r, ProposalPOL: ba}
				})
			}
		}
		for _, tot := range []int{-1, 0, 3, bigInt} {
			tot := tot
			for _, bits := range []int{-1, 0, 3, 100} {
				bits := bits
				add(fmt.Sprintf("CommitStep{h%+d,total%d,bits%d}", h-1, tot, bits), cs.StateChannel, func(w *world) interface{} {
					var ba *cmn.BitArray
					if bits >= 0 {
						ba = cmn.NewBitArray(bits)
					}
					return &cs.CommitStepMessage{Height: hh(w), BlockPartsHeader: types.PartSetHeader{Total: tot, Hash: w.ids[0].PartsHeader.Hash}, BlockParts: ba}
				})
			}
		}
	}
	// a peer that says it is far behind (two heights back: on a pruning node that height is gone from the store)
	for _, st := range []cstypes.RoundStepType{cstypes.RoundStepPropose, cstypes.RoundStepCommit} {
		st := st
		for _, lcr := range []int{-1, 0} {
			lcr := lcr
			add(fmt.Sprintf("NewRoundStep{h-2,r0,s%d,lcr%d}(first message of the connection)", st, lcr), cs.StateChannel, func(w *world) interface{} {
				if w.h < 3 {
					return nil
				}
				return &cs.NewRoundStepMessage{Height: w.h - 2, Round: 0, Step: st, LastCommitRound: lcr}
			})
			out[len(out)-1].fresh = true
		}
	}
	// bit arrays whose bit count disagrees with their word count: decodable, never produced by NewBitArray
	malformed := []struct {
		name  string
		bits  int
		elems int
	}{{"bits1000/1word", 1000, 1}, {"bits3/5words", 3, 5}, {"bits-5/1word", -5, 1}, {"bits4/0words", 4, 0}, {"bits64/2words", 64, 2}}
	for _, mf := range malformed {
		mf := mf
		ba := func() *cmn.BitArray {
			b := &cmn.BitArray{Bits: mf.bits, Elems: make([]uint64, mf.elems)}
			for i := range b.Elems {
				b.Elems[i] = ^uint64(0)
			}
			return b
		}
		add(fmt.Sprintf("CommitStep{h+0,header=ours,%s}", mf.name), cs.StateChannel, func(w *world) interface{} {
			return &cs.CommitStepMessage{Height: w.h, BlockPartsHeader: w.ids[0].PartsHeader, BlockParts: ba()}
		})
		for _, t := range []byte{1, 2} {
			t := t
			add(fmt.Sprintf("VoteSetBits{h+0,r0,t%d,A,%s}", t, mf.name), cs.VoteSetBitsChannel, func(w *world) interface{} {
				return &cs.VoteSetBitsMessage{Height: w.h, Round: w.round(), Type: t, BlockID: w.ids[0], Votes: ba()}
			})
		}
		// a proposal-of-lock bit array is only applied for the POL round the peer's own proposal named: proposal first
		out = append(out, hostile{name: fmt.Sprintf("Proposal{POLRound=r-1,unsigned}+ProposalPOL{%s}", mf.name), ch: cs.DataChannel,
			msg: func(w *world) interface{} {
				r := w.round()
				p := *w.proposal(r, 0, r-1)
				return &cs.ProposalMessage{Proposal: &p}
			},
			follow: func(w *world) []interface{} {
				return []interface{}{&cs.ProposalPOLMessage{Height: w.h, ProposalPOLRound: w.round() - 1, ProposalPOL: ba()}}
			}})
	}
	add("ProposalHeartbeat{nil}", cs.StateChannel, func(w *world) interface{} { return &cs.ProposalHeartbeatMessage{} })
	add("ProposalHeartbeat{zero}", cs.StateChannel, func(w *world) interface{} { return &cs.ProposalHeartbeatMessage{Heartbeat: &types.Heartbeat{}} })
	return out
}

// every typed message also on every wrong channel
func wrongChannel(hs []hostile) []hostile {
	var out []hostile
	seen := map[string]bool{}
	for _, h := range hs {
		kind := h.name[:strings.Index(h.name, "{")]
		if seen[kind] {
			continue
		}
		seen[kind] = true
		for _, ch := range []byte{cs.StateChannel, cs.DataChannel, cs.VoteChannel, cs.VoteSetBitsChannel, 0x99} {
			if ch == h.ch {
				continue
			}
			h2 := h
			h2.ch = ch
			h2.mustIgnore = true
			h2.name = fmt.Sprintf("%s@channel%#x", h.name, ch)
			out = append(out, h2)
		}
	}
	return out
}

// raw byte strings: every truncation and every single-byte substitution of valid encodings
func byteMutations(quick bool) []hostile {
	var out []hostile
	bases := []struct {
		name string
		ch   byte
		f    func(w *world) interface{}
	}{
		{"Vote", cs.VoteChannel, func(w *world) interface{} {
			return &cs.VoteMessage{Vote: w.vote(w.others[2], types.VoteTypePrevote, w.round(), w.ids[0])}
		}},
		{"Proposal", cs.DataChannel, func(w *world) interface{} { return &cs.ProposalMessage{Proposal: w.proposal(w.round(), 0, -1)} }},
		{"BlockPart", cs.DataChannel, func(w *world) interface{} {
			return &cs.BlockPartMessage{Height: w.h, Round: w.round(), Part: w.parts[0].GetPart(0)}
		}},
		{"VoteSetMaj23", cs.StateChannel, func(w *world) interface{} {
			return &cs.VoteSetMaj23Message{Height: w.h, Round: w.round(), Type: types.VoteTypePrevote, BlockID: w.ids[0]}
		}},
		{"VoteSetBits", cs.VoteSetBitsChannel, func(w *world) interface{} {
			ba := cmn.NewBitArray(4)
			return &cs.VoteSetBitsMessage{Height: w.h, Round: w.round(), Type: types.VoteTypePrevote, BlockID: w.ids[0], Votes: ba}
		}},
		{"NewRoundStep", cs.StateChannel, func(w *world) interface{} {
			return &cs.NewRoundStepMessage{Height: w.h, Round: 0, Step: cstypes.RoundStepPropose, LastCommitRound: -1}
		}},
	}
	subs := []byte{0x00, 0x01, 0x7f, 0x80, 0xb7, 0xb8, 0xbf, 0xc0, 0xf7, 0xf8, 0xff}
	_ = quick
	// lengths are taken from a reference world (encodings have equal length in every state up to block content)
	ref := newWorld(newFixture())
	defer ref.close()
	for _, b := range bases {
		b := b
		n := len(ser.MustEncodeToBytesWithType(b.f(ref)))
		for cut := 0; cut < n; cut++ {
			cut := cut
			out = append(out, hostile{name: fmt.Sprintf("bytes:%s:truncate@%d", b.name, cut), ch: b.ch, mustIgnore: true,
				raw: func(w *world) []byte { e := ser.MustEncodeToBytesWithType(b.f(w)); return e[:min(cut, len(e))] }})
		}
		for off := 0; off < n; off++ {
			for _, sb := range subs {
				off, sb := off, sb
				out = append(out, hostile{name: fmt.Sprintf("bytes:%s:byte@%d=%#02x", b.name, off, sb), ch: b.ch,
					raw: func(w *world) []byte {
						e := ser.MustEncodeToBytesWithType(b.f(w))
						if off < len(e) {
							e[off] = sb
						}
						return e
					}})
			}
		}
	}
	return out
}

func min(a, b int) int {
	if a < b {
		return a
	}
	return b
}

var reCatchup = regexp.MustCompile(`catchup\{[^}]*\}`)
var reProgress = regexp.MustCompile(`\d+ goroutine|0x[0-9a-f]{6,}`)

func digest(w *world) string { return reCatchup.ReplaceAllString(w.n.Digest(), "") }

func normPanic(v interface{}) string {
	s := fmt.Sprint(v)
	s = reProgress.ReplaceAllString(s, "#")
	if len(s) > 90 {
		s = s[:90]
	}
	return s
}

type outcome struct {
	recvPanic      string
	queued         int
	changed        bool
	committedAfter bool
	viol           [2]string
}

// runCase delivers the hostile messages (one or two, each with its follow-up messages) to a fresh node in state st,
// then asks the node to go on: cont == contTimeouts fires timeouts, cont == contHonest lets the honest rest of the
// network complete the round (honest proposal and parts if none was accepted, then the other validators' prevotes and
// precommits for the honest block id, then timeouts).
const (
	contTimeouts  = 0
	contHonest    = 1
	contNextRound = 2 // the current round fails honestly (nil polka, nil precommits), the NEXT round completes honestly
)

func runCase(f *csnet.Fixture, st state, hs []hostile, cont int) outcome {
	var o outcome
	w := newWorld(f)
	defer w.close()
	// the scripted way into the state is fully honest: a node that panics on it halts without any hostile input at all
	if p, v := vk.Catch(func() { st.prep(w) }); p {
		txt := fmt.Sprint(v)
		if len(txt) > 90 {
			txt = txt[:90]
		}
		o.viol = [2]string{"honest-run-panics-node:" + txt, fmt.Sprintf("the honest scripted inputs leading to state %s make the node panic: %v", st.name, v)}
		return o
	}
	// the peer is an ordinary connected peer up to now: it has announced that it is at the node's height and round (what
	// every peer does on connecting and at every step), so the reactor's PeerState is not the all-zero initial one
	if len(hs) == 0 || !hs[0].fresh {
		rs := w.n.CS.GetRoundState()
		lcr := -1
		if rs.Height > 1 {
			lcr = 0
		}
		bz := ser.MustEncodeToBytesWithType(&cs.NewRoundStepMessage{Height: rs.Height, Round: rs.Round, Step: cstypes.RoundStepPropose, SecondsSinceStartTime: 0, LastCommitRound: lcr})
		vk.Catch(func() { w.re.Receive(cs.StateChannel, w.peer, bz) })
	}
	for _, h := range hs {
		if h.wal {
			dir, err := ioutil.TempDir(scratchBase(), "c16wal")
			if err != nil {
				vk.Fatalf("wal dir: %v", err)
			}
			defer os.RemoveAll(dir)
			stop, err := w.n.VerifUseFileWAL(dir)
			if err != nil {
				vk.Fatalf("wal: %v", err)
			}
			defer stop()
			break
		}
	}
	before := digest(w)
	roundsBefore := w.n.CS.GetRoundState().Votes.VerifRoundCount()
	names := []string{}
	mustIgnore := true
	for _, h := range hs {
		names = append(names, h.name)
		mustIgnore = mustIgnore && h.mustIgnore
		var wire [][]byte
		if h.raw != nil {
			wire = append(wire, h.raw(w))
		} else {
			first := h.msg(w)
			if first == nil {
				continue // not applicable in this state
			}
			msgs := []interface{}{first}
			if h.follow != nil {
				msgs = append(msgs, h.follow(w)...)
			}
			for _, m := range msgs {
				var bz []byte
				var err error
				if p, _ := vk.Catch(func() { bz, err = ser.EncodeToBytesWithType(m) }); p || err != nil {
					continue // not encodable: cannot travel on the wire
				}
				wire = append(wire, bz)
			}
		}
		for _, bz := range wire {
			bz := bz
			if p, pv := vk.Catch(func() { w.re.Receive(h.ch, w.peer, bz) }); p {
				o.recvPanic = normPanic(pv) // contained by MConnection.recvRoutine's recover: peer dropped
			}
			for w.n.VerifPeerQueueLen() > 0 {
				o.queued++
				if p, pv := vk.Catch(func() { w.n.VerifStepPeerQueue(); w.n.Drain() }); p {
					kind := h.name
					if i := strings.Index(kind, ","); i > 0 && strings.HasPrefix(kind, "Vote{") || strings.HasPrefix(kind, "Proposal{") {
						kind = kind[:strings.Index(kind, ",")] + "}"
					}
					if strings.HasPrefix(kind, "bytes:") {
						kind = strings.Join(strings.Split(kind, ":")[:2], ":")
					}
					o.viol = [2]string{"state-machine-panic:" + kind + ":" + normPanic(pv),
						fmt.Sprintf("in state %s message %s makes handleMsg panic: %v (receiveRoutine would log CONSENSUS FAILURE and exit)", st.name, h.name, normPanic(pv))}
					return o
				}
			}
		}
	}
	if len(hs) == 1 && hs[0].flood > 0 {
		if grown := w.n.CS.GetRoundState().Votes.VerifRoundCount() - roundsBefore; grown > hs[0].flood {
			o.viol = [2]string{"unbounded-growth:round-vote-sets-kept-for-one-peers-votes:" + strings.Split(names[0], ",")[0] + "}",
				fmt.Sprintf("in state %s the flood %s of ONE peer left %d new round vote sets in the height's vote bookkeeping (a peer is entitled to %d catch-up rounds): state grows with the number of messages", st.name, names[0], grown, hs[0].flood)}
			return o
		}
	}
	after := digest(w)
	o.changed = before != after
	if mustIgnore && o.changed {
		o.viol = [2]string{"invalid-message-changed-state:" + strings.Split(names[0], ",")[0],
			fmt.Sprintf("in state %s invalid message(s) %v changed the round state:\n before %s\n after  %s", st.name, names, before, after)}
		return o
	}
	// the node must be able to go on
	if cont == contHonest || cont == contNextRound {
		if p, pv := vk.Catch(func() {
			if w.n.App.Height() >= w.h {
				return // the scripted state had already committed this height
			}
			r := w.round()
			if cont == contNextRound {
				nilID := types.BlockID{}
				w.T() // whatever step the node is in: let its timeout pass
				for k := 0; k < 3; k++ {
					w.pv(k, r, nilID)
				}
				for k := 0; k < 3; k++ {
					w.pc(k, r, nilID)
				}
				for i := 0; i < 3 && w.round() == r && w.n.App.Height() < w.h; i++ {
					w.T()
				}
				if w.n.App.Height() >= w.h || w.round() != r+1 {
					return // the node committed or is elsewhere: nothing more to complete here
				}
				r = r + 1
			}
			w.prop(r, 0)
			w.partsAll(r, 0)
			for k := 0; k < 3; k++ {
				w.pv(k, r, w.ids[0])
			}
			for k := 0; k < 3; k++ {
				w.pc(k, r, w.ids[0])
			}
		}); p {
			what := "honest-round-completion"
			if cont == contNextRound {
				what = "honest-next-round-completion"
			}
			o.viol = [2]string{"later-panic-after:" + strings.Split(names[0], ",")[0] + ":" + what + ":" + normPanic(pv),
				fmt.Sprintf("in state %s after message(s) %v the %s (proposal, parts, +2/3 prevotes and precommits of the other validators for the honest block id) makes the state machine panic: %v (receiveRoutine would log CONSENSUS FAILURE and exit)", st.name, names, what, normPanic(pv))}
			return o
		}
		o.committedAfter = w.n.App.Height() >= w.h
	}
	if p, pv := vk.Catch(func() {
		for i := 0; i < 3; i++ {
			w.n.FireTimeout()
			w.n.Drain()
		}
	}); p {
		o.viol = [2]string{"later-panic-after:" + strings.Split(names[0], ",")[0] + ":" + normPanic(pv),
			fmt.Sprintf("in state %s after message(s) %v a later timeout makes the state machine panic: %v", st.name, names, normPanic(pv))}
		return o
	}
	// the reactor's per-peer gossip routines now run against whatever the peer's messages left in its PeerState. They are
	// the real goroutines: a panic in them is not recovered anywhere and ends the PROCESS (the parent sees the worker die
	// inside this case).
	if gossipAfter {
		atomic.StoreInt32(&w.peer.polls, 15)
		w.re.VerifGossip(w.peer)
	}
	return o
}

var workerSpec = flag.String("worker", "", "internal: k/N[/from]")

// gossipAfter: run the per-peer gossip routines at the end of every case (off only for bisecting a finding)
var gossipAfter = os.Getenv("C16_NO_GOSSIP") == ""

func main() {
	log.Root().SetHandler(log.DiscardHandler())
	r := vk.Start("C16", "model_checking")
	f := newFixture()
	sts := states()
	var typed []hostile
	typed = append(typed, voteMutations()...)
	typed = append(typed, voteFloods()...)
	typed = append(typed, nearLimit()...)
	typed = append(typed, proposalMutations()...)
	typed = append(typed, partMutations()...)
	typed = append(typed, stateChannelMessages()...)
	typed = append(typed, wrongChannel(typed)...)
	raw := byteMutations(r.Quick())

	type job struct {
		st   state
		hs   []hostile
		cont int
	}
	var jobs []job
	honest := 0
	for _, st := range sts {
		for _, h := range typed {
			jobs = append(jobs, job{st, []hostile{h}, contTimeouts})
			// the same case followed by the honest completion of the round instead of timeouts (a message that is
			// accepted now may make the node fail only when the honest votes arrive)
			if !strings.Contains(h.name, "@channel") {
				jobs = append(jobs, job{st, []hostile{h}, contHonest})
				jobs = append(jobs, job{st, []hostile{h}, contNextRound})
				honest += 2
			}
		}
	}
	rawStates := sts[:]
	for _, st := range rawStates {
		for _, h := range raw {
			jobs = append(jobs, job{st, []hostile{h}, contTimeouts})
		}
	}
	single := len(jobs)
	if !r.Quick() {
		// pairs of consensus-relevant messages (votes, proposals, parts) in every state
		var core []hostile
		for _, h := range typed {
			if (strings.HasPrefix(h.name, "Vote{") || strings.HasPrefix(h.name, "Proposal{") || strings.HasPrefix(h.name, "BlockPart{")) &&
				!strings.Contains(h.name, "@channel") && !strings.Contains(h.name, "foreign-sig") && !strings.Contains(h.name, "nil-sig") {
				core = append(core, h)
			}
		}
		for _, st := range sts {
			for _, a := range core {
				for _, b := range core {
					jobs = append(jobs, job{st, []hostile{a, b}, contTimeouts})
				}
			}
		}
	}
	if r.ReplayPath != "" {
		var rep struct {
			State    string   `json:"state"`
			Messages []string `json:"messages"`
			Cont     int      `json:"continuation"`
		}
		r.LoadReplay(&rep)
		var st *state
		for i := range sts {
			if sts[i].name == rep.State {
				st = &sts[i]
			}
		}
		var hs []hostile
		for _, n := range rep.Messages {
			for _, h := range append(append([]hostile{}, typed...), raw...) {
				if h.name == n {
					hs = append(hs, h)
					break
				}
			}
		}
		if st == nil || len(hs) != len(rep.Messages) {
			vk.Fatalf("replay: unknown state or message in %+v", rep)
		}
		// NOTE: a case that kills the process does so here too (run the replay under ulimit -v)
		for i := 0; i < 5; i++ {
			o := runCase(f, *st, hs, rep.Cont)
			fmt.Printf("replay run %d: queued=%d changed=%v reactorPanic=%q\n", i, o.queued, o.changed, o.recvPanic)
			if o.viol[0] != "" {
				r.Violation(o.viol[0], o.viol[1], rep)
			}
		}
		r.Finish()
	}
	caseNames = func(i int) []string {
		out := []string{"state=" + jobs[i].st.name}
		if jobs[i].cont == contHonest {
			out[0] += "+honest-round-completion"
		}
		if jobs[i].cont == contNextRound {
			out[0] += "+honest-next-round-completion"
		}
		for _, h := range jobs[i].hs {
			out = append(out, h.name)
		}
		return out
	}
	// Cases run in worker subprocesses under an address-space limit: a hostile message that makes the node
	// allocate without bound kills the PROCESS ("fatal error: out of memory" cannot be recovered), which is
	// exactly the failure the property forbids; the parent sees which case the worker died on.
	if *workerSpec != "" {
		runWorker(f, len(jobs), func(i int) (string, string, outcome, []string) {
			j := jobs[i]
			names := []string{}
			for _, h := range j.hs {
				names = append(names, h.name)
			}
			return j.st.name, j.hs[0].name, runCase(f, j.st, j.hs, j.cont), names
		})
		return
	}
	recvPanics := map[string]int{}
	queued, changed, done := 0, 0, 0
	outcomes := map[string]bool{}
	var mu sync.Mutex
	handle := func(i int, res workerResult) {
		mu.Lock()
		defer mu.Unlock()
		done++
		o := res
		if o.Fatal != "" {
			o.State, o.Msgs = strings.TrimSuffix(strings.TrimSuffix(strings.TrimPrefix(o.Msgs[0], "state="), "+honest-round-completion"), "+honest-next-round-completion"), o.Msgs[1:]
			kind := o.Msgs[0]
			if k := strings.Index(kind, ","); k > 0 {
				kind = kind[:k] + "}"
			}
			r.Violation("process-killed:"+kind+":"+o.Fatal, fmt.Sprintf("in state %s message(s) %v kill the whole process: %s", o.State, o.Msgs, o.Fatal),
				map[string]interface{}{"state": o.State, "messages": o.Msgs, "continuation": jobs[i].cont})
			return
		}
		if o.RecvPanic != "" {
			recvPanics[o.RecvPanic]++
		}
		if o.Queued > 0 {
			queued++
		}
		if o.Changed {
			changed++
		}
		outcomes[fmt.Sprintf("%v/%d/%v", o.RecvPanic != "", o.Queued, o.Changed)] = true
		if o.ViolKey != "" {
			r.Violation(o.ViolKey, o.ViolWhat, map[string]interface{}{"state": o.State, "messages": o.Msgs, "continuation": jobs[i].cont})
		}
		if i%1499 == 0 {
			r.Sample(map[string]interface{}{"state": o.State, "message": o.Msgs[0], "queued_for_state_machine": o.Queued, "state_changed": o.Changed, "panic_in_reactor_contained": o.RecvPanic})
		}
	}
	runParent(r, len(jobs), handle)
	if done < len(jobs) {
		r.Capped(fmt.Sprintf("deadline: %d of %d cases run", done, len(jobs)))
	}
	var rp []string
	for k, n := range recvPanics {
		rp = append(rp, fmt.Sprintf("%s x%d", k, n))
	}
	sort.Strings(rp)
	r.Set("states", len(sts))
	r.Set("transitions", done)
	r.Set("traces_validated_against_impl", done)
	r.Set("evaluations", done)
	r.Set("distinct_nontrivial", queued)
	r.Set("rule", "product of scripted consensus states x hostile messages (single-field boundary deviations x signature modes, wrong channels, raw byte truncations/substitutions; pairs in the thorough tier); non-trivial = the reactor queued the message for the state machine")
	r.Set("consensus_states", len(sts))
	r.Set("typed_messages", len(typed))
	nf := 0
	for _, h := range typed {
		if h.flood > 0 {
			nf++
		}
	}
	r.Set("flood_messages_with_growth_oracle", nf)
	r.Set("raw_byte_strings", len(raw))
	r.Set("single_message_cases", single)
	r.Set("cases_followed_by_honest_round_completion", honest)
	r.Set("cases_reaching_state_machine", queued)
	r.Set("cases_changing_round_state", changed)
	r.Set("distinct_outcome_classes", len(outcomes))
	r.Set("panics_inside_reactor_receive_contained_by_connection_recover", rp)
	r.Assume("a panic inside ConsensusReactor.Receive runs under MConnection.recvRoutine's deferred recover and only stops that peer (recorded, not a violation); a panic inside handleMsg/handleTimeout ends receiveRoutine")
	r.Assume("one hostile peer; the node is a validator that never proposes in rounds 0..2")
	r.Finish()
}

func scratchBase() string {
	if st, err := os.Stat("/dev/shm"); err == nil && st.IsDir() {
		return "/dev/shm"
	}
	return ""
}
