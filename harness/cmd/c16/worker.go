package main

import (
	"bufio"
	"encoding/json"
	"fmt"
	"os"
	"os/exec"
	"regexp"
	"runtime"
	"strconv"
	"strings"
	"sync"
	"sync/atomic"
	"time"

	"verif/csnet"
	"verif/vk"
)

type workerResult struct {
	Idx       int      `json:"i"`
	State     string   `json:"s"`
	Msgs      []string `json:"m"`
	RecvPanic string   `json:"rp,omitempty"`
	Queued    int      `json:"q"`
	Changed   bool     `json:"c"`
	ViolKey   string   `json:"vk,omitempty"`
	ViolWhat  string   `json:"vw,omitempty"`
	Fatal     string   `json:"-"`
}

// worker: runs cases k, k+N, k+2N ... >= from; prints "S idx state|msgs" before and "R json" after each case.
func runWorker(f *csnet.Fixture, n int, run func(i int) (string, string, outcome, []string)) {
	parts := strings.Split(*workerSpec, "/")
	k, _ := strconv.Atoi(parts[0])
	N, _ := strconv.Atoi(parts[1])
	from := 0
	if len(parts) > 2 {
		from, _ = strconv.Atoi(parts[2])
	}
	out := bufio.NewWriter(os.Stdout)
	for i := k; i < n; i += N {
		if i < from {
			continue
		}
		fmt.Fprintf(out, "S %d\n", i)
		out.Flush()
		st, _, o, names := run(i)
		b, _ := json.Marshal(workerResult{Idx: i, State: st, Msgs: names, RecvPanic: o.recvPanic, Queued: o.queued, Changed: o.changed, ViolKey: o.viol[0], ViolWhat: o.viol[1]})
		fmt.Fprintf(out, "R %s\n", b)
		out.Flush()
	}
}

var reIndex = regexp.MustCompile(`index out of range \[-?\d+\]`)

const workerMemKB = 6 * 1024 * 1024 // ulimit -v for a worker (KiB)

// caseTimeout: a single case takes milliseconds; the longest legitimate silence of a worker is far below this
const caseTimeout = 60 * time.Second

// parent: N workers; a worker that dies is restarted after the case it died on.
func runParent(r *vk.Run, n int, handle func(i int, res workerResult)) {
	self, err := os.Executable()
	if err != nil {
		vk.Fatalf("executable: %v", err)
	}
	N := runtime.NumCPU()
	var wg sync.WaitGroup
	for k := 0; k < N; k++ {
		wg.Add(1)
		go func(k int) {
			defer wg.Done()
			from := 0
			for {
				if r.Expired() {
					return
				}
				sh := fmt.Sprintf("ulimit -v %d; exec \"$0\" --tier %s --worker %d/%d/%d", workerMemKB, r.Tier, k, N, from)
				cmd := exec.Command("bash", "-c", sh, self)
				cmd.Env = append(os.Environ(), "GOMAXPROCS=2", "GOTRACEBACK=single")
				stdout, _ := cmd.StdoutPipe()
				var errbuf strings.Builder
				cmd.Stderr = &limitedWriter{w: &errbuf, n: 4000}
				if err := cmd.Start(); err != nil {
					vk.Fatalf("worker start: %v", err)
				}
				sc := bufio.NewScanner(stdout)
				sc.Buffer(make([]byte, 1<<20), 1<<24)
				inflight := -1
				// watchdog: a case that does not return (a handler blocked for ever, e.g. on a leaked mutex) is an
				// observation about that case; it also ends the wait when the run's own deadline passes
				var timedOut int32
				watch := time.AfterFunc(caseTimeout, func() { atomic.StoreInt32(&timedOut, 1); cmd.Process.Kill() })
				for sc.Scan() {
					watch.Reset(caseTimeout)
					line := sc.Text()
					if strings.HasPrefix(line, "S ") {
						inflight, _ = strconv.Atoi(line[2:])
					} else if strings.HasPrefix(line, "R ") {
						var res workerResult
						if err := json.Unmarshal([]byte(line[2:]), &res); err != nil {
							vk.Fatalf("worker output: %v", err)
						}
						handle(res.Idx, res)
						inflight = -1
					}
					if r.Expired() {
						cmd.Process.Kill()
						break
					}
				}
				watch.Stop()
				err := cmd.Wait()
				if r.Expired() {
					return
				}
				if inflight < 0 {
					if err != nil {
						vk.Fatalf("worker %d exited abnormally outside a case: %v\n%s", k, err, errbuf.String())
					}
					return // shard complete
				}
				// died inside case `inflight`
				reason := "process died"
				es := errbuf.String()
				switch {
				case atomic.LoadInt32(&timedOut) == 1:
					reason = fmt.Sprintf("does not return within %v (consensus routine blocked)", caseTimeout)
				case strings.Contains(es, "out of memory") || strings.Contains(es, "cannot allocate memory"):
					reason = "fatal error: out of memory (unbounded allocation)"
				case strings.Contains(es, "stack overflow") || strings.Contains(es, "stack exceeds"):
					reason = "fatal error: stack overflow"
				case strings.Contains(es, "fatal error:"):
					i := strings.Index(es, "fatal error:")
					reason = strings.SplitN(es[i:], "\n", 2)[0]
				case strings.Contains(es, "panic:"):
					// an unrecovered panic in a goroutine (e.g. one of the reactor's gossip routines) ends the process
					i := strings.Index(es, "panic:")
					reason = "unrecovered " + reIndex.ReplaceAllString(strings.SplitN(es[i:], "\n", 2)[0], "index out of range [N]")
					if j := strings.Index(es, "consensus.(*ConsensusReactor)."); j > 0 {
						fn := es[j+len("consensus.(*ConsensusReactor)."):]
						if k := strings.IndexAny(fn, "(\n"); k > 0 {
							reason += " in " + fn[:k]
						}
					}
				}
				handle(inflight, workerResult{Idx: inflight, Fatal: reason, State: "?", Msgs: caseNames(inflight)})
				from = inflight + 1
			}
		}(k)
	}
	wg.Wait()
}

type limitedWriter struct {
	w *strings.Builder
	n int
}

func (l *limitedWriter) Write(p []byte) (int, error) {
	if l.w.Len() < l.n {
		m := l.n - l.w.Len()
		if m > len(p) {
			m = len(p)
		}
		l.w.Write(p[:m])
	}
	return len(p), nil
}

var caseNames = func(i int) []string { return []string{fmt.Sprintf("case#%d", i)} }
