package main

// Phase B: a part set built from the signed header accepts exactly the genuine parts, once each, in any
// arrival order, with duplicates and forgeries interleaved, and the completed set reads back byte for
// byte as the proposer's block (both reassembly paths of the repository: the consensus reader path and the
// block-store concatenation path).
//
// Phase C: merkle.SimpleProof.Verify for every (index,total) and every single-aunt tamper.

import (
	"bytes"
	"fmt"
	"io"
	"io/ioutil"
	"math"
	"sync"
	"sync/atomic"

	"verif/vk"

	"github.com/lianxiangcloud/linkchain/blockchain"
	"github.com/lianxiangcloud/linkchain/libs/common"
	"github.com/lianxiangcloud/linkchain/libs/crypto"
	"github.com/lianxiangcloud/linkchain/libs/crypto/merkle"
	dbm "github.com/lianxiangcloud/linkchain/libs/db"
	"github.com/lianxiangcloud/linkchain/libs/ser"
	"github.com/lianxiangcloud/linkchain/types"
)

// wire passes a part through the repository's codec, as the consensus reactor does: the result is a fresh
// object without cached hash. ok=false if the part is not representable on the wire.
func wire(p *types.Part) (*types.Part, bool) {
	bz, err := ser.EncodeToBytes(p)
	if err != nil {
		return nil, false
	}
	out := new(types.Part)
	if err := ser.DecodeBytes(bz, out); err != nil {
		return nil, false
	}
	return out, true
}

type partOp struct {
	name  string
	class string // fault class ("genuine" for the proposer's own parts)
	part  *types.Part
}

type partCase struct {
	name    string
	cfg     blockCfg
	size    int
	block   *types.Block
	data    []byte // the proposer's serialized block
	header  types.PartSetHeader
	genuine []*types.Part
	ops     []partOp

	blockHash common.Hash
	want      string // reference dump of the proposer's block
	light     bool   // large sets: per-step comparison limited to the counters and the touched slot
}

func auntsEqual(a, b [][]byte) bool {
	if len(a) != len(b) {
		return false
	}
	for i := range a {
		if !bytes.Equal(a[i], b[i]) {
			return false
		}
	}
	return true
}

// isGenuine: the reference notion of "the proposer's part for p.Index": same bytes and the same proof.
func (pc *partCase) isGenuine(p *types.Part) bool {
	if p.Index < 0 || p.Index >= len(pc.genuine) {
		return false
	}
	g := pc.genuine[p.Index]
	return bytes.Equal(p.Bytes, g.Bytes) && auntsEqual(p.Proof.Aunts, g.Proof.Aunts)
}

// pathTree computes, with the tree shape of libs/crypto/merkle (left subtree = first (n+1)/2 leaves), the
// interior nodes on the path of every leaf: for leaf i, nodes[i][k-1] holds the two child hashes of its
// ancestor k levels above it (k = 1: its parent ... k = depth: the root). Subtree hashes are memoized.
type pathTree struct {
	leaves [][]byte
	memo   map[[2]int][]byte
}

func newPathTree(leaves [][]byte) *pathTree {
	return &pathTree{leaves: leaves, memo: map[[2]int][]byte{}}
}

func (t *pathTree) sub(start, n int) []byte {
	if n == 1 {
		return t.leaves[start]
	}
	if h, ok := t.memo[[2]int{start, n}]; ok {
		return h
	}
	nl := (n + 1) / 2
	h := merkle.SimpleHashFromTwoHashes(t.sub(start, nl), t.sub(start+nl, n-nl))
	t.memo[[2]int{start, n}] = h
	return h
}

// path returns the (left, right) child hashes of the ancestors of leaf i, lowest ancestor first.
func (t *pathTree) path(i int) (nodes [][2][]byte) {
	var rec func(start, n int)
	rec = func(start, n int) {
		if n == 1 {
			return
		}
		nl := (n + 1) / 2
		if i < start+nl {
			rec(start, nl)
		} else {
			rec(start+nl, n-nl)
		}
		nodes = append(nodes, [2][]byte{t.sub(start, nl), t.sub(start+nl, n-nl)})
	}
	rec(0, len(t.leaves))
	return
}

// nodePreimage: the byte string whose leaf hash (Keccak of the part bytes) equals the interior node hash
// (Keccak of the two length-prefixed child hashes): the tree has no leaf/inner domain separation.
// ok=false if that does not hold for this library version (then the class is skipped).
func nodePreimage(children [2][]byte) (pre []byte, ok bool) {
	for _, c := range children {
		if len(c) != 32 {
			return nil, false
		}
		pre = append(append(pre, 0x80+32), c...)
	}
	return pre, bytes.Equal(crypto.Keccak256(pre), merkle.SimpleHashFromTwoHashes(children[0], children[1]))
}

func cpAunts(a [][]byte) [][]byte {
	out := make([][]byte, len(a))
	for i := range a {
		out[i] = cpBytes(a[i])
	}
	return out
}

func mkPart(index int, bz []byte, aunts [][]byte) *types.Part {
	return &types.Part{Index: index, Bytes: cpBytes(bz), Proof: merkle.SimpleProof{Aunts: cpAunts(aunts)}}
}

func partsOf(b *types.Block, size int) (types.PartSetHeader, []*types.Part) {
	ps := clone(b).MakePartSet(size)
	var out []*types.Part
	for i := 0; i < ps.Total(); i++ {
		out = append(out, ps.GetPart(i))
	}
	return ps.Header(), out
}

// newPartCase builds the genuine parts and the fault alphabet. faultsFor limits the indices for which the
// full fault alphabet is generated (nil = all).
func newPartCase(cfg blockCfg, size int, other blockCfg, fullAlphabet bool) *partCase {
	b := baseBlock(cfg)
	data, err := ser.EncodeToBytes(clone(b))
	if err != nil {
		vk.Fatalf("encode: %v", err)
	}
	pc := &partCase{name: fmt.Sprintf("%v/partsize%d", cfg, size), cfg: cfg, size: size, block: b, data: data}
	pc.header, pc.genuine = partsOf(b, size)
	pc.blockHash = clone(b).Hash()
	pc.want = dump(b)
	n := len(pc.genuine)
	_, foreign := partsOf(baseBlock(other), size)
	_, resized := partsOf(b, size+1)
	seen := map[string]bool{}
	add := func(class, name string, p *types.Part) {
		w, ok := wire(p)
		if !ok {
			vk.Fatalf("%s: %s is not representable on the wire", pc.name, name)
		}
		// skip forgeries that coincide with an op already in the alphabet
		k := fmt.Sprintf("%d|%x|%x", w.Index, []byte(w.Bytes), w.Proof.Aunts)
		if seen[k] {
			return
		}
		seen[k] = true
		pc.ops = append(pc.ops, partOp{name: name, class: class, part: w})
	}
	for i, g := range pc.genuine {
		add("genuine", fmt.Sprintf("genuine[%d]", i), mkPart(i, g.Bytes, g.Proof.Aunts))
	}
	if !fullAlphabet {
		return pc
	}
	zero := make([]byte, 32)
	var leafHashes [][]byte
	for _, g := range pc.genuine {
		leafHashes = append(leafHashes, crypto.Keccak256(g.Bytes))
	}
	tree := newPathTree(leafHashes)
	for i, g := range pc.genuine {
		bz, au := []byte(g.Bytes), g.Proof.Aunts
		f := func(class, what string, p *types.Part) { add(class, fmt.Sprintf("%s[%d]%s", class, i, what), p) }
		// bytes
		f("bytes-truncated", "", mkPart(i, bz[:len(bz)-1], au))
		f("bytes-empty", "", mkPart(i, nil, au))
		f("bytes-extended", "", mkPart(i, append(cpBytes(bz), 0x00), au))
		fl := cpBytes(bz)
		fl[0] ^= 0x01
		f("bytes-flipped", ":first", mkPart(i, fl, au))
		fl = cpBytes(bz)
		fl[len(fl)-1] ^= 0x80
		f("bytes-flipped", ":last", mkPart(i, fl, au))
		// index
		if i+1 < n {
			f("index-shifted", ":+1", mkPart(i+1, bz, au))
		}
		if i-1 >= 0 {
			f("index-shifted", ":-1", mkPart(i-1, bz, au))
		}
		f("index<0", ":-1", mkPart(-1, bz, au))
		f("index<0", ":MinInt", mkPart(math.MinInt64, bz, au))
		f("index>=total", ":total", mkPart(n, bz, au))
		f("index>=total", ":total+1", mkPart(n+1, bz, au))
		f("index>=total", ":MaxInt", mkPart(math.MaxInt64, bz, au))
		// proof
		if len(au) > 0 {
			f("proof-empty", "", mkPart(i, bz, nil))
		}
		for k := range au {
			d := append(cpAunts(au[:k]), cpAunts(au[k+1:])...)
			f("proof-aunt-dropped", fmt.Sprintf(":%d", k), mkPart(i, bz, d))
			m := cpAunts(au)
			m[k][0] ^= 0x01
			f("proof-aunt-flipped", fmt.Sprintf(":%d", k), mkPart(i, bz, m))
			m = cpAunts(au)
			m[k] = m[k][:len(m[k])-1]
			f("proof-aunt-truncated", fmt.Sprintf(":%d", k), mkPart(i, bz, m))
			m = append(cpAunts(au[:k+1]), cpAunts(au[k:])...)
			f("proof-aunt-duplicated", fmt.Sprintf(":%d", k), mkPart(i, bz, m))
			if k+1 < len(au) {
				m = cpAunts(au)
				m[k], m[k+1] = m[k+1], m[k]
				f("proof-aunts-swapped", fmt.Sprintf(":%d,%d", k, k+1), mkPart(i, bz, m))
			}
		}
		f("proof-extra-aunt", ":appended-zero", mkPart(i, bz, append(cpAunts(au), zero)))
		f("proof-extra-aunt", ":prepended-zero", mkPart(i, bz, append([][]byte{zero}, cpAunts(au)...)))
		f("proof-extra-aunt", ":appended-own-hash", mkPart(i, bz, append(cpAunts(au), crypto.Keccak256(bz))))
		// proof shortened from either end
		for k := 1; k <= len(au); k++ {
			f("proof-truncated", fmt.Sprintf(":minus-lowest-%d", k), mkPart(i, bz, au[k:]))
			f("proof-truncated", fmt.Sprintf(":minus-highest-%d", k), mkPart(i, bz, au[:len(au)-k]))
		}
		// the pre-image of an interior node on the path of i offered as part i (its "leaf hash" is that node's
		// hash), with the proof shortened by the k aunts below that node, with the full proof, and shortened from the top
		for k, node := range tree.path(i) {
			pre, ok := nodePreimage(node)
			if !ok || k+1 > len(au) {
				continue
			}
			lvl := k + 1
			f("interior-node-preimage", fmt.Sprintf(":level-%d,proof-minus-lowest-%d", lvl, lvl), mkPart(i, pre, au[lvl:]))
			f("interior-node-preimage", fmt.Sprintf(":level-%d,full-proof", lvl), mkPart(i, pre, au))
			f("interior-node-preimage", fmt.Sprintf(":level-%d,proof-minus-highest-%d", lvl, lvl), mkPart(i, pre, au[:len(au)-lvl]))
		}
		for j, o := range pc.genuine {
			// large sets: only the neighbours, the sibling and the two ends (the full cross product is quadratic)
			if n > 8 && j != i-1 && j != i+1 && j != i^1 && j != 0 && j != n-1 {
				continue
			}
			if j != i {
				f("proof-of-other-index", fmt.Sprintf(":%d", j), mkPart(i, bz, o.Proof.Aunts))
			}
		}
		// other sets
		if i < len(foreign) {
			f("part-of-other-block", "", mkPart(i, foreign[i].Bytes, foreign[i].Proof.Aunts))
			f("other-block-bytes-with-this-proof", "", mkPart(i, foreign[i].Bytes, au))
			f("proof-from-other-block", "", mkPart(i, bz, foreign[i].Proof.Aunts))
		}
		if i < len(resized) {
			f("part-of-other-part-size", "", mkPart(i, resized[i].Bytes, resized[i].Proof.Aunts))
			f("proof-from-other-part-size", "", mkPart(i, bz, resized[i].Proof.Aunts))
		}
	}
	return pc
}

// partModel is the reference: which indices have been received.
type partModel struct {
	got []bool
	n   int
}

func (m *partModel) key() string {
	s := make([]byte, len(m.got))
	for i, g := range m.got {
		s[i] = '0'
		if g {
			s[i] = '1'
		}
	}
	return string(s)
}

// outcome histogram (fault class -> AddPart result), the non-vacuity record of phase B
var outcomes sync.Map

func countOutcome(class string, added bool, err error, panicked bool) {
	res := fmt.Sprintf("(%v,%v)", added, err)
	if panicked {
		res = "panic"
	}
	k := class + " -> " + res
	v, ok := outcomes.Load(k)
	if !ok {
		v, _ = outcomes.LoadOrStore(k, new(int64))
	}
	atomic.AddInt64(v.(*int64), 1)
}

// step applies one op to the real set and the model and compares. Returns (violation key, what, soft).
func (pc *partCase) step(ps *types.PartSet, m *partModel, op partOp) (string, string, bool) {
	p, _ := wire(op.part) // a fresh object per delivery: AddPart keeps the pointer and Part caches its hash
	var added bool
	var err error
	panicked, val := vk.Catch(func() { added, err = ps.AddPart(p) })
	countOutcome(op.class, added, err, panicked)
	if panicked {
		cl := op.class
		if cl == "index<0" || cl == "index>=total" {
			return "AddPart:" + cl + ":panic", fmt.Sprintf("%s: AddPart(%s) panics: %v", pc.name, op.name, val), true
		}
		return "AddPart:panic:" + cl, fmt.Sprintf("%s: AddPart(%s) panics: %v", pc.name, op.name, val), true
	}
	inRange := p.Index >= 0 && p.Index < len(m.got)
	switch {
	case inRange && !m.got[p.Index] && pc.isGenuine(p):
		if !added || err != nil {
			return "genuine-part-rejected", fmt.Sprintf("%s: AddPart(%s) = (%v, %v) for the proposer's part at an empty slot", pc.name, op.name, added, err), false
		}
		m.got[p.Index] = true
		m.n++
	default:
		if added {
			what := "forged-part-accepted:" + op.class
			if inRange && m.got[p.Index] {
				what = "part-accepted-twice:" + op.class
			}
			return what, fmt.Sprintf("%s: AddPart(%s) = (true, %v) in state %s", pc.name, op.name, err, m.key()), false
		}
	}
	if pc.light {
		return pc.compareLight(ps, m, op.name, p.Index)
	}
	return pc.compare(ps, m, op.name)
}

func (pc *partCase) compareLight(ps *types.PartSet, m *partModel, after string, slot int) (string, string, bool) {
	if ps.Count() != m.n {
		return "partset-state-diverges:count", fmt.Sprintf("%s: after %s Count()=%d, %d genuine parts were delivered", pc.name, after, ps.Count(), m.n), false
	}
	if ps.IsComplete() != (m.n == len(m.got)) {
		return "partset-state-diverges:complete", fmt.Sprintf("%s: after %s IsComplete()=%v with %d of %d parts", pc.name, after, ps.IsComplete(), m.n, len(m.got)), false
	}
	if slot >= 0 && slot < len(m.got) {
		p := ps.GetPart(slot)
		if (p != nil) != m.got[slot] {
			return "partset-state-diverges:slot", fmt.Sprintf("%s: after %s slot %d filled=%v, model %v", pc.name, after, slot, p != nil, m.got[slot]), false
		}
		if p != nil && !bytes.Equal(p.Bytes, pc.genuine[slot].Bytes) {
			return "partset-state-diverges:slot-content", fmt.Sprintf("%s: after %s slot %d holds bytes that are not the proposer's", pc.name, after, slot), false
		}
	}
	return "", "", false
}

// compare checks the observable state of the real set against the model.
func (pc *partCase) compare(ps *types.PartSet, m *partModel, after string) (string, string, bool) {
	if ps.Count() != m.n {
		return "partset-state-diverges:count", fmt.Sprintf("%s: after %s Count()=%d, %d genuine parts were delivered (%s)", pc.name, after, ps.Count(), m.n, m.key()), false
	}
	if ps.IsComplete() != (m.n == len(m.got)) {
		return "partset-state-diverges:complete", fmt.Sprintf("%s: after %s IsComplete()=%v with %d of %d parts", pc.name, after, ps.IsComplete(), m.n, len(m.got)), false
	}
	ba := ps.BitArray()
	for i, g := range m.got {
		if ba.GetIndex(i) != g {
			return "partset-state-diverges:bitarray", fmt.Sprintf("%s: after %s bit %d = %v, model %v", pc.name, after, i, ba.GetIndex(i), g), false
		}
		p := ps.GetPart(i)
		if (p != nil) != g {
			return "partset-state-diverges:slot", fmt.Sprintf("%s: after %s slot %d filled=%v, model %v", pc.name, after, i, p != nil, g), false
		}
		if p != nil && !bytes.Equal(p.Bytes, pc.genuine[i].Bytes) {
			return "partset-state-diverges:slot-content", fmt.Sprintf("%s: after %s slot %d holds bytes that are not the proposer's", pc.name, after, i), false
		}
	}
	if !ps.HasHeader(pc.header) {
		return "partset-state-diverges:header", fmt.Sprintf("%s: after %s the set no longer has the signed header", pc.name, after), false
	}
	return "", "", false
}

// chunkReader reads through r with a fixed small buffer, to drive PartSetReader.Read across part borders.
func readChunks(r io.Reader, n int) ([]byte, error) {
	var out []byte
	buf := make([]byte, n)
	for {
		k, err := r.Read(buf)
		out = append(out, buf[:k]...)
		if err == io.EOF {
			return out, nil
		}
		if err != nil {
			return out, err
		}
		if k == 0 {
			return out, fmt.Errorf("Read returned 0 bytes without error")
		}
	}
}

var maxBlockBytes = int64(types.DefaultConsensusParams().BlockSize.MaxBytes)

// reassemble checks everything that is read from a completed set.
func (pc *partCase) reassemble(ps *types.PartSet) (string, string) {
	all, err := ioutil.ReadAll(ps.GetReader())
	if err != nil || !bytes.Equal(all, pc.data) {
		return "reassembly:bytes-differ", fmt.Sprintf("%s: ReadAll(GetReader()) gives %d bytes (err %v), the proposer serialized %d bytes", pc.name, len(all), err, len(pc.data))
	}
	for _, n := range []int{1, 3, pc.size, pc.size + 1} {
		got, err := readChunks(ps.GetReader(), n)
		if err != nil || !bytes.Equal(got, pc.data) {
			return "reassembly:bytes-differ", fmt.Sprintf("%s: reading in chunks of %d gives %d bytes (err %v), want %d", pc.name, n, len(got), err, len(pc.data))
		}
	}
	// consensus path (addProposalBlockPart)
	var viaReader *types.Block
	if _, err := ser.DecodeReader(ps.GetReader(), &viaReader, maxBlockBytes); err != nil {
		return "reassembly:decode-error", fmt.Sprintf("%s: DecodeReader(GetReader()) fails: %v", pc.name, err)
	}
	// block store path: the real BlockStore saves the received parts and LoadBlock re-assembles them
	var viaStore *types.Block
	var loadedParts []byte
	if panicked, val := vk.Catch(func() {
		db := dbm.NewMemDB()
		blockchain.BlockStoreStateJSON{Height: viaReader.Height - 1}.Save(db)
		bs := blockchain.NewBlockStore(db)
		bs.SaveBlock(viaReader, ps, &types.Commit{}, nil, &types.TxsResult{})
		viaStore = bs.LoadBlock(viaReader.Height)
		for i := 0; i < ps.Total(); i++ {
			loadedParts = append(loadedParts, bs.LoadBlockPart(viaReader.Height, i).Bytes...)
		}
	}); panicked {
		return "reassembly:block-store-panic", fmt.Sprintf("%s: BlockStore.SaveBlock/LoadBlock panics: %v", pc.name, val)
	}
	if !bytes.Equal(loadedParts, pc.data) {
		return "reassembly:bytes-differ", fmt.Sprintf("%s: parts loaded back from the block store concatenate to %d bytes, the proposer serialized %d", pc.name, len(loadedParts), len(pc.data))
	}
	want := pc.want
	for wi, b := range []*types.Block{viaReader, viaStore} {
		which := []string{"reader", "store"}[wi]
		if b == nil || b.Header == nil {
			return "reassembly:decode-error", fmt.Sprintf("%s: %s path decodes to a nil block", pc.name, which)
		}
		if d := dump(b); d != want {
			return "reassembly:content-differs", fmt.Sprintf("%s: block decoded on the %s path differs from the proposer's:\n%s\nvs\n%s", pc.name, which, d, want)
		}
		if b.Hash() != pc.blockHash || !b.MakePartSet(pc.size).Header().Equals(pc.header) {
			return "reassembly:block-id-differs", fmt.Sprintf("%s: block decoded on the %s path has another id", pc.name, which)
		}
		if err := b.ValidateBasic(); err != nil {
			return "reassembly:decoded-block-invalid", fmt.Sprintf("%s: block decoded on the %s path fails ValidateBasic: %v", pc.name, which, err)
		}
	}
	return "", ""
}

func (pc *partCase) fresh() (*types.PartSet, *partModel) {
	h := pc.header
	h.Hash = cpBytes(h.Hash)
	return types.NewPartSetFromHeader(h), &partModel{got: make([]bool, len(pc.genuine))}
}

// outcomes: histogram of (class -> result) for the non-vacuity record
type outcomeHist map[string]int

// search explores all delivery sequences (state = set of received indices) with the opx engine.
func (pc *partCase) search(r *vk.Run, depthExtra int) vk.Result {
	// state-key adequacy self-test: re-expand both representatives of every k-th merge (serial, so rarer for
	// the larger lattices)
	every := 64
	if n := len(pc.genuine); n >= 6 {
		every = 4096
	} else if n >= 4 {
		every = 512
	}
	spec := vk.Spec{
		Name:            pc.name,
		NumOps:          len(pc.ops),
		OpName:          func(i int) string { return pc.ops[i].name },
		Depth:           len(pc.genuine) + depthExtra,
		MergeCheckEvery: every,
		Exec: func(hist []int) (out vk.Outcome) {
			defer func() {
				if e := recover(); e != nil {
					out = vk.Outcome{Err: "harness-or-repo-panic", What: fmt.Sprintf("%s: %v", pc.name, e)}
				}
			}()
			ps, m := pc.fresh()
			var soft [][2]string
			for i, oi := range hist {
				k, w, isSoft := pc.step(ps, m, pc.ops[oi])
				if k == "" {
					continue
				}
				if isSoft {
					// a panic inside AddPart: recorded, the search goes on from the unchanged state
					if i == len(hist)-1 {
						soft = append(soft, [2]string{k, w})
					}
					if k2, w2, _ := pc.compare(ps, m, pc.ops[oi].name+" (panicked)"); k2 != "" && i == len(hist)-1 {
						return vk.Outcome{Err: k2, What: w2}
					}
					continue
				}
				if i == len(hist)-1 {
					return vk.Outcome{Err: k, What: w}
				}
				return vk.Outcome{} // the prefix already violated; reported there
			}
			if m.n == len(m.got) {
				if k, w := pc.reassemble(ps); k != "" {
					return vk.Outcome{Err: k, What: w}
				}
			}
			return vk.Outcome{Key: m.key(), Soft: soft}
		},
	}
	return r.Explore(spec)
}

// linear runs the fixed schedules used for part sets too large for the full order enumeration: forward,
// reverse and odd-then-even delivery with every delivery repeated once, every forgery offered against the
// empty set, against the set that lacks only the targeted index, and against the complete set.
func (pc *partCase) linear(r *vk.Run) (deliveries int) {
	n := len(pc.genuine)
	orders := map[string][]int{"forward": nil, "reverse": nil, "odd-then-even": nil}
	for i := 0; i < n; i++ {
		orders["forward"] = append(orders["forward"], i)
		orders["reverse"] = append(orders["reverse"], n-1-i)
	}
	for i := 1; i < n; i += 2 {
		orders["odd-then-even"] = append(orders["odd-then-even"], i)
	}
	for i := 0; i < n; i += 2 {
		orders["odd-then-even"] = append(orders["odd-then-even"], i)
	}
	names := []string{"forward", "reverse", "odd-then-even"}
	report := func(k, w, sched string, soft bool) {
		r.Violation(k, w, map[string]interface{}{"phase": "parts-linear", "block": pc.cfg, "part_size": pc.size, "schedule": sched})
	}
	genuineOp := func(i int) partOp { return pc.ops[i] } // the first n ops are the genuine parts in index order
	for _, on := range names {
		ps, m := pc.fresh()
		bad := false
		for _, i := range orders[on] {
			for rep := 0; rep < 2 && !bad; rep++ {
				deliveries++
				if k, w, soft := pc.step(ps, m, genuineOp(i)); k != "" {
					report(k, w, on, soft)
					bad = !soft
				}
			}
			if bad {
				break
			}
		}
		if !bad {
			if k, w := pc.reassemble(ps); k != "" {
				report(k, w, on, false)
			}
		}
	}
	return
}

// forgeriesAgainst offers every forged op of the alphabet to (a) the empty set, (b) the complete set and,
// for the slots in `slots`, (c) the set that lacks only the slot the forgery aims at.
func (pc *partCase) forgeriesAgainst(r *vk.Run, slots []int) (deliveries int) {
	n := len(pc.genuine)
	report := func(k, w, mode string, op partOp) {
		r.Violation(k, w, map[string]interface{}{"phase": "parts-forgeries", "block": pc.cfg, "part_size": pc.size, "against": mode, "op": op.name})
	}
	for _, mode := range []string{"empty", "complete"} {
		build := func() (*types.PartSet, *partModel) {
			ps, m := pc.fresh()
			if mode == "complete" {
				for i := 0; i < n; i++ {
					pc.step(ps, m, pc.ops[i])
				}
			}
			return ps, m
		}
		ps, m := build()
		for _, op := range pc.ops[n:] {
			deliveries++
			if k, w, soft := pc.step(ps, m, op); k != "" {
				report(k, w, mode, op)
				if !soft {
					ps, m = build() // the set took a forgery: continue from a clean one
				}
			}
		}
		if k, w, _ := pc.compare(ps, m, "all forgeries against the "+mode+" set"); k != "" {
			report(k, w, mode, partOp{name: "(final state)"})
		}
	}
	for _, s := range slots {
		if s < 0 || s >= n {
			continue
		}
		build := func() (*types.PartSet, *partModel) {
			ps, m := pc.fresh()
			for i := 0; i < n; i++ {
				if i != s {
					pc.step(ps, m, pc.ops[i])
				}
			}
			return ps, m
		}
		ps, m := build()
		mode := fmt.Sprintf("all-but-slot-%d", s)
		for _, op := range pc.ops[n:] {
			if op.part.Index != s {
				continue
			}
			deliveries++
			if k, w, soft := pc.step(ps, m, op); k != "" {
				report(k, w, mode, op)
				if !soft {
					ps, m = build()
				}
			}
		}
		if k, w, _ := pc.compare(ps, m, "all forgeries against "+mode); k != "" {
			report(k, w, mode, partOp{name: "(final state)"})
		}
	}
	return
}

// ---- header shapes --------------------------------------------------------------------------------

// wrongTotals: a header with the proposer's root hash but another total must never complete from the
// proposer's parts (otherwise two byte strings would share one part-set hash).
func wrongTotals(r *vk.Run, pc *partCase) (cases int) {
	n := len(pc.genuine)
	for _, t := range []int{n - 1, n + 1} {
		if t <= 0 {
			continue
		}
		cases++
		ps := types.NewPartSetFromHeader(types.PartSetHeader{Total: t, Hash: cpBytes(pc.header.Hash)})
		for i := 0; i < n; i++ {
			p, _ := wire(pc.ops[i].part)
			vk.Catch(func() { ps.AddPart(p) })
		}
		if ps.IsComplete() {
			r.Violation("wrong-total-header-completes", fmt.Sprintf("%s: a header with total %d (proposer: %d) and the proposer's root completes from the proposer's parts", pc.name, t, n),
				map[string]interface{}{"phase": "header-shape", "block": pc.cfg, "part_size": pc.size, "total": t})
		}
	}
	return
}

// negativeTotal is an observation, not an oracle: the property quantifies over parts, not over malformed
// headers (a proposal with a non-positive total is refused before a set is built, consensus defaultSetProposal).
func negativeTotal() string {
	if panicked, val := vk.Catch(func() { types.NewPartSetFromHeader(types.PartSetHeader{Total: -1, Hash: make([]byte, 32)}) }); panicked {
		return fmt.Sprintf("panics: %v", val)
	}
	return "no panic"
}

// ---- phase C: SimpleProof.Verify ------------------------------------------------------------------

type leaf []byte

func (l leaf) Hash() []byte { return l }

func checkMerkle(r *vk.Run, minTotal, maxTotal int) (cases, accepts int, crossTotal int) {
	for total := minTotal; total <= maxTotal; total++ {
		var items []merkle.Hasher
		var leaves [][]byte
		for i := 0; i < total; i++ {
			h := crypto.Keccak256([]byte(fmt.Sprintf("leaf-%d-of-%d", i, total)))
			leaves = append(leaves, h)
			items = append(items, leaf(h))
		}
		root, proofs := merkle.SimpleProofsFromHashers(items)
		ptree := newPathTree(leaves)
		if !bytes.Equal(root, merkle.SimpleHashFromHashers(items)) {
			r.Violation("merkle:proof-root-differs-from-tree-root", fmt.Sprintf("total %d", total), map[string]interface{}{"phase": "merkle", "total": total})
		}
		// substitute hashes: every leaf and every aunt of the tree, plus zero
		subs := [][]byte{make([]byte, 32)}
		subs = append(subs, leaves...)
		for _, p := range proofs {
			subs = append(subs, p.Aunts...)
		}
		subs = append(subs, root)
		try := func(class string, index, tot int, lf []byte, aunts [][]byte, wantTrue bool, info map[string]interface{}) {
			cases++
			sp := &merkle.SimpleProof{Aunts: aunts}
			var ok bool
			info["phase"], info["total"], info["tamper"] = "merkle", total, class
			if panicked, val := vk.Catch(func() { ok = sp.Verify(index, tot, lf, root) }); panicked {
				r.Violation("merkle:verify-panic:"+class, fmt.Sprintf("Verify(index %d, total %d) panics: %v", index, tot, val), info)
				return
			}
			if ok {
				accepts++
			}
			if ok && !wantTrue {
				r.Violation("merkle:accepts:"+class, fmt.Sprintf("tree of %d leaves: Verify(index %d, total %d) accepts a proof that is not the genuine proof of that leaf (%v)", total, index, tot, info), info)
			}
			if !ok && wantTrue {
				r.Violation("merkle:genuine-proof-rejected", fmt.Sprintf("tree of %d leaves: genuine proof of leaf %d rejected", total, index), info)
			}
		}
		for i := 0; i < total; i++ {
			au := proofs[i].Aunts
			try("genuine", i, total, leaves[i], cpAunts(au), true, map[string]interface{}{"index": i})
			// every claimed index (incl. out of range) and every leaf with the genuine aunts of i
			idx := []int{-1, math.MinInt64, total, total + 1, math.MaxInt64}
			for j := 0; j < total; j++ {
				idx = append(idx, j)
			}
			for _, j := range idx {
				for li, lf := range leaves {
					if j == i && li == i {
						continue
					}
					// with one leaf hash standing in two places the proof may be genuinely valid: leaves are distinct here
					try("index-or-leaf-substituted", j, total, lf, cpAunts(au), false, map[string]interface{}{"proof_of": i, "claimed_index": j, "leaf": li})
				}
			}
			// single-aunt tampers
			for k := range au {
				d := append(cpAunts(au[:k]), cpAunts(au[k+1:])...)
				try("aunt-dropped", i, total, leaves[i], d, false, map[string]interface{}{"index": i, "aunt": k})
				m := append(cpAunts(au[:k+1]), cpAunts(au[k:])...)
				try("aunt-duplicated", i, total, leaves[i], m, false, map[string]interface{}{"index": i, "aunt": k})
				for bit := 0; bit < 2; bit++ {
					m = cpAunts(au)
					m[k][bit*31] ^= 0x01
					try("aunt-flipped", i, total, leaves[i], m, false, map[string]interface{}{"index": i, "aunt": k})
				}
				m = cpAunts(au)
				m[k] = m[k][:31]
				try("aunt-truncated", i, total, leaves[i], m, false, map[string]interface{}{"index": i, "aunt": k})
				m = cpAunts(au)
				m[k] = nil
				try("aunt-nil", i, total, leaves[i], m, false, map[string]interface{}{"index": i, "aunt": k})
				for si, s := range subs {
					if bytes.Equal(s, au[k]) {
						continue
					}
					m = cpAunts(au)
					m[k] = cpBytes(s)
					try("aunt-substituted", i, total, leaves[i], m, false, map[string]interface{}{"index": i, "aunt": k, "substitute": si})
				}
				if k+1 < len(au) {
					m = cpAunts(au)
					m[k], m[k+1] = m[k+1], m[k]
					try("aunts-swapped", i, total, leaves[i], m, false, map[string]interface{}{"index": i, "aunt": k})
				}
			}
			// claimed leaf in {genuine leaf, every interior node on the path, another leaf} x every contiguous
			// sub-proof aunts[a:b] (truncation from either end): only (genuine leaf, full proof) may verify
			claimed := [][]byte{leaves[i]}
			names := []string{"genuine-leaf"}
			for k, node := range ptree.path(i) {
				claimed = append(claimed, merkle.SimpleHashFromTwoHashes(node[0], node[1]))
				names = append(names, fmt.Sprintf("interior-node-level-%d", k+1))
			}
			if total > 1 {
				claimed = append(claimed, leaves[(i+1)%total])
				names = append(names, "other-leaf")
			}
			for ci, lf := range claimed {
				for a := 0; a <= len(au); a++ {
					for b := a; b <= len(au); b++ {
						if ci == 0 && a == 0 && b == len(au) {
							continue
						}
						cl := "truncated-proof"
						if ci > 0 && ci <= len(claimed)-1 && names[ci] != "other-leaf" {
							cl = "interior-node-as-leaf"
						} else if ci > 0 {
							cl = "other-leaf-truncated-proof"
						}
						try(cl, i, total, lf, cpAunts(au[a:b]), false, map[string]interface{}{"index": i, "claimed": names[ci], "aunts_from": a, "aunts_to": b})
					}
				}
			}
			try("aunt-appended", i, total, leaves[i], append(cpAunts(au), make([]byte, 32)), false, map[string]interface{}{"index": i})
			try("aunt-prepended", i, total, leaves[i], append([][]byte{make([]byte, 32)}, cpAunts(au)...), false, map[string]interface{}{"index": i})
			if len(au) > 0 {
				try("aunts-empty", i, total, leaves[i], nil, false, map[string]interface{}{"index": i})
				rev := cpAunts(au)
				for a, b := 0, len(rev)-1; a < b; a, b = a+1, b-1 {
					rev[a], rev[b] = rev[b], rev[a]
				}
				if !auntsEqual(rev, au) {
					try("aunts-reversed", i, total, leaves[i], rev, false, map[string]interface{}{"index": i})
				}
			}
			// information only: the total is not bound by the root (it comes from the signed header)
			for t2 := 0; t2 <= maxTotal+1; t2++ {
				if t2 == total {
					continue
				}
				sp := &merkle.SimpleProof{Aunts: cpAunts(au)}
				var ok bool
				if panicked, val := vk.Catch(func() { ok = sp.Verify(i, t2, leaves[i], root) }); panicked {
					r.Violation("merkle:verify-panic:wrong-total", fmt.Sprintf("Verify(index %d, total %d) panics: %v", i, t2, val), map[string]interface{}{"phase": "merkle", "total": total, "claimed_total": t2, "index": i})
				} else if ok {
					crossTotal++
				}
				cases++
			}
		}
	}
	return
}
