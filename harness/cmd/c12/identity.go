package main

// Phase A: the block id (Block.Hash(), MakePartSet(sz).Header()) commits to the content.
//
// For every base block, every single perturbation (body perturbations both raw and with the dependent
// header fields recomputed) and, in the thorough tier, every pair of perturbations: the id must differ
// from the id of every block with a different reference dump (in particular from the base block's), and
// must equal the id of every block with the same dump.

import (
	"crypto/sha256"
	"fmt"
	"sort"
	"strings"
	"sync"
	"time"

	"verif/vk"

	"github.com/lianxiangcloud/linkchain/libs/common"
	"github.com/lianxiangcloud/linkchain/types"
)

type blockIdent struct {
	hash  common.Hash
	parts []types.PartSetHeader // one per part size
}

func pshKey(h types.PartSetHeader) string { return fmt.Sprintf("%d:%x", h.Total, []byte(h.Hash)) }

func identOf(b *types.Block, sizes []int) blockIdent {
	id := blockIdent{hash: b.Hash()}
	for _, sz := range sizes {
		id.parts = append(id.parts, b.MakePartSet(sz).Header())
	}
	return id
}

type variant struct {
	perts  []int // indices into the perturbation list (1 or 2)
	refill bool
}

type varResult struct {
	ok    bool // all perturbations applied
	dump  [32]byte
	ident blockIdent
	panic string

	strong     [32]byte       // the content without the partSetOnly components
	sec        [4][32]byte    // reference content of header / txs / evidence / commit (likewise)
	commit     [3]common.Hash // Data.Hash(), Evidence.Hash(), LastCommit.Hash() as the real code computes them
	nilCommit  bool           // LastCommit removed: Block.Hash() is the empty hash "for safety", Commit.Hash() undefined
	vbRejected bool           // ValidateBasic returned an error
}

const (
	secHeader = 0
	secTxs    = 1
	secEv     = 2
	secCommit = 3
)

var commitName = [3]string{"data-hash", "evidence-hash", "commit-hash"}

func variantName(ps []pert, v variant) string {
	var n []string
	for _, i := range v.perts {
		n = append(n, ps[i].name)
	}
	s := strings.Join(n, " + ")
	if v.refill {
		s += " (header refilled)"
	}
	return s
}

func variantClass(ps []pert, v variant) string {
	var n []string
	for _, i := range v.perts {
		n = append(n, ps[i].class)
	}
	sort.Strings(n)
	return strings.Join(n, "+")
}

func evalVariant(base *types.Block, ps []pert, v variant, sizes []int) (res varResult) {
	b := clone(base)
	applied := true
	if panicked, val := vk.Catch(func() {
		for _, i := range v.perts {
			if !ps[i].apply(b) {
				applied = false
				return
			}
		}
		res.dump = dumpHash(b)
	}); panicked {
		vk.Fatalf("perturbation %s panics in the harness: %v", variantName(ps, v), val)
	}
	if !applied {
		return
	}
	// only the code under test runs under the recovering wrapper
	if panicked, val := vk.Catch(func() {
		if v.refill {
			refill(b)
		}
		res.ident = identOf(b, sizes)
		res.nilCommit = b.LastCommit == nil
		if b.Data != nil {
			res.commit[0] = b.Data.Hash()
		}
		res.commit[1] = b.Evidence.Hash()
		res.commit[2] = b.LastCommit.Hash()
		if !res.nilCommit { // ValidateBasic dereferences the commit (hostile-input robustness is another property)
			res.vbRejected = b.ValidateBasic() != nil
		}
	}); panicked {
		res.panic = fmt.Sprint(val)
		return
	}
	if v.refill {
		res.dump = dumpHash(b) // the recomputed header fields are content too
	}
	sd := strongDump(dump(b))
	res.strong = sha256.Sum256([]byte(sd))
	res.sec = dumpSections(sd)
	res.ok = true
	return
}

// dumpOfVariant rebuilds the reference dump of a variant (only needed to name a collision).
func dumpOfVariant(base *types.Block, ps []pert, v variant) string {
	b := clone(base)
	for _, i := range v.perts {
		ps[i].apply(b)
	}
	if v.refill {
		refill(b)
	}
	return dump(b)
}

// diffSignature names WHAT two block contents differ in: the sorted set of "<line kind>.<field>" of the
// dump tokens that differ (tx[1] -> tx, pc[0] -> pc, the first line is the header). It is the root-cause part
// of a collision key: one uncommitted field gives one key, whatever else was perturbed alongside.
func diffSignature(a, b string) string {
	parse := func(d string) (labels []string, lines map[string][]string) {
		lines = map[string][]string{}
		for i, l := range strings.Split(strings.TrimSpace(d), "\n") {
			label, rest := "header", l
			if i > 0 {
				if eq := strings.Index(l, "="); eq >= 0 {
					label, rest = l[:eq], l[eq+1:]
				} else {
					label, rest = l, "" // nil-data / nil-commit markers
				}
			}
			labels = append(labels, label)
			lines[label] = strings.Fields(rest)
		}
		return
	}
	kind := func(label string) string {
		if i := strings.Index(label, "["); i >= 0 {
			return label[:i]
		}
		return label
	}
	field := func(tok string) string {
		eq := strings.Index(tok, "=")
		if eq < 0 {
			return "" // a line that is one value (commit.id)
		}
		tok = tok[:eq]
		if br := strings.LastIndex(tok, "{"); br >= 0 {
			tok = tok[br+1:]
		}
		return indexRe.ReplaceAllString(tok, "")
	}
	la, ma := parse(a)
	lb, mb := parse(b)
	set := map[string]bool{}
	seen := map[string]bool{}
	for _, label := range append(la, lb...) {
		if seen[label] {
			continue
		}
		seen[label] = true
		ta, oka := ma[label]
		tb, okb := mb[label]
		switch {
		case !oka || !okb:
			set[kind(label)+".count"] = true
		case len(ta) != len(tb):
			set[kind(label)+".shape"] = true
		default:
			// votes inside evidence repeat field names: qualify by position of the enclosing vote
			for i := range ta {
				if ta[i] != tb[i] {
					if f := field(ta[i]); f != "" {
						set[kind(label)+"."+f] = true
					} else {
						set[kind(label)] = true
					}
				}
			}
		}
	}
	var out []string
	for k := range set {
		out = append(out, k)
	}
	sort.Strings(out)
	return strings.Join(out, ",")
}

// partSetOnly: the two components of a block that the header hash does not cover BY DESIGN. Header.Recover is not
// in the Header.Hash() map, and Commit.BlockID (a redundant copy of Header.LastBlockID that VerifyCommit ignores) is
// not in Commit.Hash(). For them the statement's own alternative is judged: the part-set header must change (weaker
// clause). They are excluded BY NAME from the strong clauses (block hash, commit hash, ValidateBasic); if the code ever
// starts covering them the strong clauses simply hold as well. Reported in the evidence as observations.
var partSetOnly = []string{"header.recover", "commit.id"}

// strongDump removes the partSetOnly components from a dump: the content the strong clauses are about.
func strongDump(d string) string {
	lines := strings.Split(d, "\n")
	out := lines[:0:0]
	for i, l := range lines {
		if i == 0 {
			toks := strings.Fields(l)
			kept := toks[:0:0]
			for _, t := range toks {
				if !strings.HasPrefix(t, "recover=") {
					kept = append(kept, t)
				}
			}
			l = strings.Join(kept, " ")
		} else if strings.HasPrefix(l, "commit.id=") {
			l = "commit.id=-"
		}
		out = append(out, l)
	}
	return strings.Join(out, "\n")
}

// ownerSet: for each commitment value the (few) distinct contents seen with it.
type ownerRef struct {
	content [32]byte
	v       int // variant index, -1 = base
}

type ownerSet struct{ m map[string][]ownerRef }

func newOwnerSet() *ownerSet { return &ownerSet{m: map[string][]ownerRef{}} }

// claim records that content (variant v) has the commitment value key and returns the variants already seen with
// the same value but other content.
func (s *ownerSet) claim(key string, content [32]byte, v int) (conflicts []int) {
	known := false
	for _, o := range s.m[key] {
		if o.content == content {
			known = true
		} else {
			conflicts = append(conflicts, o.v)
		}
	}
	if !known && len(s.m[key]) < 8 {
		s.m[key] = append(s.m[key], ownerRef{content, v})
	}
	return
}

// reportedKeys: violation keys raised so far in phase A. A collision that differs in several components, each of
// which is ALREADY reported on its own under the same clause, is counted under the first of those keys instead of
// opening a combination key (two independent uncommitted fields perturbed together are not a third defect). The
// single perturbations are enumerated before the pairs, so this is deterministic.
var (
	reportedMu   sync.Mutex
	reportedKeys = map[string]bool{}
)

func rootCauseKey(prefix, sig string) string {
	reportedMu.Lock()
	defer reportedMu.Unlock()
	parts := strings.Split(sig, ",")
	if len(parts) > 1 {
		all := true
		for _, p := range parts {
			all = all && reportedKeys[prefix+p]
		}
		if all {
			return prefix + parts[0]
		}
	}
	reportedKeys[prefix+sig] = true
	return prefix + sig
}

// minimalSignature names a collision by the smallest difference to any of the conflicting owners, so that a
// second, unrelated perturbation applied alongside does not leak into the key.
func minimalSignature(mine string, conflicts []int, dumpOf func(int) string, sectionOnly bool) (string, int) {
	best, bestN, bestO := "", 1<<30, conflicts[0]
	for _, o := range conflicts {
		sig := coarseSignature(mine, dumpOf(o))
		if n := strings.Count(sig, ",") + 1; sig != "" && (n < bestN || (n == bestN && sig < best)) {
			best, bestN, bestO = sig, n, o
		}
	}
	return best, bestO
}

// sectionOf returns one section of a dump (0 header, 1 transactions, 2 evidence, 3 commit) behind a neutral
// first line, in the shape diffSignature parses.
func sectionOf(d string, q int) string {
	var b strings.Builder
	b.WriteString("-\n")
	for i, l := range strings.Split(strings.TrimSuffix(d, "\n"), "\n") {
		k := secCommit
		switch {
		case i == 0:
			k = secHeader
		case strings.HasPrefix(l, "tx[") || l == "nil-data":
			k = secTxs
		case strings.HasPrefix(l, "ev["):
			k = secEv
		}
		if k == q {
			b.WriteString(l)
			b.WriteByte('\n')
		}
	}
	return b.String()
}

// coarseSignature: header differences by field, body differences by line kind only (tx, ev, pc, commit.id):
// the root-cause part of the keys about Merkle commitments, where WHICH field of an item differs is irrelevant.
func coarseSignature(a, b string) string {
	set := map[string]bool{}
	for _, it := range strings.Split(diffSignature(a, b), ",") {
		switch {
		case it == "":
		case strings.HasPrefix(it, "header."), strings.HasPrefix(it, "commit.id"):
			set[it] = true
		default:
			if i := strings.Index(it, "."); i >= 0 {
				it = it[:i]
			}
			set[it] = true
		}
	}
	var out []string
	for k := range set {
		out = append(out, k)
	}
	sort.Strings(out)
	return strings.Join(out, ",")
}

type identStats struct {
	variants, notApplicable, sameContent, distinctIDs int
	// class (+mode) -> which component of the pair changed, over all variants of the class
	partition map[string]map[string]int
}

func replayIdentity(c blockCfg, ps []pert, v variant, sizes []int) map[string]interface{} {
	var names []string
	for _, i := range v.perts {
		names = append(names, ps[i].name)
	}
	return map[string]interface{}{"phase": "identity", "block": c, "perturbations": names, "refill": v.refill, "part_sizes": sizes}
}

// checkIdentity runs phase A for one base block.
func checkIdentity(r *vk.Run, c blockCfg, sizes []int, pairs bool, st *identStats, mu *sync.Mutex) {
	base := baseBlock(c)
	ps := perturbations(c, base)
	baseDump := dumpHash(base)
	baseID := identOf(clone(base), sizes)
	// self-test of the fixture: building the same configuration twice gives the same content and id
	if again := baseBlock(c); dumpHash(again) != baseDump || identOf(again, sizes).hash != baseID.hash {
		vk.Fatalf("fixture is not deterministic for %v", c)
	}
	if err := clone(base).ValidateBasic(); err != nil {
		vk.Fatalf("fixture: base block %v fails ValidateBasic: %v", c, err)
	}

	var vars []variant
	if !pairs {
		for i := range ps {
			vars = append(vars, variant{perts: []int{i}})
			if ps[i].body {
				vars = append(vars, variant{perts: []int{i}, refill: true})
			}
		}
	} else {
		for i := range ps {
			for j := i + 1; j < len(ps); j++ {
				vars = append(vars, variant{perts: []int{i, j}})
				if ps[i].body || ps[j].body {
					vars = append(vars, variant{perts: []int{i, j}, refill: true})
				}
			}
		}
	}
	results := make([]varResult, len(vars))
	vk.ParallelFor(len(vars), func(i int) {
		if r.Expired() {
			return
		}
		results[i] = evalVariant(base, ps, vars[i], sizes)
	})
	if r.Expired() {
		return
	}

	if !pairs && c == (blockCfg{2, 1, 1}) {
		r.Sample(map[string]interface{}{"phase": "identity", "block": c.String(), "variant": "(base)", "hash": baseID.hash.String(), "parts": pshKey(baseID.parts[0])})
		for _, i := range []int{0, len(vars) / 2, len(vars) - 1} {
			if results[i].ok {
				r.Sample(map[string]interface{}{"phase": "identity", "block": c.String(), "variant": variantName(ps, vars[i]), "hash": results[i].ident.hash.String(), "parts": pshKey(results[i].ident.parts[0])})
			}
		}
	}
	local := identStats{partition: map[string]map[string]int{}}
	// id -> first variant seen with it (per part size; the block hash alone is not the id)
	type owner struct {
		dump [32]byte
		v    int // -1 = base
	}
	owners := make([]map[string]owner, len(sizes))
	byDump := map[[32]byte]int{} // dump -> first variant, for the equal-content direction
	for k := range sizes {
		owners[k] = map[string]owner{pshKey(baseID.parts[k]): {baseDump, -1}}
	}
	// the stronger clauses (lead's reading): Block.Hash() alone, and every intermediate commitment, pins its content
	baseRes := evalVariant(base, ps, variant{}, sizes)
	if !baseRes.ok || baseRes.vbRejected {
		vk.Fatalf("fixture: base block %v cannot be evaluated", c)
	}
	// two classes of blocks whose Block.Hash() must pin the content: H = header-only perturbations (same body, so
	// the header differs), R = bodies with the dependent header fields recomputed; the base block is in both. A
	// collision ACROSS the classes is not judged (a header whose EvidenceHash was zeroed equals the recomputed header
	// of the block without evidence; the former fails ValidateBasic).
	var hashOwners [2]*ownerSet
	for q := range hashOwners {
		hashOwners[q] = newOwnerSet()
		hashOwners[q].claim(baseRes.ident.hash.String(), baseRes.strong, -1)
	}
	var commitOwners [3]*ownerSet
	for q := range commitOwners {
		commitOwners[q] = newOwnerSet()
		commitOwners[q].claim(baseRes.commit[q].String(), baseRes.sec[q+1], -1)
	}
	distinct := map[string]bool{}
	vname := func(i int) string {
		if i < 0 {
			return "the unchanged base block"
		}
		return variantName(ps, vars[i])
	}
	dumpMemo := map[int]string{} // dumps are only rebuilt to name a collision; owners recur
	baseDumpStr := dump(base)
	for i, res := range results {
		v := vars[i]
		if res.panic != "" {
			r.Violation("identity-panic:"+variantClass(ps, v), fmt.Sprintf("block %v, %s: computing the id panics: %s", c, vname(i), res.panic), replayIdentity(c, ps, v, sizes))
			continue
		}
		if !res.ok {
			local.notApplicable++
			continue
		}
		local.variants++
		same := res.dump == baseDump
		if same {
			local.sameContent++
		}
		dumpOf := func(j int) string {
			if d, ok := dumpMemo[j]; ok {
				return d
			}
			d := baseDumpStr
			if j >= 0 {
				d = dumpOfVariant(base, ps, vars[j])
			}
			if len(dumpMemo) < 4096 {
				dumpMemo[j] = d
			}
			return d
		}
		sdumpOf := func(j int) string { return strongDump(dumpOf(j)) }
		// weaker clause: the part-set header alone (a hash of the serialization) differs for different content
		for k, sz := range sizes {
			key := pshKey(res.ident.parts[k])
			distinct[fmt.Sprintf("%d|%s|%s", sz, res.ident.hash.String(), key)] = true
			if o, ok := owners[k][key]; ok {
				if o.dump != res.dump {
					sig := diffSignature(dumpOf(i), dumpOf(o.v))
					r.Violation(rootCauseKey("part-set-hash-collision:", sig),
						fmt.Sprintf("block %v, part size %d: two blocks that differ in {%s} have the same part-set header: [%s] and [%s]", c, sz, sig, vname(i), vname(o.v)),
						replayIdentity(c, ps, v, sizes))
				}
			} else {
				owners[k][key] = owner{res.dump, i}
			}
		}
		// stronger clause 1: Block.Hash() (the header hash) pins the whole content of every block whose header was
		// made for its body (header-only perturbations and bodies with the dependent header fields recomputed)
		bodySame := res.sec[secTxs] == baseRes.sec[secTxs] && res.sec[secEv] == baseRes.sec[secEv] && res.sec[secCommit] == baseRes.sec[secCommit]
		if (v.refill || bodySame) && !res.nilCommit {
			class := 0
			if v.refill {
				class = 1
			}
			if conflicts := hashOwners[class].claim(res.ident.hash.String(), res.strong, i); len(conflicts) > 0 {
				sig, o := minimalSignature(sdumpOf(i), conflicts, sdumpOf, false)
				r.Violation(rootCauseKey("block-hash-collision:", sig),
					fmt.Sprintf("block %v: two blocks that differ in {%s} have the same Block.Hash() %s: [%s] and [%s]", c, sig, res.ident.hash.String(), vname(i), vname(o)),
					replayIdentity(c, ps, v, sizes))
			}
		}
		// stronger clause 2: each intermediate commitment pins its list
		for q := 0; q < 3; q++ {
			if q == 2 && res.nilCommit {
				continue
			}
			if conflicts := commitOwners[q].claim(res.commit[q].String(), res.sec[q+1], i); len(conflicts) > 0 {
				sec := q + 1
				sig, o := minimalSignature(sectionOf(sdumpOf(i), sec), conflicts, func(j int) string { return sectionOf(sdumpOf(j), sec) }, true)
				r.Violation(rootCauseKey(commitName[q]+"-collision:", sig),
					fmt.Sprintf("block %v: two different lists (they differ in {%s}) have the same %s %s: [%s] and [%s]", c, sig, commitName[q], res.commit[q].String(), vname(i), vname(o)),
					replayIdentity(c, ps, v, sizes))
			}
		}
		// stronger clause 3: a changed body under a header that was not made for it is rejected by ValidateBasic
		headerTouched := false
		for _, pi := range v.perts {
			headerTouched = headerTouched || !ps[pi].body
		}
		if !v.refill && !headerTouched && !bodySame && !res.nilCommit && !res.vbRejected {
			var sigs []string
			for q := 1; q <= 3; q++ {
				if sg := coarseSignature(sectionOf(sdumpOf(i), q), sectionOf(sdumpOf(-1), q)); sg != "" {
					sigs = append(sigs, sg)
				}
			}
			sig := strings.Join(sigs, ",")
			r.Violation(rootCauseKey("validatebasic-accepts-perturbed-body:", sig),
				fmt.Sprintf("block %v: %s changes the body {%s}, the header fields that commit to it are not recomputed, and ValidateBasic accepts the block", c, vname(i), sig),
				replayIdentity(c, ps, v, sizes))
		}
		// equal content => equal id (the id is a function of the content)
		if j, ok := byDump[res.dump]; ok {
			o := results[j].ident
			eq := o.hash == res.ident.hash
			for k := range sizes {
				eq = eq && o.parts[k].Equals(res.ident.parts[k])
			}
			if !eq {
				r.Violation("identity-differs-for-equal-content",
					fmt.Sprintf("block %v: [%s] and [%s] have the same content but different ids", c, vname(i), vname(j)), replayIdentity(c, ps, v, sizes))
			}
		} else {
			byDump[res.dump] = i
		}
		if same {
			eq := baseID.hash == res.ident.hash
			for k := range sizes {
				eq = eq && baseID.parts[k].Equals(res.ident.parts[k])
			}
			if !eq {
				r.Violation("identity-differs-for-equal-content",
					fmt.Sprintf("block %v: %s does not change the content but changes the id", c, vname(i)), replayIdentity(c, ps, v, sizes))
			}
			continue
		}
		// coverage partition (single perturbations only): which half of the pair moved
		if len(v.perts) == 1 {
			hc := res.ident.hash != baseID.hash
			pc := !res.ident.parts[0].Equals(baseID.parts[0])
			what := "neither"
			switch {
			case hc && pc:
				what = "hash+parts"
			case hc:
				what = "hash-only"
			case pc:
				what = "parts-only"
			}
			mode := "raw"
			if v.refill {
				mode = "refilled"
			}
			if !ps[v.perts[0]].body {
				mode = "header"
			}
			cl := mode + "/" + ps[v.perts[0]].class
			if local.partition[cl] == nil {
				local.partition[cl] = map[string]int{}
			}
			local.partition[cl][what]++
		}
	}
	local.distinctIDs = len(distinct)
	if !pairs {
		crossCheck(r, c, base, ps, vars, results, sizes, baseDump, baseID)
	}
	mu.Lock()
	st.variants += local.variants
	st.notApplicable += local.notApplicable
	st.sameContent += local.sameContent
	st.distinctIDs += local.distinctIDs
	for cl, m := range local.partition {
		if st.partition[cl] == nil {
			st.partition[cl] = map[string]int{}
		}
		for k, n := range m {
			st.partition[cl][k] += n
		}
	}
	mu.Unlock()
}

// ---- across base blocks, and the bytes validators sign ---------------------------------------------

type globalOwner struct {
	dump    [32]byte
	desc    string
	rebuild func() string // the full dump, recomputed only when a collision has to be named
}

var (
	globalMu    sync.Mutex
	globalIDs   = map[string]globalOwner{} // (part size, id) -> content, over ALL base blocks (single perturbations)
	signOwners  = map[string]string{}      // Vote.SignBytes -> id
	signedKeys  = map[string]bool{}        // ids whose sign-bytes were computed (an id can arise under two part sizes)
	signedIDs   int
	signedBytes int
)

// signBytesFor: the bytes a validator signs when it precommits the block with this id.
func signBytesFor(id types.BlockID) string {
	v := &types.Vote{ValidatorAddress: valKeys[0].PubKey().Address(), ValidatorIndex: 0, ValidatorSize: 4, Height: 1, Round: 0,
		Timestamp: time.Unix(1500000000, 0).UTC(), Type: types.VoteTypePrecommit, BlockID: id}
	return string(v.SignBytes(chainID))
}

// crossCheck: (1) no two blocks with different content share an id, across base blocks as well; (2) the
// vote sign-bytes are injective over all ids enumerated: what a validator signs pins the id, hence the content.
func crossCheck(r *vk.Run, c blockCfg, base *types.Block, ps []pert, vars []variant, results []varResult, sizes []int, baseDump [32]byte, baseID blockIdent) {
	globalMu.Lock()
	defer globalMu.Unlock()
	one := func(desc string, d [32]byte, id blockIdent, rep interface{}, rebuild func() string) {
		for k, sz := range sizes {
			bid := types.BlockID{Hash: id.hash, PartsHeader: id.parts[k]}
			key := fmt.Sprintf("%s|%s", id.hash.String(), pshKey(id.parts[k]))
			gk := fmt.Sprintf("%d|%s", sz, pshKey(id.parts[k]))
			if o, ok := globalIDs[gk]; ok {
				if o.dump != d {
					sig := diffSignature(rebuild(), o.rebuild())
					r.Violation("part-set-hash-collision:"+sig, fmt.Sprintf("part size %d: [%s] and [%s] differ in {%s} and have one part-set header", sz, desc, o.desc, sig), rep)
				}
			} else {
				globalIDs[gk] = globalOwner{d, desc, rebuild}
			}
			signedKeys[key] = true
			sb := signBytesFor(bid)
			if o, ok := signOwners[sb]; ok {
				if o != key {
					r.Violation("vote-signbytes-collision", fmt.Sprintf("block ids %s and %s give the same Vote.SignBytes: %s", o, key, sb), rep)
				}
			} else {
				signOwners[sb] = key
				signedBytes++
			}
			signedIDs++
		}
	}
	one(fmt.Sprintf("%v unchanged", c), baseDump, baseID, map[string]interface{}{"phase": "identity", "block": c, "perturbations": []string{}, "part_sizes": sizes},
		func() string { return dump(base) })
	for i, res := range results {
		if !res.ok || res.panic != "" {
			continue
		}
		v := vars[i]
		one(fmt.Sprintf("%v: %s", c, variantName(ps, v)), res.dump, res.ident, replayIdentity(c, ps, v, sizes), func() string { return dumpOfVariant(base, ps, v) })
	}
}
