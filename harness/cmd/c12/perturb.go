package main

// Single-field perturbations of a block: header fields, transactions (content, order, duplication,
// insertion, deletion), evidence items and the LastCommit (its BlockID and every precommit slot).
// A perturbation edits a fresh clone in place; apply returns false when it does not fit the block shape
// (possible only when two perturbations are combined).

import (
	"fmt"
	"math/big"
	"time"

	"verif/vk"

	"github.com/lianxiangcloud/linkchain/libs/common"
	"github.com/lianxiangcloud/linkchain/libs/crypto"
	"github.com/lianxiangcloud/linkchain/types"
)

type pert struct {
	name  string // unique within one base block
	class string // root-cause class (violation key / coverage partition), e.g. "header.TotalTxs"
	group string // header | txs | evidence | lastcommit
	body  bool   // edits the body: evaluated raw AND with the dependent header fields recomputed
	apply func(b *types.Block) bool
}

type pertList struct {
	ps   []pert
	seen map[string]bool
}

func (l *pertList) add(group, class, name string, body bool, f func(b *types.Block) bool) {
	if l.seen == nil {
		l.seen = map[string]bool{}
	}
	if l.seen[name] {
		vk.Fatalf("perturbation name %q defined twice", name)
	}
	l.seen[name] = true
	l.ps = append(l.ps, pert{name: name, class: class, group: group, body: body, apply: f})
}

// ---- field helpers -------------------------------------------------------------------------------

func (l *pertList) u64(group, class string, body bool, get func(b *types.Block) *uint64) {
	l.add(group, class, class+":+1", body, func(b *types.Block) bool {
		p := get(b)
		if p == nil {
			return false
		}
		*p++
		return true
	})
	l.add(group, class, class+":-1", body, func(b *types.Block) bool {
		p := get(b)
		if p == nil || *p == 0 {
			return false
		}
		*p--
		return true
	})
	l.add(group, class, class+":=0", body, func(b *types.Block) bool {
		p := get(b)
		if p == nil || *p <= 1 {
			return false
		}
		*p = 0
		return true
	})
	l.add(group, class, class+":^bit63", body, func(b *types.Block) bool {
		p := get(b)
		if p == nil {
			return false
		}
		*p ^= 1 << 63
		return true
	})
}

func (l *pertList) intf(group, class string, body bool, get func(b *types.Block) *int) {
	l.add(group, class, class+":+1", body, func(b *types.Block) bool {
		p := get(b)
		if p == nil {
			return false
		}
		*p++
		return true
	})
	l.add(group, class, class+":negated", body, func(b *types.Block) bool {
		p := get(b)
		if p == nil {
			return false
		}
		*p = ^*p // x -> -x-1: never a fixed point
		return true
	})
}

func (l *pertList) hash32(group, class string, body bool, get func(b *types.Block) *common.Hash) {
	l.add(group, class, class+":flip-first", body, func(b *types.Block) bool {
		p := get(b)
		if p == nil {
			return false
		}
		p[0] ^= 0x01
		return true
	})
	l.add(group, class, class+":flip-last", body, func(b *types.Block) bool {
		p := get(b)
		if p == nil {
			return false
		}
		p[31] ^= 0x80
		return true
	})
	l.add(group, class, class+":zero", body, func(b *types.Block) bool {
		p := get(b)
		if p == nil || *p == (common.Hash{}) {
			return false
		}
		*p = common.Hash{}
		return true
	})
}

// bytesf perturbs a variable-length byte string through a getter/setter pair.
func (l *pertList) bytesf(group, class string, body bool, get func(b *types.Block) ([]byte, bool), set func(b *types.Block, v []byte)) {
	l.add(group, class, class+":flip-first", body, func(b *types.Block) bool {
		v, ok := get(b)
		if !ok || len(v) == 0 {
			return false
		}
		n := cpBytes(v)
		n[0] ^= 0x01
		set(b, n)
		return true
	})
	l.add(group, class, class+":flip-last", body, func(b *types.Block) bool {
		v, ok := get(b)
		if !ok || len(v) < 2 {
			return false
		}
		n := cpBytes(v)
		n[len(n)-1] ^= 0x80
		set(b, n)
		return true
	})
	l.add(group, class, class+":truncate", body, func(b *types.Block) bool {
		v, ok := get(b)
		if !ok || len(v) == 0 {
			return false
		}
		set(b, cpBytes(v[:len(v)-1]))
		return true
	})
	l.add(group, class, class+":extend", body, func(b *types.Block) bool {
		v, ok := get(b)
		if !ok {
			return false
		}
		set(b, append(cpBytes(v), 0x00))
		return true
	})
	l.add(group, class, class+":empty", body, func(b *types.Block) bool {
		v, ok := get(b)
		if !ok || len(v) < 2 {
			return false
		}
		set(b, nil)
		return true
	})
}

func (l *pertList) blockID(group, class string, body bool, get func(b *types.Block) *types.BlockID) {
	l.hash32(group, class+".Hash", body, func(b *types.Block) *common.Hash {
		if p := get(b); p != nil {
			return &p.Hash
		}
		return nil
	})
	l.intf(group, class+".PartsHeader.Total", body, func(b *types.Block) *int {
		if p := get(b); p != nil {
			return &p.PartsHeader.Total
		}
		return nil
	})
	l.bytesf(group, class+".PartsHeader.Hash", body, func(b *types.Block) ([]byte, bool) {
		if p := get(b); p != nil {
			return p.PartsHeader.Hash, true
		}
		return nil, false
	}, func(b *types.Block, v []byte) { get(b).PartsHeader.Hash = v })
}

// vote adds the perturbations of every field of one vote. class is the generic class ("lastcommit.precommit"),
// where names the concrete slot.
func (l *pertList) vote(group, class, where string, get func(b *types.Block) *types.Vote) {
	nm := func(f string) string { return where + "." + f }
	l.bytesfNamed(group, class+".ValidatorAddress", nm("ValidatorAddress"), func(b *types.Block) ([]byte, bool) {
		if v := get(b); v != nil {
			return v.ValidatorAddress, true
		}
		return nil, false
	}, func(b *types.Block, x []byte) { get(b).ValidatorAddress = x })
	for _, f := range []struct {
		n string
		g func(v *types.Vote) *int
	}{{"ValidatorIndex", func(v *types.Vote) *int { return &v.ValidatorIndex }}, {"ValidatorSize", func(v *types.Vote) *int { return &v.ValidatorSize }}, {"Round", func(v *types.Vote) *int { return &v.Round }}} {
		f := f
		l.named(group, class+"."+f.n, nm(f.n), func(sub *pertList, c string) {
			sub.intf(group, c, true, func(b *types.Block) *int {
				if v := get(b); v != nil {
					return f.g(v)
				}
				return nil
			})
		})
	}
	l.named(group, class+".Height", nm("Height"), func(sub *pertList, c string) {
		sub.u64(group, c, true, func(b *types.Block) *uint64 {
			if v := get(b); v != nil {
				return &v.Height
			}
			return nil
		})
	})
	l.add(group, class+".Timestamp", nm("Timestamp")+":+1s", true, func(b *types.Block) bool {
		v := get(b)
		if v == nil {
			return false
		}
		v.Timestamp = v.Timestamp.Add(time.Second)
		return true
	})
	l.add(group, class+".Timestamp", nm("Timestamp")+":+1ns", true, func(b *types.Block) bool {
		v := get(b)
		if v == nil {
			return false
		}
		v.Timestamp = v.Timestamp.Add(time.Nanosecond)
		return true
	})
	l.add(group, class+".Type", nm("Type")+":other", true, func(b *types.Block) bool {
		v := get(b)
		if v == nil {
			return false
		}
		v.Type ^= types.VoteTypePrevote ^ types.VoteTypePrecommit
		return true
	})
	l.add(group, class+".Type", nm("Type")+":=0", true, func(b *types.Block) bool {
		v := get(b)
		if v == nil || v.Type == 0 {
			return false
		}
		v.Type = 0
		return true
	})
	l.named(group, class+".BlockID", nm("BlockID"), func(sub *pertList, c string) {
		sub.blockID(group, c, true, func(b *types.Block) *types.BlockID {
			if v := get(b); v != nil {
				return &v.BlockID
			}
			return nil
		})
	})
	edSig := func(b *types.Block) (crypto.SignatureEd25519, bool) {
		v := get(b)
		if v == nil {
			return crypto.SignatureEd25519{}, false
		}
		x, ok := v.Signature.(crypto.SignatureEd25519)
		return x, ok
	}
	l.add(group, class+".Signature", nm("Signature")+":flip-first", true, func(b *types.Block) bool {
		x, ok := edSig(b)
		if !ok {
			return false
		}
		x[0] ^= 0x01
		get(b).Signature = x
		return true
	})
	l.add(group, class+".Signature", nm("Signature")+":flip-last", true, func(b *types.Block) bool {
		x, ok := edSig(b)
		if !ok {
			return false
		}
		x[len(x)-1] ^= 0x80
		get(b).Signature = x
		return true
	})
	l.add(group, class+".Signature", nm("Signature")+":other-type-truncated", true, func(b *types.Block) bool {
		x, ok := edSig(b)
		if !ok {
			return false
		}
		get(b).Signature = crypto.SignatureSecp256k1(cpBytes(x[:len(x)-1]))
		return true
	})
	l.add(group, class+".Signature", nm("Signature")+":nil", true, func(b *types.Block) bool {
		v := get(b)
		if v == nil || v.Signature == nil {
			return false
		}
		v.Signature = nil
		return true
	})
	l.add(group, class+".Signature", nm("Signature")+":other-type", true, func(b *types.Block) bool {
		v := get(b)
		if v == nil || v.Signature == nil {
			return false
		}
		x, ok := v.Signature.(crypto.SignatureEd25519)
		if !ok {
			return false
		}
		v.Signature = crypto.SignatureSecp256k1(cpBytes(x[:]))
		return true
	})
}

// named runs a helper on a sub-list with a concrete name prefix, then re-labels the classes: the helper
// uses one string for both, but a vote field has a generic class and a slot-specific name.
func (l *pertList) named(group, class, name string, f func(sub *pertList, c string)) {
	sub := &pertList{}
	f(sub, name)
	for _, p := range sub.ps {
		// class of the sub-perturbation = generic class + the sub-field suffix the helper appended
		suffix := p.class[len(name):]
		l.add(group, class+suffix, p.name, p.body, p.apply)
	}
}

func (l *pertList) bytesfNamed(group, class, name string, get func(b *types.Block) ([]byte, bool), set func(b *types.Block, v []byte)) {
	l.named(group, class, name, func(sub *pertList, c string) { sub.bytesf(group, c, true, get, set) })
}

// ---- the perturbation alphabet of one base block --------------------------------------------------

func flipAddr(a common.Address, i int) common.Address {
	a[i] ^= 0x01
	return a
}

// txFieldVariants: every single-field change of a transaction spec.
func txFieldVariants(s txSpec) []struct {
	field string
	s     txSpec
} {
	var out []struct {
		field string
		s     txSpec
	}
	add := func(field string, f func(c *txSpec)) {
		c := s.clone()
		f(&c)
		out = append(out, struct {
			field string
			s     txSpec
		}{field, c})
	}
	add("Nonce:+1", func(c *txSpec) { c.Nonce++ })
	add("Price:+1", func(c *txSpec) { c.Price.Add(c.Price, big.NewInt(1)) })
	add("GasLimit:+1", func(c *txSpec) { c.Gas++ })
	if s.To != nil {
		add("Recipient:flip-first", func(c *txSpec) { a := flipAddr(*c.To, 0); c.To = &a })
		add("Recipient:flip-last", func(c *txSpec) { a := flipAddr(*c.To, 19); c.To = &a })
		add("Recipient:nil", func(c *txSpec) { c.To = nil })
	} else {
		add("Recipient:set", func(c *txSpec) { a := addrA; c.To = &a })
	}
	add("Amount:+1", func(c *txSpec) { c.Amount.Add(c.Amount, big.NewInt(1)) })
	add("Payload:extend", func(c *txSpec) { c.Payload = append(c.Payload, 0x00) })
	if len(s.Payload) > 0 {
		add("Payload:truncate", func(c *txSpec) { c.Payload = c.Payload[:len(c.Payload)-1] })
		add("Payload:flip-first", func(c *txSpec) { c.Payload[0] ^= 0x01 })
	}
	add("V:+1", func(c *txSpec) { c.V.Add(c.V, big.NewInt(1)) })
	add("R:+1", func(c *txSpec) { c.R.Add(c.R, big.NewInt(1)) })
	add("S:+1", func(c *txSpec) { c.S.Add(c.S, big.NewInt(1)) })
	if s.Token {
		add("TokenAddress:flip-first", func(c *txSpec) { c.TokenAd = flipAddr(c.TokenAd, 0) })
		add("Type:token->normal", func(c *txSpec) { c.Token = false; c.TokenAd = common.Address{} })
	} else {
		add("Type:normal->token", func(c *txSpec) { c.Token = true; c.TokenAd = addrTok })
	}
	return out
}

func txFieldVariantsAt(i int) []struct {
	field string
	s     txSpec
} {
	if i >= len(txPool) {
		return nil
	}
	return txFieldVariants(txPool[i])
}

func fieldName(f string) string {
	for i := 0; i < len(f); i++ {
		if f[i] == ':' {
			return f[:i]
		}
	}
	return f
}

func insertTx(txs types.Txs, at int, tx types.Tx) types.Txs {
	out := append(types.Txs{}, txs[:at]...)
	out = append(out, tx)
	return append(out, txs[at:]...)
}

func insertEv(evs types.EvidenceList, at int, e types.Evidence) types.EvidenceList {
	out := append(types.EvidenceList{}, evs[:at]...)
	out = append(out, e)
	return append(out, evs[at:]...)
}

func insertVote(vs []*types.Vote, at int, v *types.Vote) []*types.Vote {
	out := append([]*types.Vote{}, vs[:at]...)
	out = append(out, v)
	return append(out, vs[at:]...)
}

func permName(p []int) string { return fmt.Sprint(p) }

// perturbations enumerates the alphabet for the base block of configuration c.
func perturbations(c blockCfg, base *types.Block) []pert {
	l := &pertList{}
	H := func(b *types.Block) *types.Header { return b.Header }

	// -- header: every field (bloom is not transmitted and not hashed: see the assumptions)
	l.add("header", "header.ChainID", "header.ChainID:append", false, func(b *types.Block) bool { H(b).ChainID += "x"; return true })
	l.add("header", "header.ChainID", "header.ChainID:truncate", false, func(b *types.Block) bool {
		if len(H(b).ChainID) == 0 {
			return false
		}
		H(b).ChainID = H(b).ChainID[:len(H(b).ChainID)-1]
		return true
	})
	l.add("header", "header.ChainID", "header.ChainID:empty", false, func(b *types.Block) bool {
		if len(H(b).ChainID) == 0 {
			return false
		}
		H(b).ChainID = ""
		return true
	})
	l.add("header", "header.ChainID", "header.ChainID:case", false, func(b *types.Block) bool {
		if len(H(b).ChainID) == 0 || H(b).ChainID[0] != 'c' {
			return false
		}
		H(b).ChainID = "C" + H(b).ChainID[1:]
		return true
	})
	for _, f := range []struct {
		n string
		g func(h *types.Header) *uint64
	}{
		{"Height", func(h *types.Header) *uint64 { return &h.Height }},
		{"Time", func(h *types.Header) *uint64 { return &h.Time }},
		{"NumTxs", func(h *types.Header) *uint64 { return &h.NumTxs }},
		{"TotalTxs", func(h *types.Header) *uint64 { return &h.TotalTxs }},
		{"GasLimit", func(h *types.Header) *uint64 { return &h.GasLimit }},
		{"GasUsed", func(h *types.Header) *uint64 { return &h.GasUsed }},
	} {
		f := f
		l.u64("header", "header."+f.n, false, func(b *types.Block) *uint64 { return f.g(H(b)) })
	}
	l.add("header", "header.Recover", "header.Recover:+1", false, func(b *types.Block) bool { H(b).Recover++; return true })
	l.add("header", "header.Recover", "header.Recover:^bit31", false, func(b *types.Block) bool { H(b).Recover ^= 1 << 31; return true })
	l.add("header", "header.Coinbase", "header.Coinbase:flip-first", false, func(b *types.Block) bool { H(b).Coinbase = flipAddr(H(b).Coinbase, 0); return true })
	l.add("header", "header.Coinbase", "header.Coinbase:flip-last", false, func(b *types.Block) bool { H(b).Coinbase = flipAddr(H(b).Coinbase, 19); return true })
	l.add("header", "header.Coinbase", "header.Coinbase:zero", false, func(b *types.Block) bool { H(b).Coinbase = common.Address{}; return true })
	for _, f := range []struct {
		n string
		g func(h *types.Header) *common.Hash
	}{
		{"ParentHash", func(h *types.Header) *common.Hash { return &h.ParentHash }},
		{"LastCommitHash", func(h *types.Header) *common.Hash { return &h.LastCommitHash }},
		{"ValidatorsHash", func(h *types.Header) *common.Hash { return &h.ValidatorsHash }},
		{"ConsensusHash", func(h *types.Header) *common.Hash { return &h.ConsensusHash }},
		{"DataHash", func(h *types.Header) *common.Hash { return &h.DataHash }},
		{"StateHash", func(h *types.Header) *common.Hash { return &h.StateHash }},
		{"ReceiptHash", func(h *types.Header) *common.Hash { return &h.ReceiptHash }},
		{"EvidenceHash", func(h *types.Header) *common.Hash { return &h.EvidenceHash }},
	} {
		f := f
		l.hash32("header", "header."+f.n, false, func(b *types.Block) *common.Hash { return f.g(H(b)) })
	}
	l.blockID("header", "header.LastBlockID", false, func(b *types.Block) *types.BlockID { return &H(b).LastBlockID })

	// -- transactions
	ntx := len(base.Data.Txs)
	for i := 0; i < ntx; i++ {
		i := i
		if i == utxoPos {
			utxoVariants(l, i)
		}
		for _, v := range txFieldVariantsAt(i) {
			v := v
			l.add("txs", "tx."+fieldName(v.field), fmt.Sprintf("tx[%d].%s", i, v.field), true, func(b *types.Block) bool {
				if b.Data == nil || i >= len(b.Data.Txs) {
					return false
				}
				b.Data.Txs[i] = v.s.build()
				return true
			})
		}
		l.add("txs", "txs.replace", fmt.Sprintf("tx[%d]:replace-whole", i), true, func(b *types.Block) bool {
			if b.Data == nil || i >= len(b.Data.Txs) {
				return false
			}
			b.Data.Txs[i] = altTx.build()
			return true
		})
		l.add("txs", "txs.delete", fmt.Sprintf("tx[%d]:delete", i), true, func(b *types.Block) bool {
			if b.Data == nil || i >= len(b.Data.Txs) {
				return false
			}
			b.Data.Txs = append(append(types.Txs{}, b.Data.Txs[:i]...), b.Data.Txs[i+1:]...)
			return true
		})
		l.add("txs", "txs.duplicate", fmt.Sprintf("tx[%d]:duplicate-adjacent", i), true, func(b *types.Block) bool {
			if b.Data == nil || i >= len(b.Data.Txs) {
				return false
			}
			b.Data.Txs = insertTx(b.Data.Txs, i+1, b.Data.Txs[i])
			return true
		})
		l.add("txs", "txs.duplicate", fmt.Sprintf("tx[%d]:duplicate-at-end", i), true, func(b *types.Block) bool {
			if b.Data == nil || i >= len(b.Data.Txs) || i == len(b.Data.Txs)-1 {
				return false
			}
			b.Data.Txs = insertTx(b.Data.Txs, len(b.Data.Txs), b.Data.Txs[i])
			return true
		})
	}
	for j := 0; j <= ntx; j++ {
		j := j
		l.add("txs", "txs.insert", fmt.Sprintf("txs:insert-at[%d]", j), true, func(b *types.Block) bool {
			if b.Data == nil || j > len(b.Data.Txs) {
				return false
			}
			b.Data.Txs = insertTx(b.Data.Txs, j, altTx.build())
			return true
		})
	}
	vk.Permutations(ntx, func(p []int) bool {
		id := true
		for i, x := range p {
			if i != x {
				id = false
			}
		}
		if id {
			return true
		}
		q := append([]int{}, p...)
		l.add("txs", "txs.order", "txs:order"+permName(q), true, func(b *types.Block) bool {
			if b.Data == nil || len(b.Data.Txs) != len(q) {
				return false
			}
			n := make(types.Txs, len(q))
			for i, x := range q {
				n[i] = b.Data.Txs[x]
			}
			b.Data.Txs = n
			return true
		})
		return true
	})

	// -- evidence
	nev := len(base.Evidence.Evidence)
	ev := func(b *types.Block, i int) types.Evidence {
		if i >= len(b.Evidence.Evidence) {
			return nil
		}
		return b.Evidence.Evidence[i]
	}
	for i := 0; i < nev; i++ {
		i := i
		switch base.Evidence.Evidence[i].(type) {
		case *types.DuplicateVoteEvidence:
			dve := func(b *types.Block) *types.DuplicateVoteEvidence {
				d, _ := ev(b, i).(*types.DuplicateVoteEvidence)
				return d
			}
			l.add("evidence", "evidence.dup.PubKey", fmt.Sprintf("ev[%d].PubKey:other", i), true, func(b *types.Block) bool {
				d := dve(b)
				if d == nil {
					return false
				}
				d.PubKey = valKeys[2].PubKey()
				return true
			})
			l.add("evidence", "evidence.dup.votes", fmt.Sprintf("ev[%d]:swap-votes", i), true, func(b *types.Block) bool {
				d := dve(b)
				if d == nil {
					return false
				}
				d.VoteA, d.VoteB = d.VoteB, d.VoteA
				return true
			})
			l.vote("evidence", "evidence.dup.vote", fmt.Sprintf("ev[%d].VoteA", i), func(b *types.Block) *types.Vote {
				if d := dve(b); d != nil {
					return d.VoteA
				}
				return nil
			})
			l.vote("evidence", "evidence.dup.vote", fmt.Sprintf("ev[%d].VoteB", i), func(b *types.Block) *types.Vote {
				if d := dve(b); d != nil {
					return d.VoteB
				}
				return nil
			})
		case *types.FaultValidatorsEvidence:
			fve := func(b *types.Block) *types.FaultValidatorsEvidence {
				d, _ := ev(b, i).(*types.FaultValidatorsEvidence)
				return d
			}
			l.add("evidence", "evidence.fault.BlockHeight", fmt.Sprintf("ev[%d].BlockHeight:+1", i), true, func(b *types.Block) bool {
				d := fve(b)
				if d == nil {
					return false
				}
				d.BlockHeight++
				return true
			})
			l.add("evidence", "evidence.fault.Round", fmt.Sprintf("ev[%d].Round:+1", i), true, func(b *types.Block) bool {
				d := fve(b)
				if d == nil {
					return false
				}
				d.Round++
				return true
			})
			l.add("evidence", "evidence.fault.Round", fmt.Sprintf("ev[%d].Round:negated", i), true, func(b *types.Block) bool {
				d := fve(b)
				if d == nil {
					return false
				}
				d.Round = ^d.Round
				return true
			})
			l.add("evidence", "evidence.fault.Proposer", fmt.Sprintf("ev[%d].Proposer:other", i), true, func(b *types.Block) bool {
				d := fve(b)
				if d == nil {
					return false
				}
				d.Proposer = valKeys[1].PubKey()
				return true
			})
			l.add("evidence", "evidence.fault.FaultVal", fmt.Sprintf("ev[%d].FaultVal:other", i), true, func(b *types.Block) bool {
				d := fve(b)
				if d == nil {
					return false
				}
				d.FaultVal = valKeys[1].PubKey()
				return true
			})
			l.add("evidence", "evidence.fault.roles", fmt.Sprintf("ev[%d]:swap-proposer-faultval", i), true, func(b *types.Block) bool {
				d := fve(b)
				if d == nil {
					return false
				}
				d.Proposer, d.FaultVal = d.FaultVal, d.Proposer
				return true
			})
		}
		l.add("evidence", "evidence.delete", fmt.Sprintf("ev[%d]:delete", i), true, func(b *types.Block) bool {
			e := b.Evidence.Evidence
			if i >= len(e) {
				return false
			}
			b.Evidence.Evidence = append(append(types.EvidenceList{}, e[:i]...), e[i+1:]...)
			return true
		})
		l.add("evidence", "evidence.duplicate", fmt.Sprintf("ev[%d]:duplicate-adjacent", i), true, func(b *types.Block) bool {
			e := b.Evidence.Evidence
			if i >= len(e) {
				return false
			}
			b.Evidence.Evidence = insertEv(e, i+1, cloneEvidence(e[i]))
			return true
		})
		l.add("evidence", "evidence.replace", fmt.Sprintf("ev[%d]:replace-other-kind", i), true, func(b *types.Block) bool {
			e := b.Evidence.Evidence
			if i >= len(e) {
				return false
			}
			e[i] = &types.FaultValidatorsEvidence{BlockHeight: 7, Round: 3, Proposer: valKeys[2].PubKey(), FaultVal: valKeys[0].PubKey()}
			return true
		})
	}
	for j := 0; j <= nev; j++ {
		j := j
		l.add("evidence", "evidence.insert", fmt.Sprintf("evidence:insert-at[%d]", j), true, func(b *types.Block) bool {
			e := b.Evidence.Evidence
			if j > len(e) {
				return false
			}
			b.Evidence.Evidence = insertEv(e, j, &types.FaultValidatorsEvidence{BlockHeight: 9, Round: 0, Proposer: valKeys[3].PubKey(), FaultVal: valKeys[2].PubKey()})
			return true
		})
	}
	if nev == 2 {
		l.add("evidence", "evidence.order", "evidence:order[1 0]", true, func(b *types.Block) bool {
			e := b.Evidence.Evidence
			if len(e) != 2 {
				return false
			}
			b.Evidence.Evidence = types.EvidenceList{e[1], e[0]}
			return true
		})
	}

	// -- last commit
	LC := func(b *types.Block) *types.Commit { return b.LastCommit }
	l.blockID("lastcommit", "lastcommit.BlockID", true, func(b *types.Block) *types.BlockID {
		if LC(b) == nil {
			return nil
		}
		return &LC(b).BlockID
	})
	l.add("lastcommit", "lastcommit.nil", "lastcommit:nil", true, func(b *types.Block) bool {
		if LC(b) == nil {
			return false
		}
		b.LastCommit = nil
		return true
	})
	npc := len(base.LastCommit.Precommits)
	for i := 0; i < npc; i++ {
		i := i
		slot := func(b *types.Block) *types.Vote {
			if LC(b) == nil || i >= len(LC(b).Precommits) {
				return nil
			}
			return LC(b).Precommits[i]
		}
		if base.LastCommit.Precommits[i] != nil {
			l.add("lastcommit", "lastcommit.precommit.absent", fmt.Sprintf("pc[%d]:set-nil", i), true, func(b *types.Block) bool {
				if slot(b) == nil {
					return false
				}
				LC(b).Precommits[i] = nil
				return true
			})
			l.vote("lastcommit", "lastcommit.precommit", fmt.Sprintf("pc[%d]", i), slot)
		} else {
			l.add("lastcommit", "lastcommit.precommit.absent", fmt.Sprintf("pc[%d]:fill-nil-slot", i), true, func(b *types.Block) bool {
				if LC(b) == nil || i >= len(LC(b).Precommits) || LC(b).Precommits[i] != nil {
					return false
				}
				LC(b).Precommits[i] = signedVote(i, 4, uint64(c.H-1), 0, types.VoteTypePrecommit, LC(b).BlockID)
				return true
			})
		}
		l.add("lastcommit", "lastcommit.slots.delete", fmt.Sprintf("pc[%d]:delete-slot", i), true, func(b *types.Block) bool {
			if LC(b) == nil || i >= len(LC(b).Precommits) {
				return false
			}
			p := LC(b).Precommits
			LC(b).Precommits = append(append([]*types.Vote{}, p[:i]...), p[i+1:]...)
			return true
		})
		l.add("lastcommit", "lastcommit.slots.duplicate", fmt.Sprintf("pc[%d]:duplicate-slot", i), true, func(b *types.Block) bool {
			if LC(b) == nil || i >= len(LC(b).Precommits) {
				return false
			}
			LC(b).Precommits = insertVote(LC(b).Precommits, i+1, cloneVote(LC(b).Precommits[i]))
			return true
		})
		for j := i + 1; j < npc; j++ {
			j := j
			l.add("lastcommit", "lastcommit.slots.order", fmt.Sprintf("pc[%d]<->pc[%d]", i, j), true, func(b *types.Block) bool {
				if LC(b) == nil || j >= len(LC(b).Precommits) {
					return false
				}
				p := LC(b).Precommits
				p[i], p[j] = p[j], p[i]
				return true
			})
		}
	}
	l.add("lastcommit", "lastcommit.slots.append", "pc:append-nil-slot", true, func(b *types.Block) bool {
		if LC(b) == nil {
			return false
		}
		LC(b).Precommits = append(LC(b).Precommits, nil)
		return true
	})
	l.add("lastcommit", "lastcommit.slots.append", "pc:prepend-nil-slot", true, func(b *types.Block) bool {
		if LC(b) == nil {
			return false
		}
		LC(b).Precommits = insertVote(LC(b).Precommits, 0, nil)
		return true
	})
	l.add("lastcommit", "lastcommit.slots.append", "pc:append-vote", true, func(b *types.Block) bool {
		if LC(b) == nil {
			return false
		}
		LC(b).Precommits = append(LC(b).Precommits, signedVote(3, 5, uint64(c.H), 1, types.VoteTypePrecommit, bid("extra", 3)))
		return true
	})
	return l.ps
}
