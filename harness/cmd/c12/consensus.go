package main

// Phase D: reassembly inside the state machine.
//
// A real ConsensusState (synchronous driver, hooks/consensus/driver.go; fixture harness/csnet) is scripted into
// a pre-state in which it knows more or less of a candidate block A; then a trigger makes another block B the one
// to fetch (+2/3 precommits for B -> enterCommit; a polka for B -> enterPrecommit's "block we don't have" branch; a
// proposal for B in a later round); then an opx BFS delivers B's parts in every order, interleaved with duplicates,
// parts of A and forged parts. After every history, whenever the node holds a proposal block together with a complete
// part set:
//
//	(1) ProposalBlock.Hash() == hash of a FRESH decode of the part-set bytes == the proposer's block for that header,
//	(2) a fresh re-encoding of ProposalBlock == the reassembled bytes,
//	(3) every cached sub-hash (block, data, last commit, evidence) equals the one recomputed on the fresh decode,
//
// and (4) once +2/3 precommits for B and all parts of B have been delivered, the node has committed exactly B.
// A panic inside a handler is a violation with a root-cause key.

import (
	"bytes"
	"fmt"
	"io/ioutil"
	"regexp"
	"sync"

	"verif/csnet"
	"verif/vk"

	cs "github.com/lianxiangcloud/linkchain/consensus"
	cstypes "github.com/lianxiangcloud/linkchain/consensus/types"
	"github.com/lianxiangcloud/linkchain/libs/ser"
	"github.com/lianxiangcloud/linkchain/types"
)

const (
	blkA = 0
	blkB = 1
)

// csScene: everything that is the same for every run of one height (built once): fixture, the two candidate
// blocks with their part sets, and the serialized bytes.
type csScene struct {
	f      *csnet.Fixture
	height uint64
	self   int
	others []int
	blk    [2]*types.Block
	parts  [2]*types.PartSet
	ids    [2]types.BlockID
	data   [2][]byte
	votes  sync.Map // cache of signed puppet votes (immutable)
	prefix func(w *csWorld)
	tag    string // distinguishes scenes of the same height in search names
}

type csWorld struct {
	sc *csScene
	n  *csnet.Node
}

func (sc *csScene) newWorld() *csWorld {
	w := &csWorld{sc: sc, n: sc.f.NewNode(sc.self, 0)}
	if sc.prefix != nil {
		sc.prefix(w)
	}
	return w
}

func (w *csWorld) close() { w.n.Close() }

func (w *csWorld) T()                       { w.n.FireTimeout(); w.n.Drain() }
func (w *csWorld) in(m cs.ConsensusMessage) { w.n.Deliver(m, "script"); w.n.Drain() }

func (sc *csScene) vote(j int, typ byte, round int, id types.BlockID) *types.Vote {
	k := fmt.Sprintf("%d/%d/%d/%d/%s", sc.height, j, typ, round, id.Key())
	if v, ok := sc.votes.Load(k); ok {
		return cloneVote(v.(*types.Vote))
	}
	v := sc.f.Vote(j, sc.height, round, typ, id)
	sc.votes.Store(k, v)
	return cloneVote(v)
}

func (w *csWorld) pv(k, round int, id types.BlockID) {
	w.in(&cs.VoteMessage{Vote: w.sc.vote(w.sc.others[k], types.VoteTypePrevote, round, id)})
}
func (w *csWorld) pc(k, round int, id types.BlockID) {
	w.in(&cs.VoteMessage{Vote: w.sc.vote(w.sc.others[k], types.VoteTypePrecommit, round, id)})
}
func (w *csWorld) prop(round, b int) {
	st := w.n.VerifStatus()
	p := w.sc.f.Proposal(w.sc.f.ProposerAt(st, round), w.sc.height, round, w.sc.parts[b].Header(), -1, types.BlockID{})
	w.in(&cs.ProposalMessage{Proposal: p})
}
func (w *csWorld) part(round, b, i int) {
	p, _ := wire(w.sc.parts[b].GetPart(i))
	w.in(&cs.BlockPartMessage{Height: w.sc.height, Round: round, Part: p})
}
func (w *csWorld) partsAll(round, b int) {
	for i := 0; i < w.sc.parts[b].Total(); i++ {
		w.part(round, b, i)
	}
}

// candidate builds candidate block b of the node's current height: the block a proposer would make, carrying
// nTx of the fixture's signed transactions (so that A and B differ in Data, not only in the header).
func candidate(f *csnet.Fixture, w *csWorld, variant uint64, nTx int, lastCommit *types.Commit) (*types.Block, *types.PartSet) {
	st := w.n.VerifStatus()
	app := csnet.NewTrivApp(f.Vals, variant)
	var prevTotal uint64
	for h, blk := range w.n.App.Blocks {
		app.Blocks[h] = blk
		if h == st.LastBlockHeight {
			prevTotal = blk.TotalTxs
		}
	}
	block, _ := f.MakeBlock(st, app, f.ProposerAt(st, 0), lastCommit, nil)
	for i := 0; i < nTx; i++ {
		block.Data.Txs = append(block.Data.Txs, txPool[i%3].build())
	}
	block.NumTxs = uint64(nTx)
	block.TotalTxs = prevTotal + uint64(nTx)
	// fresh object graph: MakeBlock computed hashes over the empty transaction list
	nb := clone(block)
	nb.Header.DataHash = nb.Data.Hash()
	nb = clone(nb)
	return nb, nb.MakePartSet(st.ConsensusParams.BlockGossip.BlockPartSizeBytes)
}

// newScene builds the scene for height 1 or 2. The part size is chosen so that B splits into three parts.
func newScene(height uint64) *csScene {
	build := func(partSize int) *csScene {
		f := csnet.NewFixture([]int64{1, 1, 1, 1})
		f.Gen.ConsensusParams.BlockGossip.BlockPartSizeBytes = partSize
		sc := &csScene{f: f, height: height}
		// the node under test must not be the proposer of rounds 0..2 of the height under test
		sc.self = f.ProposerAt(f.GenesisStatus(), 3)
		if height == 2 {
			sc.self = f.ProposerAt(f.GenesisStatus(), 0)
		}
		for i := range f.Keys {
			if i != sc.self {
				sc.others = append(sc.others, i)
			}
		}
		if height == 2 {
			// height 1 is committed by an honest script: the node proposes its own block in round 0, the others vote for it
			one := &csScene{f: f, height: 1, self: sc.self, others: sc.others}
			sc.prefix = func(w *csWorld) {
				w.T()
				rs := w.n.CS.GetRoundState()
				if rs.ProposalBlock == nil || !rs.ProposalBlockParts.IsComplete() {
					vk.Fatalf("phase D: the node did not propose at height 1")
				}
				id := types.BlockID{Hash: rs.ProposalBlock.Hash(), PartsHeader: rs.ProposalBlockParts.Header()}
				w1 := &csWorld{sc: one, n: w.n}
				w1.pv(0, 0, id)
				w1.pv(1, 0, id)
				w1.pc(0, 0, id)
				w1.pc(1, 0, id)
				if w.n.App.Height() != 1 {
					vk.Fatalf("phase D: scripted prefix did not commit height 1")
				}
				st := w.n.VerifStatus()
				for r := 0; r < 3; r++ {
					if f.ProposerAt(st, r) == sc.self {
						vk.Fatalf("phase D: the node under test proposes in round %d of height 2", r)
					}
				}
			}
		}
		w := sc.newWorld()
		defer w.close()
		var lcA, lcB *types.Commit
		if height == 2 {
			// two different valid commits for height 1: the one the node saw (self + two others) and one made of
			// the three other validators' precommits (self's slot absent)
			seen := w.n.App.Seen[1]
			lcA = &types.Commit{BlockID: cloneBlockID(seen.BlockID)}
			lcB = &types.Commit{BlockID: cloneBlockID(seen.BlockID)}
			one := &csScene{f: f, height: 1}
			for i := range f.Keys {
				lcA.Precommits = append(lcA.Precommits, cloneVote(seen.Precommits[i]))
				if i == sc.self {
					lcB.Precommits = append(lcB.Precommits, nil)
				} else {
					lcB.Precommits = append(lcB.Precommits, one.vote(i, types.VoteTypePrecommit, 0, seen.BlockID))
				}
			}
		}
		sc.blk[blkA], sc.parts[blkA] = candidate(f, w, 1, 2, lcA)
		sc.blk[blkB], sc.parts[blkB] = candidate(f, w, 2, 3, lcB)
		for b := 0; b < 2; b++ {
			sc.ids[b] = types.BlockID{Hash: clone(sc.blk[b]).Hash(), PartsHeader: sc.parts[b].Header()}
			bz, err := ser.EncodeToBytes(clone(sc.blk[b]))
			if err != nil {
				vk.Fatalf("phase D: encode: %v", err)
			}
			sc.data[b] = bz
		}
		return sc
	}
	probe := build(1 << 20)
	sc := build(ceilDiv(len(probe.data[blkB]), 3))
	if sc.parts[blkB].Total() != 3 || sc.parts[blkA].Total() < 2 || sc.ids[blkA].Equals(sc.ids[blkB]) {
		vk.Fatalf("phase D: unexpected scene: A has %d parts, B has %d parts", sc.parts[blkA].Total(), sc.parts[blkB].Total())
	}
	return sc
}

// handCutScene: the height-1 scene with B cut by hand into four parts, the second one EMPTY (a proposer signs only
// {total, root} and may cut the bytes as it likes), under the header such a proposer would sign.
func handCutScene() *csScene {
	sc := newScene(1)
	data := sc.data[blkB]
	third := len(data) / 3
	header, parts := handCut(data, []int{third, 0, third, len(data) - 2*third})
	ps := types.NewPartSetFromHeader(header)
	for _, p := range parts {
		w, _ := wire(p)
		if ok, err := ps.AddPart(w); !ok || err != nil {
			vk.Fatalf("phase D: hand-cut part %d refused: %v", p.Index, err)
		}
	}
	sc.parts[blkB] = ps
	sc.ids[blkB] = types.BlockID{Hash: sc.ids[blkB].Hash, PartsHeader: header}
	sc.tag = "hand-cut-B/"
	return sc
}

// ---- pre-states and triggers ----------------------------------------------------------------------

type csStep struct {
	name string
	run  func(w *csWorld)
}

func preStates() []csStep {
	return []csStep{
		{"no-proposal", func(w *csWorld) { w.T() }},
		{"proposal-A-no-parts", func(w *csWorld) { w.T(); w.prop(0, blkA) }},
		{"A-partially-received", func(w *csWorld) { w.T(); w.prop(0, blkA); w.part(0, blkA, 0) }},
		{"A-complete-prevoted", func(w *csWorld) { w.T(); w.prop(0, blkA); w.partsAll(0, blkA) }},
		{"locked-on-A", func(w *csWorld) {
			w.T()
			w.prop(0, blkA)
			w.partsAll(0, blkA)
			w.pv(0, 0, w.sc.ids[blkA])
			w.pv(1, 0, w.sc.ids[blkA])
		}},
		// the node missed round 0 altogether, skipped to round 1 and holds the complete round-1 proposal A
		{"round1-A-complete", func(w *csWorld) {
			w.T()
			w.pv(0, 1, types.BlockID{})
			w.pv(1, 1, w.sc.ids[blkA])
			w.pv(2, 1, w.sc.ids[blkB])
			w.prop(1, blkA)
			w.partsAll(1, blkA)
		}},
	}
}

type csTrigger struct {
	name  string
	run   func(w *csWorld)
	round int  // round in which B's parts travel
	pcs   bool // the trigger itself delivers +2/3 precommits for B
}

func triggers() []csTrigger {
	return []csTrigger{
		{"precommits-for-B", func(w *csWorld) {
			for k := 0; k < 3; k++ {
				w.pc(k, 0, w.sc.ids[blkB])
			}
		}, 0, true},
		{"polka-for-B", func(w *csWorld) {
			for k := 0; k < 3; k++ {
				w.pv(k, 0, w.sc.ids[blkB])
			}
		}, 0, false},
		{"proposal-B-in-later-round", func(w *csWorld) {
			r := w.n.CS.GetRoundState().Round + 1
			w.pv(0, r, types.BlockID{})
			w.pv(1, r, w.sc.ids[blkA])
			w.pv(2, r, w.sc.ids[blkB])
			w.prop(r, blkB)
		}, -1, false},
	}
}

// ---- part deliveries ----------------------------------------------------------------------------

type csOp struct {
	name string
	bIdx int // >= 0: the genuine part bIdx of B
	mk   func(sc *csScene) *types.Part
}

func csOps(sc *csScene) []csOp {
	var ops []csOp
	for i := 0; i < sc.parts[blkB].Total(); i++ {
		i := i
		ops = append(ops, csOp{fmt.Sprintf("B[%d]", i), i, func(sc *csScene) *types.Part { p, _ := wire(sc.parts[blkB].GetPart(i)); return p }})
	}
	for i := 0; i < sc.parts[blkA].Total(); i++ {
		i := i
		ops = append(ops, csOp{fmt.Sprintf("A[%d]", i), -1, func(sc *csScene) *types.Part { p, _ := wire(sc.parts[blkA].GetPart(i)); return p }})
	}
	for i := 0; i < sc.parts[blkB].Total(); i++ {
		i := i
		ops = append(ops, csOp{fmt.Sprintf("forged-B[%d]:byte-flipped", i), -1, func(sc *csScene) *types.Part {
			p, _ := wire(sc.parts[blkB].GetPart(i))
			if len(p.Bytes) == 0 {
				p.Bytes = []byte{0xff} // an empty part (hand-cut sets): the forgery carries a byte
			} else {
				p.Bytes[0] ^= 0xff
			}
			return p
		}})
	}
	ops = append(ops, csOp{"forged:A[0]-bytes-with-B[0]-proof", -1, func(sc *csScene) *types.Part {
		p, _ := wire(sc.parts[blkB].GetPart(0))
		p.Bytes = cpBytes(sc.parts[blkA].GetPart(0).Bytes)
		return p
	}})
	return ops
}

var rePanicNoise = regexp.MustCompile(`0x[0-9a-fA-F]+|\b[0-9a-fA-F]{12,}\b|\d+`)

func panicKey(v interface{}) string {
	s := rePanicNoise.ReplaceAllString(fmt.Sprint(v), "#")
	if len(s) > 80 {
		s = s[:80]
	}
	return s
}

// checkHeld evaluates (1)-(3) on the node's current round state.
func (sc *csScene) checkHeld(w *csWorld, where string) (string, string) {
	rs := w.n.CS.GetRoundState()
	pb, pbp := rs.ProposalBlock, rs.ProposalBlockParts
	const pre = "state-machine-reassembly:"
	if pb == nil && pbp != nil && pbp.IsComplete() && pbp.Total() > 0 {
		// a complete, verified set of one of the proposers' blocks, and no block: the store path (concatenation)
		// decodes these parts, so the consensus path must have produced the block too
		for b := 0; b < 2; b++ {
			if !pbp.HasHeader(sc.parts[b].Header()) {
				continue
			}
			var buf []byte
			for i := 0; i < pbp.Total(); i++ {
				buf = append(buf, pbp.GetPart(i).Bytes...)
			}
			if ser.DecodeBytes(buf, new(types.Block)) == nil {
				return pre + "complete-set-but-no-block", fmt.Sprintf("%s: the part set of block %c is complete and its parts concatenate to a decodable block, but the node holds no ProposalBlock", where, 'A'+b)
			}
		}
	}
	if pb == nil || pbp == nil || !pbp.IsComplete() || pbp.Total() == 0 {
		return "", ""
	}
	raw, err := ioutil.ReadAll(pbp.GetReader())
	if err != nil {
		return pre + "part-set-unreadable", fmt.Sprintf("%s: %v", where, err)
	}
	which := -1
	for b := 0; b < 2; b++ {
		if pbp.HasHeader(sc.parts[b].Header()) {
			which = b
		}
	}
	if which < 0 {
		return pre + "complete-part-set-of-unknown-header", fmt.Sprintf("%s: the node completed a part set with header %v that no proposer made", where, pbp.Header())
	}
	if !bytes.Equal(raw, sc.data[which]) {
		return pre + "part-set-bytes-differ", fmt.Sprintf("%s: the completed part set for block %c does not hold the proposer's bytes", where, 'A'+which)
	}
	fresh := new(types.Block)
	if err := ser.DecodeBytes(raw, fresh); err != nil {
		return pre + "fresh-decode-fails", fmt.Sprintf("%s: %v", where, err)
	}
	want := fresh.Hash()
	if want != sc.ids[which].Hash {
		return pre + "fresh-decode-is-not-the-proposers-block", fmt.Sprintf("%s: fresh decode of the part set hashes to %s, proposer's block %c to %s", where, want.String(), 'A'+which, sc.ids[which].Hash.String())
	}
	held := 'A' + which
	if got := pb.Hash(); got != want {
		whose := "neither candidate"
		for b := 0; b < 2; b++ {
			if got == sc.ids[b].Hash {
				whose = fmt.Sprintf("block %c", 'A'+b)
			}
		}
		return pre + "held-block-hash-is-not-the-part-sets-block", fmt.Sprintf("%s: the part set for block %c is complete and verified, but ProposalBlock.Hash() = %s (%s), fresh decode of the same bytes = %s; its own header hashes to %s",
			where, held, got.String(), whose, want.String(), pb.Header.Hash().String())
	}
	// (3) cached hashes against the recomputed ones
	if pb.Header.Hash() != want {
		return pre + "held-block-header-differs", fmt.Sprintf("%s: header of the held block hashes to %s, want %s", where, pb.Header.Hash().String(), want.String())
	}
	if pb.Data == nil || pb.Data.Hash() != fresh.Data.Hash() {
		return pre + "stale-cached-hash:Data", fmt.Sprintf("%s: held block %c: Data.Hash() differs from the hash of the decoded transaction list", where, held)
	}
	if pb.LastCommit.Hash() != fresh.LastCommit.Hash() {
		return pre + "stale-cached-hash:LastCommit", fmt.Sprintf("%s: held block %c: LastCommit.Hash() differs from the recomputed one", where, held)
	}
	if pb.Evidence.Hash() != fresh.Evidence.Hash() {
		return pre + "stale-cached-hash:Evidence", fmt.Sprintf("%s: held block %c: Evidence.Hash() differs from the recomputed one", where, held)
	}
	// (2) re-encoding
	re, err := ser.EncodeToBytes(pb)
	if err != nil || !bytes.Equal(re, raw) {
		return pre + "held-block-reencodes-differently", fmt.Sprintf("%s: re-encoding the held block %c gives %d bytes (err %v) that differ from the %d reassembled bytes", where, held, len(re), err, len(raw))
	}
	if d := dump(pb); d != dump(fresh) {
		return pre + "held-block-content-differs", fmt.Sprintf("%s: content of the held block differs from the fresh decode:\n%s\nvs\n%s", where, d, dump(fresh))
	}
	if err := pb.ValidateBasic(); err != nil {
		return pre + "held-block-fails-ValidateBasic", fmt.Sprintf("%s: the proposer's valid block %c fails ValidateBasic after reassembly: %v", where, held, err)
	}
	return "", ""
}

// committedB: (4).
func (sc *csScene) checkCommit(w *csWorld, where string) (string, string) {
	var at []csnet.Committed
	for _, c := range w.n.App.Commits {
		if c.Height == sc.height {
			at = append(at, c)
		}
	}
	const pre = "state-machine-reassembly:"
	switch {
	case len(at) == 0:
		rs := w.n.CS.GetRoundState()
		return pre + "B-not-committed", fmt.Sprintf("%s: +2/3 precommits for B and all parts of B were delivered, the node commits nothing (H%d R%d step %v)", where, rs.Height, rs.Round, rs.Step)
	case len(at) > 1:
		return pre + "height-committed-twice", fmt.Sprintf("%s: %d commits at height %d", where, len(at), sc.height)
	case at[0].Hash != sc.ids[blkB].Hash:
		return pre + "committed-block-is-not-B", fmt.Sprintf("%s: committed %s, B is %s", where, at[0].Hash.String(), sc.ids[blkB].Hash.String())
	}
	if blk := w.n.App.Blocks[sc.height]; blk == nil || blk.Header.Hash() != sc.ids[blkB].Hash || dump(blk) != dump(sc.blk[blkB]) {
		return pre + "committed-block-content-is-not-B", fmt.Sprintf("%s: the block object handed to the application does not have B's content", where)
	}
	return "", ""
}

type csStats struct {
	mu       sync.Mutex
	outcomes map[string]int // what the trigger did / where the history ended (non-vacuity)
}

func (s *csStats) add(k string) {
	s.mu.Lock()
	s.outcomes[k]++
	s.mu.Unlock()
}

// consensusSearch runs one (pre-state, trigger) BFS.
func consensusSearch(r *vk.Run, sc *csScene, ps csStep, tg csTrigger, st *csStats) vk.Result {
	ops := csOps(sc)
	nB := sc.parts[blkB].Total()
	name := fmt.Sprintf("h%d/%s%s/%s", sc.height, sc.tag, ps.name, tg.name)
	spec := vk.Spec{
		Name:            name,
		NumOps:          len(ops),
		OpName:          func(i int) string { return ops[i].name },
		Depth:           nB + 2,
		MergeCheckEvery: 16,
		Exec:            func(hist []int) vk.Outcome { return consensusExec(sc, name, ps, tg, ops, hist, st) },
	}
	return r.Explore(spec)
}

// consensusExec: fresh node, pre-state, trigger, the part deliveries of hist, then the oracle.
func consensusExec(sc *csScene, name string, ps csStep, tg csTrigger, ops []csOp, hist []int, st *csStats) (out vk.Outcome) {
	nB := sc.parts[blkB].Total()
	w := sc.newWorld()
	defer w.close()
	where := name
	stage := "pre-state"
	defer func() {
		if e := recover(); e != nil {
			out = vk.Outcome{Err: "state-machine-reassembly:panic:" + stage + ":" + panicKey(e), What: fmt.Sprintf("%s: a handler panics during the %s: %v", where, stage, e)}
		}
	}()
	ps.run(w)
	stage = "trigger"
	tg.run(w)
	round := tg.round
	if round < 0 {
		round = w.n.CS.GetRoundState().Round
	}
	if len(hist) == 0 {
		rs := w.n.CS.GetRoundState()
		expectB := rs.ProposalBlockParts != nil && rs.ProposalBlockParts.HasHeader(sc.parts[blkB].Header())
		st.add(fmt.Sprintf("%s: after trigger: R%d step=%v expecting-parts-of-B=%v holds-a-block=%v", name, rs.Round, rs.Step, expectB, rs.ProposalBlock != nil))
	}
	stage = "part delivery"
	got := make([]bool, nB)
	for _, oi := range hist {
		op := ops[oi]
		where = name + " after " + op.name
		w.in(&cs.BlockPartMessage{Height: sc.height, Round: round, Part: op.mk(sc)})
		if op.bIdx >= 0 {
			got[op.bIdx] = true
		}
	}
	if k, what := sc.checkHeld(w, where); k != "" {
		return vk.Outcome{Err: k, What: what}
	}
	key := w.n.Digest()
	all := true
	for _, g := range got {
		all = all && g
	}
	if all {
		// (4): let the rest of the network finish: +2/3 precommits for B (if the trigger did not bring
		// them) and B's parts once more, as gossip re-sends what a node still asks for
		stage = "completion"
		if !tg.pcs {
			for k := 0; k < 3; k++ {
				w.pc(k, round, sc.ids[blkB])
			}
		}
		if k, what := sc.checkHeld(w, where+" + precommits for B"); k != "" {
			return vk.Outcome{Err: k, What: what}
		}
		w.partsAll(round, blkB)
		if k, what := sc.checkHeld(w, where+" + precommits and parts of B"); k != "" {
			return vk.Outcome{Err: k, What: what}
		}
		if k, what := sc.checkCommit(w, where+" + precommits and parts of B"); k != "" {
			return vk.Outcome{Err: k, What: what}
		}
		st.add("B committed after all parts")
	}
	rs := w.n.CS.GetRoundState()
	if rs.Step == cstypes.RoundStepCommit {
		st.add("history ends in the commit step")
	}
	return vk.Outcome{Key: key + fmt.Sprint(got)}
}

// replayConsensus re-runs one recorded phase-D history ("h<height>/<pre-state>/<trigger>").
func replayConsensus(r *vk.Run, search string, opIDs []int, rc interface{}) bool {
	var h uint64
	if _, err := fmt.Sscanf(search, "h%d/", &h); err != nil {
		return false
	}
	for _, ps := range preStates() {
		for _, tg := range triggers() {
			handCutB := search == fmt.Sprintf("h%d/hand-cut-B/%s/%s", h, ps.name, tg.name)
			if !handCutB && search != fmt.Sprintf("h%d/%s/%s", h, ps.name, tg.name) {
				continue
			}
			sc := newScene(h)
			if handCutB {
				sc = handCutScene()
			}
			ops := csOps(sc)
			for _, oi := range opIDs {
				if oi >= len(ops) {
					vk.Fatalf("replay: op %d is not in the phase-D alphabet", oi)
				}
			}
			st := &csStats{outcomes: map[string]int{}}
			out := consensusExec(sc, search, ps, tg, ops, opIDs, st)
			fmt.Printf("%s ops %v -> state %q violation %q %s\n", search, opIDs, out.Key, out.Err, out.What)
			if out.Err != "" {
				r.Violation(out.Err, out.What, rc)
			}
			return true
		}
	}
	return false
}

// checkConsensusReassembly runs phase D for the given heights.
func checkConsensusReassembly(r *vk.Run, heights []uint64) (states, trans, searches int, outcomes map[string]int) {
	st := &csStats{outcomes: map[string]int{}}
	for _, h := range heights {
		sc := newScene(h)
		for _, ps := range preStates() {
			for _, tg := range triggers() {
				if r.Expired() {
					r.Capped("phase D: deadline")
					return states, trans, searches, st.outcomes
				}
				res := consensusSearch(r, sc, ps, tg, st)
				states += res.States
				trans += res.Transitions
				searches++
			}
		}
	}
	// one hand-cut (non-uniform, with an empty part) set of B inside the state machine
	hc := handCutScene()
	for _, ps := range preStates() {
		if ps.name != "no-proposal" && ps.name != "A-complete-prevoted" {
			continue
		}
		for _, tg := range triggers() {
			if tg.name == "polka-for-B" || r.Expired() {
				continue
			}
			res := consensusSearch(r, hc, ps, tg, st)
			states += res.States
			trans += res.Transitions
			searches++
		}
	}
	return states, trans, searches, st.outcomes
}
