package main

// Phase F: proposer-chosen chunkings. A proposer signs only {total, Merkle root} and may cut the block bytes
// into parts any way it likes; MakePartSet's uniform cut is one choice. For a menu of non-uniform compositions of
// the base blocks' bytes over 2..5 parts (empty parts first / in the middle / last / adjacent / all but one empty,
// 1-byte parts, small sizes around the codec's buffer handling) the parts are built by hand with valid proofs under
// the header the proposer would sign (types.Part + merkle.SimpleProofsFromHashers, as NewPartSetFromData does):
//
//	(1) AddPart accepts every part, once, in every delivery order;
//	(2) the complete set read through ReadAll, through 1/3/64-byte reads and through ser.DecodeReader yields exactly
//	    the concatenation of the parts in index order (= the proposer's bytes; decode gives the proposer's block)
//	    or an error - never other bytes with a nil error; the block-store path (concatenation) is compared too.

import (
	"bytes"
	"fmt"
	"io/ioutil"

	"verif/vk"

	"github.com/lianxiangcloud/linkchain/libs/crypto/merkle"
	"github.com/lianxiangcloud/linkchain/libs/ser"
	"github.com/lianxiangcloud/linkchain/types"
)

// handCut builds the parts of data cut at the given sizes, with proofs, and the header a proposer would sign.
func handCut(data []byte, sizes []int) (types.PartSetHeader, []*types.Part) {
	var parts []*types.Part
	var hs []merkle.Hasher
	off := 0
	for i, n := range sizes {
		p := &types.Part{Index: i, Bytes: cpBytes(data[off : off+n])}
		if n == 0 {
			p.Bytes = []byte{}
		}
		off += n
		parts = append(parts, p)
		hs = append(hs, p)
	}
	if off != len(data) {
		vk.Fatalf("handCut: sizes %v do not sum to %d", sizes, len(data))
	}
	root, proofs := merkle.SimpleProofsFromHashers(hs)
	for i := range parts {
		parts[i].Proof = *proofs[i]
	}
	return types.PartSetHeader{Total: len(parts), Hash: root}, parts
}

// compositions: the menu of size vectors for k parts over L bytes.
func compositions(L, k int) (out [][]int) {
	seen := map[string]bool{}
	add := func(s []int) {
		sum := 0
		for _, x := range s {
			if x < 0 {
				return
			}
			sum += x
		}
		if sum != L || len(s) != k {
			return
		}
		if key := fmt.Sprint(s); !seen[key] {
			seen[key] = true
			out = append(out, s)
		}
	}
	// spread distributes L over the positions that are not forced to a fixed size
	spread := func(fixed map[int]int) []int {
		s := make([]int, k)
		rest, free := L, 0
		for i := 0; i < k; i++ {
			if v, ok := fixed[i]; ok {
				s[i] = v
				rest -= v
			} else {
				free++
			}
		}
		if free == 0 || rest < 0 {
			return nil
		}
		for i, given := 0, 0; i < k; i++ {
			if _, ok := fixed[i]; !ok {
				given++
				s[i] = rest / free
				if given == free {
					s[i] = rest - (rest/free)*(free-1)
				}
			}
		}
		return s
	}
	try := func(fixed map[int]int) {
		if s := spread(fixed); s != nil {
			add(s)
		}
	}
	try(map[int]int{})               // uniform-ish
	try(map[int]int{0: 0})           // empty first
	try(map[int]int{k - 1: 0})       // empty last
	try(map[int]int{k / 2: 0})       // empty in the middle
	try(map[int]int{0: 0, k - 1: 0}) // empty first and last
	for i := 0; i+1 < k; i++ {
		try(map[int]int{i: 0, i + 1: 0}) // two adjacent empty parts
	}
	for j := 0; j < k; j++ { // one part holds everything, the others are empty
		f := map[int]int{}
		for i := 0; i < k; i++ {
			if i != j {
				f[i] = 0
			}
		}
		try(f)
	}
	for _, sz := range []int{1, 2, 3, 7, 64} {
		lead, tail, mid := map[int]int{}, map[int]int{}, map[int]int{k / 2: sz}
		for i := 0; i < k-1; i++ {
			lead[i] = sz
			tail[i+1] = sz
		}
		try(lead) // small parts first, the rest in the last part
		try(tail) // the bulk first, small parts behind
		try(mid)  // one small part in the middle
		try(map[int]int{0: sz, 1: 0})
		try(map[int]int{k - 2: 0, k - 1: sz})
	}
	return
}

// checkChunkings runs phase F.
func checkChunkings(r *vk.Run, cfgs []blockCfg) (sets, deliveries int, refused map[string]int) {
	refused = map[string]int{}
	for _, c := range cfgs {
		b := baseBlock(c)
		data, err := ser.EncodeToBytes(clone(b))
		if err != nil {
			vk.Fatalf("phase F: encode: %v", err)
		}
		wantHash, wantDump := clone(b).Hash(), dump(b)
		for k := 2; k <= 5; k++ {
			for _, sizes := range compositions(len(data), k) {
				if r.Expired() {
					r.Capped("phase F: deadline")
					return
				}
				sets++
				header, parts := handCut(data, sizes)
				name := fmt.Sprintf("%v cut %v", c, sizes)
				rep := map[string]interface{}{"phase": "chunkings", "block": c, "sizes": sizes}
				fail := func(key, what string) { r.Violation(key, name+": "+what, rep) }
				first := true
				vk.Permutations(k, func(order []int) bool {
					ps := types.NewPartSetFromHeader(types.PartSetHeader{Total: header.Total, Hash: cpBytes(header.Hash)})
					for _, i := range order {
						p, ok := wire(parts[i])
						if !ok {
							vk.Fatalf("phase F: part not representable on the wire")
						}
						deliveries++
						var added bool
						var err error
						if panicked, val := vk.Catch(func() { added, err = ps.AddPart(p) }); panicked {
							fail("chunking:AddPart-panic", fmt.Sprintf("AddPart(part %d, %d bytes) panics: %v", i, sizes[i], val))
							return false
						}
						if !added || err != nil {
							// a consistent refusal of a proposer's own part is recorded; the set then simply never completes
							refused[fmt.Sprintf("part of %d bytes refused: %v", sizes[i], err)]++
							if first {
								fail("chunking:genuine-part-refused", fmt.Sprintf("AddPart(part %d, %d bytes, order %v) = (%v, %v)", i, sizes[i], order, added, err))
							}
							return true
						}
					}
					if !ps.IsComplete() {
						fail("chunking:not-complete", fmt.Sprintf("all %d parts accepted (order %v) but the set is not complete", k, order))
						return false
					}
					if !first && k > 3 {
						return true // the read-back does not depend on the arrival order (slots are by index): every order for k <= 3, once above
					}
					first = false
					// (2) every way of reading the complete set
					var concat []byte
					for i := 0; i < ps.Total(); i++ {
						concat = append(concat, ps.GetPart(i).Bytes...)
					}
					if !bytes.Equal(concat, data) {
						fail("chunking:stored-parts-differ", "the parts held by the complete set do not concatenate to the proposer's bytes")
						return false
					}
					var all []byte
					var rerr error
					if panicked, val := vk.Catch(func() { all, rerr = ioutil.ReadAll(ps.GetReader()) }); panicked {
						fail("chunking:reader-panic", fmt.Sprintf("ReadAll(GetReader()) panics: %v", val))
						return false
					}
					if rerr == nil && !bytes.Equal(all, data) {
						fail("chunking:reader-yields-other-bytes-without-error", fmt.Sprintf("ReadAll(GetReader()) returns %d bytes and a nil error; the parts concatenate to %d bytes (prefix=%v)", len(all), len(data), bytes.HasPrefix(data, all)))
						return false
					}
					for _, n := range []int{1, 3, 64} {
						var got []byte
						var cerr error
						if panicked, val := vk.Catch(func() { got, cerr = readChunks(ps.GetReader(), n) }); panicked {
							fail("chunking:reader-panic", fmt.Sprintf("reading in chunks of %d panics: %v", n, val))
							return false
						}
						if cerr == nil && !bytes.Equal(got, data) {
							fail("chunking:reader-yields-other-bytes-without-error", fmt.Sprintf("reading in chunks of %d returns %d bytes and no error; want %d", n, len(got), len(data)))
							return false
						}
					}
					var blk *types.Block
					var derr error
					if panicked, val := vk.Catch(func() { _, derr = ser.DecodeReader(ps.GetReader(), &blk, maxBlockBytes) }); panicked {
						fail("chunking:decode-panic", fmt.Sprintf("DecodeReader(GetReader()) panics: %v", val))
						return false
					}
					if derr != nil {
						// the block store path decodes the same complete, verified set: the two paths must agree
						fail("chunking:consensus-path-fails-where-store-path-decodes", fmt.Sprintf("DecodeReader(GetReader()) fails (%v) on a complete set whose parts concatenate to the proposer's block", derr))
						return false
					}
					if blk == nil || blk.Header == nil || blk.Hash() != wantHash || dump(blk) != wantDump {
						fail("chunking:decoded-block-differs", "DecodeReader(GetReader()) returns a block that is not the proposer's, without an error")
						return false
					}
					return true
				})
			}
		}
	}
	return
}
