package main

// Fixture: deterministic blocks built directly with the repository's constructors and literals
// (no minichain): account transactions signed with fixed secp256k1 keys, duplicate-vote and
// fault-validator evidence, and a LastCommit of real ed25519-signed precommits.
//
// Every block handed to the code under test is a FRESH object graph (clone()), so none of the hash
// caches inside Block/Data/EvidenceData/Commit is shared between a base block and its variants.

import (
	"crypto/ecdsa"
	"crypto/sha256"
	"fmt"
	"math/big"
	"reflect"
	"strings"
	"time"

	"verif/vk"

	"github.com/lianxiangcloud/linkchain/libs/common"
	"github.com/lianxiangcloud/linkchain/libs/crypto"
	"github.com/lianxiangcloud/linkchain/libs/ser"
	"github.com/lianxiangcloud/linkchain/types"
)

const chainID = "c12-chain"

var (
	valKeys []crypto.PrivKeyEd25519
	txKeys  []*ecdsa.PrivateKey
	addrA   = common.HexToAddress("0x1111111111111111111111111111111111111111")
	addrB   = common.HexToAddress("0x2222222222222222222222222222222222222222")
	addrTok = common.HexToAddress("0x3333333333333333333333333333333333333333")
	cbase   = common.HexToAddress("0x00000000000000000000000000000000000000c0")
)

func initKeys() {
	for i := 0; i < 4; i++ {
		valKeys = append(valKeys, crypto.GenPrivKeyEd25519FromSecret([]byte(fmt.Sprintf("v%d", i))))
	}
	for i := 0; i < 2; i++ {
		k, err := crypto.ToECDSA(crypto.Keccak256([]byte(fmt.Sprintf("c12-tx-key-%d", i))))
		if err != nil {
			vk.Fatalf("tx key: %v", err)
		}
		txKeys = append(txKeys, k)
	}
}

// ---- transactions -------------------------------------------------------------------------------

// rawTx mirrors the wire layout of types.Transaction (its unexported txdata); a transaction with
// arbitrary field values is obtained by encoding a rawTx and decoding it with the repository's decoder.
type rawTx struct {
	Nonce   uint64
	Price   *big.Int
	Gas     uint64
	To      *common.Address `rlp:"nil"`
	Amount  *big.Int
	Payload []byte
	V, R, S *big.Int
}

type rawSig struct{ V, R, S *big.Int }

// rawTokenTx mirrors types.TokenTransaction (tokenData).
type rawTokenTx struct {
	Token   common.Address
	Nonce   uint64
	Price   *big.Int
	Gas     uint64
	To      *common.Address `rlp:"nil"`
	Amount  *big.Int
	Payload []byte
	Sig     rawSig
}

// txSpec is the harness-side plain description of a transaction (the reference content).
type txSpec struct {
	Token   bool // TokenTransaction instead of Transaction
	TokenAd common.Address
	Nonce   uint64
	Price   *big.Int
	Gas     uint64
	To      *common.Address
	Amount  *big.Int
	Payload []byte
	V, R, S *big.Int
}

func (s txSpec) String() string {
	to := "nil"
	if s.To != nil {
		to = s.To.Hex()
	}
	return fmt.Sprintf("tx{token=%v/%x nonce=%d price=%v gas=%d to=%s amount=%v payload=%x v=%v r=%v s=%v}",
		s.Token, s.TokenAd[:], s.Nonce, s.Price, s.Gas, to, s.Amount, s.Payload, s.V, s.R, s.S)
}

func (s txSpec) clone() txSpec {
	c := s
	c.Price, c.Amount = new(big.Int).Set(s.Price), new(big.Int).Set(s.Amount)
	c.V, c.R, c.S = new(big.Int).Set(s.V), new(big.Int).Set(s.R), new(big.Int).Set(s.S)
	c.Payload = append([]byte{}, s.Payload...)
	if s.To != nil {
		t := *s.To
		c.To = &t
	}
	return c
}

// build materialises the spec through the repository's decoder.
func (s txSpec) build() types.Tx {
	var tx types.Tx
	var bz []byte
	var err error
	if s.Token {
		bz, err = ser.EncodeToBytes(&rawTokenTx{s.TokenAd, s.Nonce, s.Price, s.Gas, s.To, s.Amount, s.Payload, rawSig{s.V, s.R, s.S}})
		if err == nil {
			t := new(types.TokenTransaction)
			err = ser.DecodeBytes(bz, t)
			tx = t
		}
	} else {
		bz, err = ser.EncodeToBytes(&rawTx{s.Nonce, s.Price, s.Gas, s.To, s.Amount, s.Payload, s.V, s.R, s.S})
		if err == nil {
			t := new(types.Transaction)
			err = ser.DecodeBytes(bz, t)
			tx = t
		}
	}
	if err != nil {
		vk.Fatalf("fixture: cannot build %v: %v", s, err)
	}
	return tx
}

// signedTx builds a transaction with the repository's constructor and signer, then records its spec.
func signedTx(token bool, key int, nonce uint64, to *common.Address, amount int64, gas uint64, payload []byte) txSpec {
	var bz []byte
	var err error
	s := txSpec{Token: token}
	if token {
		var t *types.TokenTransaction
		if to == nil {
			vk.Fatalf("fixture: token tx needs a recipient")
		}
		t = types.NewTokenTransaction(addrTok, nonce, *to, big.NewInt(amount), gas, nil, payload)
		if err = t.Sign(types.GlobalSTDSigner, txKeys[key]); err != nil {
			vk.Fatalf("fixture: sign: %v", err)
		}
		bz, err = ser.EncodeToBytes(t)
		var r rawTokenTx
		if err == nil {
			err = ser.DecodeBytes(bz, &r)
		}
		s.TokenAd, s.Nonce, s.Price, s.Gas, s.To, s.Amount, s.Payload, s.V, s.R, s.S = r.Token, r.Nonce, r.Price, r.Gas, r.To, r.Amount, r.Payload, r.Sig.V, r.Sig.R, r.Sig.S
	} else {
		var t *types.Transaction
		if to == nil {
			t = types.NewContractCreation(nonce, big.NewInt(amount), gas, nil, payload)
		} else {
			t = types.NewTransaction(nonce, *to, big.NewInt(amount), gas, nil, payload)
		}
		if err = t.Sign(types.GlobalSTDSigner, txKeys[key]); err != nil {
			vk.Fatalf("fixture: sign: %v", err)
		}
		bz, err = ser.EncodeToBytes(t)
		var r rawTx
		if err == nil {
			err = ser.DecodeBytes(bz, &r)
		}
		s.Nonce, s.Price, s.Gas, s.To, s.Amount, s.Payload, s.V, s.R, s.S = r.Nonce, r.Price, r.Gas, r.To, r.Amount, r.Payload, r.V, r.R, r.S
	}
	if err != nil {
		vk.Fatalf("fixture: tx round trip: %v", err)
	}
	return s
}

// ---- votes, commits, evidence -------------------------------------------------------------------

func bid(tag string, total int) types.BlockID {
	return types.BlockID{Hash: common.BytesToHash(crypto.Keccak256([]byte("block-" + tag))),
		PartsHeader: types.PartSetHeader{Total: total, Hash: crypto.Keccak256([]byte("parts-" + tag))}}
}

func signedVote(val int, size int, height uint64, round int, typ byte, id types.BlockID) *types.Vote {
	v := &types.Vote{
		ValidatorAddress: valKeys[val].PubKey().Address(),
		ValidatorIndex:   val,
		ValidatorSize:    size,
		Height:           height,
		Round:            round,
		Timestamp:        time.Unix(1500000000+int64(height)*10+int64(val), 1000*int64(val+1)).UTC(),
		Type:             typ,
		BlockID:          id,
	}
	sig, err := valKeys[val].Sign(v.SignBytes(chainID))
	if err != nil {
		vk.Fatalf("fixture: vote sign: %v", err)
	}
	v.Signature = sig
	return v
}

func cpBytes(b []byte) []byte {
	if b == nil {
		return nil
	}
	return append([]byte{}, b...)
}

func cloneSig(s crypto.Signature) crypto.Signature {
	switch x := s.(type) {
	case nil:
		return nil
	case crypto.SignatureEd25519:
		return x // an array: copied by value
	case crypto.SignatureSecp256k1:
		return crypto.SignatureSecp256k1(cpBytes([]byte(x)))
	}
	vk.Fatalf("fixture: unknown signature type %T", s)
	return nil
}

func cloneBlockID(id types.BlockID) types.BlockID {
	id.PartsHeader.Hash = cpBytes(id.PartsHeader.Hash)
	return id
}

func cloneVote(v *types.Vote) *types.Vote {
	if v == nil {
		return nil
	}
	c := *v
	c.ValidatorAddress = cpBytes(v.ValidatorAddress)
	c.BlockID = cloneBlockID(v.BlockID)
	c.Signature = cloneSig(v.Signature)
	return &c
}

func cloneEvidence(e types.Evidence) types.Evidence {
	switch x := e.(type) {
	case *types.DuplicateVoteEvidence:
		return &types.DuplicateVoteEvidence{PubKey: x.PubKey, VoteA: cloneVote(x.VoteA), VoteB: cloneVote(x.VoteB)}
	case *types.FaultValidatorsEvidence:
		c := *x
		return &c
	}
	vk.Fatalf("fixture: unknown evidence type %T", e)
	return nil
}

// clone returns a deep, cache-free copy of b (transactions are immutable and shared).
func clone(b *types.Block) *types.Block {
	n := &types.Block{}
	if b.Header != nil {
		h := *b.Header
		h.LastBlockID = cloneBlockID(h.LastBlockID)
		n.Header = &h
	}
	if b.Data != nil {
		n.Data = &types.Data{Txs: append(types.Txs{}, b.Data.Txs...)}
	}
	for _, e := range b.Evidence.Evidence {
		n.Evidence.Evidence = append(n.Evidence.Evidence, cloneEvidence(e))
	}
	if b.LastCommit != nil {
		c := &types.Commit{BlockID: cloneBlockID(b.LastCommit.BlockID)}
		for _, p := range b.LastCommit.Precommits {
			c.Precommits = append(c.Precommits, cloneVote(p))
		}
		n.LastCommit = c
	}
	return n
}

// refill recomputes the header fields that are functions of the block body, as a proposer does in
// createProposalBlock (NumTxs, DataHash, EvidenceHash, LastCommitHash). Must be called on a fresh clone.
func refill(b *types.Block) {
	if b.Data != nil {
		b.Header.NumTxs = uint64(len(b.Data.Txs))
		b.Header.DataHash = b.Data.Hash()
	} else {
		b.Header.NumTxs = 0
		b.Header.DataHash = (types.Txs{}).Hash()
	}
	b.Header.EvidenceHash = b.Evidence.Hash()
	b.Header.LastCommitHash = b.LastCommit.Hash()
}

// ---- base blocks ---------------------------------------------------------------------------------

type blockCfg struct {
	H, NTx, NEv int
}

func (c blockCfg) String() string { return fmt.Sprintf("h%d/tx%d/ev%d", c.H, c.NTx, c.NEv) }

var (
	txPool   []txSpec // base transactions, in block order
	altTx    txSpec   // a transaction that is in no base block (insertions / replacements)
	valsHash common.Hash
	consHash common.Hash
)

// utxoPos: blocks with more than utxoPos transactions hold the confidential transaction at that position.
const utxoPos = 3

func initFixture() {
	initKeys()
	initUTXO()
	txPool = []txSpec{
		signedTx(false, 0, 0, &addrA, 5, 21000, nil),
		signedTx(false, 0, 1, &addrB, 7, 50000, []byte("payload-1")),
		signedTx(true, 1, 0, &addrA, 9, 60000, []byte{0x00, 0x01}),
	}
	altTx = signedTx(false, 1, 1, nil, 0, 90000, []byte{0x60, 0x00})
	var vals []*types.Validator
	for i := range valKeys {
		vals = append(vals, types.NewValidator(valKeys[i].PubKey(), cbase, int64(10+i)))
	}
	valsHash = common.BytesToHash(types.NewValidatorSet(vals).Hash())
	consHash = common.BytesToHash(types.DefaultConsensusParams().Hash())
}

// baseBlock builds the block of configuration c: a block of a short chain whose previous blocks hold one
// transaction each. Heights > 1 carry a LastCommit with four validator slots, slot 2 absent (nil).
func baseBlock(c blockCfg) *types.Block {
	h := uint64(c.H)
	b := &types.Block{
		Header: &types.Header{
			ChainID:        chainID,
			Height:         h,
			Coinbase:       cbase,
			Time:           1500000000 + 10*h,
			TotalTxs:       (h - 1) + uint64(c.NTx),
			Recover:        0,
			ValidatorsHash: valsHash,
			ConsensusHash:  consHash,
			StateHash:      common.BytesToHash(crypto.Keccak256([]byte(fmt.Sprintf("state-%d", h)))),
			ReceiptHash:    common.BytesToHash(crypto.Keccak256([]byte(fmt.Sprintf("receipts-%d", h)))),
			GasLimit:       5000000000,
			GasUsed:        21000 * uint64(c.NTx),
		},
		Data:       &types.Data{},
		LastCommit: &types.Commit{},
	}
	for i := 0; i < c.NTx; i++ {
		if i == utxoPos {
			b.Data.Txs = append(b.Data.Txs, freshUTXO())
			continue
		}
		b.Data.Txs = append(b.Data.Txs, txPool[i].build())
	}
	if h > 1 {
		prev := bid(fmt.Sprintf("h%d", h-1), 1)
		b.Header.ParentHash = prev.Hash
		b.Header.LastBlockID = cloneBlockID(prev)
		b.LastCommit.BlockID = cloneBlockID(prev)
		for v := 0; v < 4; v++ {
			if v == 2 {
				b.LastCommit.Precommits = append(b.LastCommit.Precommits, nil)
				continue
			}
			b.LastCommit.Precommits = append(b.LastCommit.Precommits, signedVote(v, 4, h-1, 0, types.VoteTypePrecommit, prev))
		}
	}
	if c.NEv >= 1 {
		eh := h
		if eh > 1 {
			eh--
		}
		b.Evidence.Evidence = append(b.Evidence.Evidence, &types.DuplicateVoteEvidence{
			PubKey: valKeys[1].PubKey(),
			VoteA:  signedVote(1, 4, eh, 0, types.VoteTypePrevote, bid("x", 1)),
			VoteB:  signedVote(1, 4, eh, 0, types.VoteTypePrevote, bid("y", 2)),
		})
	}
	if c.NEv >= 2 {
		b.Evidence.Evidence = append(b.Evidence.Evidence, &types.FaultValidatorsEvidence{
			BlockHeight: h, Round: 1, Proposer: valKeys[0].PubKey(), FaultVal: valKeys[3].PubKey()})
	}
	refill(b)
	return clone(b) // drop the caches refill() populated
}

// ---- reference dump (independent of the codec under test) ----------------------------------------

func dumpBlockID(id types.BlockID) string {
	return fmt.Sprintf("%x/%d/%x", id.Hash[:], id.PartsHeader.Total, []byte(id.PartsHeader.Hash))
}

// dumpSig / dumpPub read the raw key material (the Bytes() methods go through the codec under test).
func dumpSig(s crypto.Signature) string {
	switch x := s.(type) {
	case nil:
		return "nil"
	case crypto.SignatureEd25519:
		return fmt.Sprintf("ed25519:%x", x[:])
	case crypto.SignatureSecp256k1:
		return fmt.Sprintf("secp256k1:%x", []byte(x))
	}
	return fmt.Sprintf("?%T", s)
}

func dumpPub(p crypto.PubKey) string {
	switch x := p.(type) {
	case nil:
		return "nil"
	case crypto.PubKeyEd25519:
		return fmt.Sprintf("ed25519:%x", x[:])
	case crypto.PubKeySecp256k1:
		return fmt.Sprintf("secp256k1:%x", x[:])
	}
	return fmt.Sprintf("?%T", p)
}

func dumpVote(v *types.Vote) string {
	if v == nil {
		return "nil-vote"
	}
	return fmt.Sprintf("vote{addr=%x idx=%d size=%d h=%d r=%d t=%d.%d type=%d id=%s sig=%s}", []byte(v.ValidatorAddress), v.ValidatorIndex,
		v.ValidatorSize, v.Height, v.Round, v.Timestamp.Unix(), v.Timestamp.Nanosecond(), v.Type, dumpBlockID(v.BlockID), dumpSig(v.Signature))
}

// txView is the accessor face shared by Transaction and TokenTransaction; the dump reads transactions
// through it, not through the codec.
type txView interface {
	Nonce() uint64
	GasPrice() *big.Int
	Gas() uint64
	To() *common.Address
	Value() *big.Int
	Data() []byte
	TokenAddress() common.Address
	RawSignatureValues() (*big.Int, *big.Int, *big.Int)
}

func dumpTx(tx types.Tx) string {
	if u, isU := tx.(*types.UTXOTransaction); isU {
		return "utxo{" + dumpValue(reflect.ValueOf(u)) + "}"
	}
	v, ok := tx.(txView)
	if !ok {
		vk.Fatalf("dump: unsupported transaction type %T", tx)
	}
	to := "nil"
	if t := v.To(); t != nil {
		to = t.Hex()
	}
	a, b, c := v.RawSignatureValues()
	ta := v.TokenAddress()
	return fmt.Sprintf("%T{token=%x nonce=%d price=%v gas=%d to=%s amount=%v payload=%x sig=%v/%v/%v}",
		tx, ta[:], v.Nonce(), v.GasPrice(), v.Gas(), to, v.Value(), v.Data(), a, b, c)
}

func dumpEvidence(e types.Evidence) string {
	switch x := e.(type) {
	case *types.DuplicateVoteEvidence:
		return fmt.Sprintf("dup{pub=%s a=%s b=%s}", dumpPub(x.PubKey), dumpVote(x.VoteA), dumpVote(x.VoteB))
	case *types.FaultValidatorsEvidence:
		return fmt.Sprintf("fault{h=%d r=%d proposer=%s val=%s}", x.BlockHeight, x.Round, dumpPub(x.Proposer), dumpPub(x.FaultVal))
	}
	return fmt.Sprintf("?%T", e)
}

// dump is the reference content of a block: every consensus-relevant field, written out by plain Go
// formatting. Two blocks are "the same block" for the oracle iff their dumps are equal.
func dump(b *types.Block) string {
	var s strings.Builder
	if h := b.Header; h == nil {
		s.WriteString("nil-header\n")
	} else {
		fmt.Fprintf(&s, "chain=%q height=%d coinbase=%x time=%d numtxs=%d totaltxs=%d recover=%d parent=%x lastid=%s lastcommit=%x vals=%x cons=%x data=%x state=%x receipts=%x gaslimit=%d gasused=%d evidence=%x\n",
			h.ChainID, h.Height, h.Coinbase[:], h.Time, h.NumTxs, h.TotalTxs, h.Recover, h.ParentHash[:], dumpBlockID(h.LastBlockID), h.LastCommitHash[:],
			h.ValidatorsHash[:], h.ConsensusHash[:], h.DataHash[:], h.StateHash[:], h.ReceiptHash[:], h.GasLimit, h.GasUsed, h.EvidenceHash[:])
	}
	if b.Data == nil {
		s.WriteString("nil-data\n")
	} else {
		for i, tx := range b.Data.Txs {
			fmt.Fprintf(&s, "tx[%d]=%s\n", i, dumpTx(tx))
		}
	}
	for i, e := range b.Evidence.Evidence {
		fmt.Fprintf(&s, "ev[%d]=%s\n", i, dumpEvidence(e))
	}
	if b.LastCommit == nil {
		s.WriteString("nil-commit\n")
	} else {
		fmt.Fprintf(&s, "commit.id=%s\n", dumpBlockID(b.LastCommit.BlockID))
		for i, p := range b.LastCommit.Precommits {
			fmt.Fprintf(&s, "pc[%d]=%s\n", i, dumpVote(p))
		}
	}
	return s.String()
}

func dumpHash(b *types.Block) [32]byte { return sha256.Sum256([]byte(dump(b))) }

// dumpSections: sha-256 of the four sections of the dump (header line, transaction lines, evidence lines,
// commit lines) - the reference content each commitment (Block.Hash, Data.Hash, Evidence.Hash, Commit.Hash) stands for.
func dumpSections(d string) (sec [4][32]byte) {
	var parts [4]strings.Builder
	for i, l := range strings.Split(strings.TrimSuffix(d, "\n"), "\n") {
		k := 3
		switch {
		case i == 0:
			k = 0
		case strings.HasPrefix(l, "tx[") || l == "nil-data":
			k = 1
		case strings.HasPrefix(l, "ev["):
			k = 2
		}
		parts[k].WriteString(l)
		parts[k].WriteByte('\n')
	}
	for k := range parts {
		sec[k] = sha256.Sum256([]byte(parts[k].String()))
	}
	return
}
