package main

// Phase E: the Merkle commitments over the three hashed lists of a block (transactions -> Data.Hash/DataHash,
// evidence -> EvidenceHash, precommits -> Commit.Hash/LastCommitHash) for EVERY list length 0..N (the tree shape
// depends on the length) and every position: replace by another item, swap with the neighbour, delete, duplicate,
// move to front/back, insert a new item, (precommits) make the slot absent.
//
//	list level : different lists have different roots (one injectivity map per list kind over all lengths);
//	block level: the perturbed list under the ORIGINAL header is rejected by ValidateBasic; with the dependent
//	             header fields recomputed Block.Hash() (the header hash) and the part-set header both change.
//
// Items are cheap synthetic transactions / evidence records / votes (nothing here verifies signatures).

import (
	"fmt"
	"math/big"
	"strings"
	"time"

	"verif/vk"

	"github.com/lianxiangcloud/linkchain/libs/crypto"
	"github.com/lianxiangcloud/linkchain/types"
)

type listKind int

const (
	listTxs listKind = iota
	listEvidence
	listPrecommits
)

var listName = [3]string{"txs", "evidence", "precommits"}
var listLine = [3]string{"tx", "ev", "pc"} // the line kind of the dump, as used in the phase-A keys

const absent = -1 // a nil precommit slot

// items are identified by small integers; the same id always denotes the same content.
func synthTx(id int) types.Tx {
	to := addrA
	to[19] = byte(id)
	return txSpec{Nonce: uint64(id), Price: big.NewInt(1e11), Gas: uint64(21000 + id), To: &to, Amount: big.NewInt(int64(id)),
		Payload: []byte{byte(id), byte(id >> 8)}, V: big.NewInt(27), R: big.NewInt(int64(id) + 1), S: big.NewInt(int64(id) + 2)}.build()
}

func synthEvidence(id int) types.Evidence {
	return &types.FaultValidatorsEvidence{BlockHeight: uint64(100 + id), Round: id, Proposer: valKeys[id%4].PubKey(), FaultVal: valKeys[(id+1)%4].PubKey()}
}

func synthVote(id int) *types.Vote {
	if id == absent {
		return nil
	}
	var sig crypto.SignatureEd25519
	for i := range sig {
		sig[i] = byte(id + i)
	}
	addr := crypto.Keccak256([]byte(fmt.Sprintf("validator-%d", id)))[:20]
	return &types.Vote{ValidatorAddress: addr, ValidatorIndex: id, ValidatorSize: 32, Height: 1, Round: 0,
		Timestamp: time.Unix(1500000000, int64(id)).UTC(), Type: types.VoteTypePrecommit, BlockID: bid("h1", 1), Signature: sig}
}

// setList installs the list (by item ids) into a fresh block.
func setList(b *types.Block, kind listKind, ids []int) {
	switch kind {
	case listTxs:
		b.Data.Txs = nil
		for _, id := range ids {
			b.Data.Txs = append(b.Data.Txs, synthTx(id))
		}
	case listEvidence:
		b.Evidence.Evidence = nil
		for _, id := range ids {
			b.Evidence.Evidence = append(b.Evidence.Evidence, synthEvidence(id))
		}
	case listPrecommits:
		b.LastCommit.Precommits = nil
		for _, id := range ids {
			b.LastCommit.Precommits = append(b.LastCommit.Precommits, synthVote(id))
		}
	}
}

// rootOfList: the commitment the real code computes for the list.
func rootOfList(kind listKind, ids []int) string {
	b := &types.Block{Header: &types.Header{}, Data: &types.Data{}, LastCommit: &types.Commit{BlockID: bid("h1", 1)}}
	setList(b, kind, ids)
	switch kind {
	case listTxs:
		return b.Data.Hash().String()
	case listEvidence:
		return b.Evidence.Hash().String()
	}
	return b.LastCommit.Hash().String()
}

type listVariant struct {
	what string
	ids  []int
}

func cpInts(a []int) []int { return append([]int{}, a...) }

// listVariants: every perturbation of the list 0..n-1 (item ids = positions); fresh marks an item not in the list.
func listVariants(kind listKind, n int) []listVariant {
	base := make([]int, n)
	for i := range base {
		base[i] = i
	}
	const fresh = 1000
	var out []listVariant
	add := func(what string, ids []int) { out = append(out, listVariant{what, ids}) }
	for p := 0; p < n; p++ {
		v := cpInts(base)
		v[p] = fresh
		add(fmt.Sprintf("replace #%d", p), v)
		if p+1 < n {
			v = cpInts(base)
			v[p], v[p+1] = v[p+1], v[p]
			add(fmt.Sprintf("swap #%d,#%d", p, p+1), v)
		}
		add(fmt.Sprintf("delete #%d", p), append(cpInts(base[:p]), base[p+1:]...))
		add(fmt.Sprintf("duplicate #%d", p), append(append(cpInts(base[:p+1]), p), base[p+1:]...))
		if p > 0 {
			add(fmt.Sprintf("move #%d to front", p), append(append([]int{p}, base[:p]...), base[p+1:]...))
		}
		if p < n-1 {
			add(fmt.Sprintf("move #%d to back", p), append(append(cpInts(base[:p]), base[p+1:]...), p))
		}
		if kind == listPrecommits {
			v = cpInts(base)
			v[p] = absent
			add(fmt.Sprintf("slot #%d absent", p), v)
		}
	}
	for p := 0; p <= n; p++ {
		add(fmt.Sprintf("insert at #%d", p), append(append(cpInts(base[:p]), fresh), base[p:]...))
	}
	if kind == listPrecommits {
		add("append absent slot", append(cpInts(base), absent))
	}
	return out
}

func idsKey(ids []int) string { return strings.Trim(fmt.Sprint(ids), "[]") }

// checkLists runs phase E for list lengths 0..maxN.
func checkLists(r *vk.Run, maxN int) (cases int, distinctRoots int) {
	tmpl := baseBlock(blockCfg{2, 0, 0})
	for kind := listTxs; kind <= listPrecommits; kind++ {
		owners := map[string]string{} // root -> list (over all lengths)
		claim := func(n int, what string, ids []int) {
			root := rootOfList(kind, ids)
			k := idsKey(ids)
			if o, ok := owners[root]; ok {
				if o != k {
					r.Violation("list-hash-collision:"+listName[kind],
						fmt.Sprintf("%s: the lists [%s] and [%s] (n=%d, %s) have the same Merkle root %s", listName[kind], o, k, n, what, root),
						map[string]interface{}{"phase": "lists", "list": listName[kind], "n": n, "variant": what})
				}
			} else {
				owners[root] = k
			}
		}
		for n := 0; n <= maxN; n++ {
			if r.Expired() {
				r.Capped(fmt.Sprintf("phase E: deadline at %s n=%d", listName[kind], n))
				return
			}
			base := make([]int, n)
			for i := range base {
				base[i] = i
			}
			claim(n, "unchanged", base)
			// block level: a height-2 block whose list under test has n items
			mk := func(ids []int, refilled bool, header *types.Header) *types.Block {
				b := clone(tmpl)
				setList(b, kind, ids)
				if header != nil {
					h := *header
					b.Header = &h
				}
				if refilled {
					refill(b)
				}
				return clone(b)
			}
			baseBlk := mk(base, true, nil)
			baseHash := baseBlk.Hash()
			basePsh := clone(baseBlk).MakePartSet(64).Header()
			for _, v := range listVariants(kind, n) {
				cases++
				claim(n, v.what, v.ids)
				same := idsKey(v.ids) == idsKey(base)
				rep := map[string]interface{}{"phase": "lists", "list": listName[kind], "n": n, "variant": v.what}
				// the perturbed list under the original header
				raw := mk(v.ids, false, baseBlk.Header)
				var err error
				if panicked, val := vk.Catch(func() { err = raw.ValidateBasic() }); panicked {
					r.Violation("validatebasic-panic:"+listLine[kind], fmt.Sprintf("%s n=%d, %s: ValidateBasic panics: %v", listName[kind], n, v.what, val), rep)
				} else if err == nil && !same {
					r.Violation("validatebasic-accepts-perturbed-body:"+listLine[kind],
						fmt.Sprintf("%s n=%d, %s: the list [%s] under the header made for [%s] passes ValidateBasic", listName[kind], n, v.what, idsKey(v.ids), idsKey(base)), rep)
				}
				// ... and with the dependent header fields recomputed
				ref := mk(v.ids, true, nil)
				if !same && ref.Hash() == baseHash {
					r.Violation("block-hash-collision:"+listLine[kind],
						fmt.Sprintf("%s n=%d, %s: the blocks with lists [%s] and [%s] (headers recomputed) have the same Block.Hash() %s", listName[kind], n, v.what, idsKey(v.ids), idsKey(base), baseHash.String()), rep)
				}
				if !same && clone(ref).MakePartSet(64).Header().Equals(basePsh) {
					r.Violation("part-set-hash-collision:"+listLine[kind],
						fmt.Sprintf("%s n=%d, %s: the blocks with lists [%s] and [%s] have the same part-set header", listName[kind], n, v.what, idsKey(v.ids), idsKey(base)), rep)
				}
			}
		}
		distinctRoots += len(owners)
	}
	return
}
