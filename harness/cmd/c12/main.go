// C12 — Block identity commits to its content; part sets reassemble only the original.
//
// Bounded exhaustive enumeration on the real types.Block / types.PartSet / merkle code:
//
//	(reading decided by the lead: Block.Hash() alone, each intermediate commitment, ValidateBasic under the original
//	header, and separately the part-set header must each react to a content change - see the assumptions)
//	A. for every base block of a small family (heights 1-3, 0-3 account transactions, optionally a fourth,
//	   confidential one, 0-2 evidence items) and every single perturbation (thorough: every pair) of a
//	   header field, a transaction (content, order, duplication), an evidence item or the LastCommit, the
//	   pair (Block.Hash(), MakePartSet(sz).Header()) differs from that of every block with other content, and
//	   the bytes a validator signs for that pair (Vote.SignBytes) differ as well;
//	B. explicit-state search (engine opx) over all delivery sequences of genuine, duplicated and forged
//	   parts into a PartSet made from the signed header, against a set-of-indices reference model; the
//	   completed set reads back and decodes to the proposer's block on both reassembly paths;
//	C. merkle.SimpleProof.Verify for every (index,total) up to a bound and every single-aunt tamper;
//	F. proposer-chosen (non-uniform) chunkings of the block bytes, incl. empty parts (chunkings.go);
//	E. the three hashed lists for every length 0..12 (17) and every position (lists.go);
//	D. the same reassembly inside a real ConsensusState (synchronous driver): pre-states that know more or less
//	   of a block A x triggers that make another block B the one to fetch x BFS over all deliveries of B's parts
//	   with duplicates, parts of A and forgeries: the held block is the part set's block, with no stale cached
//	   identity, and the node commits exactly B (consensus.go).
package main

import (
	"fmt"
	"os"
	"sort"
	"strings"
	"sync"
	"sync/atomic"
	"time"

	"verif/vk"

	"github.com/lianxiangcloud/linkchain/libs/log"
	"github.com/lianxiangcloud/linkchain/libs/ser"
	"github.com/lianxiangcloud/linkchain/types"
)

func allCfgs() []blockCfg {
	var out []blockCfg
	for h := 1; h <= 3; h++ {
		for ntx := 0; ntx <= 3; ntx++ {
			for nev := 0; nev <= 2; nev++ {
				out = append(out, blockCfg{h, ntx, nev})
			}
		}
	}
	// plus, per height, one block whose fourth transaction is confidential (account -> UTXO)
	for h := 1; h <= 3; h++ {
		out = append(out, blockCfg{h, 4, h - 1})
	}
	return out
}

func otherCfg(c blockCfg) blockCfg {
	o := c
	o.NTx = (c.NTx + 1) % 4
	return o
}

func encLen(c blockCfg) int {
	bz, err := ser.EncodeToBytes(baseBlock(c))
	if err != nil {
		vk.Fatalf("encode %v: %v", c, err)
	}
	return len(bz)
}

func ceilDiv(a, b int) int { return (a + b - 1) / b }

// sizesFor returns the part sizes that split the block of c into 1..maxParts parts, plus the boundary
// sizes len-1, len, len+1 and the production default.
func sizesFor(c blockCfg, maxParts int) []int {
	n := encLen(c)
	set := map[int]bool{n - 1: true, n: true, n + 1: true, types.DefaultBlockGossip().BlockPartSizeBytes: true}
	for k := 2; k <= maxParts; k++ {
		set[ceilDiv(n, k)] = true
	}
	var out []int
	for s := range set {
		if s > 0 && ceilDiv(n, s) <= maxParts {
			out = append(out, s)
		}
	}
	sort.Sort(sort.Reverse(sort.IntSlice(out)))
	return out
}

type replayCase struct {
	Phase         string   `json:"phase"`
	Block         blockCfg `json:"block"`
	Perturbations []string `json:"perturbations"`
	Refill        bool     `json:"refill"`
	PartSizes     []int    `json:"part_sizes"`
	PartSize      int      `json:"part_size"`
	Total         int      `json:"total"`
	N             int      `json:"n"`
	Search        string   `json:"search"`
	OpIDs         []int    `json:"op_ids"`
	Ops           []string `json:"ops"`
}

// replay re-runs one recorded case of phase A or of a phase-B search and prints what it observes.
func replay(r *vk.Run) {
	var rc replayCase
	r.LoadReplay(&rc)
	switch {
	case rc.Phase == "identity":
		base := baseBlock(rc.Block)
		ps := perturbations(rc.Block, base)
		v := variant{refill: rc.Refill}
		for _, n := range rc.Perturbations {
			found := false
			for i := range ps {
				if ps[i].name == n {
					v.perts = append(v.perts, i)
					found = true
				}
			}
			if !found {
				vk.Fatalf("replay: unknown perturbation %q", n)
			}
		}
		res := evalVariant(base, ps, v, rc.PartSizes)
		b0 := evalVariant(base, ps, variant{}, rc.PartSizes)
		show := func(name string, x varResult) {
			fmt.Printf("%-8s Block.Hash=%s parts=%v data-hash=%s evidence-hash=%s commit-hash=%s ValidateBasic-rejects=%v\n", name, x.ident.hash.String(), x.ident.parts,
				x.commit[0].String(), x.commit[1].String(), x.commit[2].String(), x.vbRejected)
		}
		show("base", b0)
		show("variant", res)
		fmt.Printf("applied=%v panic=%q content-changed=%v\n", res.ok, res.panic, res.dump != b0.dump)
		if !res.ok || res.dump == b0.dump {
			break
		}
		// the recorded variant against the base block (collisions between two variants are named in the replay file)
		mine, theirs := dumpOfVariant(base, ps, v), dump(base)
		for k := range rc.PartSizes {
			if res.ident.parts[k].Equals(b0.ident.parts[k]) {
				r.Violation("part-set-hash-collision:"+diffSignature(mine, theirs), "replayed: part-set header unchanged by "+variantName(ps, v), rc)
			}
		}
		// the strong clauses are about the content without the partSetOnly components
		mine, theirs = strongDump(mine), strongDump(theirs)
		if res.strong == b0.strong {
			fmt.Println("the variant differs from the base block only in components covered by the part-set hash alone:", partSetOnly)
			break
		}
		bodySame := res.sec[secTxs] == b0.sec[secTxs] && res.sec[secEv] == b0.sec[secEv] && res.sec[secCommit] == b0.sec[secCommit]
		if (v.refill || bodySame) && !res.nilCommit && res.ident.hash == b0.ident.hash {
			r.Violation("block-hash-collision:"+coarseSignature(mine, theirs), "replayed: Block.Hash() unchanged by "+variantName(ps, v), rc)
		}
		for q := 0; q < 3; q++ {
			if !(q == 2 && res.nilCommit) && res.commit[q] == b0.commit[q] && res.sec[q+1] != b0.sec[q+1] {
				r.Violation(commitName[q]+"-collision:"+coarseSignature(sectionOf(mine, q+1), sectionOf(theirs, q+1)), "replayed: "+commitName[q]+" unchanged by "+variantName(ps, v), rc)
			}
		}
		headerTouched := false
		for _, pi := range v.perts {
			headerTouched = headerTouched || !ps[pi].body
		}
		if !v.refill && !headerTouched && !bodySame && !res.nilCommit && !res.vbRejected {
			r.Violation("validatebasic-accepts-perturbed-body", "replayed: ValidateBasic accepts "+variantName(ps, v), rc)
		}
	case rc.Search != "" && replayConsensus(r, rc.Search, rc.OpIDs, rc):
		// phase D history, done
	case rc.Search != "":
		var c blockCfg
		var size int
		if _, err := fmt.Sscanf(rc.Search, "h%d/tx%d/ev%d/partsize%d", &c.H, &c.NTx, &c.NEv, &size); err != nil {
			vk.Fatalf("replay: cannot parse search name %q: %v", rc.Search, err)
		}
		pc := newPartCase(c, size, otherCfg(c), true)
		set, m := pc.fresh()
		for i, oi := range rc.OpIDs {
			if oi >= len(pc.ops) || (i < len(rc.Ops) && pc.ops[oi].name != rc.Ops[i]) {
				vk.Fatalf("replay: op %d does not match the recorded alphabet", oi)
			}
			k, w, _ := pc.step(set, m, pc.ops[oi])
			fmt.Printf("%-40s -> model %s count %d %s %s\n", pc.ops[oi].name, m.key(), set.Count(), k, w)
			if k != "" {
				r.Violation(k, w, rc)
			}
		}
		if set.IsComplete() {
			if k, w := pc.reassemble(set); k != "" {
				r.Violation(k, w, rc)
			}
		}
	case rc.Phase == "header-shape":
		// re-runs the header shapes of the recorded block and part size
		wrongTotals(r, newPartCase(rc.Block, rc.PartSize, otherCfg(rc.Block), false))
	case rc.Phase == "parts-linear" || rc.Phase == "parts-forgeries":
		// re-runs the fixed schedules and the forgery sweep of the recorded block and part size
		pc := newPartCase(rc.Block, rc.PartSize, otherCfg(rc.Block), true)
		pc.light = true
		n := len(pc.genuine)
		pc.linear(r)
		pc.forgeriesAgainst(r, []int{0, 1, n / 2, n - 2, n - 1})
	case rc.Phase == "chunkings":
		// re-runs every chunking of the recorded block
		checkChunkings(r, []blockCfg{rc.Block})
	case rc.Phase == "lists":
		// re-runs the list-commitment enumeration up to the recorded length
		checkLists(r, rc.N)
	case rc.Phase == "merkle":
		// re-runs every case of the recorded tree size
		checkMerkle(r, rc.Total, rc.Total)
	default:
		vk.Fatalf("replay: unknown phase %q", rc.Phase)
	}
	r.Finish()
}

func main() {
	log.Root().SetHandler(log.DiscardHandler())
	r := vk.Start("C12", "model_checking")
	initFixture()
	if r.ReplayPath != "" {
		replay(r)
		return
	}
	cfgs := allCfgs()
	t0 := time.Now()
	lap := func(what string) {
		fmt.Fprintf(os.Stderr, "c12: %-28s %6.1fs\n", what, time.Since(t0).Seconds())
		t0 = time.Now()
	}

	// developer aid: C12_PHASES=D runs only the named phases (the run is then marked as not exhaustive)
	phases := os.Getenv("C12_PHASES")
	on := func(p string) bool { return phases == "" || strings.Contains(phases, p) }
	if phases != "" {
		r.Capped("developer run restricted to phases " + phases)
		cfgs = cfgs[:1]
	}

	// ---------------- phase A, single perturbations ----------------
	st := &identStats{partition: map[string]map[string]int{}}
	var mu sync.Mutex
	doneA, pairBlocks := 0, 0
	sizesOf := func(c blockCfg) []int {
		sizes := []int{types.DefaultBlockGossip().BlockPartSizeBytes, 64}
		if !r.Quick() {
			sizes = append(sizes, 7, encLen(c)/2)
		}
		return sizes
	}
	for _, c := range cfgs {
		if r.Expired() {
			break
		}
		checkIdentity(r, c, sizesOf(c), false, st, &mu)
		if !r.Expired() {
			doneA++
		}
	}
	if doneA < len(cfgs) {
		r.Capped(fmt.Sprintf("phase A: deadline after the single perturbations of %d of %d base blocks", doneA, len(cfgs)))
	}

	lap("phase A (singles)")

	// ---------------- phase B ----------------
	type searchPlan struct {
		cfgs       []blockCfg
		maxParts   int
		depthExtra int
	}
	var plans []searchPlan
	if r.Quick() {
		plans = []searchPlan{{cfgs, 4, 1}, {[]blockCfg{{1, 0, 0}, {2, 1, 1}, {3, 3, 2}}, 6, 1}}
	} else {
		plans = []searchPlan{{cfgs, 8, 2}}
	}
	if !on("B") {
		plans = nil
	}
	states, trans, searches, merges := 0, 0, 0, 0
	var per []interface{}
	alphabetMax, maxParts := 0, 0
	shapeCases := 0
	done := map[string]bool{}
	for _, pl := range plans {
		if pl.maxParts > maxParts {
			maxParts = pl.maxParts
		}
		for _, c := range pl.cfgs {
			for _, size := range sizesFor(c, pl.maxParts) {
				if r.Expired() {
					break
				}
				if done[fmt.Sprintf("%v/%d", c, size)] {
					continue
				}
				done[fmt.Sprintf("%v/%d", c, size)] = true
				pc := newPartCase(c, size, otherCfg(c), true)
				res := pc.search(r, pl.depthExtra)
				shapeCases += wrongTotals(r, pc)
				states += res.States
				trans += res.Transitions
				merges += res.MergeChecks
				searches++
				if len(pc.ops) > alphabetMax {
					alphabetMax = len(pc.ops)
				}
				if len(pc.genuine) >= 4 && len(per) < 24 {
					per = append(per, map[string]interface{}{"search": pc.name, "parts": len(pc.genuine), "alphabet": len(pc.ops), "states": res.States,
						"transitions": res.Transitions, "depth_completed": res.DepthCompleted, "per_depth": res.PerDepth})
				}
				if want := 1 << uint(len(pc.genuine)); res.States != want && !res.Capped && r.NViolations() == 0 {
					vk.Fatalf("%s: %d states reached, the subset lattice has %d", pc.name, res.States, want)
				}
			}
		}
	}
	r.Set("searches", per)
	r.Set("part_set_searches", searches)
	r.Set("part_set_max_parts_all_orders", maxParts)
	r.Set("part_set_alphabet_max", alphabetMax)
	r.Set("merge_checks", merges)
	r.Set("header_shape_cases", shapeCases)
	r.Set("observation_NewPartSetFromHeader_total_minus_1", negativeTotal())

	lap("phase B (searches)")

	// large sets (part size 7, thorough also 1): fixed schedules + every forgery against fixed states
	type big struct {
		c    blockCfg
		size int
	}
	var bigs []big
	if r.Quick() {
		bigs = []big{{blockCfg{1, 0, 0}, 7}, {blockCfg{3, 3, 2}, 7}}
	} else {
		for _, c := range cfgs {
			bigs = append(bigs, big{c, 7})
		}
		bigs = append(bigs, big{blockCfg{1, 0, 0}, 1}, big{blockCfg{2, 1, 1}, 1}, big{blockCfg{3, 3, 2}, 1})
	}
	if !on("B") {
		bigs = nil
	}
	var deliveries int64
	var bigParts int64
	var bigDone int64
	vk.ParallelFor(len(bigs), func(i int) {
		if r.Expired() {
			return
		}
		pc := newPartCase(bigs[i].c, bigs[i].size, otherCfg(bigs[i].c), true)
		pc.light = true
		n := len(pc.genuine)
		d := pc.linear(r)
		d += pc.forgeriesAgainst(r, []int{0, 1, n / 2, n - 2, n - 1})
		atomic.AddInt64(&deliveries, int64(d))
		atomic.AddInt64(&bigParts, int64(n))
		atomic.AddInt64(&bigDone, 1)
	})
	if int(bigDone) < len(bigs) {
		r.Capped(fmt.Sprintf("phase B large sets: deadline after %d of %d sets", bigDone, len(bigs)))
	}
	r.Set("large_part_sets", int(bigDone))
	r.Set("large_part_sets_total_parts", int(bigParts))
	r.Set("large_part_set_deliveries", int(deliveries))
	hist := map[string]int64{}
	outcomes.Range(func(k, v interface{}) bool {
		hist[k.(string)] = atomic.LoadInt64(v.(*int64))
		return true
	})
	r.Set("addpart_outcomes_by_fault_class", hist)

	lap("phase B (large sets)")

	// ---------------- phase C ----------------
	mcases, maccepts, cross := checkMerkle(r, 1, r.Pick(9, 16))
	r.Set("merkle_max_total", r.Pick(9, 16))
	r.Set("merkle_cases", mcases)
	r.Set("merkle_accepting_cases", maccepts)
	r.Set("merkle_proofs_also_valid_under_another_total", cross)

	lap("phase C (merkle)")

	// ---------------- phase D: reassembly inside the consensus state machine ----------------
	dHeights := []uint64{1}
	if !r.Quick() {
		dHeights = []uint64{1, 2}
	}
	dStates, dTrans, dSearches, dOutcomes := checkConsensusReassembly(r, dHeights)
	states += dStates
	trans += dTrans
	r.Set("consensus_reassembly_searches", dSearches)
	r.Set("consensus_reassembly_states", dStates)
	r.Set("consensus_reassembly_transitions", dTrans)
	r.Set("consensus_reassembly_heights", dHeights)
	r.Set("consensus_reassembly_outcomes", dOutcomes)
	lap("phase D (state machine)")

	// ---------------- phase F: proposer-chosen (non-uniform) chunkings ----------------
	fCfgs := []blockCfg{{1, 0, 0}, {2, 1, 1}, {3, 3, 2}}
	if !r.Quick() {
		fCfgs = cfgs
	}
	fSets, fDeliveries, fRefused := checkChunkings(r, fCfgs)
	r.Set("chunking_sets", fSets)
	r.Set("chunking_deliveries", fDeliveries)
	r.Set("chunking_refusals", fRefused)
	lap("phase F (chunkings)")

	// ---------------- phase E: list commitments for every list length ----------------
	eCases, eRoots := checkLists(r, r.Pick(12, 17))
	r.Set("list_commitment_max_length", r.Pick(12, 17))
	r.Set("list_commitment_cases", eCases)
	r.Set("list_commitment_distinct_roots", eRoots)
	lap("phase E (list commitments)")

	// ---------------- phase A, all pairs of perturbations (last: the most expensive part) ----------------
	pairCfgs := []blockCfg{{2, 2, 1}}
	if !r.Quick() {
		pairCfgs = cfgs
	}
	if !on("A") {
		pairCfgs = nil
	}
	for _, c := range pairCfgs {
		if r.Expired() {
			break
		}
		checkIdentity(r, c, sizesOf(c)[:r.Pick(1, 2)], true, st, &mu)
		if !r.Expired() {
			pairBlocks++
		}
	}
	if pairBlocks < len(pairCfgs) {
		r.Capped(fmt.Sprintf("phase A: deadline after all pairs of perturbations of %d of %d base blocks (all single perturbations were covered)", pairBlocks, len(pairCfgs)))
	}
	var partsOnly, hashMoves []string
	rawBody := 0
	for cl, m := range st.partition {
		if m["neither"] > 0 {
			continue // reported as a violation
		}
		if len(cl) > 4 && cl[:4] == "raw/" {
			rawBody += m["parts-only"] + m["hash+parts"]
			continue
		}
		if m["parts-only"] > 0 {
			partsOnly = append(partsOnly, fmt.Sprintf("%s (%d of %d variants)", cl, m["parts-only"], m["parts-only"]+m["hash+parts"]+m["hash-only"]))
		}
		if m["hash+parts"]+m["hash-only"] > 0 {
			hashMoves = append(hashMoves, cl)
		}
	}
	sort.Strings(partsOnly)
	sort.Strings(hashMoves)
	r.Set("identity_base_blocks", doneA)
	r.Set("identity_variants", st.variants)
	r.Set("identity_variants_not_applicable", st.notApplicable)
	r.Set("identity_variants_with_unchanged_content", st.sameContent)
	r.Set("identity_distinct_ids", st.distinctIDs)
	r.Set("identity_base_blocks_with_all_pairs", pairBlocks)
	r.Set("identity_classes", len(st.partition))
	r.Set("identity_ids_cross_checked_over_all_base_blocks", len(globalIDs))
	r.Set("vote_signbytes_computed", signedIDs)
	r.Set("vote_signbytes_distinct", signedBytes)
	r.Set("vote_signbytes_distinct_ids", len(signedKeys))
	// coverage information, not an oracle: perturbation classes that move ONLY the part-set hash (the block
	// hash stays), for header fields and for body changes with the dependent header fields recomputed
	r.Set("only_partset_hash_changes", partsOnly)
	r.Set("observation_covered_by_the_part_set_hash_only", partSetOnly)
	r.Set("block_hash_changes", hashMoves)
	r.Set("raw_body_variants_partset_hash_only_by_construction", rawBody)

	lap("phase A (pairs)")

	r.Set("states", states)
	r.Set("transitions", trans)
	r.Set("traces_validated_against_impl", trans+int(deliveries))
	r.Set("evaluations", st.variants+trans+int(deliveries)+mcases+shapeCases+eCases+fDeliveries)
	r.Set("distinct_nontrivial", st.distinctIDs+states)
	r.Set("rule", "A: every variant block is built fresh; Block.Hash(), the part-set header, Data/Evidence/Commit hashes and ValidateBasic are computed by the real code and compared with a codec-independent dump of its content (non-trivial = distinct id); "+
		"E: every list length 0..N x position x perturbation kind, roots by the real Txs.Hash/EvidenceList.Hash/Commit.Hash, injectivity over all lengths, plus the block-level clauses; "+
		"B: BFS over delivery sequences into a real PartSet, state = set of received indices, every AddPart result and the observable set state compared with the reference (non-trivial = distinct state), completed sets read back and decoded on the consensus and block-store paths; "+
		"C: every (index,total,leaf,aunts) case evaluated by the real SimpleProof.Verify; "+
		"D: BFS over part deliveries into a real ConsensusState after a scripted pre-state and trigger, state = driver digest + received parts of B, the held ProposalBlock compared with a fresh decode of the completed part set (hash, cached sub-hashes, re-encoding, content) and the committed block with B")
	r.Assume("phase D: 4 validators of equal power, the node under test is not the proposer of the rounds used; candidate blocks A (2 txs) and B (3 txs, 3 parts) are valid proposals of the same height that differ in header, transactions and (height 2) LastCommit; application = csnet.TrivApp; timeouts fire only where the script says; recover mode is not entered")
	r.Assume("block content = every exported, serialized field of Header (incl. Recover), Data.Txs, Evidence and LastCommit; Header.bloom is excluded: it is neither hashed nor transmitted (it is rebuilt from the receipts)")
	r.Assume("reading of 'changing any of them changes the block hash or the part-set hash' (lead's decision): every perturbation must move the commitment the code DESIGNATES for it - header fields covered by Header.Hash() -> Block.Hash(); transaction list -> Data.Hash()/DataHash -> Block.Hash(); evidence list -> EvidenceHash -> Block.Hash(); precommit list -> Commit.Hash()/LastCommitHash -> Block.Hash(); a body perturbed under the original header must fail ValidateBasic; the part-set header must differ as well (separate, weaker clause). The two components the header hash does not cover by design, Header.Recover and Commit.BlockID (a redundant copy of LastBlockID that VerifyCommit ignores), are excluded by name from the strong clauses and judged under the statement's own alternative (the part-set header must change); they are listed under observation_covered_by_the_part_set_hash_only. A collision between a header-only perturbed (ValidateBasic-failing) block and a recomputed one is not judged; a block whose LastCommit was removed is left out of the Block.Hash clause (Hash() is the empty hash by design)")
	r.Assume("keccak-256 behaves as collision resistant on the enumerated inputs; transaction kinds: Transaction, TokenTransaction and one confidential UTXOTransaction (account input -> 2 UTXO outputs + 1 account output, built by types.NewAinTransaction on the crypto stand-in; only its encoding and hash are exercised, not its proofs); UTXO-input transactions (ring signatures, key images), ContractUpgradeTx and MultiSignAccountTx are outside the bound")
	r.Assume("content of the confidential transaction = every exported field of its object graph except MgSig.II, Bulletproof.V, RctSigBase.Message, RctSigBase.MixRing (derived at the receiver, tagged as not serialized and not hashed)")
	r.Assume("parts reach AddPart as fresh objects decoded from the repository's wire encoding (no cached Part.hash), as in the consensus reactor; a forged part that is byte-identical to the proposer's part for its index counts as genuine")
	r.Assume("rejection of a part means added=false and an unchanged set; which error value is returned is not part of the property")
	r.Assume("the total of a part set comes from the signed header: proofs that also verify under another total are counted (merkle_proofs_also_valid_under_another_total), not judged")
	r.Finish()
}
