package main

// One confidential transaction (account input -> two UTXO outputs + one account output), built once with
// the repository's own constructor on the crypto stand-in, so that the transaction list of the largest base
// blocks also holds a types.UTXOTransaction. Its content is read and perturbed generically: every exported
// leaf field of the object graph (except the four derived fields that are documented as "not on the wire")
// is one line of the reference dump and one perturbation.

import (
	"fmt"
	"math/big"
	"reflect"
	"regexp"
	"strings"

	"verif/vk"

	"github.com/lianxiangcloud/linkchain/libs/common"
	lktypes "github.com/lianxiangcloud/linkchain/libs/cryptonote/types"
	"github.com/lianxiangcloud/linkchain/libs/cryptonote/xcrypto"
	"github.com/lianxiangcloud/linkchain/libs/ser"
	"github.com/lianxiangcloud/linkchain/types"
)

// derived fields, rebuilt by the receiver (checkRctSigData / expandTransactionRctSig), neither hashed nor sent
var notContent = map[string]bool{"MgSig.II": true, "Bulletproof.V": true, "RctSigBase.Message": true, "RctSigBase.MixRing": true}

var utxoMaster []byte // wire bytes of the transaction; every use decodes a fresh object from them

func initUTXO() {
	xcrypto.VerifSetSeed(12)
	addr := func() lktypes.AccountAddress {
		_, v := xcrypto.SkpkGen()
		_, s := xcrypto.SkpkGen()
		return lktypes.AccountAddress{ViewPublicKey: lktypes.PublicKey(v), SpendPublicKey: lktypes.PublicKey(s)}
	}
	unit := big.NewInt(1e10) // UTXO amounts are multiples of the commitment change rate
	amt := func(n int64) *big.Int { return new(big.Int).Mul(big.NewInt(n), unit) }
	from := common.HexToAddress("0x4444444444444444444444444444444444444444")
	dests := []types.DestEntry{
		&types.UTXODestEntry{Addr: addr(), Amount: amt(300)},
		&types.UTXODestEntry{Addr: addr(), Amount: amt(200), Remark: [32]byte{1, 2, 3}},
		&types.AccountDestEntry{To: addrB, Amount: amt(100), Data: []byte{0xaa}},
	}
	tx, _, err := types.NewAinTransaction(&types.AccountSourceEntry{From: from, Nonce: 3, Amount: amt(650)}, dests, common.EmptyAddress, []byte("extra"))
	if err != nil {
		vk.Fatalf("fixture: NewAinTransaction: %v", err)
	}
	if err := tx.Sign(types.GlobalSTDSigner, txKeys[1]); err != nil {
		vk.Fatalf("fixture: sign utxo tx: %v", err)
	}
	utxoMaster, err = ser.EncodeToBytes(tx)
	if err != nil {
		vk.Fatalf("fixture: encode utxo tx: %v", err)
	}
	a, b := freshUTXO(), freshUTXO()
	if dumpValue(reflect.ValueOf(a)) != dumpValue(reflect.ValueOf(b)) || len(utxoLeaves(a)) < 30 {
		vk.Fatalf("fixture: utxo transaction does not decode deterministically (%d leaves)", len(utxoLeaves(a)))
	}
}

func freshUTXO() *types.UTXOTransaction {
	tx := new(types.UTXOTransaction)
	if err := ser.DecodeBytes(utxoMaster, tx); err != nil {
		vk.Fatalf("fixture: decode utxo tx: %v", err)
	}
	return tx
}

// ---- generic walk over the exported content ------------------------------------------------------

type leafRef struct {
	path string
	v    reflect.Value // addressable
}

type sliceRef struct {
	path string
	v    reflect.Value // addressable slice of non-byte elements
}

var bigIntPtr = reflect.TypeOf((*big.Int)(nil))

func isByteSeq(t reflect.Type) bool {
	return (t.Kind() == reflect.Slice || t.Kind() == reflect.Array) && t.Elem().Kind() == reflect.Uint8
}

func walk(v reflect.Value, path string, leaves *[]leafRef, slices *[]sliceRef) {
	t := v.Type()
	switch {
	case t == bigIntPtr:
		*leaves = append(*leaves, leafRef{path, v})
	case isByteSeq(t):
		*leaves = append(*leaves, leafRef{path, v})
	case t.Kind() == reflect.Ptr:
		if !v.IsNil() {
			walk(v.Elem(), path, leaves, slices)
		}
	case t.Kind() == reflect.Interface:
		if !v.IsNil() {
			e := v.Elem()
			if e.Kind() != reflect.Ptr {
				vk.Fatalf("walk: interface at %s holds a non-pointer %s", path, e.Type())
			}
			walk(e, path+"("+e.Type().Elem().Name()+")", leaves, slices)
		}
	case t.Kind() == reflect.Struct:
		for i := 0; i < t.NumField(); i++ {
			f := t.Field(i)
			if f.PkgPath != "" || notContent[t.Name()+"."+f.Name] {
				continue
			}
			walk(v.Field(i), path+"."+f.Name, leaves, slices)
		}
	case t.Kind() == reflect.Slice || t.Kind() == reflect.Array:
		if t.Kind() == reflect.Slice && slices != nil {
			*slices = append(*slices, sliceRef{path, v})
		}
		for i := 0; i < v.Len(); i++ {
			walk(v.Index(i), fmt.Sprintf("%s[%d]", path, i), leaves, slices)
		}
	default:
		switch t.Kind() {
		case reflect.Bool, reflect.String, reflect.Int, reflect.Int8, reflect.Int16, reflect.Int32, reflect.Int64,
			reflect.Uint, reflect.Uint8, reflect.Uint16, reflect.Uint32, reflect.Uint64:
			*leaves = append(*leaves, leafRef{path, v})
		default:
			vk.Fatalf("walk: unsupported kind %s at %s", t.Kind(), path)
		}
	}
}

func utxoLeaves(tx *types.UTXOTransaction) []leafRef {
	var l []leafRef
	walk(reflect.ValueOf(tx), "utx", &l, nil)
	return l
}

func leafString(v reflect.Value) string {
	switch {
	case v.Type() == bigIntPtr:
		if v.IsNil() {
			return "nil"
		}
		return v.Interface().(*big.Int).String()
	case isByteSeq(v.Type()):
		b := make([]byte, v.Len())
		for i := range b {
			b[i] = byte(v.Index(i).Uint())
		}
		return fmt.Sprintf("%x", b)
	}
	return fmt.Sprint(v.Interface())
}

// dumpValue: "path=value" for every content leaf, one per token (the slice lengths are implied by the paths).
func dumpValue(v reflect.Value) string {
	var l []leafRef
	var s []sliceRef
	walk(v, "utx", &l, &s)
	var out []string
	for _, x := range s {
		out = append(out, fmt.Sprintf("%s.len=%d", x.path, x.v.Len()))
	}
	for _, x := range l {
		out = append(out, x.path+"="+leafString(x.v))
	}
	return strings.Join(out, " ")
}

var indexRe = regexp.MustCompile(`\[\d+\]`)

// leafClass: the path without indices ("utx.RCTSig.P.Bulletproofs.L").
func leafClass(path string) string { return indexRe.ReplaceAllString(path, "") }

func perturbLeaf(v reflect.Value) bool {
	t := v.Type()
	switch {
	case t == bigIntPtr:
		if v.IsNil() {
			v.Set(reflect.ValueOf(big.NewInt(1)))
		} else {
			v.Set(reflect.ValueOf(new(big.Int).Add(v.Interface().(*big.Int), big.NewInt(1))))
		}
	case t.Kind() == reflect.Array: // byte array
		v.Index(0).SetUint(v.Index(0).Uint() ^ 1)
	case t.Kind() == reflect.Slice: // byte slice: a changed copy, never in place
		n := reflect.MakeSlice(t, v.Len()+1, v.Len()+1)
		reflect.Copy(n, v)
		v.Set(n)
	case t.Kind() == reflect.Bool:
		v.SetBool(!v.Bool())
	case t.Kind() == reflect.String:
		v.SetString(v.String() + "x")
	case t.Kind() >= reflect.Int && t.Kind() <= reflect.Int64:
		v.SetInt(v.Int() + 1)
	case t.Kind() >= reflect.Uint && t.Kind() <= reflect.Uint64:
		v.SetUint(v.Uint() + 1)
	default:
		return false
	}
	return true
}

// utxoVariants: the perturbations of the confidential transaction at position i of the block.
func utxoVariants(l *pertList, i int) {
	at := func(b *types.Block) *types.UTXOTransaction {
		if b.Data == nil || i >= len(b.Data.Txs) {
			return nil
		}
		if _, ok := b.Data.Txs[i].(*types.UTXOTransaction); !ok {
			return nil
		}
		return freshUTXO() // transactions are shared between clones: always edit a fresh object
	}
	proto := freshUTXO()
	for li, lf := range utxoLeaves(proto) {
		li, path := li, lf.path
		l.add("txs", leafClass(path), fmt.Sprintf("tx[%d].%s:perturbed", i, path), true, func(b *types.Block) bool {
			tx := at(b)
			if tx == nil {
				return false
			}
			lv := utxoLeaves(tx)
			if li >= len(lv) || lv[li].path != path || !perturbLeaf(lv[li].v) {
				vk.Fatalf("utxo leaf %s not found again", path)
			}
			b.Data.Txs[i] = tx
			return true
		})
	}
	var ls []leafRef
	var ss []sliceRef
	walk(reflect.ValueOf(proto), "utx", &ls, &ss)
	for si, s := range ss {
		si, path, n := si, s.path, s.v.Len()
		edit := func(kind string, need int, f func(v reflect.Value)) {
			if n < need {
				return
			}
			l.add("txs", leafClass(path)+".slice", fmt.Sprintf("tx[%d].%s:%s", i, path, kind), true, func(b *types.Block) bool {
				tx := at(b)
				if tx == nil {
					return false
				}
				var l2 []leafRef
				var s2 []sliceRef
				walk(reflect.ValueOf(tx), "utx", &l2, &s2)
				if si >= len(s2) || s2[si].path != path {
					vk.Fatalf("utxo slice %s not found again", path)
				}
				f(s2[si].v)
				b.Data.Txs[i] = tx
				return true
			})
		}
		edit("swap-first-two", 2, func(v reflect.Value) {
			a, b := reflect.New(v.Type().Elem()).Elem(), reflect.New(v.Type().Elem()).Elem()
			a.Set(v.Index(0))
			b.Set(v.Index(1))
			v.Index(0).Set(b)
			v.Index(1).Set(a)
		})
		edit("drop-last", 1, func(v reflect.Value) { v.Set(v.Slice(0, v.Len()-1)) })
		edit("duplicate-last", 1, func(v reflect.Value) { v.Set(reflect.Append(v, v.Index(v.Len()-1))) })
	}
}
