package main

// Worker-side execution of units of work: round trips of generated values, map-order enumeration, and hostile
// byte strings into every decoder entry point, with panic capture and allocation accounting.

import (
	"bytes"
	"encoding/binary"
	"encoding/hex"
	"fmt"
	"hash/crc32"
	"hash/fnv"
	"io"
	"reflect"
	"regexp"
	"runtime"
	"runtime/debug"
	"sort"
	"strings"
	"time"

	"github.com/lianxiangcloud/linkchain/blockchain"
	"github.com/lianxiangcloud/linkchain/consensus"
	"github.com/lianxiangcloud/linkchain/evidence"
	"github.com/lianxiangcloud/linkchain/libs/ser"
	"github.com/lianxiangcloud/linkchain/mempool"
)

const readerLimit = 1 << 20 // the limit the repo's own DecodeReader* callers pass (p2p: 1024*1024)

// allocation bound per decode: constBytes + perByte*len(input) (+ 2*readerLimit for the reader entry points, whose
// documented contract is "value sizes are checked against the limit", not against the bytes actually present)
const (
	allocConst   = 1 << 20
	allocPerByte = 2048
)

type plainReader struct {
	b []byte
	p int
}

func (r *plainReader) Read(p []byte) (int, error) {
	if r.p >= len(r.b) {
		return 0, io.EOF
	}
	n := copy(p, r.b[r.p:])
	r.p += n
	return n, nil
}

type decodeFn func(in []byte) (reflect.Value, error)

var crc32c = crc32.MakeTable(crc32.Castagnoli)

func walFrame(in []byte) []byte {
	msg := make([]byte, 8+len(in))
	binary.BigEndian.PutUint32(msg[0:4], crc32.Checksum(in, crc32c))
	binary.BigEndian.PutUint32(msg[4:8], uint32(len(in)))
	copy(msg[8:], in)
	return msg
}

func makeEntry(t reflect.Type, name string) decodeFn {
	fromIface := func(msg interface{}, err error) (reflect.Value, error) {
		p := reflect.New(t)
		if msg != nil {
			p.Elem().Set(reflect.ValueOf(msg))
		}
		return p, err
	}
	switch name {
	case epBytes:
		return func(in []byte) (reflect.Value, error) {
			p := reflect.New(t)
			return p, ser.DecodeBytes(in, p.Interface())
		}
	case epBytesT:
		return func(in []byte) (reflect.Value, error) {
			p := reflect.New(t)
			return p, ser.DecodeBytesWithType(in, p.Interface())
		}
	case epReader:
		return func(in []byte) (reflect.Value, error) {
			p := reflect.New(t)
			_, err := ser.DecodeReader(&plainReader{b: in}, p.Interface(), readerLimit)
			return p, err
		}
	case epReaderT:
		return func(in []byte) (reflect.Value, error) {
			p := reflect.New(t)
			_, err := ser.DecodeReaderWithType(&plainReader{b: in}, p.Interface(), readerLimit)
			return p, err
		}
	case epConsensus:
		return func(in []byte) (reflect.Value, error) { return fromIface(consensus.VerifC11DecodeMsg(in)) }
	case epBlockchain:
		return func(in []byte) (reflect.Value, error) { return fromIface(blockchain.VerifC11DecodeMsg(in)) }
	case epMempool:
		return func(in []byte) (reflect.Value, error) { return fromIface(mempool.VerifC11DecodeMsg(in)) }
	case epEvidence:
		return func(in []byte) (reflect.Value, error) { return fromIface(evidence.VerifC11DecodeMsg(in)) }
	case epWAL:
		return func(in []byte) (reflect.Value, error) {
			m, err := consensus.NewWALDecoder(bytes.NewReader(walFrame(in))).Decode()
			if m == nil {
				return reflect.New(t), err
			}
			return reflect.ValueOf(m), err
		}
	}
	panic("harness: unknown entry point " + name)
}

// the encoding an entry point expects for a value
func withTypeEntry(name string) bool {
	switch name {
	case epBytes, epReader, epWAL:
		return false
	}
	return true
}

func encodeFor(name string, p reflect.Value) ([]byte, error) {
	if withTypeEntry(name) {
		return ser.EncodeToBytesWithType(p.Interface())
	}
	return ser.EncodeToBytes(p.Interface())
}

// ---- result of a unit ----

type violationRec struct {
	Key    string      `json:"key"`
	What   string      `json:"what"`
	Replay interface{} `json:"replay"`
	Count  int         `json:"count"`
	Size   int         `json:"size"` // length of the failing input: the smallest one is reported
}

type unitResult struct {
	Unit       int               `json:"unit"`
	Counters   map[string]int    `json:"counters"`
	Pairs      map[string]int    `json:"pairs"`    // "type | entry point" -> decodes executed
	Outcomes   map[string]int    `json:"outcomes"` // normalised decode outcome -> count
	Violations []*violationRec   `json:"violations"`
	Observed   map[string]string `json:"observed"` // observations outside the property (first example per class)
	MaxRatioX  int               `json:"max_alloc_ratio_x1000"`
	MaxRatioAt string            `json:"max_alloc_ratio_at"`
	Opaque     []string          `json:"opaque"`
	Slots      int               `json:"slots"`
	Err        string            `json:"err,omitempty"`
	Partial    bool              `json:"partial,omitempty"` // more results of the same unit follow
	Restart    bool              `json:"restart,omitempty"` // a call never returned: the worker must be replaced
}

type unit struct {
	ID       int    `json:"id"`
	Kind     string `json:"kind"` // rt | maporder | hostile | short | real
	Root     int    `json:"root"`
	Entry    string `json:"entry"`
	Shard    int    `json:"shard"`
	NShards  int    `json:"nshards"`
	MaxDev   int    `json:"maxdev"`
	DepthLim []int  `json:"depthlim"`
	Skip     []int  `json:"skip"` // case ids that killed a previous worker: not executed again
	Cost     int    `json:"cost"`
	Corpus   string `json:"corpus,omitempty"`    // hostile: "base" (zero value, populated default, real values) | "dev" (+ all values with <= MaxDev deviations)
	Reduce   bool   `json:"reduce,omitempty"`    // hostile: skip the interior of long string payloads (see positions)
	StartEnc int    `json:"start_enc,omitempty"` // hostile: corpus encodings of this shard already completed by a worker that died since
	// replay of one recorded case
	TypeName string     `json:"type_name,omitempty"`
	InputHex string     `json:"input_hex,omitempty"`
	Choices  []int      `json:"choices,omitempty"`
	CutAll   int        `json:"cut_all,omitempty"` // streaming: encodings up to this length are cut into chunks in every possible way
	Reader   *chunkSpec `json:"reader,omitempty"`  // replay-chunk
	OvIdx    int        `json:"ov_idx,omitempty"`  // replay-rt: choice point whose byte string has length OvLen (0 = none)
	OvLen    int        `json:"ov_len,omitempty"`
}

type executor struct {
	emit   func(*unitResult)
	unitID int
	encIdx int
	reg    *registry
	roots  []root
	mark   *marker
	res    *unitResult
	vidx   map[string]*violationRec
	skip   map[int]bool
	caseID int
	seen   map[uint64]struct{}
	// allocation accounting
	batch      []batchCase
	batchBytes int
	lastAlloc  uint64
	ms         runtime.MemStats

	composed      map[string]bool        // short encodings already cut in every way (per unit)
	cutAll        int                    // encodings up to this length are cut in EVERY way
	rawPoisoned   map[string]bool        // raw entry points that did not return in this unit
	ctx           func() string          // describes the value being processed (for a panic report)
	fitNote       map[string]interface{} // replay data of a payload-fitted value (see fit)
	curSize       int                    // size of the input / encoding of the case being executed (the smallest failing one is reported)
	lastPairRoot  *root
	lastPairEntry string
	lastPairKey   string
}

type batchCase struct {
	root  *root
	entry string
	fn    decodeFn
	in    []byte
	class string
}

func newExec(reg *registry, roots []root, mark *marker, u *unit) *executor {
	x := &executor{reg: reg, roots: roots, mark: mark, vidx: map[string]*violationRec{}, skip: map[int]bool{}, seen: map[uint64]struct{}{}}
	x.unitID = u.ID
	x.composed = map[string]bool{}
	x.rawPoisoned = map[string]bool{}
	x.cutAll = u.CutAll
	if x.cutAll == 0 {
		x.cutAll = 8
	}
	x.fresh()
	for _, s := range u.Skip {
		x.skip[s] = true
	}
	return x
}

func (x *executor) fresh() {
	x.res = &unitResult{Unit: x.unitID, Counters: map[string]int{}, Pairs: map[string]int{}, Outcomes: map[string]int{}, Observed: map[string]string{}}
	x.vidx = map[string]*violationRec{}
	x.seen = map[uint64]struct{}{}
	x.lastPairRoot = nil
}

// checkpoint sends what has been found so far to the coordinator (so that it survives the death of this worker)
// and starts a fresh result.
func (x *executor) checkpoint() {
	x.flushBatch()
	x.res.Counters["distinct_encodings"] = len(x.seen)
	x.res.Partial = true
	x.emit(x.res)
	x.fresh()
}

func (x *executor) violation(key, what string, replay interface{}) {
	size := x.curSize
	if v, ok := x.vidx[key]; ok {
		v.Count++
		if size < v.Size {
			v.What, v.Replay, v.Size = what, replay, size
		}
		return
	}
	v := &violationRec{Key: key, What: what, Replay: replay, Count: 1, Size: size}
	x.vidx[key] = v
	x.res.Violations = append(x.res.Violations, v)
}

func (x *executor) observe(class, example string) {
	x.res.Counters["observed:"+class]++
	if _, ok := x.res.Observed[class]; !ok {
		x.res.Observed[class] = example
	}
}

var (
	reHex    = regexp.MustCompile(`[0-9A-Fa-f]{6,}`)
	reNum    = regexp.MustCompile(`-?[0-9]+`)
	reType   = regexp.MustCompile(`\*?\[?\]?\*?[A-Za-z_][A-Za-z0-9_]*\.[A-Za-z_][A-Za-z0-9_]*`)
	reQuoted = regexp.MustCompile(`"[^"]*"`)
)

// errClass normalises an error / panic message: type names, numbers, hex strings and quoted text removed.
var errClassCache = map[string]string{}

func errClass(s string) string {
	if c, ok := errClassCache[s]; ok {
		return c
	}
	c := errClass1(s)
	if len(errClassCache) < 20000 {
		errClassCache[s] = c
	}
	return c
}

func errClass1(s string) string {
	if i := strings.Index(s, ", decoding into"); i >= 0 {
		s = s[:i]
	}
	keep := ""
	for _, p := range []string{"reflect.Set: ", "runtime error: "} {
		if strings.HasPrefix(s, p) {
			keep, s = p, s[len(p):]
		}
	}
	s = reQuoted.ReplaceAllString(s, "Q")
	s = reType.ReplaceAllString(s, "T")
	s = reHex.ReplaceAllString(s, "H")
	s = reNum.ReplaceAllString(s, "N")
	s = keep + s
	if len(s) > 100 {
		s = s[:100]
	}
	return s
}

// panicSite returns the innermost frame of the repository (outside runtime/reflect and outside this harness).
func panicSite(stack []byte) string {
	lines := strings.Split(string(stack), "\n")
	for _, l := range lines {
		if strings.HasPrefix(l, "\t") || !strings.Contains(l, "(") {
			continue
		}
		if !strings.Contains(l, "github.com/lianxiangcloud/linkchain/") {
			continue
		}
		f := l[:strings.LastIndex(l, "(")]
		f = strings.TrimPrefix(f, "github.com/lianxiangcloud/linkchain/")
		return f
	}
	return "?"
}

type caught struct {
	panicked bool
	val      interface{}
	site     string
}

func guard(f func()) (c caught) {
	defer func() {
		if e := recover(); e != nil {
			c = caught{panicked: true, val: e, site: panicSite(debug.Stack())}
		}
	}()
	f()
	return
}

func hexOf(b []byte) string {
	if len(b) > 4096 {
		return hex.EncodeToString(b[:4096]) + fmt.Sprintf("...(%d bytes)", len(b))
	}
	return hex.EncodeToString(b)
}

func (x *executor) totalAlloc() uint64 {
	runtime.ReadMemStats(&x.ms)
	return x.ms.TotalAlloc
}

func allocBound(entry string, n int) uint64 {
	b := uint64(allocConst + allocPerByte*n)
	if entry == epReader || entry == epReaderT || entry == epWAL {
		b += 2 * readerLimit
	}
	return b
}

// ---- round trip of one generated value ----

func (x *executor) distinct(b []byte) {
	h := fnv.New64a()
	h.Write(b)
	x.seen[h.Sum64()] = struct{}{}
}

func (x *executor) roundTrip(r *root, p reflect.Value, devs []string, choices []int, allEntries bool, tag string) (enc []byte, ok bool) {
	replay := func(extra map[string]interface{}) map[string]interface{} {
		m := map[string]interface{}{"phase": "round-trip", "type": r.Name, "deviations_from_default": devs, "value_source": tag, "choices": trimChoices(choices)}
		for k, v := range x.fitNote {
			m[k] = v
		}
		for k, v := range extra {
			m[k] = v
		}
		return m
	}
	x.res.Counters["values"]++
	x.ctx = func() string { return fmt.Sprintf("%s %v (%s)", r.Name, devs, tag) }
	var e1 []byte
	var err error
	c := guard(func() { e1, err = ser.EncodeToBytes(p.Interface()) })
	if c.panicked {
		x.observe("encode-panic:"+c.site+":"+errClass(fmt.Sprint(c.val)), fmt.Sprintf("%s %v: %v", r.Name, devs, c.val))
		x.res.Counters["values_unencodable"]++
		return nil, false
	}
	if err != nil {
		x.observe("encode-error:"+errClass(err.Error()), fmt.Sprintf("%s %v: %v", r.Name, devs, err))
		x.res.Counters["values_unencodable"]++
		return nil, false
	}
	x.distinct(e1)
	x.curSize = len(e1)
	okEntry := map[string]bool{}
	entries := []string{epBytes, epReader} // the streaming entry point for EVERY value (see stream.go)
	if allEntries {
		entries = r.Entries
	}
	for _, ep := range entries {
		e := e1
		if ep != epBytes {
			c := guard(func() { e, err = encodeFor(ep, p) })
			if c.panicked || err != nil {
				x.violation("encode-variant-fails:"+ep, fmt.Sprintf("%s: plain encoding works but the encoding for %s fails: %v %v", r.Name, ep, c.val, err), replay(nil))
				continue
			}
		}
		if len(e) > readerLimit-64 && ep != epBytes && ep != epBytesT {
			// larger than the limit these entry points are called with: refusing it is their contract
			x.res.Counters["roundtrip_skipped_over_entry_limit"]++
			continue
		}
		fn := makeEntry(r.T, ep)
		var q reflect.Value
		c := guard(func() { q, err = fn(e) })
		x.res.Counters["roundtrip_decodes"]++
		x.res.Pairs[r.Name+" | "+ep]++
		if c.panicked {
			x.violation("decode-panic:"+c.site+":"+errClass(fmt.Sprint(c.val)), fmt.Sprintf("%s via %s panics on a VALID encoding: %v", r.Name, ep, c.val), replay(map[string]interface{}{"entry": ep, "input": hexOf(e)}))
			continue
		}
		if err != nil {
			x.violation("roundtrip-decode-error:"+errClass(err.Error()), fmt.Sprintf("%s via %s: decoding the encoding of a value fails: %v", r.Name, ep, err), replay(map[string]interface{}{"entry": ep, "input": hexOf(e)}))
			continue
		}
		if m := diff(p.Elem(), q.Elem(), r.Name); m != nil {
			x.violation("roundtrip-mismatch:"+m.Leaf, fmt.Sprintf("%s via %s: decoded value differs at %s: %s", r.Name, ep, m.Path, m.What), replay(map[string]interface{}{"entry": ep, "input": hexOf(e), "path": m.Path}))
			continue
		}
		var e2 []byte
		c = guard(func() { e2, err = encodeFor(ep, q) })
		if c.panicked || err != nil {
			x.violation("reencode-fails", fmt.Sprintf("%s via %s: re-encoding the decoded value fails: %v %v", r.Name, ep, c.val, err), replay(map[string]interface{}{"entry": ep, "input": hexOf(e)}))
			continue
		}
		okEntry[ep] = true
		if !bytes.Equal(e, e2) {
			x.violation("reencode-differs:"+firstDiffLeaf(x.reg, e, e2), fmt.Sprintf("%s via %s: enc(dec(enc(v))) != enc(v): %s vs %s", r.Name, ep, hexOf(e), hexOf(e2)), replay(map[string]interface{}{"entry": ep, "input": hexOf(e)}))
		}
	}
	for _, ep := range entries {
		if ep != epReader && ep != epReaderT || !okEntry[ep] {
			continue // the chunked deliveries are compared with a one-piece decode that gave the original value
		}
		e := e1
		if ep == epReaderT {
			if c := guard(func() { e, err = encodeFor(ep, p) }); c.panicked || err != nil {
				continue
			}
		}
		x.chunkedValue(r, ep, p, e, x.cutAll, allEntries)
	}
	return e1, true
}

func firstDiffLeaf(reg *registry, a, b []byte) string {
	return fmt.Sprintf("len%+d", len(b)-len(a))
}

// trimChoices drops the trailing defaults of a choice vector (replay files).
func trimChoices(c []int) []int {
	n := len(c)
	for n > 0 && c[n-1] == 0 {
		n--
	}
	return append([]int{}, c[:n]...)
}

// ---- hostile input ----

func (x *executor) flushBatch() {
	if len(x.batch) == 0 {
		return
	}
	now := x.totalAlloc()
	delta := now - x.lastAlloc
	if delta > allocConst {
		// look at the cases one by one
		for _, bc := range x.batch {
			a0 := x.totalAlloc()
			guard(func() { bc.fn(bc.in) })
			a1 := x.totalAlloc()
			used := a1 - a0
			if len(bc.in) > 0 {
				ratio := int(used * 1000 / uint64(len(bc.in)+512))
				if ratio > x.res.MaxRatioX {
					x.res.MaxRatioX = ratio
					x.res.MaxRatioAt = fmt.Sprintf("%s via %s: %d bytes allocated for %d input bytes (%s)", bc.root.Name, bc.entry, used, len(bc.in), bc.class)
				}
			}
			x.curSize = len(bc.in)
			if used > allocBound(bc.entry, len(bc.in)) {
				x.violation("decode-alloc-unbounded:"+bc.root.Name, fmt.Sprintf("%s via %s: decoding %d input bytes allocates %d bytes (bound %d): %s", bc.root.Name, bc.entry, len(bc.in), used, allocBound(bc.entry, len(bc.in)), hexOf(bc.in)),
					map[string]interface{}{"phase": "hostile", "type": bc.root.Name, "entry": bc.entry, "mutation": bc.class, "input": hexOf(bc.in), "allocated": used})
			}
		}
		x.res.Counters["diag_alloc_batches_inspected"]++
	}
	x.batch = x.batch[:0]
	x.batchBytes = 0
	x.lastAlloc = x.totalAlloc()
}

func (x *executor) pairCount(r *root, ep string) {
	if x.lastPairRoot != r || x.lastPairEntry != ep {
		x.lastPairRoot, x.lastPairEntry = r, ep
		k := r.Name + " | " + ep
		if _, ok := x.res.Pairs[k]; !ok {
			x.res.Pairs[k] = 0
		}
		x.lastPairKey = k
	}
	x.res.Pairs[x.lastPairKey]++
}

func (x *executor) hostile(r *root, ep string, fn decodeFn, class string, in []byte) {
	x.caseID++
	id := x.encIdx<<24 | x.caseID
	if x.skip[id] {
		x.res.Counters["cases_skipped_killer"]++
		return
	}
	x.mark.set(id, r.Name, ep, class, in)
	x.curSize = len(in)
	var q reflect.Value
	var err error
	var n0 int64
	sfn := streamEntry(r.T, ep)
	c := guard(func() {
		if sfn != nil {
			q, n0, err = sfn(&plainReader{b: in})
		} else {
			q, err = fn(in)
		}
	})
	if sfn != nil && !c.panicked {
		ref := streamRef{val: q, n: n0, err: err}
		for i, spec := range hostileSpecs {
			if len(in) > 1024 && i != 1 {
				continue // large inputs: one chunking
			}
			x.chunked(r, ep, sfn, in, ref, spec, "hostile:"+class)
		}
	}
	x.res.Counters["hostile_decodes"]++
	x.res.Counters["hostile:"+class]++
	x.pairCount(r, ep)
	x.batch = append(x.batch, batchCase{r, ep, fn, in, class})
	x.batchBytes += len(in)
	if len(x.batch) >= 32 || x.batchBytes >= 96<<10 {
		x.flushBatch()
	}
	if ep == epBytes {
		// the raw splitter entry points are type independent: they see every hostile input of the DecodeBytes family
		x.rawChecks(in, class, 0, len(in) <= 600)
		x.curSize = len(in)
	}
	switch {
	case c.panicked:
		x.res.Outcomes["panic"]++
		x.violation("decode-panic:"+c.site+":"+errClass(fmt.Sprint(c.val)), fmt.Sprintf("%s via %s panics: %v  input=%s", r.Name, ep, c.val, hexOf(in)),
			map[string]interface{}{"phase": "hostile", "type": r.Name, "entry": ep, "mutation": class, "input": hexOf(in), "panic": fmt.Sprint(c.val), "site": c.site})
	case err != nil:
		x.res.Outcomes["error: "+errClass(err.Error())]++
	default:
		x.res.Outcomes["accepted"]++
		x.res.Counters["hostile_accepted"]++
		x.acceptedValue(r, ep, q, in)
	}
}

// acceptedValue: a hostile input that decodes IS a value of a registered type; the lossless / canonical part of the
// property applies to it like to any generated value.
func (x *executor) acceptedValue(r *root, ep string, q reflect.Value, in []byte) {
	var e1 []byte
	var err error
	c := guard(func() { e1, err = encodeFor(ep, q) })
	if c.panicked {
		x.observe("encode-panic-of-decoded-value:"+c.site+":"+errClass(fmt.Sprint(c.val)), fmt.Sprintf("%s via %s input=%s: %v", r.Name, ep, hexOf(in), c.val))
		return
	}
	if err != nil {
		x.observe("encode-error-of-decoded-value:"+errClass(err.Error()), fmt.Sprintf("%s via %s input=%s: %v", r.Name, ep, hexOf(in), err))
		return
	}
	if !bytes.Equal(e1, in) {
		x.res.Counters["hostile_accepted_noncanonical"]++
	}
	fn := makeEntry(r.T, ep)
	var q2 reflect.Value
	c = guard(func() { q2, err = fn(e1) })
	replay := func() interface{} {
		return map[string]interface{}{"phase": "hostile-accepted", "type": r.Name, "entry": ep, "input": hexOf(in), "reencoded": hexOf(e1)}
	}
	x.res.Counters["accepted_value_roundtrips"]++
	if c.panicked {
		x.violation("decode-panic:"+c.site+":"+errClass(fmt.Sprint(c.val)), fmt.Sprintf("%s via %s panics on the re-encoding of a decoded value: %v", r.Name, ep, c.val), replay())
		return
	}
	if err != nil {
		x.violation("roundtrip-decode-error:"+errClass(err.Error()), fmt.Sprintf("%s via %s: value decoded from %s re-encodes to %s which does not decode: %v", r.Name, ep, hexOf(in), hexOf(e1), err), replay())
		return
	}
	if m := diff(q.Elem(), q2.Elem(), r.Name); m != nil {
		x.violation("roundtrip-mismatch:"+m.Leaf, fmt.Sprintf("%s via %s: value decoded from hostile input does not survive a round trip at %s: %s", r.Name, ep, m.Path, m.What), replay())
		return
	}
	var e2 []byte
	c = guard(func() { e2, err = encodeFor(ep, q2) })
	if c.panicked || err != nil || !bytes.Equal(e1, e2) {
		x.violation("reencode-differs:hostile-accepted", fmt.Sprintf("%s via %s: enc(dec(enc(v))) != enc(v) for v decoded from %s", r.Name, ep, hexOf(in)), replay())
	}
}

func mustEnc(ep string, p reflect.Value) []byte {
	var e []byte
	guard(func() { e, _ = encodeFor(ep, p) })
	return e
}

// corpus: the distinct encodings (for entry point ep) of all values of r with <= maxDev deviations, plus real values.
func (x *executor) corpus(r *root, ep string, withDev bool, maxDev int, depthLim []int, f func(idx int, e []byte)) {
	seen := map[string]bool{}
	idx := 0
	emit := func(p reflect.Value) {
		var e []byte
		var err error
		c := guard(func() { e, err = encodeFor(ep, p) })
		if c.panicked || err != nil || seen[string(e)] {
			return
		}
		seen[string(e)] = true
		f(idx, e)
		idx++
	}
	// base corpus: the zero value (shortest encodings), the values built with the repository's constructors, the
	// populated default. dev corpus: every value with 1..maxDev deviations whose encoding is not in the base corpus.
	def, _, _ := buildValue(x.reg, r.T, nil)
	base := append(append([]reflect.Value{reflect.New(r.T)}, realValues(r.T)...), def)
	if !withDev {
		for _, p := range base {
			emit(p)
		}
		return
	}
	for _, p := range base {
		seen[string(mustEnc(ep, p))] = true
	}
	explore(x.reg, r.T, maxDev, depthLim, 0, 1, false, func(p reflect.Value, c *chooser, ndev int) bool {
		if ndev > 0 {
			emit(p)
		}
		return true
	})
}

// classifyPanic looks at the innermost frame that is neither runtime nor reflect: repository code or harness code.
func classifyPanic(stack []byte) (repo bool, site string) {
	for _, l := range strings.Split(string(stack), "\n") {
		if strings.HasPrefix(l, "\t") || !strings.Contains(l, "(") || strings.HasPrefix(l, "goroutine ") {
			continue
		}
		f := l[:strings.LastIndex(l, "(")]
		switch {
		case strings.HasPrefix(f, "runtime.") || strings.HasPrefix(f, "runtime/") || strings.HasPrefix(f, "reflect.") || strings.HasPrefix(f, "internal/") || f == "panic":
			continue
		case strings.Contains(f, "github.com/lianxiangcloud/linkchain/"):
			return true, strings.TrimPrefix(f, "github.com/lianxiangcloud/linkchain/")
		default:
			return false, f
		}
	}
	return false, "?"
}

func (x *executor) run(u *unit) (res *unitResult) {
	// Every encoder / decoder call of the repository is individually guarded (guard): a panic there is a violation
	// or an observation of its own. What arrives HERE is a panic outside those calls: in repository code reached
	// otherwise (reported as a violation with its site), or in the harness (a harness error that names the value).
	defer func() {
		if e := recover(); e != nil {
			stack := debug.Stack()
			repo, site := classifyPanic(stack)
			where := fmt.Sprintf("unit kind %s", u.Kind)
			if u.Kind != "maporder" && u.Kind != "audit" && u.Root < len(x.roots) {
				where += ", type " + x.roots[u.Root].Name
			}
			if building != nil {
				where += ", while BUILDING " + building()
			} else if x.ctx != nil {
				where += ", value " + x.ctx()
			}
			if repo {
				x.curSize = 0
				x.violation("panic-in-repository-code:"+site+":"+errClass(fmt.Sprint(e)), fmt.Sprintf("%s: %v", where, e), map[string]interface{}{"phase": u.Kind, "where": where, "panic": fmt.Sprint(e)})
			} else {
				st := string(stack)
				if len(st) > 3000 {
					st = st[:3000]
				}
				x.res.Err = fmt.Sprintf("panic in harness code (%s) at %s: %v\n%s", site, where, e, st)
			}
			res = x.res
		}
	}()
	x.lastAlloc = x.totalAlloc()
	switch u.Kind {
	case "audit":
		x.audit()
	case "rawfamily":
		x.rawFamilyUnit()
	case "replay-raw":
		if in, err := hex.DecodeString(u.InputHex); err != nil {
			x.res.Err = "replay: input is truncated in the replay file: " + err.Error()
		} else {
			x.mark.set(1, rawTypeName, "raw splitters", "replay", in)
			x.rawChecks(in, "replay", 20*time.Second, true)
		}
	case "rt":
		r := &x.roots[u.Root]
		first := true
		explore(x.reg, r.T, u.MaxDev, u.DepthLim, u.Shard, u.NShards, true, func(p reflect.Value, c *chooser, ndev int) bool {
			if first {
				first = false
			}
			e1, ok := x.roundTrip(r, p, c.deviations(), c.choices, ndev <= 1, "generated")
			if ok && ndev <= 1 {
				// equal values encode to equal bytes: an independently built equal value
				p2, _, _ := buildValue(x.reg, r.T, c.choices)
				var e3 []byte
				var err error
				cc := guard(func() { e3, err = ser.EncodeToBytes(p2.Interface()) })
				x.res.Counters["equal_value_encodings_compared"]++
				if cc.panicked || err != nil || !bytes.Equal(e1, e3) {
					x.violation("equal-values-encode-differently", fmt.Sprintf("%s %v: two equal values give %s and %s", r.Name, c.deviations(), hexOf(e1), hexOf(e3)),
						map[string]interface{}{"phase": "round-trip", "type": r.Name, "deviations_from_default": c.deviations()})
				}
			}
			return true
		})
		if u.Shard == 0 {
			_, c, g := buildValue(x.reg, r.T, nil)
			x.res.Slots = len(c.pts)
			for o := range g.opaque {
				x.res.Opaque = append(x.res.Opaque, r.Name+": "+o)
			}
			sort.Strings(x.res.Opaque)
			// zero value and real values
			x.roundTrip(r, reflect.New(r.T), []string{"<zero value>"}, nil, true, "zero")
			for i, p := range realValues(r.T) {
				x.roundTrip(r, p, []string{fmt.Sprintf("<real value %d>", i)}, nil, true, "built with the repository's constructors")
				x.res.Counters["real_values"]++
			}
		}
	case "fit":
		x.fit(&x.roots[u.Root])
	case "maporder":
		x.mapOrder()
	case "hostile":
		r := &x.roots[u.Root]
		fn := makeEntry(r.T, u.Entry)
		items := hostileItems()
		mine := 0
		x.corpus(r, u.Entry, u.Corpus == "dev", u.MaxDev, u.DepthLim, func(idx int, e []byte) {
			if idx%u.NShards != u.Shard {
				return
			}
			mine++
			if mine <= u.StartEnc {
				return // completed (and reported) before a worker death
			}
			x.encIdx, x.caseID = mine, 0
			defer x.checkpoint()
			x.res.Counters["corpus_encodings"]++
			x.distinct(e)
			ok, skipped := mutations(x.reg, e, items, u.Reduce, func(class string, in []byte) { x.hostile(r, u.Entry, fn, class, in) })
			if !ok {
				x.res.Counters["corpus_encodings_not_item_parsable"]++
			}
			x.res.Counters["long_payload_interior_offsets_not_mutated"] += skipped
		})
	case "short":
		r := &x.roots[u.Root]
		for _, ep := range r.Entries {
			fn := makeEntry(r.T, ep)
			shortStrings(func(in []byte) { x.hostile(r, ep, fn, "short", in) })
			// type confusion: the prefix of every registered type, alone, with an empty value, and with that type's
			// own valid default value, presented to this decoder
			for _, c := range x.reg.concrete {
				x.hostile(r, ep, fn, "foreign-prefix", append([]byte{}, c.Disfix[:]...))
				x.hostile(r, ep, fn, "foreign-prefix", append(append([]byte{}, c.Disfix[:]...), 0x80))
				x.hostile(r, ep, fn, "foreign-prefix", append(append([]byte{}, c.Disfix[:]...), 0xc0))
				dp, _, _ := buildValue(x.reg, c.Type, nil)
				if e := mustEnc(epBytesT, dp); e != nil {
					x.hostile(r, ep, fn, "foreign-prefix", e)
				}
			}
		}
	case "replay-hostile":
		for i := range x.roots {
			if x.roots[i].Name == u.TypeName {
				in, err := hex.DecodeString(u.InputHex)
				if err != nil {
					x.res.Err = "replay: input is truncated in the replay file: " + err.Error()
					break
				}
				x.hostile(&x.roots[i], u.Entry, makeEntry(x.roots[i].T, u.Entry), "replay", in)
			}
		}
	case "replay-chunk":
		for i := range x.roots {
			if x.roots[i].Name == u.TypeName && u.Reader != nil {
				in, err := hex.DecodeString(u.InputHex)
				if err != nil {
					x.res.Err = "replay: input is truncated in the replay file: " + err.Error()
					break
				}
				sfn := streamEntry(x.roots[i].T, u.Entry)
				var ref streamRef
				guard(func() { ref.val, ref.n, ref.err = sfn(&plainReader{b: in}) })
				x.chunked(&x.roots[i], u.Entry, sfn, in, ref, *u.Reader, "replay")
			}
		}
	case "replay-rt":
		for i := range x.roots {
			if x.roots[i].Name == u.TypeName {
				var ov map[int]int
				if u.OvLen > 0 {
					ov = map[int]int{u.OvIdx: u.OvLen}
				}
				p, c, _ := buildValueOv(x.reg, x.roots[i].T, u.Choices, ov)
				x.fitNote = nil
				if ov != nil {
					x.fitNote = map[string]interface{}{"ov_idx": u.OvIdx, "ov_len": u.OvLen}
				}
				x.roundTrip(&x.roots[i], p, c.deviations(), c.choices, true, "replay")
			}
		}
	default:
		x.res.Err = "unknown unit kind " + u.Kind
	}
	x.flushBatch()
	x.res.Counters["distinct_encodings"] = len(x.seen)
	return x.res
}

// payload lengths at which the header of the enclosing list changes its shape
var fitTargets = []int{55, 56, 255, 256, 65535, 65536, 65537}

// topListPayload returns the payload length of the top-level list of encoding e (-1: the value is not a list).
func topListPayload(reg *registry, e []byte) int {
	top, ok := parseItems(reg, e)
	if !ok {
		return -1
	}
	for _, n := range top {
		if n.kind == 2 {
			return n.size
		}
	}
	return -1
}

// fit: for (up to 6) byte-string / string fields of the populated default of r and every target length L, the field is
// sized so that the PAYLOAD of the value's top-level list is exactly L bytes (the boundaries of the list header:
// short/long form, 1/2/3 length bytes); the value then goes through the round-trip oracle on every entry point.
func (x *executor) fit(r *root) {
	_, c0, _ := buildValue(x.reg, r.T, nil)
	var slots []int
	for i, pt := range c0.pts {
		if pt.bytes && len(slots) < 6 {
			slots = append(slots, i)
		}
	}
	for _, idx := range slots {
		for _, L := range fitTargets {
			n, hit := L, false
			for iter := 0; iter < 8 && n >= 0; iter++ {
				p, c, _ := buildValueOv(x.reg, r.T, nil, map[int]int{idx: n})
				e := mustEnc(epBytes, p)
				if e == nil {
					break
				}
				pay := topListPayload(x.reg, e)
				if pay < 0 {
					break
				}
				if pay == L {
					hit = true
					x.fitNote = map[string]interface{}{"ov_idx": idx, "ov_len": n}
					x.roundTrip(r, p, []string{fmt.Sprintf("%s sized to %d bytes: top-level list payload = %d", c.pts[idx].label, n, L)}, nil, true, "payload-fitted")
					x.fitNote = nil
					break
				}
				n += L - pay
			}
			if hit {
				x.res.Counters["payload_fitted_values"]++
			} else {
				x.res.Counters["payload_fit_unreachable"]++
			}
		}
	}
}
