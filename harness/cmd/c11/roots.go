package main

// The set of root types: everything in the ser registry (concrete and interface types registered through the
// Register* functions of the linked packages) plus the consensus / storage types that are written with libs/ser
// without being registered (they never travel inside an interface), plus a handful of primitive shapes.

import (
	"math/big"
	"reflect"
	"sort"
	"strings"
	"time"

	_ "github.com/lianxiangcloud/linkchain/blockchain"
	"github.com/lianxiangcloud/linkchain/consensus"
	"github.com/lianxiangcloud/linkchain/evidence"
	"github.com/lianxiangcloud/linkchain/libs/common"
	"github.com/lianxiangcloud/linkchain/libs/p2p"
	_ "github.com/lianxiangcloud/linkchain/libs/p2p/conn"
	"github.com/lianxiangcloud/linkchain/libs/ser"
	_ "github.com/lianxiangcloud/linkchain/mempool"
	"github.com/lianxiangcloud/linkchain/state"
	"github.com/lianxiangcloud/linkchain/types"
	"github.com/lianxiangcloud/linkchain/utxo"
)

type concrete = ser.VerifC11Concrete

type registry struct {
	concrete []concrete
	ifaces   []reflect.Type
	impl     map[reflect.Type][]concrete
	disfixes map[[7]byte]string
}

func loadRegistry() *registry {
	cs, is := ser.VerifC11Registry()
	r := &registry{concrete: cs, ifaces: is, impl: map[reflect.Type][]concrete{}, disfixes: map[[7]byte]string{}}
	for _, c := range cs {
		r.disfixes[c.Disfix] = c.Name
	}
	for _, it := range is {
		for _, c := range cs {
			if !reflect.PtrTo(c.Type).Implements(it) {
				continue
			}
			if it.NumMethod() == 0 {
				// method-less interfaces (the reactor / WAL message types) are "implemented" by every registered
				// type; the values that legitimately occur are the ones registered by the same package (plus the
				// round-state event registered for the WAL).
				same := c.Type.PkgPath() == it.PkgPath()
				wal := it.Name() == "WALMessage" && strings.HasPrefix(c.Name, "consensus/wal/")
				if !same && !wal {
					continue
				}
			}
			if _, ok := storeForm(it, c); !ok {
				continue // neither T nor *T can be stored in the interface (cannot happen for an implementer)
			}
			r.impl[it] = append(r.impl[it], c)
		}
	}
	return r
}

// decoderForm is the type the DECODER constructs for a registered concrete type (libs/ser cdc.go
// constructConcreteType): *T when the type was registered through a pointer, T otherwise.
func decoderForm(c concrete) reflect.Type {
	if c.PointerPreferred {
		return reflect.PtrTo(c.Type)
	}
	return c.Type
}

// storeForm decides, with reflect and BEFORE any Set, in which form a value of c can be stored in interface type it:
// the decoder's form when that is assignable, otherwise the other one (usePtr reports whether it is *T).
func storeForm(it reflect.Type, c concrete) (usePtr bool, ok bool) {
	switch {
	case decoderForm(c).AssignableTo(it):
		return c.PointerPreferred, true
	case reflect.PtrTo(c.Type).AssignableTo(it):
		return true, true
	case c.Type.AssignableTo(it):
		return false, true
	}
	return false, false
}

func (r *registry) implementers(t reflect.Type) []concrete { return r.impl[t] }

type root struct {
	Name    string
	T       reflect.Type
	Origin  string // "registry-concrete", "registry-interface", "storage/wire", "primitive"
	Entries []string
}

// entry point names
const (
	epBytes      = "ser.DecodeBytes"
	epBytesT     = "ser.DecodeBytesWithType"
	epReader     = "ser.DecodeReader(limit=1MiB)"
	epReaderT    = "ser.DecodeReaderWithType(limit=1MiB)"
	epConsensus  = "consensus.decodeMsg"
	epBlockchain = "blockchain.decodeMsg"
	epMempool    = "mempool.decodeMsg"
	epEvidence   = "evidence.decodeMsg"
	epWAL        = "consensus.WALDecoder.Decode"
)

func buildRoots(reg *registry) []root {
	var roots []root
	seen := map[reflect.Type]bool{}
	add := func(t reflect.Type, origin string, extra ...string) {
		if seen[t] {
			return
		}
		seen[t] = true
		roots = append(roots, root{Name: t.String(), T: t, Origin: origin,
			Entries: append([]string{epBytes, epBytesT, epReader, epReaderT}, extra...)})
	}
	for _, c := range reg.concrete {
		add(c.Type, "registry-concrete")
	}
	for _, it := range reg.ifaces {
		var extra []string
		switch it.String() {
		case "consensus.ConsensusMessage":
			extra = []string{epConsensus}
		case "blockchain.BlockchainMessage":
			extra = []string{epBlockchain}
		case "mempool.MempoolMessage":
			extra = []string{epMempool}
		case "evidence.EvidenceMessage":
			extra = []string{epEvidence}
		}
		add(it, "registry-interface", extra...)
	}
	tof := func(v interface{}) reflect.Type { return reflect.TypeOf(v) }
	storage := []reflect.Type{
		tof(types.Block{}), tof(types.Header{}), tof(types.Data{}), tof(types.EvidenceData{}), tof(types.Commit{}),
		tof(types.Vote{}), tof(types.Proposal{}), tof(types.Part{}), tof(types.PartSetHeader{}), tof(types.BlockID{}),
		tof(types.BlockMeta{}), tof(types.ValidatorSet{}), tof(types.Validator{}), tof(types.Heartbeat{}),
		tof(types.ConsensusParams{}), tof(types.TxsResult{}), tof(types.CandidateInOrder{}),
		tof(types.Receipt{}), tof(types.ReceiptForStorage{}), tof(types.Receipts{}), tof([]*types.ReceiptForStorage{}),
		tof(types.Log{}), tof(types.LogForStorage{}), tof(types.Txs{}), tof(types.EvidenceList{}),
		tof(types.TxEntry{}), tof(types.SignersInfo{}), tof(types.MultiSignMainInfo{}), tof(types.ContractUpgradeMainInfo{}),
		tof(types.BlockBalanceRecords{}), tof(types.UTXOOutputData{}),
		tof(consensus.NewStatus{}), tof(consensus.ValidatorsInfo{}), tof(consensus.ConsensusParamsInfo{}),
		tof(state.Account{}), tof(evidence.EvidenceInfo{}), tof(p2p.NodeInfo{}),
	}
	storage = append(storage, utxo.VerifC11StorageTypes()...)
	for _, t := range storage {
		add(t, "storage/wire")
	}
	// TimedWALMessage additionally goes through the WAL frame decoder
	seen[tof(consensus.TimedWALMessage{})] = true
	roots = append(roots, root{Name: "consensus.TimedWALMessage", T: tof(consensus.TimedWALMessage{}), Origin: "storage/wire",
		Entries: []string{epBytes, epBytesT, epReader, epReaderT, epWAL}})
	for _, t := range []reflect.Type{tof([]byte{}), tof(""), tof(uint64(0)), tof(int64(0)), tof(int(0)), tof(true), tof((*big.Int)(nil)),
		tof(time.Time{}), tof(common.Hash{}), tof(common.Address{}), tof([]uint64{}), tof([][]byte{})} {
		add(t, "primitive")
	}
	return roots
}

func sortedKeys(m map[string]int) []string {
	ks := make([]string, 0, len(m))
	for k := range m {
		ks = append(ks, k)
	}
	sort.Strings(ks)
	return ks
}
