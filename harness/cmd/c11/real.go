package main

// Values built with the repository's own constructors (a signed account transaction, a confidential UTXO
// transaction: account input -> two confidential outputs + one account output) and the map-order enumeration.

import (
	"bytes"
	"fmt"
	"math/big"
	"reflect"
	"sync"

	"verif/vk"

	"github.com/lianxiangcloud/linkchain/libs/common"
	"github.com/lianxiangcloud/linkchain/libs/crypto"
	lk "github.com/lianxiangcloud/linkchain/libs/cryptonote/types"
	"github.com/lianxiangcloud/linkchain/libs/cryptonote/xcrypto"
	"github.com/lianxiangcloud/linkchain/libs/ser"
	"github.com/lianxiangcloud/linkchain/types"
)

var (
	realOnce sync.Once
	realTx   *types.Transaction
	realUTXO *types.UTXOTransaction
	realErr  error
)

func buildReal() {
	xcrypto.VerifSetSeed(1)
	key, _ := crypto.HexToECDSA("45a915e4d060149eb4365960e6a7a45f334393093061116b197e3240065ff2d8")
	from := crypto.PubkeyToAddress(key.PublicKey)
	to := common.HexToAddress("0x00000000000000000000000000000000000000aa")
	tx := types.NewTransaction(3, to, big.NewInt(1e18), 21000, big.NewInt(types.ParGasPrice), []byte{1, 2, 3})
	if err := tx.Sign(types.GlobalSTDSigner, key); err != nil {
		realErr = err
		return
	}
	realTx = tx
	addr := func() lk.AccountAddress {
		_, v := xcrypto.SkpkGen()
		_, s := xcrypto.SkpkGen()
		return lk.AccountAddress{ViewPublicKey: lk.PublicKey(v), SpendPublicKey: lk.PublicKey(s)}
	}
	e18 := func(n int64) *big.Int { return new(big.Int).Mul(big.NewInt(n), big.NewInt(1e18)) }
	fee := new(big.Int).Mul(big.NewInt(types.ParGasPrice), new(big.Int).SetUint64(types.CalNewAmountGas(e18(6), types.EverLiankeFee)))
	dests := []types.DestEntry{
		&types.UTXODestEntry{Addr: addr(), Amount: e18(3)},
		&types.UTXODestEntry{Addr: addr(), Amount: e18(2)},
		&types.AccountDestEntry{To: to, Amount: e18(1), Data: []byte{9}},
	}
	src := &types.AccountSourceEntry{From: from, Nonce: 0, Amount: new(big.Int).Add(e18(6), fee)}
	utx, _, err := types.NewAinTransaction(src, dests, common.EmptyAddress, nil)
	if err != nil {
		realErr = fmt.Errorf("NewAinTransaction: %v", err)
		return
	}
	if err := utx.Sign(types.GlobalSTDSigner, key); err != nil {
		realErr = fmt.Errorf("sign utxo tx: %v", err)
		return
	}
	realUTXO = utx
}

// realValues returns pointers (*t) to values of type t built with the repository's constructors.
func realValues(t reflect.Type) []reflect.Value {
	realOnce.Do(func() {
		if p, v := vk.Catch(buildReal); p {
			realErr = fmt.Errorf("panic: %v", v)
		}
	})
	if realErr != nil {
		vk.Fatalf("building the real transaction values failed: %v", realErr)
	}
	cp := func(v interface{}) reflect.Value {
		// a fresh copy through the codec would presuppose what is being checked: use the built object itself
		return reflect.ValueOf(v)
	}
	switch t {
	case reflect.TypeOf(types.Transaction{}):
		return []reflect.Value{cp(realTx)}
	case reflect.TypeOf(types.UTXOTransaction{}):
		return []reflect.Value{cp(realUTXO)}
	case reflect.TypeOf((*types.Tx)(nil)).Elem():
		a, b := new(types.Tx), new(types.Tx)
		*a, *b = realTx, realUTXO
		return []reflect.Value{reflect.ValueOf(a), reflect.ValueOf(b)}
	case reflect.TypeOf(types.Txs{}):
		l := &types.Txs{realTx, realUTXO}
		return []reflect.Value{reflect.ValueOf(l)}
	}
	return nil
}

// ---- map order ----

// mapFieldPaths finds the fields (through nested structs) of t whose type is a map the codec supports.
func mapFieldPaths(t reflect.Type, prefix []int, depth int) [][]int {
	var out [][]int
	if t.Kind() != reflect.Struct || depth > 3 {
		return nil
	}
	for _, i := range serFields(t) {
		ft := t.Field(i).Type
		p := append(append([]int{}, prefix...), i)
		switch {
		case ft.Kind() == reflect.Map && ft.Key().Kind() == reflect.Array && ft.Key().Len() == 20 && ft.Elem() == bigIntPtrType:
			out = append(out, p)
		case ft.Kind() == reflect.Struct && ft != timeType && ft != bigIntType:
			out = append(out, mapFieldPaths(ft, p, depth+1)...)
		}
	}
	return out
}

// mapOrder: for every root with a map field, every subset of <= 4 of the 6 keys, every insertion order of the
// subset (plus, per order, a variant that inserts and deletes a foreign key in the middle, which changes the
// internal layout of the Go map): the encoding is the same, and it decodes to the same map.
func (x *executor) mapOrder() {
	for ri := range x.roots {
		r := &x.roots[ri]
		for _, path := range mapFieldPaths(r.T, nil, 0) {
			x.res.Counters["map_fields"]++
			nk := len(mapKeys)
			for mask := 0; mask < 1<<uint(nk); mask++ {
				var sub []int
				for i := 0; i < nk; i++ {
					if mask&(1<<uint(i)) != 0 {
						sub = append(sub, i)
					}
				}
				if len(sub) > 4 {
					continue
				}
				x.res.Counters["map_key_sets"]++
				var ref []byte
				vk.Permutations(len(sub), func(perm []int) bool {
					for variant := 0; variant < 2; variant++ {
						p, _, _ := buildValue(x.reg, r.T, nil)
						f := p.Elem().FieldByIndex(path)
						m := reflect.MakeMap(f.Type())
						key := func(i int) reflect.Value {
							k := reflect.New(f.Type().Key()).Elem()
							reflect.Copy(k, reflect.ValueOf(mapKeys[i][:]))
							return k
						}
						var order []int
						for j, pi := range perm {
							if variant == 1 && j == len(perm)/2 {
								var foreign [20]byte
								foreign[3] = 0x55
								fk := reflect.New(f.Type().Key()).Elem()
								reflect.Copy(fk, reflect.ValueOf(foreign[:]))
								m.SetMapIndex(fk, reflect.ValueOf(big.NewInt(1)))
								m.SetMapIndex(fk, reflect.Value{})
							}
							m.SetMapIndex(key(sub[pi]), reflect.ValueOf(big.NewInt(int64(100+sub[pi]))))
							order = append(order, sub[pi])
						}
						f.Set(m)
						x.res.Counters["map_insertion_orders"]++
						x.curSize = len(order)
						replay := map[string]interface{}{"phase": "map-order", "type": r.Name, "keys_in_insertion_order": order, "with_deleted_foreign_key": variant == 1}
						// several encodings of the same object: the Go runtime starts every map iteration at a random position
						for rep := 0; rep < 4; rep++ {
							var e []byte
							var err error
							c := guard(func() { e, err = ser.EncodeToBytes(p.Interface()) })
							x.res.Counters["map_encodings"]++
							if c.panicked || err != nil {
								x.violation("map-encode-fails", fmt.Sprintf("%s: %v %v", r.Name, c.val, err), replay)
								return false
							}
							if ref == nil {
								ref = e
								x.distinct(e)
								q := reflect.New(r.T)
								if err := ser.DecodeBytes(e, q.Interface()); err != nil {
									x.violation("roundtrip-decode-error:"+errClass(err.Error()), fmt.Sprintf("%s: %v", r.Name, err), replay)
								} else if mm := diff(p.Elem(), q.Elem(), r.Name); mm != nil {
									x.violation("roundtrip-mismatch:"+mm.Leaf, fmt.Sprintf("%s: %s: %s", r.Name, mm.Path, mm.What), replay)
								}
							}
							if !bytes.Equal(ref, e) {
								x.violation("map-order-changes-encoding", fmt.Sprintf("%s: the same map content (keys %v) encodes to %s and to %s depending on insertion / iteration order", r.Name, order, hexOf(ref), hexOf(e)), replay)
								return false
							}
						}
					}
					return true
				})
			}
		}
	}
}
