// C11 — wire and storage encoding is canonical, lossless, and safe on arbitrary input.
//
// Bounded exhaustive INPUT enumeration on the real libs/ser codec and the real decoder entry points:
//
//	round trip   every value of every root type (ser registry + the unregistered consensus/storage types) that differs
//	             from a populated default in <= k fields, every field ranging over a small boundary domain:
//	             dec(enc(v)) == v, enc(dec(enc(v))) == enc(v), equal values give equal bytes
//	map order    every insertion order of every key subset of size <= 4 gives one encoding
//	streaming    every round-trip value again through DecodeReader / DecodeReaderWithType from readers that deliver the bytes in
//	             chunks (fixed sizes, every composition of short encodings, last chunk with io.EOF, a (0,nil) read, with
//	             and without bufio in between): same value, same error class, same number of consumed bytes (stream.go)
//	hostile      for every valid encoding of the <= 1-deviation corpus: every truncation, every single-byte substitution
//	             over a 16-byte set, every item of the encoding's item tree replaced by every member of a set of
//	             hostile items (lengths of the enclosing lists recomputed), every registered type prefix replaced by
//	             every other one; plus every byte string of length <= 3 over the set; into every entry point:
//	             no panic, no unbounded allocation, and whatever is accepted round-trips like any other value
//
// Every decode runs in a worker subprocess (re-exec with --worker) under RLIMIT_AS = 4 GiB (what `ulimit -v` sets):
// `fatal error: out of memory` cannot be recovered in-process. A worker records the case it is about to execute in
// a shared-memory marker; when it dies the coordinator reads the marker, reports the case, and re-runs the unit
// without it.
package main

import (
	"bufio"
	"bytes"
	"encoding/json"
	"flag"
	"fmt"
	"io"
	"os"
	osexec "os/exec"
	"os/signal"
	"path/filepath"
	"reflect"
	"runtime"
	"runtime/pprof"
	"sort"
	"strconv"
	"strings"
	"sync"
	"syscall"
	"time"

	"verif/vk"

	"github.com/lianxiangcloud/linkchain/libs/log"
)

var (
	workerFlag = flag.Bool("worker", false, "internal: run as a worker subprocess")
	markFlag   = flag.String("mark", "", "internal: marker file of the worker")
	listFlag   = flag.Bool("list", false, "print the (type, entry point) pairs and exit")
)

const memLimit = 4 << 30

// ---- marker: the case a worker is about to execute ----

type marker struct{ mem []byte }

func openMarker(path string) *marker {
	f, err := os.OpenFile(path, os.O_RDWR, 0600)
	if err != nil {
		vk.Fatalf("marker: %v", err)
	}
	defer f.Close()
	mem, err := syscall.Mmap(int(f.Fd()), 0, 4096, syscall.PROT_READ|syscall.PROT_WRITE, syscall.MAP_SHARED)
	if err != nil {
		vk.Fatalf("marker mmap: %v", err)
	}
	return &marker{mem}
}

func (m *marker) set(id int, typ, entry, class string, in []byte) {
	if m == nil {
		return
	}
	d := m.mem[16:16]
	d = append(d, typ...)
	d = append(d, '\n')
	d = append(d, entry...)
	d = append(d, '\n')
	d = append(d, class...)
	d = append(d, '\n')
	room := 4096 - 16 - len(d) - 32
	n := len(in)
	if n*2 > room {
		n = room / 2
	}
	const hexd = "0123456789abcdef"
	for _, b := range in[:n] {
		d = append(d, hexd[b>>4], hexd[b&15])
	}
	if n < len(in) {
		d = append(d, fmt.Sprintf("...(%d bytes)", len(in))...)
	}
	putU64(m.mem[4088:4096], 0)
	putU64(m.mem[8:16], uint64(len(d)))
	putU64(m.mem[0:8], uint64(id))
}

// stage records which entry point of the current case is running (0 = the typed decoder, i = rawEntries[i-1]).
func (m *marker) stage(n int) {
	if m != nil {
		putU64(m.mem[4088:4096], uint64(n))
	}
}

func readStage(path string) int {
	b, err := os.ReadFile(path)
	if err != nil || len(b) < 4096 {
		return 0
	}
	return int(getU64(b[4088:4096]))
}

func putU64(b []byte, v uint64) {
	for i := 0; i < 8; i++ {
		b[i] = byte(v >> (8 * uint(i)))
	}
}

func getU64(b []byte) uint64 {
	var v uint64
	for i := 0; i < 8; i++ {
		v |= uint64(b[i]) << (8 * uint(i))
	}
	return v
}

func readMarker(path string) (id int, typ, entry, class, input string) {
	b, err := os.ReadFile(path)
	if err != nil || len(b) < 16 {
		return 0, "", "", "", ""
	}
	id = int(getU64(b[0:8]))
	n := int(getU64(b[8:16]))
	if n > len(b)-16 {
		n = len(b) - 16
	}
	parts := strings.SplitN(string(b[16:16+n]), "\n", 4)
	for len(parts) < 4 {
		parts = append(parts, "")
	}
	return id, parts[0], parts[1], parts[2], parts[3]
}

// ---- worker ----

func workerMain() {
	lim := syscall.Rlimit{Cur: memLimit, Max: memLimit}
	if err := syscall.Setrlimit(syscall.RLIMIT_AS, &lim); err != nil {
		vk.Fatalf("setrlimit: %v", err)
	}
	runtime.GOMAXPROCS(2)
	if pf := os.Getenv("C11_PROF"); pf != "" {
		if fh, err := os.Create(fmt.Sprintf("%s.%d", pf, os.Getpid())); err == nil {
			pprof.StartCPUProfile(fh)
			defer pprof.StopCPUProfile()
		}
	}
	reg := loadRegistry()
	roots := buildRoots(reg)
	mark := openMarker(*markFlag)
	in := bufio.NewReaderSize(os.Stdin, 1<<16)
	out := bufio.NewWriter(os.Stdout)
	for {
		line, err := in.ReadBytes('\n')
		if len(line) > 0 {
			var u unit
			if e := json.Unmarshal(line, &u); e != nil {
				vk.Fatalf("worker: bad unit: %v", e)
			}
			mark.set(0, "", "", "", nil)
			x := newExec(reg, roots, mark, &u)
			send := func(res *unitResult) {
				mark.set(0, "", "", "", nil)
				data, e := json.Marshal(res)
				if e != nil {
					vk.Fatalf("worker: marshal: %v", e)
				}
				out.Write(data)
				out.WriteByte('\n')
				out.Flush()
			}
			x.emit = send
			send(x.run(&u))
		}
		if err != nil {
			return
		}
	}
}

// ---- coordinator ----

var scratchDir string

// fatal is vk.Fatalf for the coordinator: removes the scratch directory first.
func fatal(format string, a ...interface{}) {
	if scratchDir != "" {
		os.RemoveAll(scratchDir)
	}
	vk.Fatalf(format, a...)
}

type workerProc struct {
	id     int
	cmd    *osexec.Cmd
	stdin  io.WriteCloser
	stdout *bufio.Reader
	stderr *bytes.Buffer
	mark   string
}

func startWorker(id int, dir string) *workerProc {
	exe, err := os.Executable()
	if err != nil {
		fatal("executable: %v", err)
	}
	mark := filepath.Join(dir, fmt.Sprintf("w%d.mark", id))
	if err := os.WriteFile(mark, make([]byte, 4096), 0600); err != nil {
		fatal("marker file: %v", err)
	}
	cmd := osexec.Command(exe, "--worker", "--mark", mark)
	cmd.Env = append(os.Environ(), "GOTRACEBACK=single")
	w := &workerProc{id: id, cmd: cmd, mark: mark, stderr: &bytes.Buffer{}}
	w.stdin, _ = cmd.StdinPipe()
	so, _ := cmd.StdoutPipe()
	w.stdout = bufio.NewReaderSize(so, 1<<20)
	cmd.Stderr = w.stderr
	if err := cmd.Start(); err != nil {
		fatal("start worker: %v", err)
	}
	return w
}

func (w *workerProc) stop() {
	w.stdin.Close()
	done := make(chan struct{})
	go func() { w.cmd.Wait(); close(done) }()
	select {
	case <-done:
	case <-time.After(5 * time.Second):
		w.cmd.Process.Kill()
		<-done
	}
}

type killer struct {
	Unit                      int
	Case                      int
	Type, Entry, Class, Input string
	Reason                    string // "oom" | "timeout" | "stack"
	Stderr                    string
}

// runUnit executes one unit on worker w (restarting the worker when it dies); returns the result and the cases
// that killed a worker.
func runUnit(w **workerProc, dir string, u unit, caseTimeout time.Duration) (*unitResult, []killer) {
	var killers []killer
	var merged *unitResult
	for attempt := 0; ; attempt++ {
		if attempt > 400 {
			fatal("unit %d (%s root %d): more than 400 worker deaths", u.ID, u.Kind, u.Root)
		}
		data, _ := json.Marshal(u)
		if _, err := (*w).stdin.Write(append(data, '\n')); err != nil {
			// worker already gone: restart once
			(*w).cmd.Process.Kill()
			(*w).cmd.Wait()
			*w = startWorker((*w).id, dir)
			continue
		}
		type rd struct {
			line []byte
			err  error
		}
		ch := make(chan rd, 1)
		read := func(r *bufio.Reader) {
			l, err := r.ReadBytes('\n')
			ch <- rd{l, err}
		}
		go read((*w).stdout)
		var got rd
		timedOut := false
		lastID, lastChange := -1, time.Now()
	wait:
		for {
			select {
			case got = <-ch:
				if got.err != nil {
					break wait
				}
				var res unitResult
				if err := json.Unmarshal(got.line, &res); err != nil {
					fatal("unit %d: bad worker result: %v", u.ID, err)
				}
				partial := res.Partial
				merged = mergeResult(merged, &res)
				if !partial {
					if merged.Restart {
						// a call that never returned is still spinning in that worker: replace it
						(*w).cmd.Process.Kill()
						(*w).cmd.Wait()
						*w = startWorker((*w).id, dir)
					}
					return merged, killers
				}
				u.StartEnc++
				lastChange = time.Now()
				go read((*w).stdout)
			case <-time.After(500 * time.Millisecond):
				id, _, _, _, _ := readMarker((*w).mark)
				if id != lastID {
					lastID, lastChange = id, time.Now()
				} else if id != 0 && time.Since(lastChange) > caseTimeout {
					timedOut = true
					(*w).cmd.Process.Kill()
					got = <-ch
					for got.err == nil {
						go read((*w).stdout)
						got = <-ch
					}
					break wait
				}
			}
		}
		// the worker died
		(*w).cmd.Wait()
		stderr := (*w).stderr.String()
		id, typ, entry, class, input := readMarker((*w).mark)
		tail := stderr
		if len(tail) > 1500 {
			tail = tail[:1500]
		}
		reason := ""
		switch {
		case timedOut:
			reason = "timeout"
		case strings.Contains(stderr, "out of memory") || strings.Contains(stderr, "cannot allocate memory"):
			reason = "oom"
		case strings.Contains(stderr, "stack overflow") || strings.Contains(stderr, "stack exceeds"):
			reason = "stack"
		}
		if reason == "" || id == 0 {
			fatal("worker died outside a recorded case (unit %d kind %s root %d, marker case %d): %s", u.ID, u.Kind, u.Root, id, tail)
		}
		if st := readStage((*w).mark); st >= 1 && st <= len(rawEntries) {
			typ, entry = rawTypeName, rawEntries[st-1]
		}
		killers = append(killers, killer{Unit: u.ID, Case: id, Type: typ, Entry: entry, Class: class, Input: input, Reason: reason, Stderr: firstLine(stderr)})
		u.Skip = append(u.Skip, id)
		*w = startWorker((*w).id, dir)
	}
}

func firstLine(s string) string {
	for _, l := range strings.Split(s, "\n") {
		if strings.TrimSpace(l) != "" {
			return l
		}
	}
	return ""
}

func main() {
	log.Root().SetHandler(log.DiscardHandler())
	if len(os.Args) > 1 && os.Args[1] == "--worker" {
		flag.Parse()
		workerMain()
		return
	}
	r := vk.Start("C11", "exploration")
	reg := loadRegistry()
	roots := buildRoots(reg)
	if *listFlag {
		for _, rt := range roots {
			for _, ep := range rt.Entries {
				fmt.Printf("%-22s %-50s %s\n", rt.Origin, rt.Name, ep)
			}
		}
		return
	}
	if os.Getenv("C11_STATS") != "" {
		// development aid: size of every root (valid encodings only, nothing hostile is decoded)
		for _, rt := range roots {
			p, c, _ := buildValue(reg, rt.T, nil)
			e, err := encodeFor(epBytes, p)
			top, _ := parseItems(reg, e)
			n := 0
			walk(top, func(*node) { n++ })
			alts := 0
			for _, pt := range c.pts {
				alts += pt.core - 1
			}
			fmt.Printf("%-50s slots=%4d alts=%5d len=%5d nodes=%4d err=%v\n", rt.Name, len(c.pts), alts, len(e), n, err)
		}
		return
	}
	if r.ReplayPath != "" {
		replayCase(r, reg, roots)
		return
	}

	// ---- the plan ----
	rtDev, rtDepth := 2, []int{0, 2}
	if !r.Quick() {
		rtDev, rtDepth = 3, []int{0, 0, 1}
	}
	var units []unit
	add := func(u unit) {
		u.ID = len(units)
		units = append(units, u)
	}
	type size struct {
		slots, length, nodes int
		altsByDepth          map[int]int // depth limit (0 = all) -> number of single deviations
	}
	sizes := make([]size, len(roots))
	slots := make([]int, len(roots))
	for i := range roots {
		var p reflect.Value
		var c *chooser
		if pv, val := vk.Catch(func() { p, c, _ = buildValue(reg, roots[i].T, nil) }); pv {
			vk.Fatalf("harness: building the default value of %s panics: %v", roots[i].Name, val)
		}
		sz := size{slots: len(c.pts), altsByDepth: map[int]int{}}
		for _, pt := range c.pts {
			for _, d := range []int{0, 1, 2} {
				if d == 0 || pt.depth <= d {
					sz.altsByDepth[d] += pt.core - 1
				}
			}
		}
		if pv, _ := vk.Catch(func() {
			e, _ := encodeFor(epBytes, p)
			top, _ := parseItems(reg, e)
			sz.length = len(e)
			walk(top, func(*node) { sz.nodes++ })
		}); pv {
			vk.Fatalf("encoding the default value of %s panics", roots[i].Name)
		}
		sizes[i], slots[i] = sz, sz.slots
	}
	// estimated cost of the hostile cases of one encoding, in microseconds
	perEncoding := func(sz size, reduce bool) int {
		cases := sz.length*17 + sz.nodes*30
		if reduce {
			cases = sz.nodes * 100
			if cases > sz.length*17+sz.nodes*30 {
				cases = sz.length*17 + sz.nodes*30
			}
		}
		return cases * (4 + sz.length/40)
	}
	add(unit{Kind: "audit", Cost: 1 << 41}) // the registry audit runs (and is reported) first
	add(unit{Kind: "maporder", Cost: 1 << 40})
	add(unit{Kind: "rawfamily", Cost: 1 << 39})
	for i := range roots {
		n := 1
		est := slots[i] * slots[i] * 30 * (4 + sizes[i].length/40) // pairs x alternatives^2, microseconds
		if !r.Quick() {
			est *= slots[i]/4 + 1
		}
		for n < 256 && est/n > 8e6 {
			n *= 2
		}
		for s := 0; s < n; s++ {
			add(unit{Kind: "rt", Root: i, Shard: s, NShards: n, MaxDev: rtDev, DepthLim: rtDepth, Cost: est / n, CutAll: r.Pick(8, 12)})
		}
		add(unit{Kind: "fit", Root: i, Cost: 2000000, CutAll: r.Pick(8, 12)})
	}
	devBudget := 4e6 // microseconds of estimated work per (root, entry point) in the quick tier
	for i := range roots {
		for _, ep := range roots[i].Entries {
			reduce := r.Quick()
			add(unit{Kind: "hostile", Root: i, Entry: ep, Shard: 0, NShards: 1, Corpus: "base", Reduce: reduce, Cost: 3 * perEncoding(sizes[i], reduce)})
			// the 1-deviation corpus
			lim, ok := 0, true
			devReduce := reduce || ep != epBytes || sizes[i].length > 2048
			if ep != epBytes && sizes[i].length > 1024 {
				// the other entry points differ from DecodeBytes in the handling of the prefix and of the input limit,
				// i.e. at the top of the value: for large roots their 1-deviation corpus stops at depth 2
				lim = 2
			}
			if r.Quick() {
				ok = false
				if ep == epBytes {
					for _, d := range []int{0, 2, 1} {
						if float64(sizes[i].altsByDepth[d]*perEncoding(sizes[i], true)) <= devBudget {
							lim, ok = d, true
							break
						}
					}
				}
			}
			if !ok || sizes[i].altsByDepth[lim] == 0 {
				continue
			}
			est := sizes[i].altsByDepth[lim] * perEncoding(sizes[i], devReduce)
			n := 1
			for n < 512 && est/n > 8e6 {
				n *= 2
			}
			var dl []int
			if lim > 0 {
				dl = []int{lim}
			}
			for s := 0; s < n; s++ {
				add(unit{Kind: "hostile", Root: i, Entry: ep, Shard: s, NShards: n, Corpus: "dev", MaxDev: 1, DepthLim: dl, Reduce: devReduce, Cost: est / n})
			}
		}
		add(unit{Kind: "short", Root: i, Cost: 100000})
	}

	if only := os.Getenv("C11_ONLY"); only != "" {
		// development aid: restrict the run to root types whose name contains one of the given substrings
		var keep []unit
		for _, u := range units {
			for _, sub := range strings.Split(only, ",") {
				if u.Kind != "maporder" && u.Kind != "audit" && u.Kind != "rawfamily" && strings.Contains(roots[u.Root].Name, sub) {
					u.ID = len(keep)
					keep = append(keep, u)
					break
				}
			}
		}
		units = keep
		r.Capped("C11_ONLY=" + only + ": restricted to a subset of the root types")
	}

	// ---- run ----
	nw := runtime.NumCPU()
	if v, err := strconv.Atoi(os.Getenv("VERIF_WORKERS")); err == nil && v > 0 {
		nw = v
	}
	dir := fmt.Sprintf("/dev/shm/C11-%d", os.Getpid())
	if err := os.MkdirAll(dir, 0700); err != nil {
		dir = fmt.Sprintf("/tmp/C11-%d", os.Getpid())
		if err := os.MkdirAll(dir, 0700); err != nil {
			vk.Fatalf("scratch dir: %v", err)
		}
	}
	scratchDir = dir
	defer os.RemoveAll(dir)
	sig := make(chan os.Signal, 1)
	signal.Notify(sig, syscall.SIGINT, syscall.SIGTERM)
	go func() {
		<-sig
		os.RemoveAll(dir)
		os.Exit(2)
	}()
	// expensive units first (better packing); results are merged in unit order, so the outcome does not depend on it
	order := make([]int, len(units))
	for i := range order {
		order[i] = i
	}
	sort.SliceStable(order, func(a, b int) bool { return units[order[a]].Cost > units[order[b]].Cost })
	results := make([]*unitResult, len(units))
	killersBy := make([][]killer, len(units))
	var mu sync.Mutex
	next := 0
	skippedUnits := 0
	var wg sync.WaitGroup
	caseTimeout := 30 * time.Second
	for k := 0; k < nw; k++ {
		wg.Add(1)
		go func(k int) {
			defer wg.Done()
			w := startWorker(k, dir)
			defer func() { w.stop() }()
			for {
				mu.Lock()
				if next >= len(order) {
					mu.Unlock()
					return
				}
				ui := order[next]
				next++
				if r.Expired() {
					skippedUnits++
					mu.Unlock()
					continue
				}
				mu.Unlock()
				t0 := time.Now()
				res, ks := runUnit(&w, dir, units[ui], caseTimeout)
				if os.Getenv("C11_DEBUG") != "" {
					u := units[ui]
					fmt.Fprintf(os.Stderr, "unit %d %s %s %s shard %d/%d: %.2fs deaths=%d\n", u.ID, u.Kind, roots[u.Root].Name, u.Entry, u.Shard, u.NShards, time.Since(t0).Seconds(), len(ks))
				}
				mu.Lock()
				results[ui], killersBy[ui] = res, ks
				mu.Unlock()
			}
		}(k)
	}
	wg.Wait()
	os.RemoveAll(dir)

	// ---- merge (unit order: deterministic) ----
	counters := map[string]int{}
	pairs := map[string]int{}
	outcomes := map[string]int{}
	observed := map[string]string{}
	opaque := map[string]bool{}
	maxRatio, maxRatioAt := 0, ""
	perRoot := make([]map[string]int, len(roots))
	for i := range perRoot {
		perRoot[i] = map[string]int{}
	}
	best := map[string]*violationRec{}
	var bestOrder []string
	for ui, res := range results {
		for _, k := range killersBy[ui] {
			key := "decode-alloc-unbounded:" + k.Type
			what := fmt.Sprintf("%s via %s: the process dies with `%s` (address space limited to %d GiB) while decoding %s", k.Type, k.Entry, k.Stderr, memLimit>>30, k.Input)
			switch k.Reason {
			case "timeout":
				key = "decode-does-not-terminate:" + k.Type
				if k.Type == rawTypeName {
					key = "decoder-does-not-return:" + k.Entry
				}
				what = fmt.Sprintf("%s via %s: no result after %v for input %s", k.Type, k.Entry, caseTimeout, k.Input)
			case "stack":
				key = "decode-stack-overflow:" + k.Type
			}
			kv := &violationRec{Key: key, What: what, Count: 1, Size: len(k.Input) / 2,
				Replay: map[string]interface{}{"phase": "hostile", "type": k.Type, "entry": k.Entry, "mutation": k.Class, "input": k.Input, "worker_died": k.Stderr}}
			if cur, ok := best[key]; ok {
				cur.Count++
				if kv.Size < cur.Size {
					cur.What, cur.Replay, cur.Size = kv.What, kv.Replay, kv.Size
				}
			} else {
				best[key] = kv
				bestOrder = append(bestOrder, key)
			}
			counters["worker_deaths"]++
		}
		if res == nil {
			continue
		}
		if res.Err != "" {
			vk.Fatalf("unit %d: %s", ui, res.Err)
		}
		for k, v := range res.Counters {
			counters[k] += v
			if units[ui].Kind != "maporder" && units[ui].Kind != "audit" && units[ui].Kind != "rawfamily" {
				perRoot[units[ui].Root][k] += v
			}
		}
		for k, v := range res.Pairs {
			pairs[k] += v
		}
		for k, v := range res.Outcomes {
			outcomes[k] += v
		}
		for k, v := range res.Observed {
			if _, ok := observed[k]; !ok {
				observed[k] = v
			}
		}
		for _, o := range res.Opaque {
			opaque[o] = true
		}
		if res.MaxRatioX > maxRatio {
			maxRatio, maxRatioAt = res.MaxRatioX, res.MaxRatioAt
		}
		for _, v := range res.Violations {
			if cur, ok := best[v.Key]; ok {
				cur.Count += v.Count
				if v.Size < cur.Size {
					cur.What, cur.Replay, cur.Size = v.What, v.Replay, v.Size
				}
			} else {
				cp := *v
				best[v.Key] = &cp
				bestOrder = append(bestOrder, v.Key)
			}
		}
	}
	// per root cause the SMALLEST failing input over all units is the one reported (ties: first in unit order)
	for _, k := range bestOrder {
		v := best[k]
		for i := 0; i < v.Count; i++ {
			r.Violation(v.Key, v.What, v.Replay)
		}
	}
	if skippedUnits > 0 {
		r.Capped(fmt.Sprintf("deadline: %d of %d units not run", skippedUnits, len(units)))
	}

	// ---- coverage ----
	var pairList []string
	for _, rt := range roots {
		for _, ep := range rt.Entries {
			pairList = append(pairList, fmt.Sprintf("%s | %s | %d decodes", rt.Name, ep, pairs[rt.Name+" | "+ep]))
		}
	}
	for _, ep := range rawEntries {
		pairList = append(pairList, fmt.Sprintf("%s | %s | %d decodes", rawTypeName, ep, pairs[rawTypeName+" | "+ep]))
	}
	var rootList []interface{}
	for i, rt := range roots {
		rootList = append(rootList, map[string]interface{}{"type": rt.Name, "origin": rt.Origin, "choice_points_on_default": slots[i],
			"values": perRoot[i]["values"], "hostile_decodes": perRoot[i]["hostile_decodes"], "corpus_encodings": perRoot[i]["corpus_encodings"]})
	}
	var opq []string
	for o := range opaque {
		opq = append(opq, o)
	}
	sort.Strings(opq)
	decodes := counters["raw_splitter_calls"] + counters["roundtrip_decodes"] + counters["hostile_decodes"] + counters["accepted_value_roundtrips"] + counters["map_encodings"] + counters["chunked_stream_decodes"]
	r.Set("root_types", len(roots))
	r.Set("registered_concrete_types", len(reg.concrete))
	r.Set("registered_interface_types", len(reg.ifaces))
	r.Set("type_entrypoint_pairs", len(pairList))
	r.Set("pairs", pairList)
	r.Set("roots", rootList)
	r.Set("units", len(units))
	r.Set("workers", nw)
	r.Set("counters", counters)
	r.Set("decode_outcome_classes", outcomes)
	r.Set("observations_outside_the_property", observed)
	r.Set("fields_not_populated", opq)
	r.Set("diagnostics_gc_dependent", map[string]interface{}{"max_alloc_bytes_per_input_byte_x1000_among_inspected_batches": maxRatio, "max_alloc_case": maxRatioAt})
	r.Set("bounds", map[string]interface{}{"round_trip_max_fields_off_default": rtDev, "round_trip_depth_limit_per_deviation": rtDepth,
		"hostile_corpus_max_fields_off_default": 1,
		"boundary_values_one_at_a_time":         "unsigned: 2^k-1,2^k,2^k+1 for k in {7,8,16,24,32,40,48,56}; big.Int: the same up to k=128 plus 55/56-byte values; byte strings and strings: lengths 55,56,255,256,65535,65536,65537 (raw []byte root also 2^24-1,2^24,2^24+1); lists of unsigned / of byte strings: payload exactly 55,56,255,256,65535,65536,65537",
		"stream_readers":                        fmt.Sprintf("DecodeReader / DecodeReaderWithType on every round-trip value: chunks of 1,2,3,7,64,len/3,len/2-1 (values with >= 2 fields off default: 1,3,7,len/3; > 1024 bytes: 7,len/3), last chunk with io.EOF, one (0,nil) read, bufio-wrapped and direct ByteReader; encodings of values with <= 1 field off default: every composition into chunks up to %d bytes, every composition with <= 3 cuts up to %d bytes and <= 2 cuts up to 24 bytes; hostile inputs of the streaming entry points: 3 chunkings each (1 when > 1024 bytes)", r.Pick(8, 12), r.Pick(8, 12)+8),
		"payload_fitting":                       "per root, up to 6 byte-string fields x top-level list payload exactly 55,56,255,256,65535,65536,65537", "substitution_bytes": fmt.Sprintf("%x", substSet), "hostile_items": len(hostileItems()),
		"alloc_bound": fmt.Sprintf("%d + %d*len(input) (+%d for reader entry points)", allocConst, allocPerByte, 2*readerLimit), "address_space_limit": memLimit})
	r.Set("states", counters["distinct_encodings"])
	r.Set("transitions", decodes)
	r.Set("traces_validated_against_impl", decodes)
	r.Set("evaluations", decodes+counters["equal_value_encodings_compared"])
	r.Set("distinct_nontrivial", counters["distinct_encodings"])
	r.Set("distinct_decode_outcomes", len(outcomes))
	r.Set("rule", "depth-1 input enumeration: state = distinct valid encoding produced by the real encoder (summed over units); transition = one execution of a real decoder entry point on a valid or hostile input, each checked against the oracle (round trip / no panic / allocation bound)")
	r.Sample(map[string]interface{}{"example_pairs": pairList[:min(6, len(pairList))]})
	r.Assume("values: every field ranges over a small boundary domain (see gen.go); at most k fields differ from the populated default; deeper combinations are outside the bound")
	r.Assume("equality is taken over the fields the codec carries, modulo the nil/empty foldings documented in libs/ser (nil pointer = empty encoding, nil = empty slice/map, nil *big.Int = 0, time = (sec, nsec) in UTC)")
	r.Assume("types.Log carries Address/Topics/Data only (types/log.go: the other fields are derived, not consensus fields)")
	r.Assume("decoders are called the way the repository calls them: DecodeReader* with a limit of 1 MiB; the unlimited ser.Decode on a stream (documented as unsafe in decode.go) is not an entry point")
	r.Assume("reader behaviour: how a stream delivers the bytes is enumerated for the two ser streaming entry points (chunk sizes, compositions of short encodings, data+EOF, zero-length read); WALDecoder reads its frame with bare Read calls from a GroupReader that fills the buffer (framing belongs to C14) and is not chunked here")
	r.Assume("hostile WAL input is a correctly framed (crc, length) hostile payload; the framing itself belongs to C14")
	r.Assume("Bulletproofs inside the real confidential transaction are the ideal functionality of /verif/xcrypto_model; the codec does not look at them")
	if skippedUnits == 0 && os.Getenv("C11_ONLY") == "" {
		if len(outcomes) < 5 || counters["values"] == 0 || counters["hostile_decodes"] == 0 || counters["map_insertion_orders"] == 0 || counters["hostile_accepted"] == 0 {
			vk.Fatalf("non-vacuity: %d distinct decode outcomes, %d values, %d hostile decodes, %d map orders, %d accepted", len(outcomes), counters["values"], counters["hostile_decodes"], counters["map_insertion_orders"], counters["hostile_accepted"])
		}
	}
	r.Finish()
}

func min(a, b int) int {
	if a < b {
		return a
	}
	return b
}

// replayCase re-runs one recorded case (in a worker subprocess, like the original run).
func replayCase(r *vk.Run, reg *registry, roots []root) {
	var rp struct {
		Phase   string     `json:"phase"`
		Type    string     `json:"type"`
		Entry   string     `json:"entry"`
		Input   string     `json:"input"`
		Choices []int      `json:"choices"`
		OvIdx   int        `json:"ov_idx"`
		OvLen   int        `json:"ov_len"`
		Reader  *chunkSpec `json:"reader"`
	}
	r.LoadReplay(&rp)
	dir := fmt.Sprintf("/dev/shm/C11-%d", os.Getpid())
	if err := os.MkdirAll(dir, 0700); err != nil {
		vk.Fatalf("scratch dir: %v", err)
	}
	defer os.RemoveAll(dir)
	u := unit{Kind: "replay-hostile", TypeName: rp.Type, Entry: rp.Entry, InputHex: rp.Input}
	if rp.Phase == "round-trip" {
		u = unit{Kind: "replay-rt", TypeName: rp.Type, Choices: rp.Choices, OvIdx: rp.OvIdx, OvLen: rp.OvLen}
	}
	if rp.Phase == "chunked-stream" {
		u = unit{Kind: "replay-chunk", TypeName: rp.Type, Entry: rp.Entry, InputHex: rp.Input, Reader: rp.Reader}
	}
	if rp.Phase == "raw" {
		u = unit{Kind: "replay-raw", InputHex: rp.Input}
	}
	if rp.Phase == "registry-audit" {
		u = unit{Kind: "audit"}
	}
	if rp.Phase == "map-order" {
		u = unit{Kind: "maporder"}
	}
	w := startWorker(0, dir)
	res, ks := runUnit(&w, dir, u, 30*time.Second)
	w.stop()
	os.RemoveAll(dir)
	for _, k := range ks {
		r.Violation("decode-alloc-unbounded:"+k.Type, fmt.Sprintf("%s via %s: worker died (%s): %s", k.Type, k.Entry, k.Reason, k.Stderr), rp)
	}
	if res != nil {
		if res.Err != "" {
			vk.Fatalf("%s", res.Err)
		}
		for _, v := range res.Violations {
			r.Violation(v.Key, v.What, v.Replay)
		}
	}
	r.Finish()
}

// mergeResult adds b (a partial or final result of the same unit) to a.
func mergeResult(a, b *unitResult) *unitResult {
	if a == nil {
		b.Partial = false
		return b
	}
	for k, v := range b.Counters {
		a.Counters[k] += v
	}
	for k, v := range b.Pairs {
		a.Pairs[k] += v
	}
	for k, v := range b.Outcomes {
		a.Outcomes[k] += v
	}
	for k, v := range b.Observed {
		if _, ok := a.Observed[k]; !ok {
			a.Observed[k] = v
		}
	}
	a.Opaque = append(a.Opaque, b.Opaque...)
	if b.Slots > a.Slots {
		a.Slots = b.Slots
	}
	if b.MaxRatioX > a.MaxRatioX {
		a.MaxRatioX, a.MaxRatioAt = b.MaxRatioX, b.MaxRatioAt
	}
	if b.Err != "" {
		a.Err = b.Err
	}
	a.Restart = a.Restart || b.Restart
outer:
	for _, v := range b.Violations {
		for _, w := range a.Violations {
			if w.Key == v.Key {
				w.Count += v.Count
				continue outer
			}
		}
		a.Violations = append(a.Violations, v)
	}
	return a
}
