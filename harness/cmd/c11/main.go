package main

import (
	"fmt"

	_ "github.com/lianxiangcloud/linkchain/blockchain"
	_ "github.com/lianxiangcloud/linkchain/consensus"
	_ "github.com/lianxiangcloud/linkchain/evidence"
	"github.com/lianxiangcloud/linkchain/libs/log"
	_ "github.com/lianxiangcloud/linkchain/libs/p2p/conn"
	"github.com/lianxiangcloud/linkchain/libs/ser"
	_ "github.com/lianxiangcloud/linkchain/mempool"
	_ "github.com/lianxiangcloud/linkchain/state"
	_ "github.com/lianxiangcloud/linkchain/types"
)

func main() {
	log.Root().SetHandler(log.DiscardHandler())
	cs, is := ser.VerifC11Registry()
	for _, c := range cs {
		fmt.Printf("concrete %-50v name=%-40s disfix=%x ptr=%v\n", c.Type, c.Name, c.Disfix, c.PointerPreferred)
	}
	for _, i := range is {
		fmt.Printf("iface %v nmethods=%d\n", i, i.NumMethod())
	}
}
