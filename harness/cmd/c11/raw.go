package main

// The RAW splitter entry points of libs/ser (raw.go: Split, SplitString, SplitList, CountValues, backed by the
// package-level readKind / readSize - a different code path from Stream.readKind) take untrusted bytes as well:
// libs/trie decodeNode (proof nodes from peers, trie.VerifyProof) and state_object.GetCommittedState call them.
// They get (a) every hostile input that is presented to ser.DecodeBytes for any root type and (b) a header-boundary
// family. Oracle: value or error; no panic; the call returns (a per-call deadline in the family, the coordinator's
// watchdog for the bulk); content and rest lie inside the input, rest is its suffix, content sits right in front of
// rest behind a tag of 0..9 bytes; on error rest is the whole input; SplitString / SplitList agree with Split;
// CountValues agrees with iterating Split.

import (
	"encoding/binary"
	"fmt"
	"reflect"
	"time"

	"github.com/lianxiangcloud/linkchain/libs/common"
	"github.com/lianxiangcloud/linkchain/libs/crypto"
	"github.com/lianxiangcloud/linkchain/libs/ser"
	"github.com/lianxiangcloud/linkchain/libs/trie"
)

const (
	epSplit       = "ser.Split"
	epSplitString = "ser.SplitString"
	epSplitList   = "ser.SplitList"
	epCountValues = "ser.CountValues"
	epTrieNode    = "trie.VerifyProof(one-node proof -> decodeNode)"
	rawTypeName   = "(raw bytes)"
)

// rawEntries: index+1 is the marker stage of the entry point
var rawEntries = []string{epSplit, epSplitString, epSplitList, epCountValues, epTrieNode}

var rawRoot = &root{Name: rawTypeName}

type oneNodeProof struct {
	hash common.Hash
	node []byte
}

func (p *oneNodeProof) Load(key []byte) ([]byte, error) {
	if string(key) == string(p.hash[:]) {
		return p.node, nil
	}
	return nil, nil
}
func (p *oneNodeProof) Exist(key []byte) (bool, error) { return string(key) == string(p.hash[:]), nil }

func slicePtr(b []byte) uintptr { return reflect.ValueOf(b).Pointer() }

// splitShape checks the geometry of a successful / failed split of in.
func splitShape(in, content, rest []byte, err error) string {
	if err != nil {
		if len(rest) != len(in) || (len(in) > 0 && slicePtr(rest) != slicePtr(in)) {
			return "error-but-rest-is-not-the-input"
		}
		if len(content) != 0 {
			return "error-with-content"
		}
		return ""
	}
	tag := len(in) - len(rest) - len(content)
	if tag < 0 || tag > 9 {
		return "content-and-rest-lengths-inconsistent"
	}
	if len(in) == 0 {
		return "success-on-empty-input"
	}
	base := slicePtr(in)
	if len(rest) > 0 && slicePtr(rest) != base+uintptr(len(in)-len(rest)) {
		return "rest-is-not-the-suffix-of-the-input"
	}
	if len(content) > 0 && slicePtr(content) != base+uintptr(len(in)-len(rest)-len(content)) {
		return "content-is-not-in-front-of-rest"
	}
	return ""
}

type splitRes struct {
	kind          ser.Kind
	content, rest []byte
	err           error
}

// rawCall runs one raw entry point on in and checks its own result; direct=false runs it under a deadline.
func (x *executor) rawCall(stage int, in []byte, class string, f func() string, deadline time.Duration) {
	ep := rawEntries[stage-1]
	if x.rawPoisoned[ep] {
		x.res.Counters["raw_calls_skipped_after_a_non_returning_call"]++
		return
	}
	x.mark.stage(stage)
	x.res.Counters["raw_splitter_calls"]++
	x.pairCount(rawRoot, ep)
	replay := func(extra string) interface{} {
		return map[string]interface{}{"phase": "raw", "type": rawTypeName, "entry": ep, "mutation": class, "input": hexOf(in), "detail": extra}
	}
	var bad string
	var c caught
	if deadline == 0 {
		c = guard(func() { bad = f() })
	} else {
		done := make(chan struct{})
		go func() {
			c = guard(func() { bad = f() })
			close(done)
		}()
		select {
		case <-done:
		case <-time.After(deadline):
			// the goroutine cannot be stopped: the entry point is not called again in this unit and the worker is
			// replaced afterwards
			x.rawPoisoned[ep] = true
			x.res.Restart = true
			x.violation("decoder-does-not-return:"+ep, fmt.Sprintf("%s does not return within %v for the %d input bytes %s", ep, deadline, len(in), hexOf(in)), replay("no return"))
			return
		}
	}
	switch {
	case c.panicked:
		x.res.Outcomes["raw: panic"]++
		x.violation("decode-panic:"+c.site+":"+errClass(fmt.Sprint(c.val)), fmt.Sprintf("%s panics: %v  input=%s", ep, c.val, hexOf(in)), replay(fmt.Sprint(c.val)))
	case bad != "":
		x.violation("raw-splitter:"+ep+":"+bad, fmt.Sprintf("%s on the %d input bytes %s: %s", ep, len(in), hexOf(in), bad), replay(bad))
	}
}

// rawChecks presents in to every raw entry point.
func (x *executor) rawChecks(in []byte, class string, deadline time.Duration, withTrie bool) {
	x.curSize = len(in)
	var sp splitRes
	spOK := false
	x.rawCall(1, in, class, func() string {
		sp.kind, sp.content, sp.rest, sp.err = ser.Split(in)
		spOK = true
		if sp.err != nil {
			x.res.Outcomes["raw: error: "+errClass(sp.err.Error())]++
		} else {
			x.res.Outcomes["raw: split ok"]++
		}
		return splitShape(in, sp.content, sp.rest, sp.err)
	}, deadline)
	for i, f := range []func([]byte) ([]byte, []byte, error){ser.SplitString, ser.SplitList} {
		wantList := i == 1
		x.rawCall(2+i, in, class, func() string {
			content, rest, err := f(in)
			if s := splitShape(in, content, rest, err); s != "" {
				return s
			}
			if spOK {
				should := sp.err == nil && (sp.kind == ser.List) == wantList
				if should != (err == nil) {
					return "disagrees-with-Split-on-acceptance"
				}
				if err == nil && (len(content) != len(sp.content) || len(rest) != len(sp.rest)) {
					return "disagrees-with-Split-on-content-or-rest"
				}
			}
			return ""
		}, deadline)
	}
	x.rawCall(4, in, class, func() string {
		n, err := ser.CountValues(in)
		// reference: iterate Split
		cnt, b := 0, in
		var ierr error
		for len(b) > 0 {
			_, _, rest, e := ser.Split(b)
			if e != nil {
				ierr = e
				break
			}
			if len(rest) >= len(b) {
				return "Split-makes-no-progress"
			}
			b = rest
			cnt++
		}
		if (err == nil) != (ierr == nil) {
			return "CountValues-and-iterated-Split-disagree-on-acceptance"
		}
		if err == nil && n != cnt {
			return "CountValues-and-iterated-Split-disagree-on-the-count"
		}
		return ""
	}, deadline)
	if withTrie {
		x.rawCall(5, in, class, func() string {
			p := &oneNodeProof{hash: crypto.Keccak256Hash(in), node: in}
			_, _, err := trie.VerifyProof(p.hash, []byte("k"), p)
			if err != nil {
				x.res.Outcomes["trie node: error"]++
			} else {
				x.res.Outcomes["trie node: accepted"]++
			}
			return ""
		}, deadline)
	}
	x.mark.stage(0)
}

// headerFamily: for both long-form kinds and every length-of-length n = 1..8, declared sizes at the boundaries of the
// size arithmetic, in front of short bodies (declared size below / at / above what is there = 0..3 trailing bytes).
func headerFamily(f func(in []byte)) {
	bodies := [][]byte{}
	for _, l := range []int{0, 1, 2, 3, 56, 57, 58, 59} {
		for _, fill := range []byte{0x01, 0xc0} {
			b := make([]byte, l)
			for i := range b {
				b[i] = fill
			}
			bodies = append(bodies, b)
			if l == 0 {
				break
			}
		}
	}
	for _, base := range []byte{0xB7, 0xF7} {
		for n := 1; n <= 8; n++ {
			var max uint64 = ^uint64(0)
			if n < 8 {
				max = 1<<(8*uint(n)) - 1
			}
			sizes := map[uint64]bool{0: true, 55: true, 56: true, max: true}
			if n > 1 {
				sizes[1<<(8*uint(n-1))] = true
				sizes[1<<(8*uint(n-1))-1] = true
			}
			for d := uint64(0); d <= uint64(n)+2; d++ { // 2^(8n)-tagsize-1 .. 2^(8n)-1
				sizes[max-d] = true
			}
			for _, body := range bodies {
				all := map[uint64]bool{}
				for s := range sizes {
					all[s] = true
				}
				for d := -3; d <= 1; d++ {
					if v := len(body) + d; v >= 0 {
						all[uint64(v)] = true
					}
				}
				// fixed order
				var list []uint64
				for s := range all {
					if s <= max {
						list = append(list, s)
					}
				}
				sortU64(list)
				for _, s := range list {
					var sz [8]byte
					binary.BigEndian.PutUint64(sz[:], s)
					in := append([]byte{base + byte(n)}, sz[8-n:]...)
					in = append(in, body...)
					f(in)
				}
			}
		}
	}
}

func sortU64(a []uint64) {
	for i := 1; i < len(a); i++ {
		for j := i; j > 0 && a[j] < a[j-1]; j-- {
			a[j], a[j-1] = a[j-1], a[j]
		}
	}
}

// rawFamilyUnit: the header-boundary family and every byte string of length <= 3, each call under a deadline.
func (x *executor) rawFamilyUnit() {
	x.caseID = 0
	run := func(class string, in []byte) {
		x.caseID++
		x.mark.set(x.caseID, rawTypeName, "raw splitters", class, in)
		x.res.Counters["raw_inputs:"+class]++
		x.rawChecks(in, class, 20*time.Second, true)
	}
	headerFamily(func(in []byte) { run("header-boundary", in) })
	shortStrings(func(in []byte) { run("short", in) })
}
