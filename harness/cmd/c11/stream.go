package main

// How the bytes reach a STREAMING decoder is an answer of the environment: an io.Reader may hand a value over in
// pieces of any size, may return the last piece together with io.EOF, and may return (0, nil). The result of
// ser.DecodeReader / ser.DecodeReaderWithType must not depend on it. For every round-trip value (and for the hostile
// corpus, a few chunkings) the decode is repeated through readers that
//   - cut the input into fixed chunks of 1, 2, 3, 7, 64, len/3, len/2-1 bytes,
//   - cut it in EVERY possible way (all 2^(n-1) compositions) when it is short, and in every way into <= 4 chunks
//     when it is at most 24 bytes long,
//   - return the final chunk together with io.EOF, or return (0, nil) once,
// both as a plain io.Reader (libs/ser then wraps it into a bufio.Reader, as for block parts) and as a reader that
// implements io.ByteReader itself (libs/ser then reads from it directly, as MConnection's bufio.Reader over the
// socket). Oracle: same value, same error class and same number of consumed bytes as the one-shot decode.

import (
	"fmt"
	"io"
	"reflect"

	"github.com/lianxiangcloud/linkchain/libs/ser"
)

type chunkSpec struct {
	Fixed  int    `json:"fixed,omitempty"` // > 0: chunks of this size
	Mask   uint32 `json:"mask,omitempty"`  // Fixed == 0: bit i-1 set = cut before byte i (inputs of <= 24 bytes)
	Direct bool   `json:"direct"`          // the reader implements io.ByteReader (no bufio in between)
	EOF    bool   `json:"eof,omitempty"`   // the last chunk is returned together with io.EOF
	Zero   bool   `json:"zero,omitempty"`  // the second Read call returns (0, nil)
}

func (s chunkSpec) String() string {
	k := "bufio-wrapped"
	if s.Direct {
		k = "direct ByteReader"
	}
	c := fmt.Sprintf("chunks of %d", s.Fixed)
	if s.Fixed == 0 {
		c = fmt.Sprintf("cuts %b", s.Mask)
	}
	b := ""
	if s.EOF {
		b += ", last chunk with io.EOF"
	}
	if s.Zero {
		b += ", one (0,nil) read"
	}
	return k + ", " + c + b
}

func (s chunkSpec) behaviour() string {
	switch {
	case s.EOF:
		return "data-with-EOF"
	case s.Zero:
		return "zero-length-read"
	}
	return "chunking"
}

type chunkReader struct {
	b     []byte
	p     int
	spec  chunkSpec
	calls int
}

func (r *chunkReader) next() int { // next cut position after r.p
	if r.spec.Fixed > 0 {
		return (r.p/r.spec.Fixed + 1) * r.spec.Fixed
	}
	for i := r.p + 1; i < len(r.b); i++ {
		if i-1 < 32 && r.spec.Mask&(1<<uint(i-1)) != 0 {
			return i
		}
	}
	return len(r.b)
}

func (r *chunkReader) Read(p []byte) (int, error) {
	call := r.calls
	r.calls++
	if r.spec.Zero && call == 1 {
		return 0, nil
	}
	if r.p >= len(r.b) {
		return 0, io.EOF
	}
	if len(p) == 0 {
		return 0, nil
	}
	end := r.next()
	if end > len(r.b) {
		end = len(r.b)
	}
	n := copy(p, r.b[r.p:end])
	r.p += n
	if r.spec.EOF && r.p == len(r.b) {
		return n, io.EOF
	}
	return n, nil
}

type chunkByteReader struct{ chunkReader }

func (r *chunkByteReader) ReadByte() (byte, error) {
	if r.p >= len(r.b) {
		return 0, io.EOF
	}
	c := r.b[r.p]
	r.p++
	return c, nil
}

func (s chunkSpec) reader(in []byte) io.Reader {
	if s.Direct {
		return &chunkByteReader{chunkReader{b: in, spec: s}}
	}
	return &chunkReader{b: in, spec: s}
}

type streamFn func(r io.Reader) (reflect.Value, int64, error)

// streamEntry returns the streaming form of an entry point (nil: the entry point takes a byte slice).
func streamEntry(t reflect.Type, name string) streamFn {
	switch name {
	case epReader:
		return func(r io.Reader) (reflect.Value, int64, error) {
			p := reflect.New(t)
			n, err := ser.DecodeReader(r, p.Interface(), readerLimit)
			return p, n, err
		}
	case epReaderT:
		return func(r io.Reader) (reflect.Value, int64, error) {
			p := reflect.New(t)
			n, err := ser.DecodeReaderWithType(r, p.Interface(), readerLimit)
			return p, n, err
		}
	}
	return nil
}

// fixedSpecs: the chunkings applied to a round-trip value. full=false (values with two or more fields off default, the
// bulk): chunk sizes 1, 3, 7, len/3 and the two special reader behaviours with 1-byte chunks on a direct reader.
func fixedSpecs(n int, full bool) []chunkSpec {
	var out []chunkSpec
	sizes, special := []int{1, 2, 3, 7, 64, n / 3, n/2 - 1}, []int{1, 7, n / 3}
	if !full {
		sizes, special = []int{1, 3, 7, n / 3}, []int{1}
		if n > 1024 {
			sizes, special = []int{7, n / 3}, nil // large values: the cost of a decode is proportional to the size
		}
	}
	seen := map[int]bool{}
	for _, k := range sizes {
		if k < 1 || seen[k] {
			continue
		}
		seen[k] = true
		for _, d := range []bool{false, true} {
			if !full && !d && k != 3 {
				continue // the bufio-wrapped kind (a 4 KiB buffer per decode) for one chunk size only
			}
			out = append(out, chunkSpec{Fixed: k, Direct: d})
		}
	}
	seen = map[int]bool{}
	for _, k := range special {
		if k < 1 || seen[k] {
			continue
		}
		seen[k] = true
		for _, d := range []bool{false, true} {
			if !full && !d {
				continue
			}
			out = append(out, chunkSpec{Fixed: k, Direct: d, EOF: true}, chunkSpec{Fixed: k, Direct: d, Zero: true})
		}
	}
	return out
}

func popcount(m uint32) int {
	c := 0
	for ; m != 0; m &= m - 1 {
		c++
	}
	return c
}

// compositionSpecs: every way to cut an n-byte input when n <= allUpTo (both reader kinds); every way with at most 3
// cuts when n <= allUpTo+8 and with at most 2 cuts when n <= 24 (direct reader; three reads of one payload need two cuts).
func compositionSpecs(n, allUpTo int, f func(chunkSpec)) {
	if n < 2 || n > 24 {
		return
	}
	maxCuts := 32
	if n > allUpTo {
		maxCuts = 3
	}
	if n > allUpTo+8 {
		maxCuts = 2
	}
	for m := uint32(1); m < 1<<uint(n-1); m++ {
		if popcount(m) > maxCuts {
			continue
		}
		f(chunkSpec{Mask: m, Direct: true})
		if n <= allUpTo {
			f(chunkSpec{Mask: m, Direct: false})
		}
	}
}

type streamRef struct {
	val      reflect.Value
	n        int64
	err      error
	panicked bool
}

// chunked runs one chunking of input in through the streaming entry point and compares with ref.
func (x *executor) chunked(r *root, ep string, sfn streamFn, in []byte, ref streamRef, spec chunkSpec, phase string) {
	var q reflect.Value
	var n int64
	var err error
	c := guard(func() { q, n, err = sfn(spec.reader(in)) })
	x.res.Counters["chunked_stream_decodes"]++
	key := "stream-decode-depends-on-reader:" + spec.behaviour()
	replay := func() interface{} {
		return map[string]interface{}{"phase": "chunked-stream", "type": r.Name, "entry": ep, "input": hexOf(in), "reader": spec, "found_in": phase}
	}
	desc := fmt.Sprintf("%s via %s, %d input bytes delivered by a reader (%s)", r.Name, ep, len(in), spec)
	switch {
	case c.panicked:
		x.violation("decode-panic:"+c.site+":"+errClass(fmt.Sprint(c.val)), desc+fmt.Sprintf(": panic %v  input=%s", c.val, hexOf(in)), replay())
	case (err == nil) != (ref.err == nil):
		x.violation(key, desc+fmt.Sprintf(": error %v, but %v when the same bytes arrive in one piece  input=%s", err, ref.err, hexOf(in)), replay())
	case err != nil:
		if errClass(err.Error()) != errClass(ref.err.Error()) {
			x.violation(key, desc+fmt.Sprintf(": error %q, but %q when the same bytes arrive in one piece  input=%s", err, ref.err, hexOf(in)), replay())
		}
	default:
		if m := diff(ref.val.Elem(), q.Elem(), r.Name); m != nil {
			x.violation(key, desc+fmt.Sprintf(": decoded value differs at %s (%s) from the value decoded when the same bytes arrive in one piece  input=%s", m.Path, m.What, hexOf(in)), replay())
		} else if n != ref.n {
			x.violation(key, desc+fmt.Sprintf(": %d bytes consumed, %d when the same bytes arrive in one piece", n, ref.n), replay())
		}
	}
}

// chunkedValue: all chunkings of a valid encoding e of value p for the streaming entry point ep.
func (x *executor) chunkedValue(r *root, ep string, p reflect.Value, e []byte, allUpTo int, full bool) {
	sfn := streamEntry(r.T, ep)
	if sfn == nil || len(e) > readerLimit-64 {
		return
	}
	ref := streamRef{val: p, n: int64(len(e))}
	x.curSize = len(e)
	for _, spec := range fixedSpecs(len(e), full) {
		x.chunked(r, ep, sfn, e, ref, spec, "round-trip")
	}
	if full && len(e) <= 24 { // values with at most one field off default (and zero / real / fitted values)
		h := string(e) + "|" + ep
		if !x.composed[h] {
			x.composed[h] = true
			x.res.Counters["encodings_cut_in_every_way"]++
			compositionSpecs(len(e), allUpTo, func(spec chunkSpec) { x.chunked(r, ep, sfn, e, ref, spec, "round-trip") })
		}
	}
}

// hostileSpecs: the chunkings applied to every hostile input of a streaming entry point.
var hostileSpecs = []chunkSpec{{Fixed: 1, Direct: false}, {Fixed: 3, Direct: true}, {Fixed: 7, Direct: true, EOF: true}}
