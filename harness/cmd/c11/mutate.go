package main

// Hostile byte strings derived from valid encodings, all enumerated (nothing sampled):
//   trunc      every proper prefix of the encoding
//   byte       every offset x every byte of substSet (a different byte than the original)
//   item       every node of the encoding's item tree (string item, list, type prefix) replaced by every member of a
//              fixed set of hostile items, deleted, or duplicated, with the length headers of all enclosing lists
//              recomputed so that the result stays well-formed and the decoder reaches the replaced item
//   prefix     every 7-byte registered-type prefix replaced by every other registered prefix and by the nil marker
//   short      every byte string of length <= 3 over substSet (independent of any encoding)

import (
	"bytes"
	"encoding/binary"
)

var substSet = []byte{0x00, 0x01, 0x7f, 0x80, 0xb7, 0xb8, 0xbf, 0xc0, 0xf7, 0xf8, 0xff, 0x2d, 0x30, 0x66, 0x81, 0xc1}

// node of the item tree of a valid encoding
type node struct {
	off, hdr, size int // [off, off+hdr+size)
	kind           int // 0 single byte, 1 string, 2 list, 3 type prefix (7 raw bytes)
	kids           []*node
	parent         *node
}

func (n *node) end() int { return n.off + n.hdr + n.size }

// parseItems parses a valid encoding into its item tree. Interface values are written as 7 raw prefix bytes (or the
// single byte 0x00 for nil) in front of the value; the prefix is recognised by comparing with the registered
// prefixes. ok=false: the bytes do not tile into items (never expected for an encoder output).
func parseItems(reg *registry, e []byte) (top []*node, ok bool) {
	var parse func(lo, hi int, parent *node) ([]*node, bool)
	parse = func(lo, hi int, parent *node) ([]*node, bool) {
		var out []*node
		for p := lo; p < hi; {
			if p+7 <= hi {
				var d [7]byte
				copy(d[:], e[p:p+7])
				if _, isPrefix := reg.disfixes[d]; isPrefix {
					out = append(out, &node{off: p, hdr: 7, kind: 3, parent: parent})
					p += 7
					continue
				}
			}
			b := e[p]
			n := &node{off: p, parent: parent}
			switch {
			case b < 0x80:
				n.kind, n.hdr, n.size = 0, 1, 0
			case b < 0xb8:
				n.kind, n.hdr, n.size = 1, 1, int(b-0x80)
			case b < 0xc0:
				l := int(b - 0xb7)
				if p+1+l > hi {
					return nil, false
				}
				n.kind, n.hdr, n.size = 1, 1+l, int(beUint(e[p+1:p+1+l]))
			case b < 0xf8:
				n.kind, n.hdr, n.size = 2, 1, int(b-0xc0)
			default:
				l := int(b - 0xf7)
				if p+1+l > hi {
					return nil, false
				}
				n.kind, n.hdr, n.size = 2, 1+l, int(beUint(e[p+1:p+1+l]))
			}
			if n.size < 0 || n.end() > hi {
				return nil, false
			}
			if n.kind == 2 {
				kids, ok := parse(n.off+n.hdr, n.end(), n)
				if !ok {
					return nil, false
				}
				n.kids = kids
			}
			out = append(out, n)
			p = n.end()
		}
		return out, true
	}
	return parse(0, len(e), nil)
}

func beUint(b []byte) uint64 {
	var buf [8]byte
	if len(b) > 8 {
		return 1 << 62
	}
	copy(buf[8-len(b):], b)
	return binary.BigEndian.Uint64(buf[:])
}

func header(base byte, size int) []byte {
	if size < 56 {
		return []byte{base + byte(size)}
	}
	var buf [8]byte
	binary.BigEndian.PutUint64(buf[:], uint64(size))
	i := 0
	for buf[i] == 0 {
		i++
	}
	return append([]byte{base + 55 + byte(8-i)}, buf[i:]...)
}

func strItem(b []byte) []byte {
	if len(b) == 1 && b[0] < 0x80 {
		return []byte{b[0]}
	}
	return append(header(0x80, len(b)), b...)
}

func listItem(payload []byte) []byte { return append(header(0xc0, len(payload)), payload...) }

type repl struct {
	name string
	b    []byte
}

// hostileItems: the replacement set of the "item" mutation. Signed integers travel as hexadecimal text in this
// codec (encode.go writeInt), so the integer extremes are text items.
func hostileItems() []repl {
	rep := func(b byte, n int) []byte { return bytes.Repeat([]byte{b}, n) }
	nest := []byte{0xc0}
	for i := 0; i < 40; i++ {
		nest = listItem(nest)
	}
	return []repl{
		{"delete", nil},
		{"empty-string", []byte{0x80}},
		{"empty-list", []byte{0xc0}},
		{"byte-00", []byte{0x00}},
		{"byte-01", []byte{0x01}},
		{"byte-7f", []byte{0x7f}},
		{"str-80", []byte{0x81, 0x80}},
		{"noncanon-single", []byte{0x81, 0x05}},
		{"uint-leading-zero", []byte{0x82, 0x00, 0x01}},
		{"uint64-max", append([]byte{0x88}, rep(0xff, 8)...)},
		{"uint-9-bytes", append([]byte{0x89}, rep(0xff, 9)...)},
		{"int-text-fffff", strItem([]byte("fffff"))},
		{"int-text-7fffffff", strItem([]byte("7fffffff"))},
		{"int-text-7fffffffffffffff", strItem([]byte("7fffffffffffffff"))},
		{"int-text--1", strItem([]byte("-1"))},
		{"int-text--8000000000000000", strItem([]byte("-8000000000000000"))},
		{"int-text-overflow", strItem([]byte("ffffffffffffffffff"))},
		{"int-text-garbage", strItem([]byte("+0x1g"))},
		{"str-20", strItem(rep(0xaa, 20))},
		{"str-32", strItem(rep(0xbb, 32))},
		{"str-33", strItem(rep(0xcc, 33))},
		{"str-56", strItem(rep(0xdd, 56))},
		{"str-1024", strItem(rep(0xee, 1024))},
		{"list-of-empty-string", []byte{0xc1, 0x80}},
		{"list-of-3-empty-lists", []byte{0xc3, 0xc0, 0xc0, 0xc0}},
		{"list-64-single-bytes", listItem(rep(0x01, 64))},
		{"list-nested-40", nest},
		{"nil-interface-marker-x7", rep(0x00, 7)},
	}
}

// rebuild returns the encoding with node n replaced by r; enclosing list headers are recomputed.
func rebuild(e []byte, n *node, r []byte) []byte {
	cur := append(append(append([]byte{}, e[:n.off]...), r...), e[n.end():]...)
	delta := len(r) - (n.end() - n.off)
	for p := n.parent; p != nil; p = p.parent {
		// p's header sits at p.off (unchanged position: it precedes n), its payload changed by delta
		newSize := p.size + delta
		if newSize < 0 {
			newSize = 0
		}
		h := header(0xc0, newSize)
		cur = append(append(append([]byte{}, cur[:p.off]...), h...), cur[p.off+p.hdr:]...)
		delta += len(h) - p.hdr
	}
	return cur
}

func walk(ns []*node, f func(*node)) {
	for _, n := range ns {
		f(n)
		walk(n.kids, f)
	}
}

// positions returns the byte offsets at which the encoding is truncated / substituted. reduce=false: every offset.
// reduce=true: inside the payload of a string item longer than 20 bytes only the first two and the last payload byte
// (the decoders copy such payloads without looking at them; every header byte, every short item and every byte of a
// type prefix is kept).
func positions(e []byte, top []*node, reduce bool) []int {
	if !reduce || top == nil {
		out := make([]int, len(e))
		for i := range out {
			out[i] = i
		}
		return out
	}
	keep := make([]bool, len(e))
	for i := range keep {
		keep[i] = true
	}
	walk(top, func(n *node) {
		if n.kind == 1 && n.size > 20 {
			lo, hi := n.off+n.hdr, n.end()
			for i := lo + 2; i < hi-1; i++ {
				keep[i] = false
			}
		}
	})
	var out []int
	for i, k := range keep {
		if k {
			out = append(out, i)
		}
	}
	return out
}

// mutations calls f with every hostile input derived from encoding e.
func mutations(reg *registry, e []byte, items []repl, reduce bool, f func(class string, in []byte)) (parsed bool, skipped int) {
	top, ok := parseItems(reg, e)
	if !ok {
		top = nil
	}
	pos := positions(e, top, reduce)
	skipped = len(e) - len(pos)
	for _, i := range pos {
		f("trunc", e[:i])
	}
	for _, off := range pos {
		for _, b := range substSet {
			if e[off] == b {
				continue
			}
			m := append([]byte{}, e...)
			m[off] = b
			f("byte", m)
		}
	}
	if !ok {
		return false, skipped
	}
	walk(top, func(n *node) {
		if n.kind == 3 {
			for _, c := range reg.concrete {
				if !bytes.Equal(c.Disfix[:], e[n.off:n.off+7]) {
					f("prefix", rebuild(e, n, c.Disfix[:]))
				}
			}
			f("prefix", rebuild(e, n, []byte{0x00}))
			f("prefix", rebuild(e, n, nil))
			return
		}
		for _, r := range items {
			if bytes.Equal(r.b, e[n.off:n.end()]) {
				continue
			}
			f("item", rebuild(e, n, r.b))
		}
		self := e[n.off:n.end()]
		f("item", rebuild(e, n, append(append([]byte{}, self...), self...)))
	})
	return true, skipped
}

// shortStrings calls f with every byte string of length <= 3 over substSet.
func shortStrings(f func(in []byte)) {
	f([]byte{})
	for _, a := range substSet {
		f([]byte{a})
	}
	for _, a := range substSet {
		for _, b := range substSet {
			f([]byte{a, b})
		}
	}
	for _, a := range substSet {
		for _, b := range substSet {
			for _, c := range substSet {
				f([]byte{a, b, c})
			}
		}
	}
}
