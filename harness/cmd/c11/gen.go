package main

// Reflection-driven value generator.
//
// A value of a root type is built by fill(): every leaf field takes a DEFAULT (a typical non-zero value;
// pointers non-nil, slices one element, interfaces their first registered implementer, maps one entry), and
// every place where the field's small domain has other members is a CHOICE POINT. The enumeration visits every
// value that differs from the all-default value in at most k choice points (k = the "fields off default" bound
// of the design), including the choice points that only exist after an earlier deviation (e.g. the fields of
// the 2nd implementer of an interface). Nothing is sampled: see explore().

import (
	"fmt"
	"math"
	"math/big"
	"reflect"
	"strings"
	"sync"
	"sync/atomic"
	"time"
	"unsafe"

	"github.com/lianxiangcloud/linkchain/libs/ser"
)

// ---- choice recording / replay ----

type point struct {
	n     int    // number of alternatives (alternative 0 = default)
	depth int    // struct nesting depth of the field (root's own fields = 1)
	label string // field path, indices removed
	alts  []string
	core  int  // alternatives [0,core) combine with other deviations; [core,n) are boundary values taken one at a time
	bytes bool // a byte-string / string field (its length can be overridden, see override)
}

type chooser struct {
	prefix  []int
	choices []int
	pts     []point
	// override: choice-point index -> length of the byte string / string built there (used to size a value so that
	// the payload of the enclosing top-level list has an exact length)
	override map[int]int
}

func (c *chooser) choose(depth int, label string, alts []string) int {
	return c.chooseX(depth, label, alts, len(alts))
}

func (c *chooser) chooseX(depth int, label string, alts []string, core int) int {
	i := len(c.choices)
	ch := 0
	if i < len(c.prefix) {
		ch = c.prefix[i]
		if ch >= len(alts) {
			panic(fmt.Sprintf("harness: nondeterministic replay at %s: choice %d of %d", label, ch, len(alts)))
		}
	}
	c.choices = append(c.choices, ch)
	c.pts = append(c.pts, point{n: len(alts), depth: depth, label: label, alts: alts, core: core})
	return ch
}

// deviations lists the non-default choices of a finished build, for replay files.
func (c *chooser) deviations() []string {
	var out []string
	for i, ch := range c.choices {
		if ch != 0 {
			out = append(out, c.pts[i].label+"="+c.pts[i].alts[ch])
		}
	}
	return out
}

// ---- the generator ----

var (
	bigIntType    = reflect.TypeOf(big.Int{})
	bigIntPtrType = reflect.TypeOf((*big.Int)(nil))
	timeType      = reflect.TypeOf(time.Time{})
	atomicValType = reflect.TypeOf(atomic.Value{})
	rawValueType  = reflect.TypeOf(ser.RawValue{})
	encoderType   = reflect.TypeOf((*ser.Encoder)(nil)).Elem()
)

type gen struct {
	c     *chooser
	reg   *registry
	stack []reflect.Type // struct types being filled (recursion guard)
	// opaque counts places the generator could not populate (unregistered interface, unsupported kind)
	opaque map[string]bool
}

const maxNest = 14

func isByteKind(t reflect.Type) bool { return t.Kind() == reflect.Uint8 }

// serFields returns the indices of the fields of struct type t that the codec is supposed to carry.
//   - ordinary structs: exported fields without rlp:"-" (what libs/ser typecache.go structFields selects);
//   - types with a hand-written EncodeSER/DecodeSER pair: Transaction / TokenTransaction delegate to their
//     unexported `data` struct; types.Log carries its three "consensus fields" only (types/log.go documents the
//     others as derived, not secured by consensus); LogForStorage carries every exported field.
var serFieldsCache sync.Map

func serFields(t reflect.Type) []int {
	if v, ok := serFieldsCache.Load(t); ok {
		return v.([]int)
	}
	out := serFields1(t)
	serFieldsCache.Store(t, out)
	return out
}

func serFields1(t reflect.Type) []int {
	var out []int
	if reflect.PtrTo(t).Implements(encoderType) {
		if f, ok := t.FieldByName("data"); ok && f.Type.Kind() == reflect.Struct && len(f.Index) == 1 {
			return []int{f.Index[0]}
		}
		if t.PkgPath() == "github.com/lianxiangcloud/linkchain/types" && t.Name() == "Log" {
			for _, n := range []string{"Address", "Topics", "Data"} {
				f, _ := t.FieldByName(n)
				out = append(out, f.Index[0])
			}
			return out
		}
	}
	for i := 0; i < t.NumField(); i++ {
		f := t.Field(i)
		if f.PkgPath != "" {
			continue
		}
		ignored := false
		for _, tg := range strings.Split(f.Tag.Get("rlp"), ",") {
			if strings.TrimSpace(tg) == "-" {
				ignored = true
			}
		}
		if ignored {
			continue
		}
		out = append(out, i)
	}
	return out
}

// settable returns a settable alias of struct field i of the addressable struct value v (also for unexported
// fields, which the hand-written encoders of Transaction / TokenTransaction use).
func settable(v reflect.Value, i int) reflect.Value {
	f := v.Field(i)
	if f.CanSet() {
		return f
	}
	return reflect.NewAt(f.Type(), unsafe.Pointer(f.UnsafeAddr())).Elem()
}

func strs(n int, f func(i int) string) []string {
	out := make([]string, n)
	for i := range out {
		out[i] = f(i)
	}
	return out
}

var (
	big256max = new(big.Int).Sub(new(big.Int).Lsh(big.NewInt(1), 256), big.NewInt(1))
	big64max  = new(big.Int).SetUint64(math.MaxUint64)
)

func bigDomain() []*big.Int {
	return []*big.Int{big.NewInt(1000000), big.NewInt(0), big.NewInt(1), big.NewInt(127), big.NewInt(128), big64max, big256max, big.NewInt(-1)}
}

var bigNames = []string{"1000000", "0", "1", "127", "128", "2^64-1", "2^256-1", "-1"}

func stringDomain() []string {
	return []string{"abc", "", "a", "\x00", "\x80", strings.Repeat("s", 55), strings.Repeat("L", 56)}
}

var stringNames = []string{"abc", "empty", "a", "\\x00", "\\x80", "len55", "len56"}

func timeDomain() []time.Time {
	base := time.Unix(1600000000, 123456789).UTC()
	return []time.Time{base, {}, time.Unix(0, 0).UTC(), time.Unix(-1, 999999999).UTC(),
		base.In(time.FixedZone("east", 8*3600)), time.Unix(1600000000, 0).UTC(), time.Unix(253402300799, 999999999).UTC()}
}

var timeNames = []string{"t0", "zero", "epoch", "epoch-1ns", "t0-in-zone+8", "t0-whole-second", "year9999"}

func uintDomain(bits int) ([]uint64, []string) {
	var max uint64 = math.MaxUint64
	if bits < 64 {
		max = 1<<uint(bits) - 1
	}
	v := []uint64{7, 0, 127, 128, 255}
	if bits > 8 {
		v = append(v, 256, max)
	}
	return v, strs(len(v), func(i int) string {
		if v[i] == max && bits > 8 {
			return "max"
		}
		return fmt.Sprint(v[i])
	})
}

func intDomain(bits int) ([]int64, []string) {
	max := int64(math.MaxInt64)
	min := int64(math.MinInt64)
	if bits < 64 {
		max = 1<<uint(bits-1) - 1
		min = -1 << uint(bits-1)
	}
	v := []int64{5, 0, -1, 15, 16, 127, max, min}
	return v, strs(len(v), func(i int) string {
		switch {
		case i == 6:
			return "max"
		case i == 7:
			return "min"
		}
		return fmt.Sprint(v[i])
	})
}

// boundary exponents of the length / integer encoder: the number of bytes of a big-endian integer changes at 2^(8j),
// the single-byte form ends at 2^7
var boundaryExp = []uint{7, 8, 16, 24, 32, 40, 48, 56}

// uintBoundaries: 2^k-1, 2^k, 2^k+1 for every boundary exponent, as far as they fit into bits and are not in have.
func uintBoundaries(bits int, have []uint64) ([]uint64, []string) {
	seen := map[uint64]bool{}
	for _, h := range have {
		seen[h] = true
	}
	var v []uint64
	var names []string
	for _, k := range boundaryExp {
		for d := -1; d <= 1; d++ {
			if int(k) > bits || (int(k) == bits && d >= 0) {
				continue
			}
			x := uint64(1)<<k + uint64(int64(d))
			if seen[x] {
				continue
			}
			seen[x] = true
			v = append(v, x)
			names = append(names, fmt.Sprintf("2^%d%+d", k, d))
		}
	}
	return v, names
}

func intBoundaries(bits int, have []int64) ([]int64, []string) {
	seen := map[int64]bool{}
	for _, h := range have {
		seen[h] = true
	}
	var v []int64
	var names []string
	for _, k := range []uint{8, 16, 32} {
		for _, sign := range []int64{1, -1} {
			for d := int64(-1); d <= 1; d++ {
				if int(k) >= bits-1 {
					continue
				}
				x := sign * (int64(1)<<k + d)
				if seen[x] {
					continue
				}
				seen[x] = true
				v = append(v, x)
				names = append(names, fmt.Sprint(x))
			}
		}
	}
	return v, names
}

// bigBoundaries: 2^k-1, 2^k, 2^k+1 around every change of the byte length up to 16 bytes, and the two values whose
// byte strings are 55 and 56 bytes long (short / long string header).
func bigBoundaries() ([]*big.Int, []string) {
	var v []*big.Int
	var names []string
	for _, k := range []uint{8, 16, 24, 32, 40, 48, 56, 64, 128} {
		for d := int64(-1); d <= 1; d++ {
			if k == 64 && d == -1 {
				continue // in the core domain
			}
			x := new(big.Int).Lsh(big.NewInt(1), k)
			x.Add(x, big.NewInt(d))
			v = append(v, x)
			names = append(names, fmt.Sprintf("2^%d%+d", k, d))
		}
	}
	v = append(v, new(big.Int).Sub(new(big.Int).Lsh(big.NewInt(1), 440), big.NewInt(1)), new(big.Int).Lsh(big.NewInt(1), 440))
	names = append(names, "55-byte", "56-byte")
	return v, names
}

// lengths at which the header of a string / list changes its shape
var lengthBoundaries = []int{255, 256, 65535, 65536, 65537}
var hugeLengths = []int{1<<24 - 1, 1 << 24, 1<<24 + 1}

// sizedBytes: n bytes, none of them a single-byte-encodable value when n == 1
func sizedBytes(n int) []byte {
	b := make([]byte, n)
	for i := range b {
		b[i] = 0x80 | byte(i*7+1)
	}
	return b
}

// contentLenForItem returns the content length n of a string item whose ENCODED size (header + content) is L.
func contentLenForItem(L int) int {
	switch {
	case L <= 56:
		return L - 1
	case L <= 2+255:
		return L - 2
	case L <= 3+65535:
		return L - 3
	}
	return L - 4
}

func patternBytes(n int, first byte) []byte {
	b := make([]byte, n)
	for i := range b {
		b[i] = first + byte(i)
	}
	return b
}

func (g *gen) inStack(t reflect.Type) int {
	n := 0
	for _, s := range g.stack {
		if s == t {
			n++
		}
	}
	return n
}

func derefType(t reflect.Type) reflect.Type {
	for t.Kind() == reflect.Ptr {
		t = t.Elem()
	}
	return t
}

// fill populates the settable value dst. live=false: defaults only, no choice points (used for the extra
// elements of two-element slices, so that the number of choice points stays linear in the type size).
func (g *gen) fill(dst reflect.Value, path string, depth int, live bool) {
	t := dst.Type()
	pick := func(alts []string) int {
		if !live {
			return 0
		}
		return g.c.choose(depth, path, alts)
	}
	// pickX: core alternatives first, then boundary alternatives (taken one at a time, never combined)
	pickX := func(core, ext []string) int {
		if !live {
			return 0
		}
		return g.c.chooseX(depth, path, append(append([]string{}, core...), ext...), len(core))
	}
	// sized: the length override of this byte-string choice point, if any
	sized := func(idx int) (int, bool) {
		if !live {
			return 0, false
		}
		g.c.pts[idx].bytes = true
		n, ok := g.c.override[idx]
		return n, ok
	}
	lenNames := func(ls []int) []string {
		return strs(len(ls), func(i int) string { return fmt.Sprintf("len%d", ls[i]) })
	}
	switch {
	case t == atomicValType:
		return
	case t == bigIntPtrType || (t.Kind() == reflect.Ptr && t.Elem() == bigIntType):
		alts := append([]string{}, bigNames...)
		alts = append(alts, "nil")
		bv, bn := bigBoundaries()
		ch := pickX(alts, bn)
		if ch == len(alts)-1 {
			dst.Set(reflect.Zero(t))
			return
		}
		if ch >= len(alts) {
			dst.Set(reflect.ValueOf(new(big.Int).Set(bv[ch-len(alts)])).Convert(t))
			return
		}
		dst.Set(reflect.ValueOf(new(big.Int).Set(bigDomain()[ch])).Convert(t))
		return
	case t == bigIntType:
		bv, bn := bigBoundaries()
		ch := pickX(bigNames, bn)
		if ch >= len(bigNames) {
			dst.Set(reflect.ValueOf(*new(big.Int).Set(bv[ch-len(bigNames)])))
			return
		}
		dst.Set(reflect.ValueOf(*new(big.Int).Set(bigDomain()[ch])))
		return
	case t == timeType:
		dst.Set(reflect.ValueOf(timeDomain()[pick(timeNames)]))
		return
	case t == rawValueType:
		// a RawValue must hold one well-formed encoded value
		raws := [][]byte{{0x83, 'r', 'a', 'w'}, {0x80}, {0xc0}, {0x05}, {0xc2, 0x01, 0x02}}
		dst.SetBytes(append([]byte{}, raws[pick([]string{"str(raw)", "0x80", "0xc0", "0x05", "list(1,2)"})]...))
		return
	}
	switch t.Kind() {
	case reflect.Bool:
		dst.SetBool(pick([]string{"true", "false"}) == 0)
	case reflect.Uint, reflect.Uint8, reflect.Uint16, reflect.Uint32, reflect.Uint64, reflect.Uintptr:
		v, names := uintDomain(t.Bits())
		xv, xn := uintBoundaries(t.Bits(), v)
		dst.SetUint(append(v, xv...)[pickX(names, xn)])
	case reflect.Int, reflect.Int8, reflect.Int16, reflect.Int32, reflect.Int64:
		v, names := intDomain(t.Bits())
		xv, xn := intBoundaries(t.Bits(), v)
		dst.SetInt(append(v, xv...)[pickX(names, xn)])
	case reflect.Float32, reflect.Float64:
		v := []float64{1.5, 0, -2, math.Inf(1)}
		dst.SetFloat(v[pick([]string{"1.5", "0", "-2", "+Inf"})])
	case reflect.String:
		idx := len(g.c.choices)
		ch := pickX(stringNames, lenNames(lengthBoundaries))
		if n, ok := sized(idx); ok {
			dst.SetString(string(sizedBytes(n)))
		} else if ch >= len(stringNames) {
			dst.SetString(string(sizedBytes(lengthBoundaries[ch-len(stringNames)])))
		} else {
			dst.SetString(stringDomain()[ch])
		}
	case reflect.Array:
		n := t.Len()
		if isByteKind(t.Elem()) {
			alts := []string{"pattern", "zero", "ff", "00+pattern"}
			if n == 1 {
				alts = []string{"0x05", "0x00", "0x7f", "0x80", "0xff"}
			}
			if n == 0 {
				return
			}
			ch := pick(alts)
			var b []byte
			if n == 1 {
				b = []byte{[]byte{5, 0, 0x7f, 0x80, 0xff}[ch]}
			} else {
				switch ch {
				case 0:
					b = patternBytes(n, 0x11)
				case 1:
					b = make([]byte, n)
				case 2:
					b = make([]byte, n)
					for i := range b {
						b[i] = 0xff
					}
				case 3:
					b = patternBytes(n, 0x11)
					b[0] = 0
				}
			}
			reflect.Copy(dst, reflect.ValueOf(b))
			return
		}
		for i := 0; i < n; i++ {
			g.fill(dst.Index(i), path+"[]", depth, live && i == 0)
		}
	case reflect.Slice:
		if isByteKind(t.Elem()) {
			bs := [][]byte{{0xde, 0xad}, nil, {}, {0x00}, {0x7f}, {0x80}, patternBytes(55, 0x21), patternBytes(56, 0x21)}
			ext := append([]int{}, lengthBoundaries...)
			if depth == 0 && path == "[]uint8" {
				ext = append(ext, hugeLengths...) // the raw byte-string root only: 16 MiB values, once per run
			}
			idx := len(g.c.choices)
			ch := pickX([]string{"dead", "nil", "empty", "00", "7f", "80", "len55", "len56"}, lenNames(ext))
			if n, ok := sized(idx); ok {
				bs, ch = append(bs, sizedBytes(n)), len(bs)
			} else if ch >= len(bs) {
				bs, ch = append(bs, sizedBytes(ext[ch-len(bs)])), len(bs)
			}
			if bs[ch] == nil {
				dst.Set(reflect.Zero(t))
			} else {
				nb := reflect.MakeSlice(t, len(bs[ch]), len(bs[ch]))
				reflect.Copy(nb, reflect.ValueOf(bs[ch]))
				dst.Set(nb)
			}
			return
		}
		et := t.Elem()
		if det := derefType(et); det.Kind() == reflect.Struct && g.inStack(det) > 0 || len(g.stack) >= maxNest {
			dst.Set(reflect.Zero(t)) // recursive type: stop here
			return
		}
		alts := []string{"one", "nil", "empty", "two"}
		nilable := et.Kind() == reflect.Ptr || et.Kind() == reflect.Interface
		if nilable {
			alts = append(alts, "one-nil-element")
		}
		// lists whose PAYLOAD length sits exactly on a header boundary: n one-byte elements (unsigned element types),
		// or one byte string sized so that header + content is the boundary (lists of byte strings)
		payloads := append([]int{55, 56}, lengthBoundaries...)
		var ext []string
		uintElems := et.Kind() >= reflect.Uint && et.Kind() <= reflect.Uintptr
		bytesElems := et.Kind() == reflect.Slice && isByteKind(et.Elem())
		if uintElems || bytesElems {
			ext = strs(len(payloads), func(i int) string { return fmt.Sprintf("payload%d", payloads[i]) })
		}
		ch := pickX(alts, ext)
		if ch >= len(alts) {
			L := payloads[ch-len(alts)]
			if uintElems {
				sl := reflect.MakeSlice(t, L, L)
				for i := 0; i < L; i++ {
					sl.Index(i).SetUint(7)
				}
				dst.Set(sl)
			} else {
				sl := reflect.MakeSlice(t, 1, 1)
				b := sizedBytes(contentLenForItem(L))
				nb := reflect.MakeSlice(et, len(b), len(b))
				reflect.Copy(nb, reflect.ValueOf(b))
				sl.Index(0).Set(nb)
				dst.Set(sl)
			}
			return
		}
		switch ch {
		case 0:
			s := reflect.MakeSlice(t, 1, 1)
			g.fill(s.Index(0), path+"[]", depth, live)
			dst.Set(s)
		case 1:
			dst.Set(reflect.Zero(t))
		case 2:
			dst.Set(reflect.MakeSlice(t, 0, 0))
		case 3:
			s := reflect.MakeSlice(t, 2, 2)
			g.fill(s.Index(0), path+"[]", depth, false)
			g.fill(s.Index(1), path+"[]", depth, false)
			dst.Set(s)
		case 4:
			dst.Set(reflect.MakeSlice(t, 1, 1))
		}
	case reflect.Ptr:
		et := t.Elem()
		if det := derefType(et); det.Kind() == reflect.Struct && g.inStack(det) > 0 || len(g.stack) >= maxNest {
			dst.Set(reflect.Zero(t))
			return
		}
		if pick([]string{"non-nil", "nil"}) == 1 {
			dst.Set(reflect.Zero(t))
			return
		}
		p := reflect.New(et)
		g.fill(p.Elem(), path, depth, live)
		dst.Set(p)
	case reflect.Interface:
		impls := g.reg.implementers(t)
		if len(impls) == 0 {
			g.opaque[path+" ("+t.String()+")"] = true
			return
		}
		alts := make([]string, 0, len(impls)+1)
		for _, im := range impls {
			alts = append(alts, im.Type.String())
		}
		alts = append(alts, "nil")
		ch := pick(alts)
		if ch == len(impls) {
			dst.Set(reflect.Zero(t))
			return
		}
		im := impls[ch]
		if im.Type.Kind() == reflect.Struct && g.inStack(im.Type) > 0 || len(g.stack) >= maxNest {
			dst.Set(reflect.Zero(t))
			return
		}
		p := reflect.New(im.Type)
		g.fill(p.Elem(), path+"("+im.Type.String()+")", depth, live)
		// the form the decoder will construct when it can be stored in this interface, otherwise the form that can
		// (the registry audit reports the inconsistency; the round trip then shows its consequence)
		if usePtr, _ := storeForm(t, im); usePtr {
			dst.Set(p)
		} else {
			dst.Set(p.Elem())
		}
	case reflect.Map:
		if !(t.Key().Kind() == reflect.Array && t.Key().Len() == 20 && isByteKind(t.Key().Elem()) && t.Elem() == bigIntPtrType) {
			g.opaque[path+" ("+t.String()+")"] = true
			return
		}
		ch := pick([]string{"1 entry", "nil", "empty", "2 entries", "3 entries", "4 entries", "1 entry value 0", "1 entry value nil"})
		mk := func(n int) reflect.Value {
			m := reflect.MakeMap(t)
			for i := 0; i < n; i++ {
				k := reflect.New(t.Key()).Elem()
				reflect.Copy(k, reflect.ValueOf(mapKeys[i][:]))
				m.SetMapIndex(k, reflect.ValueOf(big.NewInt(int64(100+i))))
			}
			return m
		}
		switch ch {
		case 0:
			dst.Set(mk(1))
		case 1:
			dst.Set(reflect.Zero(t))
		case 2:
			dst.Set(mk(0))
		case 3, 4, 5:
			dst.Set(mk(ch - 1))
		case 6, 7:
			m := reflect.MakeMap(t)
			k := reflect.New(t.Key()).Elem()
			reflect.Copy(k, reflect.ValueOf(mapKeys[0][:]))
			if ch == 6 {
				m.SetMapIndex(k, reflect.ValueOf(big.NewInt(0)))
			} else {
				m.SetMapIndex(k, reflect.ValueOf((*big.Int)(nil)))
			}
			dst.Set(m)
		}
	case reflect.Struct:
		g.stack = append(g.stack, t)
		for _, i := range serFields(t) {
			g.fill(settable(dst, i), path+"."+t.Field(i).Name, depth+1, live)
		}
		g.stack = g.stack[:len(g.stack)-1]
	default:
		g.opaque[path+" ("+t.String()+")"] = true
	}
}

// mapKeys: addresses chosen so that byte-wise order, first byte, last byte and sign-bit boundaries differ.
var mapKeys = func() [][20]byte {
	var ks [][20]byte
	mk := func(first, fill, last byte) [20]byte {
		var a [20]byte
		for i := range a {
			a[i] = fill
		}
		a[0], a[19] = first, last
		return a
	}
	ks = append(ks, mk(0x80, 0x00, 0x01), mk(0x00, 0x00, 0x00), mk(0x00, 0x00, 0x01), mk(0x7f, 0xff, 0xff), mk(0xff, 0xff, 0xff), mk(0x01, 0x00, 0x00))
	return ks
}()

// buildValue builds one value of root type t under the given choice prefix. The result is a pointer (*t).
func buildValue(reg *registry, t reflect.Type, prefix []int) (reflect.Value, *chooser, *gen) {
	return buildValueOv(reg, t, prefix, nil)
}

func buildValueOv(reg *registry, t reflect.Type, prefix []int, override map[int]int) (reflect.Value, *chooser, *gen) {
	c := &chooser{prefix: prefix, override: override}
	g := &gen{c: c, reg: reg, opaque: map[string]bool{}}
	p := reflect.New(t)
	g.fill(p.Elem(), shortType(t), 0, true)
	return p, c, g
}

// explore enumerates every choice vector with at most maxDev deviations from the all-default vector, in a fixed
// order (DFS, deviations ordered by position, alternatives ascending). Deviation number j (1-based) is only taken
// at choice points whose depth is <= depthLimit[j-1] (0 = no limit). shard/nshards split the work by the first
// deviation (the all-default value belongs to shard 0). visit returns false to stop.
// building describes the value under construction (read by the panic report of executor.run; one goroutine per process
// builds values).
var building func() string

func explore(reg *registry, t reflect.Type, maxDev int, depthLimit []int, shard, nshards int, boundaries bool, visit func(p reflect.Value, c *chooser, ndev int) bool) {
	var rec func(prefix []int, ndev int, first int, leaf bool) bool
	rec = func(prefix []int, ndev int, first int, leaf bool) bool {
		building = func() string { return fmt.Sprintf("%v under choice prefix %v", t, prefix) }
		p, c, _ := buildValue(reg, t, prefix)
		building = nil
		if ndev > 0 || shard == 0 {
			if !visit(p, c, ndev) {
				return false
			}
		}
		if ndev >= maxDev || leaf {
			return true
		}
		lim := 0
		if ndev < len(depthLimit) {
			lim = depthLimit[ndev]
		}
		k := 0
		for i := first; i < len(c.pts); i++ {
			if lim > 0 && c.pts[i].depth > lim {
				continue
			}
			for alt := 1; alt < c.pts[i].core; alt++ {
				if ndev == 0 {
					k++
					if (k-1)%nshards != shard {
						continue
					}
				}
				child := make([]int, i+1)
				copy(child, c.choices[:i])
				child[i] = alt
				if !rec(child, ndev+1, i+1, false) {
					return false
				}
			}
		}
		if ndev == 0 && boundaries {
			// the boundary alternatives (integer and length boundaries of the encoder): every one of them, alone
			k = 0
			for i := 0; i < len(c.pts); i++ {
				for alt := c.pts[i].core; alt < c.pts[i].n; alt++ {
					k++
					if (k-1)%nshards != shard {
						continue
					}
					child := make([]int, i+1)
					copy(child, c.choices[:i])
					child[i] = alt
					if !rec(child, 1, i+1, true) {
						return false
					}
				}
			}
		}
		return true
	}
	rec(nil, 0, 0, false)
}

func shortType(t reflect.Type) string { return t.String() }
