package main

// Equality of an original value and its decoded copy, over the fields the codec carries (serFields), modulo the
// nil/empty foldings that libs/ser documents (encode.go Encode / decode.go Decode doc comments):
//   - a nil pointer is encoded as the zero value of its element ("For nil pointers, Encode will encode the zero
//     value of the type"), and an input value of size zero decodes as a nil pointer, so a pointer to a value whose
//     encoding is empty (0, "", empty list, struct without fields) and nil are one wire value;
//   - nil and empty slices / maps are one wire value; nil *big.Int and 0 are one wire value;
//   - time.Time is carried as (seconds, nanoseconds) and comes back in UTC without monotonic reading.
// Everything else must be identical.

import (
	"bytes"
	"fmt"
	"math"
	"math/big"
	"reflect"
	"time"
	"unsafe"
)

func readable(v reflect.Value) reflect.Value {
	if v.CanInterface() {
		return v
	}
	if v.CanAddr() {
		return reflect.NewAt(v.Type(), unsafe.Pointer(v.UnsafeAddr())).Elem()
	}
	panic(fmt.Sprintf("harness: unreadable value of type %v", v.Type()))
}

// emptyEnc reports whether v's encoding is an empty string or empty list (size 0, not a single byte).
func emptyEnc(v reflect.Value) bool {
	t := v.Type()
	switch {
	case t == bigIntPtrType:
		return v.IsNil() || readable(v).Interface().(*big.Int).Sign() == 0
	case t == bigIntType:
		b := readable(v).Interface().(big.Int)
		return b.Sign() == 0
	case t == timeType:
		return false
	}
	switch t.Kind() {
	case reflect.Bool:
		return !v.Bool()
	case reflect.Uint, reflect.Uint8, reflect.Uint16, reflect.Uint32, reflect.Uint64, reflect.Uintptr:
		return v.Uint() == 0
	case reflect.Float32, reflect.Float64:
		return math.Float64bits(v.Float()) == 0
	case reflect.String:
		return v.Len() == 0
	case reflect.Slice:
		return v.Len() == 0
	case reflect.Array:
		return v.Len() == 0
	case reflect.Ptr:
		return v.IsNil() || emptyEnc(v.Elem())
	case reflect.Struct:
		return len(serFields(t)) == 0
	}
	return false
}

// diff returns "" when a (original) and b (decoded) are the same wire value, otherwise the path and leaf type of
// the first difference.
type mismatch struct {
	Path string
	Leaf string
	What string
}

func diff(a, b reflect.Value, path string) *mismatch {
	m := diff1(a, b)
	if m != nil {
		m.Path = path + m.Path
	}
	return m
}

func under(m *mismatch, seg string) *mismatch {
	if m != nil {
		m.Path = seg + m.Path
	}
	return m
}

func bytesOf(v reflect.Value) ([]byte, bool) {
	if v.Kind() == reflect.Slice {
		return v.Bytes(), true
	}
	if v.CanAddr() {
		return v.Slice(0, v.Len()).Bytes(), true
	}
	return nil, false
}

func diff1(a, b reflect.Value) *mismatch {
	t := a.Type()
	mm := func(what string) *mismatch { return &mismatch{Leaf: t.String(), What: what} }
	switch {
	case t == atomicValType:
		return nil
	case t == bigIntPtrType || (t.Kind() == reflect.Ptr && t.Elem() == bigIntType):
		var x, y *big.Int
		if !a.IsNil() {
			x = readable(a).Convert(bigIntPtrType).Interface().(*big.Int)
		}
		if !b.IsNil() {
			y = readable(b).Convert(bigIntPtrType).Interface().(*big.Int)
		}
		if x == nil {
			x = new(big.Int)
		}
		if y == nil {
			y = new(big.Int)
		}
		if x.Cmp(y) != 0 {
			return mm(fmt.Sprintf("%v != %v", x, y))
		}
		return nil
	case t == bigIntType:
		x, y := readable(a).Interface().(big.Int), readable(b).Interface().(big.Int)
		if x.Cmp(&y) != 0 {
			return mm(fmt.Sprintf("%v != %v", &x, &y))
		}
		return nil
	case t == timeType:
		x, y := readable(a).Interface().(time.Time), readable(b).Interface().(time.Time)
		if x.Unix() != y.Unix() || x.Nanosecond() != y.Nanosecond() {
			return mm(fmt.Sprintf("%v != %v", x.UTC(), y.UTC()))
		}
		return nil
	}
	switch t.Kind() {
	case reflect.Bool:
		if a.Bool() != b.Bool() {
			return mm(fmt.Sprintf("%v != %v", a.Bool(), b.Bool()))
		}
	case reflect.Uint, reflect.Uint8, reflect.Uint16, reflect.Uint32, reflect.Uint64, reflect.Uintptr:
		if a.Uint() != b.Uint() {
			return mm(fmt.Sprintf("%d != %d", a.Uint(), b.Uint()))
		}
	case reflect.Int, reflect.Int8, reflect.Int16, reflect.Int32, reflect.Int64:
		if a.Int() != b.Int() {
			return mm(fmt.Sprintf("%d != %d", a.Int(), b.Int()))
		}
	case reflect.Float32, reflect.Float64:
		if math.Float64bits(a.Float()) != math.Float64bits(b.Float()) {
			return mm(fmt.Sprintf("%v != %v", a.Float(), b.Float()))
		}
	case reflect.String:
		if a.String() != b.String() {
			return mm(fmt.Sprintf("%q != %q", a.String(), b.String()))
		}
	case reflect.Array, reflect.Slice:
		if a.Len() != b.Len() {
			return mm(fmt.Sprintf("len %d != len %d", a.Len(), b.Len()))
		}
		if isByteKind(t.Elem()) {
			xa, ok1 := bytesOf(a)
			xb, ok2 := bytesOf(b)
			if ok1 && ok2 {
				if !bytes.Equal(xa, xb) {
					return mm(fmt.Sprintf("%x != %x", xa, xb))
				}
				return nil
			}
		}
		for i := 0; i < a.Len(); i++ {
			if m := diff1(a.Index(i), b.Index(i)); m != nil {
				if isByteKind(t.Elem()) {
					return mm(fmt.Sprintf("byte %d: %s", i, m.What))
				}
				return under(m, "[]")
			}
		}
	case reflect.Ptr:
		switch {
		case a.IsNil() && b.IsNil():
		case a.IsNil():
			if !emptyEnc(b.Elem()) {
				return mm("nil became non-nil, non-empty")
			}
		case b.IsNil():
			if !emptyEnc(a.Elem()) {
				return mm("non-nil became nil")
			}
		default:
			return diff1(a.Elem(), b.Elem())
		}
	case reflect.Interface:
		switch {
		case a.IsNil() && b.IsNil():
		case a.IsNil() || b.IsNil():
			return mm(fmt.Sprintf("nil-ness differs: original nil=%v decoded nil=%v", a.IsNil(), b.IsNil()))
		default:
			x, y := a.Elem(), b.Elem()
			if x.Type() != y.Type() {
				return mm(fmt.Sprintf("dynamic type %v != %v", x.Type(), y.Type()))
			}
			if x.Kind() == reflect.Ptr {
				if x.IsNil() != y.IsNil() {
					return mm("typed nil-ness differs")
				}
				if x.IsNil() {
					return nil
				}
				return under(diff1(x.Elem(), y.Elem()), "("+x.Type().Elem().String()+")")
			}
			// non-addressable concrete value inside an interface: copy to make unexported fields readable
			xc, yc := reflect.New(x.Type()).Elem(), reflect.New(y.Type()).Elem()
			xc.Set(x)
			yc.Set(y)
			return under(diff1(xc, yc), "("+x.Type().String()+")")
		}
	case reflect.Map:
		if a.Len() != b.Len() {
			return mm(fmt.Sprintf("map len %d != %d", a.Len(), b.Len()))
		}
		for _, k := range a.MapKeys() {
			bv := b.MapIndex(k)
			if !bv.IsValid() {
				return mm(fmt.Sprintf("key %x missing after decode", k.Interface()))
			}
			av := a.MapIndex(k)
			ac, bc := reflect.New(av.Type()).Elem(), reflect.New(bv.Type()).Elem()
			ac.Set(av)
			bc.Set(bv)
			if m := diff1(ac, bc); m != nil {
				return mm(fmt.Sprintf("value of key %x: %s", k.Interface(), m.What))
			}
		}
	case reflect.Struct:
		for _, i := range serFields(t) {
			fa, fb := a.Field(i), b.Field(i)
			if !fa.CanInterface() {
				fa, fb = readable(fa), readable(fb)
			}
			if m := diff1(fa, fb); m != nil {
				return under(m, "."+t.Field(i).Name)
			}
		}
	}
	return nil
}
