package main

// Registry audit (runs first): consistency of the ser type registry that every interface-typed field depends on.
// For every (registered interface, registered concrete type whose pointer implements it):
//   - the form the DECODER constructs for the concrete type (libs/ser cdc.go constructConcreteType: *T if it was
//     registered through a pointer, T otherwise) must be assignable to the interface - otherwise no encoding of that
//     type under that interface can ever be decoded;
//   - the encoding of the interface holding *T and of the interface holding T (whichever can be stored) must decode
//     and give the same content;
// and over the concrete types: 7-byte prefixes and names unique, no prefix starting with the nil marker 0x00.

import (
	"fmt"
	"reflect"

	"github.com/lianxiangcloud/linkchain/libs/ser"
)

func addressableCopy(v reflect.Value) reflect.Value {
	for v.Kind() == reflect.Ptr || v.Kind() == reflect.Interface {
		if v.IsNil() {
			return reflect.Value{}
		}
		v = v.Elem()
	}
	c := reflect.New(v.Type()).Elem()
	c.Set(v)
	return c
}

func (x *executor) audit() {
	x.curSize = 0
	seenDisfix := map[[7]byte]string{}
	seenName := map[string]string{}
	for _, c := range x.reg.concrete {
		x.res.Counters["registry_concrete_types_audited"]++
		if prev, dup := seenDisfix[c.Disfix]; dup {
			x.violation("registry:duplicate-prefix:"+prev+","+c.Type.String(), fmt.Sprintf("%s and %v share the prefix %x", prev, c.Type, c.Disfix), map[string]interface{}{"phase": "registry-audit"})
		}
		seenDisfix[c.Disfix] = c.Type.String()
		if prev, dup := seenName[c.Name]; dup {
			x.violation("registry:duplicate-name:"+c.Name, fmt.Sprintf("%s and %v are registered under the name %q", prev, c.Type, c.Name), map[string]interface{}{"phase": "registry-audit"})
		}
		seenName[c.Name] = c.Type.String()
		if c.Disfix[0] == 0x00 {
			x.violation("registry:prefix-starts-with-nil-marker:"+c.Type.String(), fmt.Sprintf("prefix %x of %v starts with 0x00, the encoding of a nil interface", c.Disfix, c.Type), map[string]interface{}{"phase": "registry-audit"})
		}
	}
	// pass 1 (assignability) decides whether the registry is consistent at all; when it is not, pairs that fail to
	// decode in pass 2 although their own form is fine fail THROUGH the reported pair (a nested field, with the inner
	// error swallowed by decodeCDCInterface): they are counted, the round-trip phase shows the consequences
	inconsistent := false
	for _, it := range x.reg.ifaces {
		for _, c := range x.reg.concrete {
			if reflect.PtrTo(c.Type).Implements(it) && !decoderForm(c).AssignableTo(it) {
				inconsistent = true
			}
		}
	}
	for _, it := range x.reg.ifaces {
		for _, c := range x.reg.concrete {
			if !reflect.PtrTo(c.Type).Implements(it) {
				continue
			}
			pair := it.String() + "<-" + c.Type.String()
			x.res.Counters["registry_pairs_audited"]++
			x.ctx = func() string { return "registry pair " + pair }
			replay := map[string]interface{}{"phase": "registry-audit", "interface": it.String(), "concrete": c.Type.String(), "registered_through_pointer": c.PointerPreferred}
			if df := decoderForm(c); !df.AssignableTo(it) {
				x.violation("registry:decoder-constructs-unassignable-type:"+pair,
					fmt.Sprintf("%v is registered %s, so the decoder constructs a %v, which cannot be stored in %v (its methods have pointer receivers): no encoding of a %v under %v can be decoded again",
						c.Type, map[bool]string{true: "through a pointer", false: "by value"}[c.PointerPreferred], df, it, c.Type, it), replay)
			}
			p, _, _ := buildValue(x.reg, c.Type, nil)
			for _, form := range []reflect.Value{p, p.Elem()} {
				if !form.Type().AssignableTo(it) {
					continue
				}
				iv := reflect.New(it)
				iv.Elem().Set(form)
				var e []byte
				var err error
				cg := guard(func() { e, err = ser.EncodeToBytes(iv.Interface()) })
				x.res.Counters["registry_forms_encoded"]++
				if cg.panicked || err != nil {
					x.observe("registry-audit-encode-fails:"+errClass(fmt.Sprint(cg.val, err)), fmt.Sprintf("%s, %v held as %v: %v %v", pair, it, form.Type(), cg.val, err))
					continue
				}
				q := reflect.New(it)
				cg = guard(func() { err = ser.DecodeBytes(e, q.Interface()) })
				x.res.Counters["registry_forms_decoded"]++
				x.pairCount(&root{Name: it.String()}, epBytes)
				switch {
				case cg.panicked:
					x.violation("decode-panic:"+cg.site+":"+errClass(fmt.Sprint(cg.val)), fmt.Sprintf("registry audit %s held as %v: decoding its own encoding panics: %v", pair, form.Type(), cg.val), replay)
				case err != nil && inconsistent && decoderForm(c).AssignableTo(it):
					// a nested interface field holds a type whose own pair is reported above: consequence, not a second cause
					x.res.Counters["registry_pairs_failing_through_a_nested_unassignable_type"]++
				case err != nil:
					x.violation("registry:encoding-does-not-decode:"+pair, fmt.Sprintf("%v holding a %v encodes to %s, which does not decode: %v", it, form.Type(), hexOf(e), err), replay)
				default:
					a, b := addressableCopy(form), addressableCopy(q.Elem())
					if !b.IsValid() || a.Type() != b.Type() {
						x.violation("registry:decoded-differs:"+pair, fmt.Sprintf("%v holding a %v decodes to %v", it, form.Type(), q.Elem()), replay)
					} else if m := diff(a, b, pair); m != nil {
						x.violation("registry:decoded-differs:"+pair, fmt.Sprintf("%v holding a %v: decoded content differs at %s: %s", it, form.Type(), m.Path, m.What), replay)
					}
				}
			}
		}
	}
	x.ctx = nil
}
