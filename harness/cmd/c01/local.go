package main

// C01-local: ONE real ConsensusState against an arbitrary environment (explicit-state BFS, engine opx).
// The environment holds the keys of all other validators and may deliver any correctly signed
// proposal / block / vote (including equivocations) and fire the node's pending timeout at any time.
// Monitors L0-L5 (voting discipline) are evaluated against a harness-side tally of what was delivered.

import (
	"fmt"
	"os"
	"sort"
	"strings"
	"sync"

	"verif/csnet"
	"verif/vk"

	cs "github.com/lianxiangcloud/linkchain/consensus"
	"github.com/lianxiangcloud/linkchain/types"
)

type localCfg struct {
	name    string
	powers  []int64
	self    int
	rounds  int  // rounds 0..rounds-1 in the alphabet
	minR    int  // inputs (votes, proposals) only for rounds >= minR (the scripted prefix may use lower rounds)
	sym     bool // symmetry reduction over the other validators (equal powers only)
	split   bool // also offer proposal-only / part-only inputs
	equiv   bool // also offer equivocating votes
	maj23   bool // also offer peer +2/3 claims (VoteSetMaj23) and re-delivery of equivocating votes
	nodrain bool // own messages are handled as explicit inputs (StepInternal) instead of immediately
	late    bool // also offer superseded timeouts arriving late (each at most once)
	h2      bool // the search runs at height 2: the node first commits height 1 honestly (state carried across the height change)
	depth   int
	maxSt   int
	prefix  []string // scripted inputs (by name) leading to the state the BFS starts from
	expect  string   // what the scripted prefix is meant to reach: "R<round> S<step> lock=<round|-> | <own votes>"; "" = not stated
}

type inKind int

const (
	inProposalBlock inKind = iota // proposal + its single block part
	inProposalOnly
	inPartOnly
	inVote      // (symmetric) next unused other validator votes
	inVoteJ     // explicit validator
	inEquiv     // a validator whose only vote in (r,t) so far is `from` also votes `blk`
	inRedeliver // the equivocating vote `blk` of a validator whose first vote was `from` is delivered again
	inMaj23     // a peer claims +2/3 for this value in (r,t) (what the reactor does on a VoteSetMaj23Message)
	inTimeout
	inInternal
	inLateTimeout // a timeout the ticker had accepted and that was superseded before the harness fired it arrives now (its timer
	// had already fired and the tock was in flight): `j` = 0 the most recent such timeout, 1 the one before
)

type input struct {
	kind inKind
	r    int
	blk  int // 0=A 1=B (2 = nil for votes)
	pol  int
	typ  byte
	j    int
	from int // inEquiv/inRedeliver: the value of the validator's first vote (0=A 1=B 2=nil)
}

var valNames = []string{"A", "B", "nil"}

func (c *localCfg) alphabet(f *csnet.Fixture) []input {
	var a []input
	a = append(a, input{kind: inTimeout})
	if c.nodrain {
		a = append(a, input{kind: inInternal})
	}
	if c.late {
		a = append(a, input{kind: inLateTimeout, j: 0}, input{kind: inLateTimeout, j: 1})
	}
	for r := 0; r < c.rounds; r++ {
		for b := 0; b < 2; b++ {
			for pol := -1; pol < r; pol++ {
				a = append(a, input{kind: inProposalBlock, r: r, blk: b, pol: pol})
				if c.split {
					a = append(a, input{kind: inProposalOnly, r: r, blk: b, pol: pol})
				}
			}
		}
	}
	if c.split {
		a = append(a, input{kind: inPartOnly, blk: 0}, input{kind: inPartOnly, blk: 1})
	}
	for r := 0; r < c.rounds; r++ {
		for _, t := range []byte{types.VoteTypePrevote, types.VoteTypePrecommit} {
			for v := 0; v < 3; v++ {
				if c.sym {
					a = append(a, input{kind: inVote, r: r, typ: t, blk: v})
					// the equivocator is named by the value of its first vote: "some validator that voted `from` also votes v" is a
					// function of the symmetry-reduced state, "some validator that already voted" is not
					for from := 0; from < 3; from++ {
						if from == v {
							continue
						}
						if c.equiv {
							a = append(a, input{kind: inEquiv, r: r, typ: t, blk: v, from: from})
						}
						if c.maj23 {
							a = append(a, input{kind: inRedeliver, r: r, typ: t, blk: v, from: from})
						}
					}
					if c.maj23 {
						a = append(a, input{kind: inMaj23, r: r, typ: t, blk: v})
					}
				} else {
					for j := range c.powers {
						if j != c.self {
							a = append(a, input{kind: inVoteJ, r: r, typ: t, blk: v, j: j})
						}
					}
				}
			}
		}
	}
	return a
}

func (in input) String() string {
	tn := map[byte]string{types.VoteTypePrevote: "prevote", types.VoteTypePrecommit: "precommit"}
	switch in.kind {
	case inProposalBlock:
		return fmt.Sprintf("Proposal+Block(r%d,%s,pol%d)", in.r, valNames[in.blk], in.pol)
	case inProposalOnly:
		return fmt.Sprintf("ProposalOnly(r%d,%s,pol%d)", in.r, valNames[in.blk], in.pol)
	case inPartOnly:
		return fmt.Sprintf("BlockPart(%s)", valNames[in.blk])
	case inVote:
		return fmt.Sprintf("Vote(next,%s,r%d,%s)", tn[in.typ], in.r, valNames[in.blk])
	case inVoteJ:
		return fmt.Sprintf("Vote(v%d,%s,r%d,%s)", in.j, tn[in.typ], in.r, valNames[in.blk])
	case inEquiv:
		return fmt.Sprintf("EquivocatingVote(%s,r%d,%s->%s)", tn[in.typ], in.r, valNames[in.from], valNames[in.blk])
	case inRedeliver:
		return fmt.Sprintf("RedeliverEquivocatingVote(%s,r%d,%s->%s)", tn[in.typ], in.r, valNames[in.from], valNames[in.blk])
	case inMaj23:
		return fmt.Sprintf("PeerClaimsMaj23(%s,r%d,%s)", tn[in.typ], in.r, valNames[in.blk])
	case inTimeout:
		return "FireTimeout"
	case inInternal:
		return "StepInternal"
	case inLateTimeout:
		return fmt.Sprintf("LateTimeout(superseded,%d back)", in.j)
	}
	return "?"
}

type vsKey struct {
	r int
	t byte
}

type localInst struct {
	c        *localCfg
	f        *csnet.Fixture
	n        *csnet.Node
	blocks   [2]*types.Block
	parts    [2]*types.PartSet
	ids      [3]types.BlockID
	total    int64
	soup     *soup // everything delivered to the node plus its own votes
	used     map[vsKey]map[int]map[string]bool
	first    map[vsKey]map[int]string // value of each validator's first delivered vote per vote set
	redeliv  map[string]int           // "r/t/from/to" -> number of re-deliveries
	claims   map[string]bool
	sentSeen int
	commits  int
	height   uint64
	toDone   map[int]bool // indices of the ticker's log that were delivered (fired in time, or late)
	st       cs.NewStatus // chain status at the height of the search (who proposes when)
	baseCom  int          // commits before the search started
}

// lateCandidates: the timeouts the ticker accepted that were neither delivered nor are the pending one, oldest first.
func (li *localInst) lateCandidates() []int {
	log := li.n.TimeoutLog()
	_, pending := li.n.PendingTimeout()
	var out []int
	for i := range log {
		if li.toDone[i] || (pending && i == len(log)-1) {
			continue
		}
		out = append(out, i)
	}
	return out
}

var (
	voteCache  sync.Map
	propCache  sync.Map
	blockCache sync.Map
)

func newLocal(c *localCfg, f *csnet.Fixture) *localInst {
	li := &localInst{c: c, f: f, soup: newSoup(c.powers), used: map[vsKey]map[int]map[string]bool{}, height: 1,
		first: map[vsKey]map[int]string{}, redeliv: map[string]int{}, claims: map[string]bool{}, toDone: map[int]bool{}}
	li.n = f.NewNode(c.self, 0)
	// the two candidate blocks are the same for every execution of a search (MakeBlock is deterministic); the node only
	// ever sees their parts (bytes) and decodes its own copy
	type cand struct {
		blocks [2]*types.Block
		parts  [2]*types.PartSet
		ids    [3]types.BlockID
	}
	li.st = f.GenesisStatus()
	var lc *types.Commit
	if c.h2 {
		lc = li.commitHeight1()
	}
	if x, ok := blockCache.Load(c.name); ok {
		cd := x.(*cand)
		li.blocks, li.parts, li.ids = cd.blocks, cd.parts, cd.ids
	} else {
		for b := 0; b < 2; b++ {
			app := csnet.NewTrivApp(f.Vals, uint64(b+1))
			for h, blk := range li.n.App.Blocks {
				app.Blocks[h] = blk
			}
			li.blocks[b], li.parts[b] = f.MakeBlock(li.st, app, 0, lc, nil)
			li.ids[b] = csnet.BlockID(li.blocks[b], li.parts[b])
		}
		blockCache.Store(c.name, &cand{li.blocks, li.parts, li.ids})
	}
	if li.parts[0].Total() != 1 || li.parts[1].Total() != 1 {
		vk.Fatalf("local/%s: the candidate blocks must fit one part (the alphabet has one BlockPart letter per block)", c.name)
	}
	for _, p := range c.powers {
		li.total += p
	}
	return li
}

// commitHeight1 drives the node through an honest height 1 (proposal, block, two more prevotes, two more precommits) and
// leaves it at the start of height 2; returns the commit the node saw (the LastCommit of height-2 blocks).
func (li *localInst) commitHeight1() *types.Commit {
	n, f := li.n, li.f
	st := f.GenesisStatus()
	// The node under test PROPOSES height 1 round 0 itself: it is then the proposer of round 3 at height 2, which the searches
	// (votes for rounds 0 and 1, so rounds 0..2) never reach. A block the node proposes at height 2 would carry its own
	// height-1 precommit with a wall-clock time stamp, i.e. a different hash in every execution.
	if f.ProposerAt(st, 0) != li.c.self {
		vk.Fatalf("local/%s: the height-2 searches need the node that proposes height 1 round 0", li.c.name)
	}
	n.FireTimeout()
	n.Drain()
	var id types.BlockID
	found := false
	for _, m := range n.Sent {
		if vm, ok := m.(*cs.VoteMessage); ok && vm.Vote.ValidatorIndex == li.c.self && vm.Vote.Height == 1 && vm.Vote.Type == types.VoteTypePrevote && !vm.Vote.BlockID.IsZero() {
			id, found = vm.Vote.BlockID, true
		}
	}
	if !found {
		vk.Fatalf("local/%s: the node did not prevote its own proposal at height 1", li.c.name)
	}
	for _, t := range []byte{types.VoteTypePrevote, types.VoteTypePrecommit} {
		cnt := 0
		for j := range li.c.powers {
			if j != li.c.self && cnt < 2 {
				cnt++
				n.Deliver(&cs.VoteMessage{Vote: f.Vote(j, 1, 0, t, id)}, "env")
				n.Drain()
			}
		}
	}
	if n.App.Height() != 1 || n.CS.GetRoundState().Height != 2 {
		vk.Fatalf("local/%s: the scripted height 1 did not commit (app height %d, consensus height %d)", li.c.name, n.App.Height(), n.CS.GetRoundState().Height)
	}
	li.height = 2
	li.st = n.VerifStatus()
	for r := 0; r <= 2; r++ {
		if f.ProposerAt(li.st, r) == li.c.self {
			vk.Fatalf("local/%s: the node under test proposes height 2 round %d; its own block is not reproducible", li.c.name, r)
		}
	}
	li.sentSeen = len(n.Sent)
	li.commits = len(n.App.Commits)
	li.baseCom = len(n.App.Commits)
	return n.App.Seen[1]
}

func (li *localInst) record(vs vsKey, j int, val string) {
	if li.used[vs] == nil {
		li.used[vs] = map[int]map[string]bool{}
	}
	if li.used[vs][j] == nil {
		li.used[vs][j] = map[string]bool{}
		if li.first[vs] == nil {
			li.first[vs] = map[int]string{}
		}
		li.first[vs][j] = val
	}
	li.used[vs][j][val] = true
	if vs.t == types.VoteTypePrevote {
		li.soup.pv[msg{j, vs.r, val}] = true
	} else {
		li.soup.pc[msg{j, vs.r, val}] = true
	}
}

func idKey(id types.BlockID) string {
	if id.IsZero() {
		return nilV
	}
	return id.Key()
}

func (li *localInst) vote(j, r int, t byte, v int) *types.Vote {
	k := fmt.Sprintf("%s|%d|%d|%d|%d", li.c.name, j, r, t, v)
	if x, ok := voteCache.Load(k); ok {
		return x.(*types.Vote)
	}
	vt := li.f.Vote(j, li.height, r, t, li.ids[v])
	voteCache.Store(k, vt)
	return vt
}

// nextUnused: the lowest-index other validator without a delivered vote in vs.
func (li *localInst) nextUnused(vs vsKey) int {
	for j := range li.c.powers {
		if j == li.c.self {
			continue
		}
		if len(li.used[vs][j]) == 0 {
			return j
		}
	}
	return -1
}

// apply delivers one input; returns enabled=false if the input does not exist in this state.
func (li *localInst) apply(in input) bool {
	n := li.n
	switch in.kind {
	case inTimeout:
		if _, ok := n.PendingTimeout(); !ok {
			return false
		}
		li.toDone[len(n.TimeoutLog())-1] = true
		n.FireTimeout()
	case inLateTimeout:
		cand := li.lateCandidates()
		if in.j >= len(cand) {
			return false
		}
		i := cand[len(cand)-1-in.j]
		li.toDone[i] = true
		n.InjectTimeout(n.TimeoutLog()[i])
	case inInternal:
		if n.StepInternal() == nil {
			return false
		}
	case inProposalBlock, inProposalOnly:
		p := li.f.ProposerAt(li.st, in.r)
		if p == li.c.self {
			return false
		}
		k := fmt.Sprintf("%s|%d|%d|%d", li.c.name, in.r, in.blk, in.pol)
		var prop *types.Proposal
		if x, ok := propCache.Load(k); ok {
			prop = x.(*types.Proposal)
		} else {
			polID := types.BlockID{}
			if in.pol >= 0 {
				polID = li.ids[in.blk]
			}
			prop = li.f.Proposal(p, li.height, in.r, li.parts[in.blk].Header(), in.pol, polID)
			propCache.Store(k, prop)
		}
		n.Deliver(&cs.ProposalMessage{Proposal: prop}, "env")
		if in.kind == inProposalBlock {
			if !li.c.nodrain {
				n.Drain()
			}
			n.Deliver(&cs.BlockPartMessage{Height: li.height, Round: in.r, Part: li.parts[in.blk].GetPart(0)}, "env")
		}
	case inPartOnly:
		n.Deliver(&cs.BlockPartMessage{Height: li.height, Round: 0, Part: li.parts[in.blk].GetPart(0)}, "env")
	case inMaj23:
		k := fmt.Sprintf("%d/%d/%d", in.r, in.typ, in.blk)
		if li.claims[k] || len(li.claims) >= 2 {
			return false
		}
		li.claims[k] = true
		// ConsensusReactor.Receive: votes.SetPeerMaj23(msg.Round, msg.Type, peerID, msg.BlockID)
		n.CS.GetRoundState().Votes.SetPeerMaj23(in.r, in.typ, fmt.Sprintf("claimer%d", len(li.claims)), li.ids[in.blk])
	case inRedeliver:
		k := fmt.Sprintf("%d/%d/%d/%d", in.r, in.typ, in.from, in.blk)
		vs := vsKey{in.r, in.typ}
		j := -1
		for x := range li.c.powers {
			if x != li.c.self && len(li.used[vs][x]) == 2 && li.first[vs][x] == idKey(li.ids[in.from]) && li.used[vs][x][idKey(li.ids[in.blk])] {
				j = x
				break
			}
		}
		if j < 0 || li.redeliv[k] >= 2 {
			return false
		}
		li.redeliv[k]++
		n.Deliver(&cs.VoteMessage{Vote: li.vote(j, in.r, in.typ, in.blk)}, "env2")
	case inVote, inVoteJ, inEquiv:
		vs := vsKey{in.r, in.typ}
		j := in.j
		if in.kind == inVote {
			j = li.nextUnused(vs)
			if j < 0 {
				return false
			}
		} else if in.kind == inEquiv {
			j = -1
			for x := range li.c.powers {
				if x != li.c.self && len(li.used[vs][x]) == 1 && li.first[vs][x] == idKey(li.ids[in.from]) {
					j = x
					break
				}
			}
			if j < 0 {
				return false
			}
		} else if li.used[vs][j][idKey(li.ids[in.blk])] {
			return false // exact duplicate: no-op
		}
		li.record(vs, j, idKey(li.ids[in.blk]))
		n.Deliver(&cs.VoteMessage{Vote: li.vote(j, in.r, in.typ, in.blk)}, "env")
	}
	if !li.c.nodrain {
		n.Drain()
	}
	return true
}

// observe checks the guards of the discipline model on everything the node emitted since the last call.
func (li *localInst) observe() (string, string) {
	n := li.n
	self := li.c.self
	for ; li.sentSeen < len(n.Sent); li.sentSeen++ {
		vm, ok := n.Sent[li.sentSeen].(*cs.VoteMessage)
		if !ok || vm.Vote.ValidatorIndex != self {
			continue
		}
		v := vm.Vote
		if v.Height != li.height {
			continue // votes of later heights: monitors cover the first height only
		}
		val := idKey(v.BlockID)
		if val != nilV && val != idKey(li.ids[0]) && val != idKey(li.ids[1]) {
			// the only blocks that exist at this height are the two candidates and whatever the node proposed itself
			own := false
			for _, m := range n.Sent {
				if pm, ok := m.(*cs.ProposalMessage); ok && pm.Proposal.Height == li.height && pm.Proposal.BlockPartsHeader.Equals(v.BlockID.PartsHeader) {
					own = true
				}
			}
			if !own {
				return "L6:vote-for-a-block-nobody-proposed-at-this-height", fmt.Sprintf("the node signs a %s for %s at height %d round %d: neither candidate block nor its own proposal of this height (state carried over from another height?)",
					map[byte]string{types.VoteTypePrevote: "prevote", types.VoteTypePrecommit: "precommit"}[v.Type], v.BlockID, v.Height, v.Round)
			}
		}
		switch v.Type {
		case types.VoteTypePrevote:
			if k, w := li.soup.prevoteEnabled(self, v.Round, val); k != "" {
				return k, w
			}
			li.soup.pv[msg{self, v.Round, val}] = true
		case types.VoteTypePrecommit:
			if k, w := li.soup.precommitEnabled(self, v.Round, val); k != "" {
				return k, w
			}
			li.soup.pc[msg{self, v.Round, val}] = true
		}
	}
	for ; li.commits < len(n.App.Commits); li.commits++ {
		c := n.App.Commits[li.commits]
		if c.Height != li.height {
			continue
		}
		// the committed value: the block id (hash + parts header) whose hash is the committed block's
		key := ""
		for m := range li.soup.pc {
			if m.v != nilV && strings.HasPrefix(m.v, c.Hash.String()) {
				key = m.v
			}
		}
		if key == "" {
			return "L4:commit-without-precommit-quorum", fmt.Sprintf("block %x committed at height %d but no precommit for it was ever delivered", c.Hash.Bytes()[:6], c.Height)
		}
		if k, w := li.soup.decideEnabled(key); k != "" {
			return k, w
		}
	}
	return "", ""
}

// ownVotes renders the node's own votes in the soup (round:type:value with values A, B, nil, other), sorted.
func (li *localInst) ownVotes() string {
	name := func(v string) string {
		switch v {
		case idKey(li.ids[0]):
			return "A"
		case idKey(li.ids[1]):
			return "B"
		case nilV:
			return "nil"
		}
		return "other"
	}
	var out []string
	for m := range li.soup.pv {
		if m.p == li.c.self {
			out = append(out, fmt.Sprintf("r%d:pv:%s", m.r, name(m.v)))
		}
	}
	for m := range li.soup.pc {
		if m.p == li.c.self {
			out = append(out, fmt.Sprintf("r%d:pc:%s", m.r, name(m.v)))
		}
	}
	sort.Strings(out)
	return strings.Join(out, " ")
}

// reached renders the state a scripted prefix led to, in the format of localCfg.expect.
func (li *localInst) reached() string {
	rs := li.n.CS.GetRoundState()
	lock := "-"
	if rs.LockedBlock != nil {
		lock = fmt.Sprint(rs.LockedRound)
	}
	return fmt.Sprintf("R%d S%d lock=%s | %s", rs.Round, rs.Step, lock, li.ownVotes())
}

func (li *localInst) tallyKey() string {
	// canonical rendering of the soup. With symmetry reduction the other validators are anonymous, but the votes of ONE
	// validator in one (type, round) stay together: under equivocation {v1:{A,nil}, v2:{B}} and {v1:{B,nil}, v2:{A}} are
	// different states (who may still equivocate, how many distinct validators voted), although the multisets of
	// values are equal. Vote sets of different (type, round) are independent in the node, the oracle and the harness
	// (nextUnused / equivocation are per vote set), so anonymous identities need not be correlated across them.
	group := map[string]map[int][]string{}
	add := func(t string, typ byte, set map[msg]bool) {
		for m := range set {
			k := fmt.Sprintf("%s r%d", t, m.r)
			if group[k] == nil {
				group[k] = map[int][]string{}
			}
			tag := "" // the first vote of a validator is the one the node counts; mark it
			if li.first[vsKey{m.r, typ}][m.p] == m.v {
				tag = "1st="
			}
			group[k][m.p] = append(group[k][m.p], tag+fmt.Sprintf("%.8x", m.v))
		}
	}
	add("pv", types.VoteTypePrevote, li.soup.pv)
	add("pc", types.VoteTypePrecommit, li.soup.pc)
	var parts []string
	for k, byVal := range group {
		var vs []string
		for p, vals := range byVal {
			sort.Strings(vals)
			who := fmt.Sprintf("%d", p)
			if li.c.sym && p != li.c.self {
				who = "x"
			}
			vs = append(vs, who+":{"+strings.Join(vals, ",")+"}")
		}
		sort.Strings(vs)
		parts = append(parts, k+"["+strings.Join(vs, ",")+"]")
	}
	sort.Strings(parts)
	return strings.Join(parts, " ")
}

func (li *localInst) key() string {
	self := -1
	if li.c.sym {
		self = li.c.self
	}
	extra := ""
	if li.c.maj23 {
		var cl []string
		for k := range li.claims {
			cl = append(cl, k)
		}
		sort.Strings(cl)
		var rd []string
		for k, v := range li.redeliv {
			rd = append(rd, fmt.Sprintf("%s=%d", k, v))
		}
		sort.Strings(rd)
		extra = fmt.Sprintf(" claims=%v redeliv=%v", cl, rd)
	}
	if li.c.late {
		log := li.n.TimeoutLog()
		var lt []string
		for _, i := range li.lateCandidates() {
			lt = append(lt, log[i].String())
		}
		extra += fmt.Sprintf(" in-flight-timeouts=%v", lt)
	}
	return li.n.DigestSym(self) + " ## " + li.tallyKey() + extra
}

func runLocal(r *vk.Run, c *localCfg) vk.Result {
	f := csnet.NewFixture(c.powers)
	alpha := c.alphabet(f)
	var pre []input
	for _, nm := range c.prefix {
		found := false
		for _, a := range alpha {
			if a.String() == nm {
				pre = append(pre, a)
				found = true
				break
			}
		}
		if !found {
			vk.Fatalf("local/%s: prefix input %q not in alphabet", c.name, nm)
		}
	}
	spec := vk.Spec{
		Name:   "local/" + c.name,
		NumOps: len(alpha),
		OpName: func(i int) string { return alpha[i].String() },
		Enabled: func(hist []int, op int) bool {
			k := alpha[op].kind
			return k == inTimeout || k == inInternal || k == inPartOnly || k == inLateTimeout || alpha[op].r >= c.minR
		},
		Depth:           c.depth,
		MaxState:        c.maxSt,
		MergeCheckEvery: 500,
		Exec: func(hist []int) (out vk.Outcome) {
			li := newLocal(c, f)
			defer li.n.Close()
			defer func() {
				if e := recover(); e != nil {
					out = vk.Outcome{Err: "L5:handler-panic", What: fmt.Sprint(e)}
				}
			}()
			for _, in := range pre {
				if !li.apply(in) {
					// the scripted prefix no longer applies to this code (like a drifted target state): the search is not run and
					// the run is not called exhaustive; the other searches go on
					if len(hist) == 0 {
						r.Capped(fmt.Sprintf("local/%s: prefix input %s is not enabled in the state the earlier inputs led to; search skipped", c.name, in))
					}
					return vk.Outcome{}
				}
				if k, w := li.observe(); k != "" {
					if len(hist) == 0 {
						return vk.Outcome{Err: k, What: "in scripted prefix: " + w}
					}
					return vk.Outcome{}
				}
			}
			for i, oi := range hist {
				if !li.apply(alpha[oi]) {
					return vk.Outcome{}
				}
				k, w := li.observe()
				if k != "" {
					if i == len(hist)-1 {
						return vk.Outcome{Err: k, What: w}
					}
					return vk.Outcome{}
				}
			}
			if len(hist) == 0 {
				if os.Getenv("C01_DUMP_START") != "" {
					fmt.Fprintf(os.Stderr, "START %s :: %s\n", c.name, li.reached())
				}
				// A scripted prefix depends on the fixture (who proposes when) and on the code: if it no longer leads where it
				// is meant to, the search still runs from wherever it got, but the run is not called exhaustive.
				if got := li.reached(); c.expect != "" && got != c.expect {
					r.Capped(fmt.Sprintf("local/%s: the scripted prefix reached %q, meant to reach %q", c.name, got, c.expect))
				}
			}
			if len(li.n.App.Commits) > li.baseCom {
				// committed: terminal for this search (the next height is explored by the height-2 searches)
				return vk.Outcome{Key: "COMMITTED " + fmt.Sprintf("%x", li.n.App.Commits[li.baseCom].Hash.Bytes()[:6]), Terminal: true}
			}
			return vk.Outcome{Key: li.key()}
		},
	}
	return r.Explore(spec)
}

// Scripted prefixes: the BFS is started from the initial state and from deeper states that matter for the
// voting discipline (after a lock, after a round change, while waiting for the commit block ...).
func localConfigs(r *vk.Run) []*localCfg {
	pvA, pvB, pvN := "Vote(next,prevote,r0,A)", "Vote(next,prevote,r0,B)", "Vote(next,prevote,r0,nil)"
	pcA, pcN := "Vote(next,precommit,r0,A)", "Vote(next,precommit,r0,nil)"
	_ = pvB
	PA := "Proposal+Block(r0,A,pol-1)"
	T := "FireTimeout"
	prefixes := []struct {
		name   string
		pre    []string
		expect string
	}{
		{"init", nil, "R0 S1 lock=- | "},
		{"prevoted-nil-r0", []string{T, T}, "R0 S4 lock=- | r0:pv:nil"},
		{"locked-A-r0", []string{T, PA, pvA, pvA}, "R0 S6 lock=0 | r0:pc:A r0:pv:A"},
		{"locked-A-moved-to-r1", []string{T, PA, pvA, pvA, pcN, pcN, T}, "R1 S3 lock=0 | r0:pc:A r0:pv:A"},
		{"nil-polka-r0-moved-to-r1", []string{T, T, pvN, pvN, pcN, pcN, T}, "R1 S4 lock=- | r0:pc:nil r0:pv:nil r1:pv:nil"},
		{"commit-step-without-block", []string{T, pcA, pcA, pcA}, "R0 S8 lock=- | r0:pc:nil"},
		{"locked-A-r1-proposal-B", []string{T, PA, pvA, pvA, pcN, pcN, T, "Proposal+Block(r1,B,pol-1)"}, "R1 S4 lock=0 | r0:pc:A r0:pv:A r1:pv:A"},
		// a polka for a block the node does not hold (proposal withheld from it): it may only precommit nil, and what it
		// precommitted binds its later prevotes
		{"polka-for-unheld-A-r0", []string{T, T, pvA, pvA, pvA}, "R0 S6 lock=- | r0:pc:nil r0:pv:nil"},
		{"polka-for-unheld-A-moved-to-r1", []string{T, T, pvA, pvA, pvA, pcN, pcN, T}, "R1 S4 lock=- | r0:pc:nil r0:pv:nil r1:pv:nil"},
	}
	var out []*localCfg
	eq := []int64{1, 1, 1, 1}
	f := csnet.NewFixture(eq)
	st := f.GenesisStatus()
	p0, p1 := f.ProposerAt(st, 0), f.ProposerAt(st, 1)
	// "other": proposer of neither round 0, 1 nor 2, so that in every round of the alphabet the proposal is an
	// environment input
	other := f.ProposerAt(st, 3)
	if other == p0 || other == p1 || other == f.ProposerAt(st, 2) {
		vk.Fatalf("fixture: proposer rotation of 4 equal validators is not a 4-cycle")
	}
	for i, p := range prefixes {
		d := r.Pick(4, 7)
		if r.Quick() && i == 0 {
			d = 5
		}
		out = append(out, &localCfg{name: fmt.Sprintf("eq4/self%d(non-proposer)/sym/%s", other, p.name), powers: eq, self: other, rounds: 2, sym: true,
			depth: d, maxSt: r.Pick(60000, 1500000), prefix: p.pre, expect: p.expect})
	}
	// three rounds in the alphabet: lock taken at round 1 (after skipping round 0 on nil precommits), node now in round 2;
	// an OLDER polka (round 0) must not release the lock
	pc0N, pv1A, pc1N := "Vote(next,precommit,r0,nil)", "Vote(next,prevote,r1,A)", "Vote(next,precommit,r1,nil)"
	lockR1 := []string{T, pc0N, pc0N, pc0N, "Proposal+Block(r1,A,pol-1)", pv1A, pv1A}
	out = append(out, &localCfg{name: fmt.Sprintf("eq4/self%d(non-proposer)/sym/3rounds/locked-A-r1", other), powers: eq, self: other, rounds: 3, sym: true,
		depth: r.Pick(3, 5), maxSt: r.Pick(60000, 1500000), prefix: lockR1, expect: "R1 S6 lock=1 | r1:pc:A r1:pv:A"})
	out = append(out, &localCfg{name: fmt.Sprintf("eq4/self%d(non-proposer)/sym/3rounds/locked-A-r1-moved-to-r2", other), powers: eq, self: other, rounds: 3, sym: true,
		depth: r.Pick(4, 6), maxSt: r.Pick(60000, 1500000), prefix: append(append([]string{}, lockR1...), pc1N, pc1N, T),
		expect: "R2 S3 lock=1 | r1:pc:A r1:pv:A"})
	// four rounds: lock A at r0, no polka at r1, RE-lock A at r2 (the lock round must move to 2), node now in round 3;
	// a late polka for B / nil at round 1 is older than the re-lock and must not release it. The node is the proposer of
	// round 2 here (it re-proposes its locked block itself), so that in round 3 - where the stale polka arrives - the
	// proposal is an environment input again and the node has not prevoted yet.
	p2 := f.ProposerAt(st, 2)
	pv2A, pc2N := "Vote(next,prevote,r2,A)", "Vote(next,precommit,r2,nil)"
	pv1N := "Vote(next,prevote,r1,nil)"
	relock := []string{T, PA, pvA, pvA, pcN, pcN, T, T, pv1N, pv1N, T, pc1N, pc1N, T, pv2A, pv2A}
	relockVotes := "r0:pc:A r0:pv:A r1:pc:nil r1:pv:A r2:pc:A r2:pv:A"
	out = append(out, &localCfg{name: fmt.Sprintf("eq4/self%d(proposer-of-r2)/sym/4rounds/relocked-A-r2", p2), powers: eq, self: p2, rounds: 4, minR: 1, sym: true,
		depth: r.Pick(3, 5), maxSt: r.Pick(60000, 1500000), prefix: relock, expect: "R2 S6 lock=2 | " + relockVotes})
	out = append(out, &localCfg{name: fmt.Sprintf("eq4/self%d(proposer-of-r2)/sym/4rounds/relocked-A-r2-moved-to-r3", p2), powers: eq, self: p2, rounds: 4, minR: 1, sym: true,
		depth: r.Pick(4, 6), maxSt: r.Pick(60000, 1500000), prefix: append(append([]string{}, relock...), pc2N, pc2N, T),
		expect: "R3 S3 lock=2 | " + relockVotes})
	// five equal validators: total power 5 = 2 (mod 3), where floor-based quorum formulas go wrong (floor(2T/3)+1 = 4 votes
	// are needed, 3 of 5 is only 60%); the oracle's quorum is the exact 3*power > 2*total
	eq5 := []int64{1, 1, 1, 1, 1}
	f5 := csnet.NewFixture(eq5)
	self5 := f5.ProposerAt(f5.GenesisStatus(), 4)
	for rr := 0; rr < 3; rr++ {
		if f5.ProposerAt(f5.GenesisStatus(), rr) == self5 {
			vk.Fatalf("fixture: proposer rotation of 5 equal validators is not a 5-cycle")
		}
	}
	out = append(out, &localCfg{name: fmt.Sprintf("eq5/self%d(non-proposer)/sym/init", self5), powers: eq5, self: self5, rounds: 2, sym: true,
		depth: r.Pick(4, 6), maxSt: r.Pick(60000, 1500000), expect: "R0 S1 lock=- | "})
	out = append(out, &localCfg{name: fmt.Sprintf("eq5/self%d(non-proposer)/sym/locked-A-r0", self5), powers: eq5, self: self5, rounds: 2, sym: true,
		depth: r.Pick(3, 5), maxSt: r.Pick(60000, 1500000), prefix: []string{T, PA, pvA, pvA, pvA}, expect: "R0 S6 lock=0 | r0:pc:A r0:pv:A"})
	// peer +2/3 claims, equivocation and re-delivery of the equivocating vote (one counted vote per validator per value,
	// whatever the peers claim): round 0 only, from the locked state
	out = append(out, &localCfg{name: fmt.Sprintf("eq4/self%d(non-proposer)/sym/equiv+maj23+redelivery/locked-A-r0", other), powers: eq, self: other, rounds: 1, sym: true,
		equiv: true, maj23: true, split: true, depth: r.Pick(5, 7), maxSt: r.Pick(60000, 1500000), prefix: prefixes[2].pre, expect: prefixes[2].expect})
	// timeouts that were superseded before they were delivered arrive late (the real ticker hands a fired timeout to a
	// goroutine, which may deliver it after any number of newer events): from the start and from the locked state
	if !r.Quick() { // quick: the height-2 search below starts from an initial state with late timeouts too
		out = append(out, &localCfg{name: fmt.Sprintf("eq4/self%d(non-proposer)/sym/late-timeouts/init", other), powers: eq, self: other, rounds: 2, sym: true,
			late: true, depth: 6, maxSt: 1500000, expect: "R0 S1 lock=- | "})
	}
	out = append(out, &localCfg{name: fmt.Sprintf("eq4/self%d(non-proposer)/sym/late-timeouts/locked-A-r0", other), powers: eq, self: other, rounds: 2, sym: true,
		late: true, depth: r.Pick(4, 6), maxSt: r.Pick(60000, 1500000), prefix: prefixes[2].pre, expect: prefixes[2].expect})
	// height 2: everything a node carries across a height change (lock, valid block, vote sets, last commit, proposer
	// rotation, timeouts of the old height still in flight) after an honest height 1
	out = append(out, &localCfg{name: fmt.Sprintf("eq4/self%d(proposer-of-h1)/sym/height2+late-timeouts/init", p0), powers: eq, self: p0, rounds: 2, sym: true,
		h2: true, late: true, depth: r.Pick(4, 6), maxSt: r.Pick(60000, 1500000), expect: "R0 S1 lock=- | "})
	if !r.Quick() {
		// the node is the proposer of round 0 / round 1 (its own block O enters the alphabet implicitly)
		for _, self := range []int{p0, p1} {
			for _, p := range prefixes[:2] {
				out = append(out, &localCfg{name: fmt.Sprintf("eq4/self%d(proposer)/sym/%s", self, p.name), powers: eq, self: self, rounds: 2, sym: true,
					depth: 7, maxSt: 1500000, prefix: p.pre})
			}
		}
		// no symmetry reduction, unequal powers, explicit validators, equivocation and split proposal/part inputs
		out = append(out, &localCfg{name: "pw1132/self0/explicit/init", powers: []int64{1, 1, 3, 2}, self: 0, rounds: 2, depth: 5, maxSt: 1500000})
		out = append(out, &localCfg{name: fmt.Sprintf("eq4/self%d/sym+equiv+split/init", other), powers: eq, self: other, rounds: 2, sym: true, equiv: true, split: true, depth: 5, maxSt: 1500000})
		out = append(out, &localCfg{name: fmt.Sprintf("eq4/self%d/sym/nodrain/init", other), powers: eq, self: other, rounds: 2, sym: true, nodrain: true, depth: 7, maxSt: 1500000})
		out = append(out, &localCfg{name: fmt.Sprintf("eq4/self%d/sym/3rounds/locked", other), powers: eq, self: other, rounds: 3, sym: true, depth: 6, maxSt: 1500000, prefix: prefixes[3].pre})
	}
	return out
}
