package main

// The voting discipline L0-L4 as pure guard functions over a message soup. These are, clause by clause,
// the action guards of models/TMDiscipline.tla (PrevoteEnabled, PrecommitEnabled, DecideEnabled); the
// model part of this check cross-validates them against TLC's labelled state graph, and the local/net
// parts evaluate them on every vote and commit the REAL node emits.

import "fmt"

const nilV = "nil"

type msg struct {
	p, r int
	v    string
}

type soup struct {
	powers []int64
	pv, pc map[msg]bool
}

func newSoup(powers []int64) *soup {
	return &soup{powers: powers, pv: map[msg]bool{}, pc: map[msg]bool{}}
}

func (s *soup) total() int64 {
	var t int64
	for _, p := range s.powers {
		t += p
	}
	return t
}

func (s *soup) power(set map[msg]bool, r int, v string) int64 {
	var t int64
	for m := range set {
		if m.r == r && m.v == v {
			t += s.powers[m.p]
		}
	}
	return t
}

func (s *soup) quorum(set map[msg]bool, r int, v string) bool {
	return 3*s.power(set, r, v) > 2*s.total()
}

func (s *soup) values(set map[msg]bool, r int) map[string]bool {
	out := map[string]bool{}
	for m := range set {
		if m.r == r {
			out[m.v] = true
		}
	}
	return out
}

func has(set map[msg]bool, p, r int) bool {
	for m := range set {
		if m.p == p && m.r == r {
			return true
		}
	}
	return false
}

func maxRound(sets ...map[msg]bool) int {
	mx := 0
	for _, set := range sets {
		for m := range set {
			if m.r > mx {
				mx = m.r
			}
		}
	}
	return mx
}

// lock of p: its highest-round non-nil precommit
func (s *soup) lock(p int) (round int, val string, ok bool) {
	round = -1
	for m := range s.pc {
		if m.p == p && m.v != nilV && m.r > round {
			round, val, ok = m.r, m.v, true
		}
	}
	return
}

// prevoteEnabled: L0/L1 order + L3 lock rule. Returns "" if enabled, else the violated rule.
func (s *soup) prevoteEnabled(p, r int, v string) (string, string) {
	if has(s.pv, p, r) {
		return "L1:second-prevote-in-round", fmt.Sprintf("p%d already prevoted in round %d", p, r)
	}
	for m := range s.pv {
		if m.p == p && m.r > r {
			return "L0:vote-order-regression", fmt.Sprintf("p%d prevotes in round %d after prevoting in round %d", p, r, m.r)
		}
	}
	for m := range s.pc {
		if m.p == p && m.r >= r {
			return "L0:vote-order-regression", fmt.Sprintf("p%d prevotes in round %d after precommitting in round %d", p, r, m.r)
		}
	}
	lr, lv, locked := s.lock(p)
	if !locked || lr >= r || v == lv {
		return "", ""
	}
	for r2 := lr + 1; r2 <= r; r2++ {
		for w := range s.values(s.pv, r2) {
			if w != lv && s.quorum(s.pv, r2, w) {
				return "", ""
			}
		}
	}
	return "L3:prevote-against-lock", fmt.Sprintf("p%d prevotes %.12x at round %d while locked on %.12x since round %d and no later polka for another value exists", p, v, r, lv, lr)
}

// precommitEnabled: L0/L1 order + L2 polka rule.
func (s *soup) precommitEnabled(p, r int, v string) (string, string) {
	if has(s.pc, p, r) {
		return "L1:second-precommit-in-round", fmt.Sprintf("p%d already precommitted in round %d", p, r)
	}
	for m := range s.pv {
		if m.p == p && m.r > r {
			return "L0:vote-order-regression", fmt.Sprintf("p%d precommits in round %d after prevoting in round %d", p, r, m.r)
		}
	}
	for m := range s.pc {
		if m.p == p && m.r > r {
			return "L0:vote-order-regression", fmt.Sprintf("p%d precommits in round %d after precommitting in round %d", p, r, m.r)
		}
	}
	if v != nilV && !s.quorum(s.pv, r, v) {
		return "L2:precommit-without-polka", fmt.Sprintf("p%d precommits %.12x at round %d with %d/%d prevote power for it", p, v, r, s.power(s.pv, r, v), s.total())
	}
	return "", ""
}

// decideEnabled: L4.
func (s *soup) decideEnabled(v string) (string, string) {
	if v != nilV {
		for r := 0; r <= maxRound(s.pc); r++ {
			if s.quorum(s.pc, r, v) {
				return "", ""
			}
		}
	}
	return "L4:commit-without-precommit-quorum", fmt.Sprintf("value %.12x committed without >2/3 precommit power for it in one round", v)
}
