// C01 — agreement and voting discipline.
//
//	model: TLC checks "discipline L0-L4 => Agreement" for all interleavings (4 processes, 1 Byzantine) and the
//	       Go guard functions are cross-validated against TLC's labelled state graph;
//	local: one REAL ConsensusState against an arbitrary environment (explicit-state BFS); every vote and commit
//	       it emits must be an enabled action of the model (same guard functions);
//	net:   three real nodes + one Byzantine puppet, deviation-bounded exploration of delivery schedules.
package main

import (
	"encoding/json"
	"flag"
	"fmt"
	"os"
	"sort"
	"strings"
	"time"

	"verif/vk"

	"github.com/lianxiangcloud/linkchain/libs/log"
)

var part = flag.String("part", "all", "model|local|net|all")
var only = flag.String("only", "", "run only the local searches whose name contains this")

func main() {
	log.Root().SetHandler(log.DiscardHandler())
	r := vk.Start("C01", "model_checking")
	states, trans, validated := 0, 0, 0
	var per []interface{}
	if (*part == "all" || *part == "model") && r.ReplayPath == "" {
		info := runModel(r)
		r.Set("model", info)
		states += info["model_states_total"].(int)
		trans += info["model_transitions_total"].(int)
	}
	if *part == "all" || *part == "local" {
		restore := r.Limit(r.Remaining() * 65 / 100)
		cfgs := localConfigs(r)
		// every search gets an equal share of what is LEFT when it starts, so the last ones inherit what the cheap ones did not
		// use: the expensive searches (largest alphabets / depths) go last
		sort.SliceStable(cfgs, func(a, b int) bool { return heavy(cfgs[a]) < heavy(cfgs[b]) })
		if *only != "" {
			var sel []*localCfg
			for _, c := range cfgs {
				if strings.Contains(c.name, *only) {
					sel = append(sel, c)
				}
			}
			cfgs = sel
		}
		// The searches run in worker processes (4 at a time, 4 expansion goroutines each): the repository's serializer takes
		// one process-wide exclusive lock per encoded interface value (ser.typeCacheMutex), so goroutines of ONE process
		// do not scale beyond about 4 cores on this code.
		type localOut struct {
			Res vk.Result   `json:"res"`
			Exp vk.Exported `json:"exp"`
		}
		if vk.IsWorker() {
			os.Setenv("VERIF_WORKERS", "4")
			const shards = 4
			vk.WorkerLoop(len(cfgs), func(i int) interface{} {
				// equal share of what is left for every remaining search of this worker's shard
				restoreOne := r.Limit(r.Remaining() / time.Duration((len(cfgs)-1-i)/shards+1))
				res := runLocal(r, cfgs[i])
				restoreOne()
				return localOut{res, r.Export()}
			})
		}
		if r.ReplayPath != "" || os.Getenv("C01_INPROC") != "" { // replay of one case / developer aid: in this process
			for _, c := range cfgs {
				runLocal(r, c)
			}
		} else {
			outs := make([]*localOut, len(cfgs))
			extra := []string{"--part", "local", "--budget", r.Remaining().String()}
			if *only != "" {
				extra = append(extra, "--only", *only)
			}
			// one search per worker process invocation; a worker that dies or hangs is a harness error for that search
			r.RunIsolated(len(cfgs), vk.IsoOpts{Workers: 4, Procs: 5, CaseTimeout: r.Remaining() + 30*time.Second, ExtraArgs: extra}, func(i int, raw json.RawMessage, fatal string) {
				if fatal != "" {
					vk.Fatalf("local/%s: worker failed: %s", cfgs[i].name, fatal)
				}
				var o localOut
				if err := json.Unmarshal(raw, &o); err != nil {
					vk.Fatalf("local/%s: worker output: %v", cfgs[i].name, err)
				}
				outs[i] = &o
			})
			for i, c := range cfgs {
				o := outs[i]
				if o == nil {
					r.Capped(fmt.Sprintf("local/%s: not run before the deadline", c.name))
					continue
				}
				r.Import(o.Exp)
				res := o.Res
				states += res.States
				trans += res.Transitions
				validated += res.Transitions
				per = append(per, map[string]interface{}{"search": "local/" + c.name, "states": res.States, "transitions": res.Transitions,
					"depth_completed": res.DepthCompleted, "per_depth": res.PerDepth, "merge_checks": res.MergeChecks, "prefix": c.prefix})
			}
		}
		restore()
	}
	if *part == "all" || *part == "net" {
		ni := runNet(r)
		r.Set("net", ni)
		trans += ni["inputs_handled"].(int)
		validated += ni["executions"].(int)
		states += ni["distinct_final_states"].(int)
	}
	r.Set("searches", per)
	r.Set("states", states)
	r.Set("transitions", trans)
	r.Set("traces_validated_against_impl", validated)
	r.Set("evaluations", trans)
	r.Set("distinct_nontrivial", states)
	r.Set("rule", "model states (TLC) + implementation states (BFS over environment inputs to a real ConsensusState, canonical digest of RoundState + delivered soup) + distinct final states of network executions")
	r.Assume("TLC (pre-installed) is trusted for the model; the model is bound to the code through the shared guard functions (cross-validated state by state) evaluated on every vote/commit of the real node")
	r.Assume("recover mode (15-minute stall timer, recover proposals) is never triggered; equal voting powers in the symmetry-reduced searches")
	r.Assume("own messages are handled immediately after the input that produced them except in the 'nodrain' searches")
	r.Finish()
}

// heavy ranks a local search by its expected cost (0 = ordinary).
func heavy(c *localCfg) int {
	switch {
	case strings.HasSuffix(c.name, "relocked-A-r2-moved-to-r3"), strings.Contains(c.name, "equiv+maj23"):
		return 2
	case strings.HasSuffix(c.name, "/sym/init"), strings.HasSuffix(c.name, "locked-A-r1-moved-to-r2"), strings.Contains(c.name, "height2"):
		return 1
	}
	return 0
}
