// C01 — agreement and voting discipline.
package main

import (
	"verif/vk"

	"github.com/lianxiangcloud/linkchain/libs/log"
)

func main() {
	log.Root().SetHandler(log.DiscardHandler())
	r := vk.Start("C01", "model_checking")
	cfgs := localConfigs(r)
	states, trans := 0, 0
	var per []interface{}
	for _, c := range cfgs {
		res := runLocal(r, c)
		states += res.States
		trans += res.Transitions
		per = append(per, map[string]interface{}{"search": "local/" + c.name, "states": res.States, "transitions": res.Transitions,
			"depth_completed": res.DepthCompleted, "per_depth": res.PerDepth, "merge_checks": res.MergeChecks})
	}
	r.Set("searches", per)
	r.Set("states", states)
	r.Set("transitions", trans)
	r.Set("traces_validated_against_impl", trans)
	r.Set("evaluations", trans)
	r.Set("distinct_nontrivial", states)
	r.Set("rule", "BFS over environment inputs to one real ConsensusState; state = canonical digest of RoundState + delivered-vote tally")
	r.Finish()
}
