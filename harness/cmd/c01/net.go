package main

// C01-net: three REAL ConsensusState nodes and one Byzantine puppet (power 1 of 4, i.e. < 1/3) on a
// harness network; deviation-bounded exhaustive exploration (engine devx) of delivery orders, early
// timeouts, message loss and Byzantine actions. Oracles: no two correct nodes commit different blocks at
// a height; every vote/commit of a correct node is an enabled action of the discipline model w.r.t.
// everything sent so far; all correct nodes name the same proposer for a (height, round); no panic.

import (
	"fmt"
	"sort"
	"strings"
	"sync"

	"verif/csnet"
	"verif/vk"

	cs "github.com/lianxiangcloud/linkchain/consensus"
	"github.com/lianxiangcloud/linkchain/libs/common"
	"github.com/lianxiangcloud/linkchain/types"
)

type envl struct {
	from, to int
	m        cs.ConsensusMessage
}

type netCfg struct {
	name      string
	byz       int
	bound     int
	heights   uint64 // stop when every correct node has committed this many heights
	horizon   int
	drops     bool
	byzVotes  bool
	schedCost int // cost of a scheduling deviation (reorder, early timeout, drop); Byzantine actions cost 1
}

type netSim struct {
	c        *netCfg
	f        *csnet.Fixture
	real     []int
	nodes    map[int]*csnet.Node
	pending  []envl
	sentSeen map[int]int
	soup     *soup
	blocks   [2]*types.Block
	parts    [2]*types.PartSet
	ids      [3]types.BlockID
	macroUse map[string]bool
	propAt   map[string]string // "h/r" -> proposer address
	trace    []string
	inputs   int
	viol     [2]string
}

func newNet(c *netCfg, f *csnet.Fixture) *netSim {
	s := &netSim{c: c, f: f, nodes: map[int]*csnet.Node{}, sentSeen: map[int]int{}, soup: newSoup(f.Powers), macroUse: map[string]bool{}, propAt: map[string]string{}}
	for i := range f.Keys {
		if i != c.byz {
			s.real = append(s.real, i)
			s.nodes[i] = f.NewNode(i, uint64(10+i))
		}
	}
	st := f.GenesisStatus()
	for b := 0; b < 2; b++ {
		app := csnet.NewTrivApp(f.Vals, uint64(b+1))
		s.blocks[b], s.parts[b] = f.MakeBlock(st, app, c.byz, nil, nil)
		s.ids[b] = csnet.BlockID(s.blocks[b], s.parts[b])
	}
	return s
}

func (s *netSim) close() {
	for _, n := range s.nodes {
		n.Close()
	}
}

func (s *netSim) fail(k, w string) {
	if s.viol[0] == "" {
		s.viol = [2]string{k, w}
	}
}

// flush drains node i's internal queue, checks the discipline on what it emitted and broadcasts it.
func (s *netSim) flush(i int) {
	n := s.nodes[i]
	n.Drain()
	for ; s.sentSeen[i] < len(n.Sent); s.sentSeen[i]++ {
		m := n.Sent[s.sentSeen[i]]
		if vm, ok := m.(*cs.VoteMessage); ok && vm.Vote.ValidatorIndex == i && vm.Vote.Height == 1 {
			v := vm.Vote
			val := idKey(v.BlockID)
			if v.Type == types.VoteTypePrevote {
				if k, w := s.soup.prevoteEnabled(i, v.Round, val); k != "" {
					s.fail(k, w)
				}
				s.soup.pv[msg{i, v.Round, val}] = true
			} else {
				if k, w := s.soup.precommitEnabled(i, v.Round, val); k != "" {
					s.fail(k, w)
				}
				s.soup.pc[msg{i, v.Round, val}] = true
			}
		}
		for _, j := range s.real {
			if j != i {
				s.pending = append(s.pending, envl{i, j, m})
			}
		}
	}
	// proposer agreement + commits
	rs := n.CS.GetRoundState()
	if rs.Validators != nil && rs.Step >= 2 {
		k := fmt.Sprintf("%d/%d", rs.Height, rs.Round)
		a := fmt.Sprintf("%x", rs.Validators.GetProposer().Address)
		if prev, ok := s.propAt[k]; ok && prev != a {
			s.fail("C17:proposer-disagreement", fmt.Sprintf("correct nodes name proposers %s and %s for height/round %s", prev[:8], a[:8], k))
		}
		s.propAt[k] = a
	}
}

func (s *netSim) checkCommits() {
	byH := map[uint64]common.Hash{}
	for _, i := range s.real {
		for _, c := range s.nodes[i].App.Commits {
			if h, ok := byH[c.Height]; ok && h != c.Hash {
				s.fail("agreement:different-blocks-committed", fmt.Sprintf("height %d: blocks %x and %x committed by correct nodes", c.Height, h.Bytes()[:6], c.Hash.Bytes()[:6]))
			}
			byH[c.Height] = c.Hash
			if c.Height == 1 {
				key := ""
				for m := range s.soup.pc {
					if m.v != nilV && strings.HasPrefix(m.v, c.Hash.String()) {
						key = m.v
					}
				}
				if key == "" {
					s.fail("L4:commit-without-precommit-quorum", "commit of a block nobody precommitted")
				} else if k, w := s.soup.decideEnabled(key); k != "" {
					s.fail(k, w)
				}
			}
		}
	}
}

func (s *netSim) done() bool {
	for _, i := range s.real {
		if s.nodes[i].App.Height() < s.c.heights {
			return false
		}
	}
	return true
}

type netEvent struct {
	name string
	cost int
	do   func()
}

func (s *netSim) deliver(idx int) {
	e := s.pending[idx]
	s.pending = append(s.pending[:idx:idx], s.pending[idx+1:]...)
	s.nodes[e.to].Deliver(e.m, fmt.Sprintf("p%d", e.from))
	s.inputs++
	s.flush(e.to)
}

// byzMacros: the Byzantine actions offered at quiescent points (each at most once per execution).
func (s *netSim) byzMacros() []netEvent {
	var evs []netEvent
	st := s.f.GenesisStatus()
	inject := func(to int, m cs.ConsensusMessage) { s.pending = append(s.pending, envl{s.c.byz, to, m}) }
	for r := 0; r < 2; r++ {
		r := r
		if s.f.ProposerAt(st, r) == s.c.byz {
			// proposals: block A to the nodes in mask, block B to the others (A/B are symmetric: 4 masks)
			for _, mask := range []int{7, 6, 5, 3} {
				mask := mask
				name := fmt.Sprintf("byz:proposal(r%d,A->mask%03b,B->rest)", r, mask)
				if s.macroUse[fmt.Sprintf("prop%d", r)] {
					continue
				}
				evs = append(evs, netEvent{name, 1, func() {
					s.macroUse[fmt.Sprintf("prop%d", r)] = true
					for bit, to := range s.real {
						b := 1
						if mask&(1<<uint(bit)) != 0 {
							b = 0
						}
						p := s.f.Proposal(s.c.byz, 1, r, s.parts[b].Header(), -1, types.BlockID{})
						inject(to, &cs.ProposalMessage{Proposal: p})
						inject(to, &cs.BlockPartMessage{Height: 1, Round: r, Part: s.parts[b].GetPart(0)})
					}
				}})
			}
		}
		if !s.c.byzVotes {
			continue
		}
		for _, t := range []byte{types.VoteTypePrevote, types.VoteTypePrecommit} {
			t := t
			key := fmt.Sprintf("vote%d/%d", r, t)
			if s.macroUse[key] {
				continue
			}
			// patterns: value per correct node; 0=A 1=B 2=nil
			pats := [][]int{{0, 0, 0}, {1, 1, 1}, {2, 2, 2}, {0, 1, 1}, {1, 0, 1}, {1, 1, 0}, {0, 2, 2}, {2, 0, 2}, {2, 2, 0}}
			for _, pat := range pats {
				pat := pat
				evs = append(evs, netEvent{fmt.Sprintf("byz:vote(r%d,t%d,%v)", r, t, pat), 1, func() {
					s.macroUse[key] = true
					for bit, to := range s.real {
						v := s.f.Vote(s.c.byz, 1, r, t, s.ids[pat[bit]])
						val := idKey(s.ids[pat[bit]])
						if t == types.VoteTypePrevote {
							s.soup.pv[msg{s.c.byz, r, val}] = true
						} else {
							s.soup.pc[msg{s.c.byz, r, val}] = true
						}
						inject(to, &cs.VoteMessage{Vote: v})
					}
				}})
			}
		}
	}
	return evs
}

// events: default first, then the deviations.
func (s *netSim) events() []netEvent {
	var evs []netEvent
	if len(s.pending) > 0 {
		e := s.pending[0]
		evs = append(evs, netEvent{fmt.Sprintf("deliver %s p%d->p%d", cs.VerifMsgKey(e.m), e.from, e.to), 0, func() { s.deliver(0) }})
		// oldest message of every other link
		seen := map[[2]int]bool{{e.from, e.to}: true}
		for idx := 1; idx < len(s.pending); idx++ {
			p := s.pending[idx]
			l := [2]int{p.from, p.to}
			if seen[l] {
				continue
			}
			seen[l] = true
			idx := idx
			evs = append(evs, netEvent{fmt.Sprintf("deliver-out-of-order %s p%d->p%d", cs.VerifMsgKey(p.m), p.from, p.to), s.c.schedCost, func() { s.deliver(idx) }})
		}
		if s.c.drops {
			seen = map[[2]int]bool{}
			for idx := 0; idx < len(s.pending); idx++ {
				p := s.pending[idx]
				l := [2]int{p.from, p.to}
				if seen[l] {
					continue
				}
				seen[l] = true
				idx := idx
				evs = append(evs, netEvent{fmt.Sprintf("drop %s p%d->p%d", cs.VerifMsgKey(p.m), p.from, p.to), s.c.schedCost, func() {
					s.pending = append(s.pending[:idx:idx], s.pending[idx+1:]...)
				}})
			}
		}
	}
	first := len(evs) == 0
	for _, i := range s.real {
		i := i
		if t, ok := s.nodes[i].PendingTimeout(); ok {
			cost := s.c.schedCost
			if first {
				cost = 0
				first = false
			}
			evs = append(evs, netEvent{fmt.Sprintf("timeout p%d %s", i, t), cost, func() {
				s.nodes[i].FireTimeout()
				s.inputs++
				s.flush(i)
			}})
		}
	}
	if len(evs) == 0 {
		return nil
	}
	if len(s.pending) == 0 {
		evs = append(evs, s.byzMacros()...)
	}
	return evs
}

func (s *netSim) finalKey() string {
	var parts []string
	for _, i := range s.real {
		n := s.nodes[i]
		c := "-"
		if len(n.App.Commits) > 0 {
			c = fmt.Sprintf("%x", n.App.Commits[0].Hash.Bytes()[:4])
		}
		rs := n.CS.GetRoundState()
		parts = append(parts, fmt.Sprintf("p%d:%s@%d/%d/%d", i, c, rs.Height, rs.Round, rs.Step))
	}
	return strings.Join(parts, " ")
}

func runNet(r *vk.Run) map[string]interface{} {
	f := csnet.NewFixture([]int64{1, 1, 1, 1})
	st := f.GenesisStatus()
	p0 := f.ProposerAt(st, 0)
	var cfgs []*netCfg
	if r.Quick() {
		// every pair of Byzantine actions, every single scheduling deviation
		cfgs = []*netCfg{
			{name: "byz=proposer(r0)", byz: p0, bound: 2, schedCost: 2, heights: 1, horizon: 400, byzVotes: true},
			{name: "byz=proposer(r1)", byz: f.ProposerAt(st, 1), bound: 2, schedCost: 2, heights: 1, horizon: 400, byzVotes: true},
		}
	} else {
		cfgs = []*netCfg{
			{name: "byz=proposer(r0)", byz: p0, bound: 2, schedCost: 1, heights: 1, horizon: 400, byzVotes: true},
			{name: "byz=proposer(r1)", byz: f.ProposerAt(st, 1), bound: 2, schedCost: 1, heights: 1, horizon: 400, byzVotes: true},
			{name: "byz=proposer(r0)/drops/2heights", byz: p0, bound: 2, schedCost: 1, heights: 2, horizon: 600, drops: true},
			{name: "byz=proposer(r0)/bound3", byz: p0, bound: 3, schedCost: 2, heights: 1, horizon: 400, byzVotes: true},
		}
	}
	info := map[string]interface{}{}
	var per []interface{}
	var mu sync.Mutex
	finals := map[string]bool{}
	totalExec, totalInputs := 0, 0
	for _, c := range cfgs {
		c := c
		cfgInputs := 0
		outcomes := map[string]int{}
		body := func(ch *vk.Chooser) {
			s := newNet(c, f)
			defer s.close()
			var trace []string
			pan, pv := vk.Catch(func() {
				for _, i := range s.real {
					s.flush(i)
				}
				for step := 0; step < c.horizon && !s.done(); step++ {
					evs := s.events()
					if evs == nil {
						break
					}
					costs := make([]int, len(evs))
					for i, e := range evs {
						costs[i] = e.cost
					}
					k := ch.Choose(costs)
					if k != 0 {
						trace = append(trace, fmt.Sprintf("step %d: %s", step, evs[k].name))
					}
					evs[k].do()
					s.checkCommits()
					if s.viol[0] != "" {
						break
					}
				}
			})
			if pan {
				s.fail("L5:handler-panic", fmt.Sprint(pv))
			}
			fk := s.finalKey()
			mu.Lock()
			cfgInputs += s.inputs
			finals[c.name+"|"+fk] = true
			outcomes[fk]++
			if s.viol[0] != "" {
				r.Violation(s.viol[0], s.viol[1], map[string]interface{}{"search": "net/" + c.name, "deviations": trace, "choices": append([]int{}, ch.Choices...)})
			}
			if len(trace) > 0 && len(outcomes) < 4 && outcomes[fk] == 1 {
				r.Sample(map[string]interface{}{"search": "net/" + c.name, "deviations": trace, "final": fk})
			}
			mu.Unlock()
		}
		var stt vk.DevStats
		if r.ReplayPath != "" {
			if choices, ok := r.ReplayChoices("net/" + c.name); ok {
				for i := 0; i < 5; i++ {
					vk.RunChoices(choices, body)
				}
			}
			continue
		}
		stt = r.ExploreDeviations(c.bound, body)
		if stt.Capped {
			r.Capped(fmt.Sprintf("net/%s: deadline; executions so far %d (bound %d not completed)", c.name, stt.Executions, c.bound))
		}
		var oc []string
		for k, n := range outcomes {
			oc = append(oc, fmt.Sprintf("%s x%d", k, n))
		}
		sort.Strings(oc)
		if len(oc) > 6 {
			oc = oc[:6]
		}
		per = append(per, map[string]interface{}{"search": "net/" + c.name, "deviation_bound": c.bound, "executions": stt.Executions, "choice_points": stt.ChoicePoints,
			"by_cost": stt.ByCost, "distinct_outcomes": len(outcomes), "outcome_samples": oc, "inputs_handled": cfgInputs})
		totalExec += stt.Executions
		totalInputs += cfgInputs
	}
	info["searches"] = per
	info["executions"] = totalExec
	info["inputs_handled"] = totalInputs
	info["distinct_final_states"] = len(finals)
	return info
}
