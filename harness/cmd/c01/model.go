package main

// C01-model: TLC explores ALL interleavings of the most general processes obeying the discipline
// (models/TMDiscipline.tla) with one Byzantine process out of four and checks Agreement. The model is
// bound to the Go side by cross-validating the Go guard functions (discipline.go, the ones evaluated
// on the real node's votes) against TLC's labelled state graph: in every reachable model state the set
// of actions the Go guards enable must equal the set of actions TLC took from that state.

import (
	"bufio"
	"fmt"
	"os"
	"os/exec"
	"path/filepath"
	"regexp"
	"sort"
	"strconv"
	"strings"
	"time"

	"verif/vk"
)

type tlcResult struct {
	generated, distinct, queue int
	depth                      int
	violated                   string
	finished                   bool
	errText                    string
	wall                       float64
}

var reStates = regexp.MustCompile(`(\d+) states generated, (\d+) distinct states found, (\d+) states left on queue`)
var reProgress = regexp.MustCompile(`([\d,]+) states generated \([\d,]+ s/min\), ([\d,]+) distinct states found \([\d,]+ ds/min\), ([\d,]+) states left on queue`)
var reDepth = regexp.MustCompile(`The depth of the complete state graph search is (\d+)`)
var reViol = regexp.MustCompile(`Invariant (\w+) is violated`)

func runTLC(cfg string, dump string, timeout time.Duration, workers int) tlcResult {
	models := filepath.Join(vk.VerifDir(), "models")
	meta := filepath.Join(vk.VerifDir(), ".build", "tlc", fmt.Sprintf("%s.%d", cfg, os.Getpid()))
	os.MkdirAll(meta, 0755)
	defer os.RemoveAll(meta)
	args := []string{"-deadlock", "-workers", strconv.Itoa(workers), "-metadir", meta}
	if dump != "" {
		args = append(args, "-dump", "dot,actionlabels", dump)
	}
	args = append(args, "-config", cfg+".cfg", "TMDiscipline.tla")
	cmd := exec.Command("tlc", args...)
	cmd.Dir = models
	t0 := time.Now()
	done := make(chan struct{})
	var out []byte
	var err error
	go func() { out, err = cmd.CombinedOutput(); close(done) }()
	timedOut := false
	select {
	case <-done:
	case <-time.After(timeout):
		timedOut = true
		cmd.Process.Kill()
		<-done
	}
	res := tlcResult{wall: time.Since(t0).Seconds()}
	text := string(out)
	if m := reStates.FindStringSubmatch(text); m != nil {
		res.generated, _ = strconv.Atoi(m[1])
		res.distinct, _ = strconv.Atoi(m[2])
		res.queue, _ = strconv.Atoi(m[3])
		res.finished = res.queue == 0 && !timedOut
	} else if ms := reProgress.FindAllStringSubmatch(text, -1); len(ms) > 0 {
		m := ms[len(ms)-1]
		cl := func(s string) int { n, _ := strconv.Atoi(strings.Replace(s, ",", "", -1)); return n }
		res.generated, res.distinct, res.queue = cl(m[1]), cl(m[2]), cl(m[3])
	}
	if m := reDepth.FindStringSubmatch(text); m != nil {
		res.depth, _ = strconv.Atoi(m[1])
	}
	if m := reViol.FindStringSubmatch(text); m != nil {
		res.violated = m[1]
	}
	if !timedOut && err != nil && res.violated == "" && !res.finished {
		res.errText = text
		if len(res.errText) > 2000 {
			res.errText = res.errText[len(res.errText)-2000:]
		}
	}
	// TLC leaves trace-exploration specs next to the model on violations
	if fs, _ := filepath.Glob(filepath.Join(models, "TMDiscipline_TTrace_*")); len(fs) > 0 {
		for _, f := range fs {
			os.Remove(f)
		}
	}
	return res
}

var procIdx = map[string]int{"c1": 0, "c2": 1, "c3": 2, "b1": 3}
var procName = []string{"c1", "c2", "c3", "b1"}
var reTuple = regexp.MustCompile(`<<(\w+), (\d+), ("nil"|\w+)>>`)
var reDecision = regexp.MustCompile(`(c\d) :> ("none"|\w+)`)

type mstate struct {
	s        *soup
	decision map[int]string
}

func parseState(label string) *mstate {
	label = strings.Replace(label, `\"`, `"`, -1)
	label = strings.Replace(label, `\n`, " ", -1)
	label = strings.Replace(label, `\\`, `\`, -1)
	st := &mstate{s: newSoup([]int64{1, 1, 1, 1}), decision: map[int]string{}}
	cut := func(name string) string {
		i := strings.Index(label, name+" = ")
		if i < 0 {
			vk.Fatalf("model dump: variable %s not found in %q", name, label)
		}
		rest := label[i+len(name)+3:]
		if j := strings.Index(rest, `/\`); j >= 0 {
			rest = rest[:j]
		}
		return rest
	}
	fill := func(txt string, set map[msg]bool) {
		for _, m := range reTuple.FindAllStringSubmatch(txt, -1) {
			r, _ := strconv.Atoi(m[2])
			set[msg{procIdx[m[1]], r, strings.Trim(m[3], `"`)}] = true
		}
	}
	fill(cut("prevotes"), st.s.pv)
	fill(cut("precommits"), st.s.pc)
	for _, m := range reDecision.FindAllStringSubmatch(cut("decision"), -1) {
		st.decision[procIdx[m[1]]] = strings.Trim(m[2], `"`)
	}
	return st
}

func tlaVal(v string) string {
	if v == nilV {
		return `"nil"`
	}
	return v
}

// goEnabled: the action labels the Go guards enable in st.
func goEnabled(st *mstate, maxRound int, values []string) []string {
	var out []string
	all := append(append([]string{}, values...), nilV)
	for p := 0; p < 3; p++ {
		for r := 0; r <= maxRound; r++ {
			for _, v := range all {
				if k, _ := st.s.prevoteEnabled(p, r, v); k == "" {
					out = append(out, fmt.Sprintf("Prevote(%s,%d,%s)", procName[p], r, tlaVal(v)))
				}
				if k, _ := st.s.precommitEnabled(p, r, v); k == "" {
					out = append(out, fmt.Sprintf("Precommit(%s,%d,%s)", procName[p], r, tlaVal(v)))
				}
			}
		}
		if st.decision[p] == "none" {
			for _, v := range values {
				if k, _ := st.s.decideEnabled(v); k == "" {
					out = append(out, fmt.Sprintf("Decide(%s,%s)", procName[p], v))
				}
			}
		}
	}
	sort.Strings(out)
	return out
}

var reNode = regexp.MustCompile(`^(-?\d+) \[label="(.*?)",(style|tooltip)`)
var reEdge = regexp.MustCompile(`^(-?\d+) -> (-?\d+) \[label="(.*?)",`)

// crossValidate compares, state by state, TLC's outgoing action labels with the Go guards.
func crossValidate(r *vk.Run, dump string, maxRound int, values []string) (states, edges int) {
	fh, err := os.Open(dump)
	if err != nil {
		vk.Fatalf("model dump: %v", err)
	}
	defer fh.Close()
	rd := bufio.NewReaderSize(fh, 1<<20)
	st := map[string]*mstate{}
	out := map[string][]string{}
	for {
		line, err := rd.ReadString('\n')
		if len(line) > 0 {
			if m := reEdge.FindStringSubmatch(line); m != nil {
				out[m[1]] = append(out[m[1]], strings.Replace(m[3], `\"`, `"`, -1))
				edges++
			} else if m := reNode.FindStringSubmatch(line); m != nil {
				if _, ok := st[m[1]]; !ok {
					st[m[1]] = parseState(m[2])
				}
			}
		}
		if err != nil {
			break
		}
	}
	ids := make([]string, 0, len(st))
	for id := range st {
		ids = append(ids, id)
	}
	sort.Strings(ids)
	for i, id := range ids {
		// TLC emits one edge per satisfied disjunct of a guard: compare as sets
		seen := map[string]bool{}
		var want []string
		for _, l := range out[id] {
			if !seen[l] {
				seen[l] = true
				want = append(want, l)
			}
		}
		sort.Strings(want)
		got := goEnabled(st[id], maxRound, values)
		if strings.Join(want, ";") != strings.Join(got, ";") {
			vk.Fatalf("model binding broken: in model state %s TLC enables %v but the Go guards enable %v", id, want, got)
		}
		if i%9973 == 0 {
			r.Sample(map[string]interface{}{"model_state": id, "enabled_actions_agreed": got})
		}
	}
	return len(st), edges
}

// runModel is the E4 part of C01.
func runModel(r *vk.Run) map[string]interface{} {
	info := map[string]interface{}{}
	if _, err := exec.LookPath("tlc"); err != nil {
		vk.Fatalf("tlc not on PATH")
	}
	// (1) Agreement for every interleaving, 4 processes / 1 Byzantine / rounds 0..1 / values {A,B}
	a := runTLC("TMDiscipline_r1", "", 10*time.Minute, 8)
	info["agreement_r1"] = map[string]interface{}{"generated": a.generated, "distinct": a.distinct, "finished": a.finished, "depth": a.depth, "wall_s": a.wall}
	if a.errText != "" {
		vk.Fatalf("TLC failed: %s", a.errText)
	}
	if a.violated != "" {
		r.Violation("model:discipline-does-not-imply-agreement", "TLC found a behaviour of processes obeying L0-L4 that violates "+a.violated+" (the discipline as stated is too weak)", "run tlc -deadlock -config TMDiscipline_r1.cfg TMDiscipline.tla in /verif/models")
	}
	if !a.finished {
		r.Capped("TLC r1 did not finish")
	}
	// (2) sensitivity: without the lock rule / with a weak polka the model must violate Agreement
	for _, c := range []string{"TMDiscipline_r1_nolock", "TMDiscipline_r1_weakpolka"} {
		s := runTLC(c, "", 10*time.Minute, 8)
		if s.violated != "Agreement" {
			vk.Fatalf("model sensitivity run %s: expected an Agreement violation, got %+v", c, s)
		}
	}
	info["sensitivity_runs"] = []string{"no lock rule => Agreement violated", "polka at 1/2 => Agreement violated"}
	// (3) binding: Go guards == TLA guards on every reachable state
	dump := filepath.Join(vk.VerifDir(), ".build", "tlc", fmt.Sprintf("dump.%d.dot", os.Getpid()))
	os.MkdirAll(filepath.Dir(dump), 0755)
	defer os.Remove(dump)
	cfg, vals := "TMDiscipline_r1_oneval", []string{"A"}
	if !r.Quick() {
		cfg, vals = "TMDiscipline_r1", []string{"A", "B"}
	}
	d := runTLC(cfg, dump, 20*time.Minute, 8)
	if d.errText != "" || !d.finished {
		vk.Fatalf("TLC dump run failed: %+v", d)
	}
	ms, me := crossValidate(r, dump, 1, vals)
	if ms != d.distinct {
		vk.Fatalf("model dump: parsed %d states, TLC reports %d", ms, d.distinct)
	}
	info["binding"] = map[string]interface{}{"config": cfg, "model_states": ms, "model_edges_compared": me}
	total := a.distinct + ms
	gen := a.generated + me
	// (4) thorough: three rounds, capped
	if !r.Quick() {
		budget := r.Remaining() - 2*time.Minute
		if budget > 25*time.Minute {
			budget = 25 * time.Minute
		}
		if budget > time.Minute {
			b := runTLC("TMDiscipline_r2", "", budget, 16)
			info["agreement_r2"] = map[string]interface{}{"generated": b.generated, "distinct": b.distinct, "finished": b.finished, "queue": b.queue, "wall_s": b.wall}
			if b.violated != "" {
				r.Violation("model:discipline-does-not-imply-agreement", "TLC (3 rounds) violates "+b.violated, "tlc -deadlock -config TMDiscipline_r2.cfg TMDiscipline.tla")
			}
			if !b.finished {
				r.Capped(fmt.Sprintf("TLC rounds 0..2: stopped after %.0fs with %d distinct states, %d on queue (rounds 0..1 fully covered)", b.wall, b.distinct, b.queue))
			}
			total += b.distinct
			gen += b.generated
		}
	}
	info["model_states_total"] = total
	info["model_transitions_total"] = gen
	return info
}
