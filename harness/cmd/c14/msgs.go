package main

// The records a node writes to its consensus WAL, built from fixed keys. Every record of a history is made
// unique by its position (round / part index = position), so the oracle can identify exactly WHICH written
// record a decoded message is.

import (
	"fmt"
	"sync"
	"time"

	"verif/csnet"

	cs "github.com/lianxiangcloud/linkchain/consensus"
	cstypes "github.com/lianxiangcloud/linkchain/consensus/types"
	"github.com/lianxiangcloud/linkchain/libs/common"
	"github.com/lianxiangcloud/linkchain/libs/crypto/merkle"
	"github.com/lianxiangcloud/linkchain/libs/ser"
	"github.com/lianxiangcloud/linkchain/types"
)

type kind int

const (
	kVotePeer  kind = iota // vote received from a peer            (node: Write)
	kVoteOwn               // the node's own vote                   (node: WriteSync)
	kPropPeer              // proposal from a peer
	kPropOwn               // own proposal
	kPartSmall             // block part, 100 bytes
	kPart32k               // block part of the default BlockPartSizeBytes (32 KiB) - fills the 40 KiB head buffer in two
	kPart45k               // block part larger than the head buffer (bufio writes it through)
	kPartMax               // the largest block part message the consensus reactor accepts from a peer (1 MiB on the wire)
	kTimeout               // fired timeout
	kStep                  // round-state event written by newStep
	kEndHeight             // end-of-height marker
	// records whose ENCODING ends in one or more 0x00 bytes (a cut that drops only those bytes leaves a prefix
	// that a zero-filled buffer would complete):
	kEndHeightZ // end-of-height marker for the next height that is a power of 256 (256, 65536, 1<<24, ...): 1, 2, 3 trailing zero bytes
	kStepZ      // round-state event whose last field (a string) ends in two NUL bytes
	kPartZ      // block part from a peer whose id (the record's last field) ends in a NUL byte
	// part "replay" (the real catchupReplay(1) of a node at height 1 consumes the log): the marker of height 0 and
	// records of kinds the node writes that the state machine ignores (they are for height 2), so that replaying
	// them neither moves the state nor writes to the WAL that is being read; round = 10 + position identifies them
	kMarker0
	kRTimeout
	kRVote
	kRProposal
	kRPart
	numKinds
)

// replayTag: how VerifCatchupReplay reports a record of kind k written at position pos ("" = not a replay kind).
func replayTag(k kind, pos int) string {
	switch k {
	case kRTimeout:
		return fmt.Sprintf("Timeout round=%d", 10+pos)
	case kRVote:
		return fmt.Sprintf("Vote round=%d", 10+pos)
	case kRProposal:
		return fmt.Sprintf("Proposal round=%d", 10+pos)
	case kRPart:
		return fmt.Sprintf("BlockPart round=%d", 10+pos)
	}
	return ""
}

// trailingZero: the kinds whose encoding must end in 0x00 (checked when an image is written)
func (k kind) trailingZero() bool { return k == kEndHeightZ || k == kStepZ || k == kPartZ }

// markerHeight: the height a marker of kind k gets when the last marker written had height last (heights ascend,
// as the node writes them).
func markerHeight(k kind, last uint64) uint64 {
	if k == kMarker0 {
		return last // height 0 when it is the first marker, as OnStart writes it
	}
	if k == kEndHeightZ {
		h := uint64(256)
		for h <= last {
			h *= 256
		}
		return h
	}
	return last + 1
}

func (k kind) isMarker() bool { return k == kEndHeight || k == kEndHeightZ || k == kMarker0 }

var kindNames = [...]string{"vote/peer", "vote/own", "proposal/peer", "proposal/own", "part100/peer", "part32k/peer", "part45k/peer", "partMax/peer", "timeout", "step", "endheight", "endheight(256^k)", "step(string ends in NUL NUL)", "part100/peer(id ends in NUL)",
	"endheight(0)", "timeout(h2)", "vote(h2)/peer", "proposal(h2)/peer", "part100(h2)/peer"}

func (k kind) String() string { return kindNames[k] }

// node: which write call the node uses for this kind of record
func (k kind) nodeSync() bool { return k == kVoteOwn || k == kPropOwn || k == kEndHeight }

var (
	fx        *csnet.Fixture
	fxOnce    sync.Once
	msgCache  sync.Map
	partBytes sync.Map
	fixedT0   = time.Unix(1500000000, 123456789).UTC()
	partMaxN  int
)

func fixture() *csnet.Fixture {
	fxOnce.Do(func() { fx = csnet.NewFixture([]int64{1, 1, 1, 1}) })
	return fx
}

// constFill selects the content of block parts. Part 2 (fixed timestamps, byte-deterministic images) uses a
// pseudo-random pattern, so that a misaligned read sees varied garbage. Part 1 writes through the real
// Write/WriteSync, which stamp time.Now(); record lengths then vary by a few bytes from run to run, and with them
// the offset at which a record is split across two files. A constant fill makes what a reader sees at such a
// split point independent of those few bytes, so that the counts of part 1 are the same in every run.
var constFill bool

func pattern(n int) []byte {
	key := n
	if constFill {
		key = -n
	}
	if v, ok := partBytes.Load(key); ok {
		return v.([]byte)
	}
	b := make([]byte, n)
	x := uint32(0x9e3779b9)
	for i := range b {
		x = x*1664525 + 1013904223
		b[i] = byte(x >> 24)
		if constFill {
			b[i] = 0xab
		}
	}
	partBytes.Store(key, b)
	return b
}

func blockID(pos int) types.BlockID {
	var h common.Hash
	for i := range h {
		h[i] = byte(0x40 + pos)
	}
	return types.BlockID{Hash: h, PartsHeader: types.PartSetHeader{Total: 1, Hash: pattern(32)}}
}

func part(pos, n int) *types.Part {
	return &types.Part{Index: pos, Bytes: pattern(n), Proof: merkle.SimpleProof{Aunts: [][]byte{pattern(32)}}}
}

// partMaxLen: the largest Bytes length for which the wire form of the BlockPartMessage is still accepted by the
// consensus reactor (decodeMsg: len(bz) <= maxMsgSize = 1048576).
func partMaxLen() int {
	if partMaxN != 0 {
		return partMaxN
	}
	const reactorMax = 1048576
	wire := func(n int) int {
		// the reactor sends ser.MustEncodeToBytesWithType(&BlockPartMessage{...})
		return len(ser.MustEncodeToBytesWithType(&cs.BlockPartMessage{Height: 1, Round: 0, Part: part(7, n)}))
	}
	n := reactorMax - 4096
	n += reactorMax - wire(n)
	if wire(n) != reactorMax || wire(n+1) <= reactorMax {
		panic(fmt.Sprintf("partMaxLen: wire(%d)=%d", n, wire(n)))
	}
	partMaxN = n
	return n
}

// mkMsg builds the WAL payload for record kind k written at history position pos (markers carry height h).
func mkMsg(k kind, pos int, h uint64) cs.WALMessage {
	ck := fmt.Sprintf("%d/%d/%d/%v", k, pos, h, constFill)
	if v, ok := msgCache.Load(ck); ok {
		return v.(cs.WALMessage)
	}
	f := fixture()
	var m cs.WALMessage
	switch k {
	case kVotePeer:
		m = cs.VerifWALMsg(&cs.VoteMessage{Vote: f.Vote(1, 1, pos, types.VoteTypePrevote, blockID(pos))}, "peer-1")
	case kVoteOwn:
		m = cs.VerifWALMsg(&cs.VoteMessage{Vote: f.Vote(0, 1, pos, types.VoteTypePrecommit, blockID(pos))}, "")
	case kPropPeer:
		m = cs.VerifWALMsg(&cs.ProposalMessage{Proposal: f.Proposal(1, 1, pos, blockID(pos).PartsHeader, -1, types.BlockID{})}, "peer-1")
	case kPropOwn:
		m = cs.VerifWALMsg(&cs.ProposalMessage{Proposal: f.Proposal(0, 1, pos, blockID(pos).PartsHeader, -1, types.BlockID{})}, "")
	case kPartSmall:
		m = cs.VerifWALMsg(&cs.BlockPartMessage{Height: 1, Round: 0, Part: part(pos, 100)}, "peer-2")
	case kPart32k:
		m = cs.VerifWALMsg(&cs.BlockPartMessage{Height: 1, Round: 0, Part: part(pos, 32*1024)}, "peer-2")
	case kPart45k:
		m = cs.VerifWALMsg(&cs.BlockPartMessage{Height: 1, Round: 0, Part: part(pos, 45000)}, "peer-2")
	case kPartMax:
		m = cs.VerifWALMsg(&cs.BlockPartMessage{Height: 1, Round: 0, Part: part(pos, partMaxLen())}, "peer-2")
	case kTimeout:
		m = cs.VerifWALTimeout(3*time.Second, 1, pos, cstypes.RoundStepPropose)
	case kStep:
		m = types.EventDataRoundState{Height: 1, Round: pos, Step: cstypes.RoundStepPrevote.String()}
	case kEndHeight, kEndHeightZ, kMarker0:
		m = cs.EndHeightMessage{Height: h}
	case kRTimeout:
		m = cs.VerifWALTimeout(3*time.Second, 2, 10+pos, cstypes.RoundStepPropose)
	case kRVote:
		m = cs.VerifWALMsg(&cs.VoteMessage{Vote: f.Vote(1, 2, 10+pos, types.VoteTypePrevote, blockID(pos))}, "peer-1")
	case kRProposal:
		m = cs.VerifWALMsg(&cs.ProposalMessage{Proposal: f.Proposal(1, 2, 10+pos, blockID(pos).PartsHeader, -1, types.BlockID{})}, "peer-1")
	case kRPart:
		m = cs.VerifWALMsg(&cs.BlockPartMessage{Height: 2, Round: 10 + pos, Part: part(pos, 100)}, "peer-2")
	case kStepZ:
		m = types.EventDataRoundState{Height: 1, Round: pos, Step: cstypes.RoundStepPrevote.String() + "\x00\x00"}
	case kPartZ:
		m = cs.VerifWALMsg(&cs.BlockPartMessage{Height: 1, Round: 0, Part: part(pos, 100)}, "peer-2\x00")
	default:
		panic("kind")
	}
	msgCache.Store(ck, m)
	return m
}

// markerOf returns the height of an end-of-height marker, or -1.
func markerOf(m cs.WALMessage) int64 {
	if e, ok := m.(cs.EndHeightMessage); ok {
		return int64(e.Height)
	}
	return -1
}
