package main

// Reference model of the log ("what was written": a list of records with their byte extents in the stream
// formed by the files of the group in index order) and the oracle evaluated on one - possibly damaged - image
// through the REAL reader stack: autofile.Group.NewReader -> GroupReader.Read -> WALDecoder.Decode and
// baseWAL.SearchForEndHeight.

import (
	"encoding/binary"
	"fmt"
	"hash/crc32"
	"io"
	"strings"

	cs "github.com/lianxiangcloud/linkchain/consensus"
	"github.com/lianxiangcloud/linkchain/libs/ser"
)

const decoderCap = 1024 * 1024 // consensus.maxMsgSizeBytes

// allocBound: a single read request (= allocation) of the decoder beyond this is reported. It is the decoder's
// documented 1 MiB cap plus room for the WAL envelope around the largest message the reactor accepts.
const allocBound = decoderCap + 4096

// one root cause, one key: a record whose payload is larger than the decoder's cap is written without complaint
// and can then neither be read nor be searched past
const keyOversize = "written-record-exceeds-decoder-cap(encoder-has-no-size-limit)"

// one root cause, one key: a group opened on an existing directory does not work with the rolled files that are there
const keyMisindexed = "reopen:group-index-range-differs-from-rolled-files-on-disk"

var castagnoli = crc32.MakeTable(crc32.Castagnoli)

// frame is the reference framing: crc32c(payload) | len(payload) | payload, big endian.
func frame(payload []byte) []byte {
	out := make([]byte, 8+len(payload))
	binary.BigEndian.PutUint32(out[0:4], crc32.Checksum(payload, castagnoli))
	binary.BigEndian.PutUint32(out[4:8], uint32(len(payload)))
	copy(out[8:], payload)
	return out
}

type rec struct {
	start, end int // extent in the stream
	payload    []byte
	marker     int64 // height of an end-of-height marker, else -1
	desc       string
	tag        string // part "replay": how catchupReplay's hook reports this record when it is applied
}

// parseStream is the reference parser (no size cap): complete, checksum-correct records from the start of s;
// stop = offset of the first byte that is not part of such a record (len(s) when s is a record sequence).
func parseStream(s []byte) (recs []rec, stop int) {
	o := 0
	for o+8 <= len(s) {
		n := int(binary.BigEndian.Uint32(s[o+4 : o+8]))
		if n == 0 || o+8+n > len(s) {
			break
		}
		p := s[o+8 : o+8+n]
		if crc32.Checksum(p, castagnoli) != binary.BigEndian.Uint32(s[o:o+4]) {
			break
		}
		recs = append(recs, rec{start: o, end: o + 8 + n, payload: p, marker: -1})
		o += 8 + n
	}
	return recs, o
}

// layout: the reference view of one undamaged image.
type layout struct {
	names    []string // file names in index order (last = head)
	files    [][]byte
	bounds   []int // bounds[k] = stream offset where file k starts; bounds[len(files)] = stream length
	recs     []rec
	idxOf    map[string]int
	markers  map[int64][]int
	aligned  bool // every file starts on a record boundary
	oversize bool // some record's payload is larger than the decoder's cap
	torn     int  // bytes after the last complete record (crash images only)
	// misindexed: non-empty when the (re)opened group's index range does not agree with the rolled files that
	// are in the directory (see groupView); it is then the root cause named in every violation on this image
	misindexed string
}

func (L *layout) index() {
	L.idxOf = map[string]int{}
	L.markers = map[int64][]int{}
	starts := map[int]bool{}
	for i, r := range L.recs {
		L.idxOf[string(r.payload)] = i
		if r.marker >= 0 {
			L.markers[r.marker] = append(L.markers[r.marker], i)
		}
		if len(r.payload) > decoderCap {
			L.oversize = true
		}
		starts[r.start] = true
	}
	end := 0
	if n := len(L.recs); n > 0 {
		end = L.recs[n-1].end
	}
	starts[end] = true
	L.aligned = true
	for k := 1; k < len(L.files); k++ {
		if !starts[L.bounds[k]] && L.bounds[k] < L.bounds[len(L.files)] {
			L.aligned = false
		}
	}
}

func (L *layout) setFiles(names []string, files [][]byte) {
	L.names, L.files = names, files
	L.bounds = make([]int, len(files)+1)
	for k, f := range files {
		L.bounds[k+1] = L.bounds[k] + len(f)
	}
}

func (L *layout) stream() []byte {
	var s []byte
	for _, f := range L.files {
		s = append(s, f...)
	}
	return s
}

// intactBefore: number of records that lie wholly before stream offset o.
func (L *layout) intactBefore(o int) int {
	n := 0
	for _, r := range L.recs {
		if r.end <= o {
			n++
		}
	}
	return n
}

// fieldAt: which record and field a stream offset belongs to.
func (L *layout) fieldAt(o int) (int, string) {
	for i, r := range L.recs {
		if o >= r.start && o < r.end {
			switch {
			case o < r.start+4:
				return i, "crc-field"
			case o < r.start+8:
				return i, "length-field"
			}
			return i, "payload"
		}
	}
	return len(L.recs), "torn-tail"
}

type damage struct {
	class    string // undamaged | truncation:last-file | truncation:rotated-file | corruption:<field> | crash-cut
	p        int    // records wholly before the first damaged / missing byte
	midGroup bool   // bytes are missing in the middle of the stream (truncation of a file that is not the last)
	none     bool   // the image is an undamaged record sequence
	cut      bool   // the only damage is that the END of the stream is missing (crash, truncation of the last file)
	// lost: stream range [lost[0], lost[1]) whose bytes are MISSING from the image (truncations); a record that
	// overlaps it was not completely written / is torn and must never be surfaced
	lost [2]int
	desc string
}

// tornBy: record i has bytes in the missing range.
func (d damage) tornBy(r rec) bool {
	return d.lost[1] > d.lost[0] && r.end > d.lost[0] && r.start < d.lost[1]
}

// ---- observation through the real reader stack ----

type capReader struct {
	rd  io.Reader
	max int
}

var errBeyondCap = fmt.Errorf("harness: read request beyond the decoder's cap refused")

func (c *capReader) Read(p []byte) (int, error) {
	if len(p) > c.max {
		c.max = len(p)
	}
	if len(p) > allocBound {
		return 0, errBeyondCap
	}
	return c.rd.Read(p)
}

func errClass(err error) string {
	if err == io.EOF {
		return "eof"
	}
	s := err.Error()
	if cs.IsDataCorruptionError(err) {
		if strings.Contains(s, "checksums do not match") {
			return "corruption-error:checksum"
		}
		return "corruption-error:undecodable"
	}
	switch {
	case strings.HasPrefix(s, "failed to read checksum"):
		return "error:read-checksum"
	case strings.HasPrefix(s, "failed to read length"):
		return "error:read-length"
	case strings.HasPrefix(s, "failed to read data"):
		return "error:read-data"
	case strings.HasPrefix(s, "length "):
		return "error:length-exceeded"
	}
	return "error:other"
}

type readOut struct {
	idx       []int  // per yielded message: its index among the written records, -1 = not a written record
	strictN   int    // messages yielded before the first error
	firstStop string // class of the first error, or "eof"
	end       string // class of what ended the read
	errs      int
	maxRead   int
	calls     int
	stuck     bool
	panicked  string
	bad       string // description of the first unwritten message
}

// readAll decodes from rd until end-of-log or an error that SearchForEndHeight would not skip; corruption errors
// are skipped the way SearchForEndHeight(IgnoreDataCorruptionErrors) skips them, so that both the strict reading
// (everything before the first error) and the lenient one are observed in one pass.
func readAll(rd io.Reader, L *layout, streamLen int) (out readOut) {
	cr := &capReader{rd: rd}
	dec := cs.NewWALDecoder(cr)
	out.strictN = -1
	defer func() {
		out.maxRead = cr.max
		if e := recover(); e != nil {
			out.panicked = fmt.Sprint(e)
			if out.strictN < 0 {
				out.strictN = len(out.idx)
			}
		}
	}()
	limit := streamLen/8 + 4
	for {
		if out.calls > limit {
			out.stuck = true
			out.end = "no-progress"
			break
		}
		out.calls++
		msg, err := dec.Decode()
		if err != nil {
			c := errClass(err)
			if out.strictN < 0 {
				out.strictN = len(out.idx)
				out.firstStop = c
			}
			if err != io.EOF && cs.IsDataCorruptionError(err) {
				out.errs++
				continue
			}
			out.end = c
			break
		}
		i := -1
		if msg != nil {
			if b, e := ser.EncodeToBytes(msg); e == nil {
				if j, ok := L.idxOf[string(b)]; ok {
					i = j
				}
			}
		}
		if i < 0 && out.bad == "" {
			out.bad = fmt.Sprintf("%s %+v", cs.VerifWALKind(msgOf(msg)), msg)
			if len(out.bad) > 300 {
				out.bad = out.bad[:300] + "..."
			}
		}
		out.idx = append(out.idx, i)
	}
	if out.strictN < 0 {
		out.strictN = len(out.idx)
	}
	return out
}

func msgOf(m *cs.TimedWALMessage) cs.WALMessage {
	if m == nil {
		return nil
	}
	return m.Msg
}

type viol struct{ key, what string }

type stats map[string]int

// checkRead applies the read-back half of the property to one observation.
//
//	from: index of the first record the reader is expected to yield (0 for a read from the first file, m+1 for
//	      the reader returned by a successful search for the marker that is record m)
//
// d.none (undamaged image): every record from `from` on must be yielded, then end-of-log, without any error.
// Otherwise: all d.p-from intact records before the damage must be yielded before the reader may stop.
func checkRead(L *layout, d damage, o readOut, from int, who string) []viol {
	var vs []viol
	if o.panicked != "" {
		vs = append(vs, viol{"decode:panic:" + d.class, fmt.Sprintf("%s: decoder panics on a %s image: %s", who, d.class, o.panicked)})
	}
	if o.maxRead > allocBound {
		vs = append(vs, viol{"decode:read-beyond-1MiB-cap:" + d.class, fmt.Sprintf("%s: decoder allocates and asks the reader for %d bytes (cap %d) on a %s image (%s)", who, o.maxRead, decoderCap, d.class, d.desc)})
	}
	if o.stuck {
		vs = append(vs, viol{"decode:no-progress:" + d.class, fmt.Sprintf("%s: decoder does not reach end-of-log within %d calls", who, o.calls)})
	}
	prev := from - 1
	for n, i := range o.idx {
		if i < 0 {
			vs = append(vs, viol{"decode:yields-unwritten-message:" + d.class, fmt.Sprintf("%s: message #%d read back from a %s image was never written: %s", who, n, d.class, o.bad)})
			return vs
		}
		if d.tornBy(L.recs[i]) {
			r := L.recs[i]
			have := d.lost[0] - r.start
			if have < 0 {
				have = 0
			}
			vs = append(vs, viol{"decode:torn-record-surfaced-as-complete:" + d.class, fmt.Sprintf("%s: message #%d read back is record %d (%s), of which only %d of %d bytes are in the log (%s); the missing bytes are % x", who, n, i, r.desc, have, r.end-r.start, d.desc, missingBytes(r, d))})
			return vs
		}
		if i <= prev {
			vs = append(vs, viol{"decode:message-out-of-order-or-repeated:" + d.class, fmt.Sprintf("%s: message #%d read back is written record %d, after record %d", who, n, i, prev)})
			return vs
		}
		// before the first error the messages must be the contiguous run of written records; only missing bytes
		// in the middle of the stream (a rotated file cut short) can make the reader jump
		if n < o.strictN && i != prev+1 && !(d.midGroup && i >= d.p) {
			vs = append(vs, viol{"decode:skips-written-message-silently:" + d.class, fmt.Sprintf("%s: record %d read back directly after record %d without an error in between (%s)", who, i, prev, d.desc)})
			return vs
		}
		prev = i
	}
	want := d.p - from // intact records the reader must replay before it may stop
	if d.none {
		want = len(L.recs) - from
	}
	if want < 0 {
		want = 0
	}
	got := 0
	for n, i := range o.idx {
		if n < o.strictN && i == from+n {
			got++
		}
	}
	if got < want || (d.none && (o.firstStop != "eof" || o.errs > 0)) {
		key := "decode:intact-prefix-not-replayed:" + d.class
		if d.none {
			key = "decode:undamaged-log-not-fully-replayed"
			switch {
			case L.oversize:
				key = keyOversize
			case !L.aligned:
				key += ":file-boundary-inside-record"
			}
		}
		what := fmt.Sprintf("%s: %d intact records precede the damage (%s) but only %d were replayed before the reader stopped with %q", who, want, d.desc, got, o.firstStop)
		if d.none {
			what = fmt.Sprintf("%s: undamaged log (%s) of %d records, %d expected from this reader, but only %d were replayed before it stopped with %q", who, d.desc, len(L.recs), want, got, o.firstStop)
			if i := from + got; i < len(L.recs) {
				what += fmt.Sprintf("; the next record (%s) has a payload of %d bytes", L.recs[i].desc, len(L.recs[i].payload))
			}
		}
		vs = append(vs, viol{key, what})
	}
	return vs
}

// evalImage runs the full oracle on the image currently on disk under w's group.
func evalImage(w cs.WAL, L *layout, d damage, heights []uint64, st stats) []viol {
	var vs []viol
	g := w.Group()
	streamLen := L.bounds[len(L.files)] + 64
	// 1. read everything from the first file
	gr, err := g.NewReader(g.MinIndex())
	if err != nil {
		return []viol{{"read:cannot-open-first-file", err.Error()}}
	}
	o := readAll(gr, L, streamLen)
	gr.Close()
	st["decode_calls"] += o.calls
	st["read/"+d.class+"/"+o.firstStop]++
	if o.errs > 0 {
		st["read_continued_after_corruption_error"]++
	}
	vs = append(vs, checkRead(L, d, o, 0, "read from first file")...)
	// 2. marker search
	for _, h := range heights {
		for _, ignore := range []bool{false, true} {
			vs = append(vs, evalSearch(w, L, d, h, ignore, streamLen, st)...)
		}
	}
	if L.misindexed != "" {
		for i := range vs {
			vs[i] = viol{keyMisindexed, vs[i].what + " [" + vs[i].key + "]; " + L.misindexed}
		}
	}
	return vs
}

func evalSearch(w cs.WAL, L *layout, d damage, h uint64, ignore bool, streamLen int, st stats) (vs []viol) {
	who := fmt.Sprintf("SearchForEndHeight(%d, ignoreCorruption=%v)", h, ignore)
	occ := L.markers[int64(h)]
	if (d.cut && !d.none) || d.lost[1] > d.lost[0] {
		// only what survives the cut counts as completely written
		var keep []int
		for _, m := range occ {
			if d.cut && !d.none && m >= d.p {
				continue
			}
			if d.tornBy(L.recs[m]) {
				continue
			}
			keep = append(keep, m)
		}
		occ = keep
	}
	written := len(occ) > 0
	st["searches"]++
	var o readOut
	var found bool
	var serr error
	func() {
		defer func() {
			if e := recover(); e != nil {
				vs = append(vs, viol{"search:panic:" + d.class, fmt.Sprintf("%s panics on a %s image: %v", who, d.class, e)})
			}
		}()
		gr, f, err := w.SearchForEndHeight(h, &cs.WALSearchOptions{IgnoreDataCorruptionErrors: ignore})
		found, serr = f, err
		if gr != nil {
			if f {
				o = readAll(gr, L, streamLen)
			}
			gr.Close()
		}
	}()
	if len(vs) > 0 {
		return vs
	}
	switch {
	case found:
		st["search/"+d.class+"/found"]++
	case serr != nil:
		st["search/"+d.class+"/failed:"+errClass(serr)]++
	default:
		st["search/"+d.class+"/not-found"]++
	}
	if found && !written {
		why := fmt.Sprintf("no marker for height %d was written", h)
		if len(L.markers[int64(h)]) > 0 {
			why = fmt.Sprintf("the marker for height %d is not completely in the log (torn)", h)
		}
		return append(vs, viol{"search:unwritten-marker-found:" + d.class, fmt.Sprintf("%s reports found on a %s image although %s (%s)", who, d.class, why, d.desc)})
	}
	if !found {
		// "found iff completely written" is decidable for a correct implementation whenever everything up to the
		// end of the surviving bytes is intact: undamaged logs and logs whose END is missing. (After an altered
		// byte the framing may be lost for good, so there only "never finds an unwritten marker" is required.)
		if written && (d.none || d.cut) {
			key := "search:complete-marker-not-found"
			switch {
			case L.oversize:
				key = keyOversize
			case !L.aligned:
				key += ":file-starts-mid-record(rotate-without-flush)"
			case d.cut && !d.none:
				key += ":torn-record-at-end-of-newer-file-aborts-search"
			default:
				key += ":record-aligned-files"
			}
			kind := "an undamaged log"
			if !d.none {
				kind = "a log whose end is cut off (" + d.desc + ")"
			}
			return append(vs, viol{key, fmt.Sprintf("%s = (found=false, err=%v) on %s in which the marker (record %d of %d complete records) is completely written; files %s", who, serr, kind, occ[0], len(L.recs), L.describeFiles())})
		}
		if written {
			st["search-miss-for-complete-marker/"+d.class]++
		}
		return vs
	}
	// found: the reader must continue with what was written after (an occurrence of) the marker
	st["decode_calls"] += o.calls
	var best []viol
	for _, m := range occ {
		dd := d
		c := checkRead(L, dd, o, m+1, who+" then reading on")
		if len(c) == 0 {
			return vs
		}
		if best == nil {
			best = c
		}
	}
	for i := range best {
		if best[i].key != keyOversize {
			best[i].key = "after-search:" + best[i].key
		}
	}
	return append(vs, best...)
}

// missingBytes: the bytes of record r (framed) that fall into the missing range.
func missingBytes(r rec, d damage) []byte {
	f := frame(r.payload)
	lo, hi := d.lost[0]-r.start, d.lost[1]-r.start
	if lo < 0 {
		lo = 0
	}
	if hi > len(f) {
		hi = len(f)
	}
	if lo >= hi {
		return nil
	}
	if hi-lo > 16 {
		hi = lo + 16
	}
	return f[lo:hi]
}

func (L *layout) describeFiles() string {
	var b strings.Builder
	for k := range L.files {
		i, f := L.fieldAt(L.bounds[k])
		at := "record boundary"
		if k > 0 && L.bounds[k] < L.bounds[len(L.files)] {
			if r := L.recs; i < len(r) && r[i].start != L.bounds[k] {
				at = fmt.Sprintf("INSIDE record %d (%s, %d bytes into it)", i, f, L.bounds[k]-r[i].start)
			}
		}
		fmt.Fprintf(&b, "[%s: %d bytes, starts at %s]", L.names[k], len(L.files[k]), at)
	}
	return b.String()
}
