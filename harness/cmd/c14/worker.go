package main

// Worker side: executes units (a subtree of write histories, or the damage enumeration of one image) on the real
// baseWAL / autofile.Group in a scratch directory under /dev/shm and reports JSON lines on stdout.
//
// Workers are separate short-lived processes because (a) every autofile.OpenAutoFile starts a goroutine that
// never ends, (b) the decoder is fed hostile bytes: a worker runs under an address-space limit and a watchdog,
// and its death is reported by the parent instead of taking the check down.

import (
	"bufio"
	"bytes"
	"encoding/base64"
	"encoding/binary"
	"encoding/json"
	"fmt"
	"hash/fnv"
	"io/ioutil"
	"os"
	"path/filepath"
	"runtime/pprof"
	"sort"
	"strconv"
	"sync/atomic"
	"syscall"
	"time"

	cs "github.com/lianxiangcloud/linkchain/consensus"
	"github.com/lianxiangcloud/linkchain/libs/autofile"
	"github.com/lianxiangcloud/linkchain/libs/ser"
)

type unit struct {
	ID    int    `json:"id"`
	Phase int    `json:"phase"`
	Group string `json:"group"` // coverage bucket, e.g. "histories/full/depth<=4"
	// phase 1: all histories over alphabet Alpha that start with Prefix and have length <= Depth
	// (Shallow: all histories shorter than Depth instead; Exact: only Prefix itself)
	Alpha   string `json:"alpha,omitempty"`
	Depth   int    `json:"depth,omitempty"`
	Prefix  []int  `json:"prefix,omitempty"`
	Shallow bool   `json:"shallow,omitempty"`
	Exact   bool   `json:"exact,omitempty"`
	// Start > 0: the history does not start from an empty directory but from a group that already holds two rolled
	// files <head>.(Start-2) and <head>.(Start-1), as a long-running node's pruning leaves them; the head has
	// index Start, so the history's rotations produce the rolled indexes Start, Start+1, ...
	Start int `json:"start,omitempty"`
	// phase 2: the image written by Ops (code = 2*kind + sync, tickCode = rotation tick), then every damage
	// Slices > 1: this unit handles only the byte offsets with offset % Slices == Slice (large images)
	Ops    []int `json:"ops,omitempty"`
	Slice  int   `json:"slice,omitempty"`
	Slices int   `json:"slices,omitempty"`
	// Replay: every variant of the image is consumed by the real ConsensusState.catchupReplay(1) instead of
	// being read by the harness (part "replay", see replay.go)
	Replay bool    `json:"replay,omitempty"`
	Cost   float64 `json:"cost"`
}

type violRec struct {
	Key    string      `json:"key"`
	What   string      `json:"what"`
	Replay interface{} `json:"replay"`
	Size   int64       `json:"size"` // smaller = simpler case; the parent keeps the simplest per key
	Count  int         `json:"count"`
}

type unitResult struct {
	ID     int                 `json:"id"`
	Stats  map[string]int      `json:"stats"`
	Viols  map[string]*violRec `json:"viols"`
	States string              `json:"states"` // base64 of 8-byte state hashes (phase 1) / image hashes (phase 2)
}

const tickCode = 1000

var (
	scratchN   int
	progress   int64 // unix nanos of the last completed case
	curCase    atomic.Value
	workerOut  *bufio.Writer
	scratchTop = scratchRoot()
)

func scratchRoot() string {
	if fi, err := os.Stat("/dev/shm"); err == nil && fi.IsDir() {
		return "/dev/shm"
	}
	return os.TempDir()
}

func newScratch() string {
	scratchN++
	d := fmt.Sprintf("%s/C14-%d-%d", scratchTop, os.Getpid(), scratchN)
	if err := os.MkdirAll(d, 0700); err != nil {
		fatal("scratch: %v", err)
	}
	return d
}

func fatal(format string, a ...interface{}) {
	fmt.Fprintf(os.Stderr, "HARNESS-ERROR: "+format+"\n", a...)
	os.Exit(2)
}

func tick() { atomic.StoreInt64(&progress, time.Now().UnixNano()) }

// openWAL is what ConsensusState.OpenWAL does (NewWAL, then Start unless start is false); the group's 5 s
// ticker is stopped - ticks are explicit events - and the head size limit is the smallest possible, so that a
// tick rotates whenever any byte has reached the head file (this subsumes every larger threshold: with a larger
// threshold a tick is either the same rotation or a no-op, and histories without the tick are enumerated too).
func openWAL(path string, start bool) cs.WAL {
	w, err := cs.NewWAL(path)
	if err != nil {
		fatal("NewWAL: %v", err)
	}
	autofile.VerifStopTicker(w.Group())
	w.Group().SetHeadSizeLimit(1)
	if start {
		if err := w.Start(); err != nil {
			fatal("wal.Start: %v", err)
		}
		autofile.VerifStopTicker(w.Group())
	}
	return w
}

func closeWAL(w cs.WAL) {
	w.Stop() // OnStop: group.Stop (flush), group.Close
	w.Group().Head.Close()
	autofile.VerifRelease(w.Group())
}

// readGroup returns the files of the group at headPath in index order, the way readGroupInfo/filePathForIndex
// name them (<head>.NNN for rotated files, <head> last).
func readGroup(headPath string) (names []string, files [][]byte) {
	dir, base := filepath.Dir(headPath), filepath.Base(headPath)
	ents, err := ioutil.ReadDir(dir)
	if err != nil {
		fatal("readGroup: %v", err)
	}
	var rot []string
	head := false
	for _, e := range ents {
		switch {
		case e.Name() == base:
			head = true
		case len(e.Name()) > len(base) && e.Name()[:len(base)+1] == base+".":
			rot = append(rot, e.Name())
		}
	}
	// index order is numeric: <head>.1000 comes after <head>.999
	sort.Slice(rot, func(i, j int) bool {
		a, ea := strconv.Atoi(rot[i][len(base)+1:])
		b, eb := strconv.Atoi(rot[j][len(base)+1:])
		if ea != nil || eb != nil || a == b {
			return rot[i] < rot[j]
		}
		return a < b
	})
	if head {
		rot = append(rot, base)
	}
	for _, n := range rot {
		b, err := ioutil.ReadFile(filepath.Join(dir, n))
		if err != nil {
			fatal("readGroup: %v", err)
		}
		names = append(names, n)
		files = append(files, b)
	}
	return
}

type collector struct {
	st     stats
	viols  map[string]*violRec
	states map[uint64]struct{}
}

// groupView compares the index range the (re)opened group works with against the rolled files that are in the
// directory; "" when they agree (head index = largest rolled index + 1, first index = smallest rolled index).
func groupView(w cs.WAL, headPath string) string {
	dir, base := filepath.Dir(headPath), filepath.Base(headPath)
	ents, err := ioutil.ReadDir(dir)
	if err != nil {
		fatal("groupView: %v", err)
	}
	min, max := -1, -1
	var rolled []string
	for _, e := range ents {
		if len(e.Name()) > len(base)+1 && e.Name()[:len(base)+1] == base+"." {
			if i, err := strconv.Atoi(e.Name()[len(base)+1:]); err == nil {
				rolled = append(rolled, e.Name())
				if min < 0 || i < min {
					min = i
				}
				if i > max {
					max = i
				}
			}
		}
	}
	wantMin, wantMax := 0, 0
	if max >= 0 {
		wantMin, wantMax = min, max+1
	}
	g := w.Group()
	if g.MinIndex() == wantMin && g.MaxIndex() == wantMax {
		return ""
	}
	sort.Strings(rolled)
	return fmt.Sprintf("the opened group works with indexes %d..%d (head = %d) but the directory holds the rolled files %v, i.e. indexes %d..%d (head = %d)", g.MinIndex(), g.MaxIndex(), g.MaxIndex(), rolled, wantMin, wantMax, wantMax)
}

func newCollector() *collector {
	return &collector{st: stats{}, viols: map[string]*violRec{}, states: map[uint64]struct{}{}}
}

func (c *collector) add(vs []viol, size int64, replay func() interface{}) {
	for _, v := range vs {
		if cur, ok := c.viols[v.key]; ok {
			cur.Count++
			if size < cur.Size {
				cur.What, cur.Replay, cur.Size = v.what, replay(), size
			}
			continue
		}
		c.viols[v.key] = &violRec{Key: v.key, What: v.what, Replay: replay(), Size: size, Count: 1}
		// announce a new key at once (Count 0: the unit result carries the counts), so that it survives if the
		// worker is killed by what comes next
		if workerOut != nil {
			b, _ := json.Marshal(violRec{Key: v.key, What: v.what, Replay: c.viols[v.key].Replay, Size: size, Count: 0})
			fmt.Fprintf(workerOut, "V %s\n", b)
			workerOut.Flush()
		}
	}
}

func (c *collector) state(s string) {
	h := fnv.New64a()
	h.Write([]byte(s))
	c.states[h.Sum64()] = struct{}{}
}

func (c *collector) result(id int) unitResult {
	buf := make([]byte, 0, 8*len(c.states))
	keys := make([]uint64, 0, len(c.states))
	for k := range c.states {
		keys = append(keys, k)
	}
	sort.Slice(keys, func(i, j int) bool { return keys[i] < keys[j] })
	var b [8]byte
	for _, k := range keys {
		binary.BigEndian.PutUint64(b[:], k)
		buf = append(buf, b[:]...)
	}
	return unitResult{ID: id, Stats: c.st, Viols: c.viols, States: base64.StdEncoding.EncodeToString(buf)}
}

func runUnit(u unit) unitResult {
	c := newCollector()
	constFill = u.Phase == 1
	switch u.Phase {
	case 1:
		runHistories(u, c)
	case 2:
		runImage(u, c)
	case 3:
		runLiveUnit(u, c)
	default:
		fatal("unit phase %d", u.Phase)
	}
	return c.result(u.ID)
}

func workerMain() {
	// address-space limit: a decoder that allocates what a damaged length field says dies here, not the machine
	lim := uint64(3584) << 20 // the worker's own address space is about 2 GiB (Go runtime reservations)
	syscall.Setrlimit(syscall.RLIMIT_AS, &syscall.Rlimit{Cur: lim, Max: lim})
	var in struct {
		Units []unit `json:"units"`
	}
	data, err := ioutil.ReadAll(os.Stdin)
	if err != nil {
		fatal("worker stdin: %v", err)
	}
	if err := json.Unmarshal(data, &in); err != nil {
		fatal("worker stdin: %v", err)
	}
	workerOut = bufio.NewWriterSize(os.Stdout, 1<<16)
	tick()
	go func() { // watchdog: one case never takes this long unless the code under test loops
		for {
			time.Sleep(5 * time.Second)
			if time.Since(time.Unix(0, atomic.LoadInt64(&progress))) > 120*time.Second {
				v := violRec{Key: "hang:no-case-completed-in-120s", What: "a single case did not complete within 120 s", Replay: curCase.Load(), Count: 1}
				b, _ := json.Marshal(v)
				fmt.Fprintf(os.Stdout, "V %s\n", b)
				os.Exit(3)
			}
		}
	}()
	for _, u := range in.Units {
		fmt.Fprintf(workerOut, "S %d\n", u.ID)
		workerOut.Flush()
		res := runUnit(u)
		b, err := json.Marshal(res)
		if err != nil {
			fatal("marshal: %v", err)
		}
		fmt.Fprintf(workerOut, "R %s\n", b)
		workerOut.Flush()
	}
	pprof.StopCPUProfile()
	os.Exit(0)
}

// =============================================================================================
// Phase 1: write histories on the real baseWAL (real Write / WriteSync / Start / Stop, explicit ticks), then the
// log is read back by a fresh baseWAL on (i) the files as they are on disk at that instant, head buffer lost
// ("crash"), (ii) the files after a clean Stop.

type symbol struct {
	name    string
	k       kind
	sync    bool
	tick    bool
	restart bool
	lv      int // part 3 (live readers) operation code, see live.go
}

func wsym(k kind, sync bool) symbol {
	n := "Write("
	if sync {
		n = "WriteSync("
	}
	return symbol{name: n + k.String() + ")", k: k, sync: sync}
}

var alphabets = map[string][]symbol{
	"full": {
		wsym(kVotePeer, false), wsym(kVoteOwn, true), wsym(kPropPeer, false), wsym(kPropOwn, true), wsym(kPartSmall, false),
		wsym(kPart32k, false), wsym(kPart32k, true), wsym(kPart45k, false), wsym(kTimeout, false), wsym(kStep, false),
		wsym(kEndHeight, true), {name: "Tick", tick: true}, {name: "Restart", restart: true},
	},
	"core": {
		wsym(kVotePeer, false), wsym(kVoteOwn, true), wsym(kPart32k, false), wsym(kPart45k, false), wsym(kTimeout, false),
		wsym(kEndHeight, true), {name: "Tick", tick: true}, {name: "Restart", restart: true},
	},
	"oversize": {
		wsym(kPartMax, false), wsym(kVotePeer, false), wsym(kEndHeight, true), {name: "Tick", tick: true},
	},
}

func histNames(alpha string, h []int) []string {
	a := alphabets[alpha]
	out := make([]string, len(h))
	for i, s := range h {
		out[i] = a[s].name
	}
	return out
}

func runHistories(u unit, c *collector) {
	a := alphabets[u.Alpha]
	if a == nil {
		fatal("alphabet %q", u.Alpha)
	}
	if u.Exact {
		runHistory(u.Alpha, u.Prefix, u.Start, c)
		return
	}
	var rec func(h []int, max int)
	rec = func(h []int, max int) {
		runHistory(u.Alpha, h, u.Start, c)
		if len(h) >= max {
			return
		}
		for s := range a {
			rec(append(h, s), max)
		}
	}
	if u.Shallow {
		rec(make([]int, 0, u.Depth), u.Depth-1)
		return
	}
	h := make([]int, len(u.Prefix), u.Depth+1)
	copy(h, u.Prefix)
	rec(h, u.Depth)
}

type expected struct {
	msg    cs.WALMessage
	marker int64
	k      string
}

func headEmpty(path string) bool {
	fi, err := os.Stat(path)
	return err != nil || fi.Size() == 0
}

// matchRecords: the longest prefix of the reference-parsed records that is, record by record, the expected
// written message (any timestamp). Only those count as "written".
func matchRecords(recs []rec, exp []expected) []rec {
	n := 0
	for n < len(recs) && n < len(exp) {
		var t cs.TimedWALMessage
		if err := ser.DecodeBytes(recs[n].payload, &t); err != nil {
			break
		}
		want := ser.MustEncodeToBytes(&cs.TimedWALMessage{Time: t.Time, Msg: exp[n].msg})
		if !bytes.Equal(want, recs[n].payload) {
			break
		}
		recs[n].marker = exp[n].marker
		recs[n].desc = exp[n].k
		n++
	}
	return recs[:n]
}

// startState brings the directory into the state "two rolled files <head>.(start-2), <head>.(start-1) and an empty
// head of index start": the two files are written through the real WAL (marker 0 and a timeout in the first, marker
// 1 and a timeout in the second) and then given the names they would have after start-2 further rotations whose
// files have been pruned. Returns what has been written.
func startState(path string, start int) []expected {
	if start < 2 {
		fatal("start index %d", start)
	}
	exp := []expected{{cs.EndHeightMessage{Height: 0}, 0, "endheight"}}
	w := openWAL(path, true)
	wr := func(k kind, pos int, h uint64, mk int64) {
		m := mkMsg(k, pos, h)
		exp = append(exp, expected{m, mk, k.String()})
		w.WriteSync(m)
	}
	wr(kTimeout, 90, 0, -1)
	autofile.VerifTick(w.Group())
	wr(kEndHeight, 91, 1, 1)
	wr(kTimeout, 92, 0, -1)
	autofile.VerifTick(w.Group())
	closeWAL(w)
	for i := 1; i >= 0; i-- {
		from, to := fmt.Sprintf("%s.%03d", path, i), fmt.Sprintf("%s.%03d", path, start-2+i)
		if err := os.Rename(from, to); err != nil {
			fatal("start state: %v", err)
		}
	}
	return exp
}

func runHistory(alpha string, hist []int, start int, c *collector) {
	a := alphabets[alpha]
	hcopy := append([]int{}, hist...)
	curCase.Store(map[string]interface{}{"phase": 1, "alpha": alpha, "op_ids": hcopy, "start": start})
	defer tick()
	replay := func(img string) func() interface{} {
		return func() interface{} {
			r := map[string]interface{}{"phase": 1, "alpha": alpha, "ops": histNames(alpha, hcopy), "op_ids": hcopy, "image": img}
			if start > 0 {
				r["start"] = start
				r["start_state"] = fmt.Sprintf("rolled files wal.%03d, wal.%03d on disk, head has index %d", start-2, start-1, start)
			}
			return r
		}
	}
	size := int64(len(hist))*1000 + histRank(hist)
	if start > 0 {
		size += 1 << 30 // a case from the empty directory is simpler
	}
	c.st["histories"]++
	c.st["write_events"] += len(hist)
	dir := newScratch()
	defer os.RemoveAll(dir)
	path := filepath.Join(dir, "wal")

	var exp []expected
	nextH := uint64(1)
	if start > 0 {
		exp = startState(path, start)
		nextH = 2
	}
	exp = append(exp, expected{cs.EndHeightMessage{Height: 0}, 0, "endheight"}) // written by OnStart into an empty head
	w := openWAL(path, true)
	misOpen := groupView(w, path) // does any open of the writing process itself misread the directory?
	var opPanic []viol
	for pos, si := range hist {
		s := a[si]
		p, pv := catch(func() {
			switch {
			case s.tick:
				autofile.VerifTick(w.Group())
			case s.restart:
				closeWAL(w)
				empty := headEmpty(path)
				w = openWAL(path, true)
				if v := groupView(w, path); v != "" && misOpen == "" {
					misOpen = v
				}
				if empty {
					exp = append(exp, expected{cs.EndHeightMessage{Height: 0}, 0, "endheight"})
				}
			default:
				h := uint64(0)
				mk := int64(-1)
				if s.k == kEndHeight {
					h, mk = nextH, int64(nextH)
					nextH++
				}
				m := mkMsg(s.k, pos, h)
				exp = append(exp, expected{m, mk, s.k.String()})
				if s.sync {
					w.WriteSync(m)
				} else {
					w.Write(m)
				}
			}
		})
		if p {
			opPanic = append(opPanic, viol{"writer:panic:" + s.name, fmt.Sprintf("%s panics: %v", s.name, pv)})
			break
		}
	}
	if len(opPanic) > 0 {
		c.add(opPanic, size, replay("-"))
		catch(func() { closeWAL(w) })
		return
	}
	heights := make([]uint64, 0, nextH+1)
	for h := uint64(0); h <= nextH; h++ {
		heights = append(heights, h)
	}

	// (i) crash: what is in the files right now
	cnames, cfiles := readGroup(path)
	buffered := autofile.VerifBuffered(w.Group())

	// (ii) clean stop, then a new process opens the log (OpenWAL: NewWAL + Start)
	closeWAL(w)
	exp2 := exp
	if headEmpty(path) {
		exp2 = append(append([]expected{}, exp...), expected{cs.EndHeightMessage{Height: 0}, 0, "endheight"})
	}
	w2 := openWAL(path, true)
	names, files := readGroup(path)
	L := &layout{misindexed: groupView(w2, path)}
	if L.misindexed == "" {
		L.misindexed = misOpen
	}
	L.setFiles(names, files)
	stream := L.stream()
	recs, stop := parseStream(stream)
	L.recs = matchRecords(recs, exp2)
	L.index()
	c.st["images_clean"]++
	if len(files) > 1 {
		c.st["images_clean_multi_file"]++
	}
	if !L.aligned {
		c.st["images_clean_with_record_split_across_files"]++
	}
	if stop != len(stream) || len(L.recs) != len(exp2) {
		key, why := "writer:clean-log-is-not-the-written-record-sequence", ""
		if misOpen != "" || L.misindexed != "" {
			key, why = keyMisindexed, " [writer:clean-log-is-not-the-written-record-sequence]; "+L.misindexed
		}
		c.add([]viol{{key, fmt.Sprintf("files %v: after a clean stop the files hold %d bytes; the reference parser finds %d of the %d written records and stops at byte %d", names, len(stream), len(L.recs), len(exp2), stop) + why}}, size, replay("clean"))
	} else {
		vs := evalImage(w2, L, damage{class: "undamaged", none: true, p: len(L.recs), desc: "clean stop"}, heights, c.st)
		c.add(vs, size, replay("clean"))
	}
	closeWAL(w2)

	// crash image in its own directory
	dir2 := newScratch()
	defer os.RemoveAll(dir2)
	path2 := filepath.Join(dir2, "wal")
	for i, n := range cnames {
		if err := ioutil.WriteFile(filepath.Join(dir2, n), cfiles[i], 0600); err != nil {
			fatal("crash copy: %v", err)
		}
	}
	w3 := openWAL(path2, false)
	names3, files3 := readGroup(path2) // NewWAL creates the head if the crash left none
	Lc := &layout{misindexed: groupView(w3, path2)}
	if Lc.misindexed == "" {
		Lc.misindexed = misOpen
	}
	Lc.setFiles(names3, files3)
	cstream := Lc.stream()
	crecs, _ := parseStream(cstream)
	Lc.recs = matchRecords(crecs, exp)
	Lc.index()
	end := 0
	if n := len(Lc.recs); n > 0 {
		end = Lc.recs[n-1].end
	}
	Lc.torn = len(cstream) - end
	d := damage{class: "crash-cut", p: len(Lc.recs), none: Lc.torn == 0, cut: true, desc: fmt.Sprintf("head buffer (%d bytes) lost; %d complete records and %d further bytes on disk", buffered, len(Lc.recs), Lc.torn)}
	if d.none {
		d.class = "crash-cut:at-record-boundary"
	}
	c.st["images_crash"]++
	if Lc.torn > 0 {
		c.st["images_crash_with_torn_record"]++
	}
	if !Lc.aligned {
		c.st["images_crash_with_record_split_across_files"]++
	}
	vs := evalImage(w3, Lc, d, heights, c.st)
	c.add(vs, size, replay("crash"))
	closeWAL(w3)

	// canonical state (for the distinct-state count): record kinds, how they are spread over the files, what is
	// still buffered
	var sk bytes.Buffer
	fmt.Fprintf(&sk, "start%d|", start)
	for _, e := range exp {
		sk.WriteString(e.k)
		sk.WriteByte(',')
	}
	for k := range Lc.files {
		i, f := Lc.fieldAt(Lc.bounds[k])
		al := i >= len(Lc.recs) || Lc.recs[i].start == Lc.bounds[k]
		if !al {
			fmt.Fprintf(&sk, "|f%d@%d:%s", k, i, f)
		} else {
			fmt.Fprintf(&sk, "|f%d@%d", k, i)
		}
	}
	fmt.Fprintf(&sk, "|disk%d|torn%v|head%v", len(Lc.recs), Lc.torn > 0, len(cnames) == len(names3))
	c.state(sk.String())
}

func histRank(h []int) int64 {
	var r int64
	for _, s := range h {
		r = r*16 + int64(s)
	}
	return r % 1000
}

func catch(f func()) (panicked bool, val interface{}) {
	defer func() {
		if e := recover(); e != nil {
			panicked, val = true, e
		}
	}()
	f()
	return
}

// =============================================================================================
// Phase 2: one image (written through the real encoder and group with fixed timestamps), then EVERY truncation
// offset and EVERY single-byte alteration (4 replacement values) of EVERY file of the group.

func opName(code int) string {
	if code == tickCode {
		return "Tick"
	}
	return wsym(kind(code/2), code%2 == 1).name
}

func opNames(ops []int) []string {
	out := make([]string, len(ops))
	for i, o := range ops {
		out[i] = opName(o)
	}
	return out
}

// replacements: the first four of these values that differ from the original byte.
func replacements(b byte) [4]byte {
	var out [4]byte
	n := 0
	for _, v := range [...]byte{0x00, 0x01, 0x80, 0xff, 0x7f} {
		if v != b && n < 4 {
			out[n] = v
			n++
		}
	}
	return out
}

func runImage(u unit, c *collector) {
	ops := u.Ops
	curCase.Store(map[string]interface{}{"phase": 2, "op_codes": ops})
	defer tick()
	replay := func(dmg string) func() interface{} {
		return func() interface{} {
			return map[string]interface{}{"phase": 2, "ops": opNames(ops), "op_codes": ops, "damage": dmg, "replay": u.Replay}
		}
	}
	base := int64(len(ops)) << 40
	dir := newScratch()
	defer os.RemoveAll(dir)
	path := filepath.Join(dir, "wal")
	w := openWAL(path, false)
	var want []byte
	L := &layout{}
	lastH := uint64(0)
	heights := []uint64{0}
	var perr []viol
	for pos, code := range ops {
		p, pv := catch(func() {
			if code == tickCode {
				autofile.VerifTick(w.Group())
				return
			}
			k, sync := kind(code/2), code%2 == 1
			h, mk := uint64(0), int64(-1)
			if k.isMarker() {
				lastH = markerHeight(k, lastH)
				h, mk = lastH, int64(lastH)
				heights = append(heights, h)
			}
			m := mkMsg(k, pos, h)
			t := fixedT0.Add(time.Duration(pos) * time.Second)
			payload := ser.MustEncodeToBytes(&cs.TimedWALMessage{Time: t, Msg: m})
			if k.trailingZero() && payload[len(payload)-1] != 0 {
				fatal("encoding of %s does not end in 0x00: ... % x", k, payload[len(payload)-4:])
			}
			L.recs = append(L.recs, rec{start: len(want), end: len(want) + 8 + len(payload), payload: payload, marker: mk, desc: k.String(), tag: replayTag(k, pos)})
			want = append(want, frame(payload)...)
			if err := cs.VerifWALWriteAt(w, t, m, sync); err != nil {
				panic(err)
			}
		})
		if p {
			perr = append(perr, viol{"writer:panic:" + opName(code), fmt.Sprintf("%s panics: %v", opName(code), pv)})
			break
		}
	}
	if len(perr) > 0 {
		c.add(perr, base, replay("-"))
		catch(func() { closeWAL(w) })
		return
	}
	closeWAL(w)
	names, files := readGroup(path)
	L.setFiles(names, files)
	L.index()
	slices, slice := u.Slices, u.Slice
	if slices < 1 {
		slices, slice = 1, 0
	}
	first := slice == 0
	if first {
		c.st["write_events"] += len(ops)
		c.st["images"]++
		c.st["image_files"] += len(files)
		c.st["image_bytes"] += len(want)
		if len(files) > 1 {
			c.st["images_multi_file"]++
		}
		if !L.aligned {
			c.st["images_with_record_split_across_files"]++
		}
		c.state(fmt.Sprint(ops))
	}
	if !bytes.Equal(L.stream(), want) {
		c.add([]viol{{"writer:log-bytes-differ-from-the-framed-written-records", fmt.Sprintf("files hold %d bytes, the written records frame to %d bytes (first difference at %d)", len(L.stream()), len(want), firstDiff(L.stream(), want))}}, base, replay("-"))
		return
	}
	heights = append(heights, lastH+1) // 0, every written marker, the first unwritten height
	w2 := openWAL(path, false)
	defer closeWAL(w2)
	if g := w2.Group(); g.MaxIndex()-g.MinIndex()+1 != len(files) {
		// an observation about the code under test, not a harness fault: after the clean stop the directory did
		// not hold a file for every index of the group (e.g. no head file after a rotation); the image is reported
		// and skipped
		if first {
			c.add([]viol{{"group:index-range-names-a-missing-file", fmt.Sprintf("after the history and a clean Stop the directory holds the %d file(s) %v, but a group opened on it works with indexes %d..%d: an index of the group (the head after a rotation) named no existing file until the reopen created it", len(files), names, g.MinIndex(), g.MaxIndex())}}, base, replay("none"))
		}
		return
	}
	eval := func(d damage, hs []uint64) []viol { return evalImage(w2, L, d, hs, c.st) }
	if u.Replay {
		rp := newReplayer(L)
		defer rp.close()
		eval = func(d damage, hs []uint64) []viol { return rp.eval(w2, L, d, c.st) }
	}
	if first {
		vs := eval(damage{class: "undamaged", none: true, p: len(L.recs), desc: "undamaged"}, heights)
		c.add(vs, base, replay("none"))
		c.st["evaluations"]++
	}
	// damaged variants: probe the written markers and the first unwritten height
	dh := heights[1:]
	ord := int64(0)
	for k := range files {
		orig := files[k]
		fp := filepath.Join(dir, names[k])
		fd, err := os.OpenFile(fp, os.O_RDWR, 0600)
		if err != nil {
			fatal("open image file: %v", err)
		}
		last := L.bounds[k+1] >= L.bounds[len(files)]
		// single-byte alterations
		for off := range orig {
			if off%slices != slice {
				ord += 4
				continue
			}
			so := L.bounds[k] + off
			ri, field := L.fieldAt(so)
			for _, v := range replacements(orig[off]) {
				ord++
				if _, err := fd.WriteAt([]byte{v}, int64(off)); err != nil {
					fatal("alter: %v", err)
				}
				desc := fmt.Sprintf("file %s byte %d: %#02x -> %#02x (record %d %s, %s)", names[k], off, orig[off], v, ri, L.recs[ri].desc, field)
				d := damage{class: "corruption:" + field, p: ri, desc: desc}
				vs := eval(d, dh)
				if len(vs) > 0 {
					c.add(vs, base+ord, replay(desc))
				}
				c.st["alterations"]++
				c.st["evaluations"]++
				tick()
			}
			if _, err := fd.WriteAt(orig[off:off+1], int64(off)); err != nil {
				fatal("restore: %v", err)
			}
		}
		// truncations, longest first; the file is rewritten afterwards
		for off := len(orig) - 1; off >= 0; off-- {
			ord++
			if off%slices != slice {
				continue
			}
			if err := fd.Truncate(int64(off)); err != nil {
				fatal("truncate: %v", err)
			}
			so := L.bounds[k] + off
			cl := "truncation:last-file"
			if !last {
				cl = "truncation:rotated-file"
			}
			desc := fmt.Sprintf("file %s cut to %d of %d bytes", names[k], off, len(orig))
			d := damage{class: cl, p: L.intactBefore(so), midGroup: !last, cut: last, lost: [2]int{so, L.bounds[k+1]}, desc: desc}
			vs := eval(d, dh)
			if len(vs) > 0 {
				c.add(vs, base+ord, replay(desc))
			}
			c.st["truncations"]++
			c.st["evaluations"]++
			tick()
		}
		if _, err := fd.WriteAt(orig, 0); err != nil {
			fatal("restore: %v", err)
		}
		fd.Close()
	}
	// the image must be back to the original
	_, after := readGroup(path)
	for k := range files {
		if !bytes.Equal(after[k], files[k]) {
			fatal("image not restored")
		}
	}
}

func firstDiff(a, b []byte) int {
	n := len(a)
	if len(b) < n {
		n = len(b)
	}
	for i := 0; i < n; i++ {
		if a[i] != b[i] {
			return i
		}
	}
	return n
}
