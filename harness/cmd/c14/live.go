package main

// Part 3: readers that are ALREADY OPEN while the log keeps being written and rotates (what catchupReplay's reader
// lives through: newStep writes to the WAL during replay and the size-check tick may rotate the head).
//
// Every order of {Write(timeout), WriteSync(end-of-height marker), Flush, Tick (head-size check -> RotateFile),
// open a reader (Group.NewReader at the first index / SearchForEndHeight(last marker) / SearchForEndHeight(the
// marker before it)), read ONE message on reader k, close reader k} up to a depth, with at most 1 or 2 readers, at
// most 6 writes and 2 ticks, on one real started baseWAL. All records are small, so the 40 KiB head buffer never
// flushes a record in two pieces: what has reached the files is always a whole number of records.
//
// Oracle, per reader (position = index among the written records of the next record it has to yield; a reader from
// NewReader(first index) starts at 0, a reader from SearchForEndHeight(h) right after the marker of h):
//   - a message it yields is exactly the written record at its position (never a later one - a skipped record -,
//     never an earlier one, never something that was not written);
//   - end-of-log (io.EOF) is only reported when no record that is known to have been flushed (written before the last
//     WriteSync/Flush) is still unread; the same for any other error;
//   - SearchForEndHeight finds every marker (markers are written with WriteSync);
//   - at the end everything is flushed and every reader that is still open is drained: it yields exactly the
//     remaining records and then io.EOF.

import (
	"bytes"
	"fmt"
	"io"
	"os"
	"path/filepath"

	cs "github.com/lianxiangcloud/linkchain/consensus"
	"github.com/lianxiangcloud/linkchain/libs/autofile"
	"github.com/lianxiangcloud/linkchain/libs/ser"
)

const (
	lvNone = iota
	lvWrite
	lvSync
	lvFlush
	lvTick
	lvOpenFirst
	lvOpenSearchLast
	lvOpenSearchPrev
	lvRead0
	lvRead1
	lvClose0
	lvClose1
)

const (
	liveMaxWrites = 6
	liveMaxTicks  = 2
)

func init() {
	one := []symbol{
		{name: "Write(timeout)", lv: lvWrite}, {name: "WriteSync(endheight)", lv: lvSync}, {name: "Flush", lv: lvFlush},
		{name: "Tick", lv: lvTick}, {name: "OpenReader(first index)", lv: lvOpenFirst},
		{name: "OpenReader(SearchForEndHeight(last marker))", lv: lvOpenSearchLast},
		{name: "OpenReader(SearchForEndHeight(marker before last))", lv: lvOpenSearchPrev},
		{name: "Read(reader 0)", lv: lvRead0}, {name: "Close(reader 0)", lv: lvClose0},
	}
	two := append(append([]symbol{}, one...), symbol{name: "Read(reader 1)", lv: lvRead1}, symbol{name: "Close(reader 1)", lv: lvClose1})
	alphabets["live1"] = one
	alphabets["live2"] = two
}

func liveReaders(alpha string) int {
	if alpha == "live2" {
		return 2
	}
	return 1
}

// liveEnabled: static enabledness of the last operation of h (readers are numbered in the order they are opened and
// are not reopened; reads and closes need an open reader; bounds on writes and ticks; the marker before the last one
// must exist).
func liveEnabled(alpha string, h []int) bool {
	a := alphabets[alpha]
	maxR := liveReaders(alpha)
	writes, ticks, opened, markers := 0, 0, 0, 1 // marker 0 is written by Start
	var open [2]bool
	for _, si := range h {
		switch a[si].lv {
		case lvWrite:
			writes++
		case lvSync:
			writes++
			markers++
		case lvTick:
			ticks++
		case lvFlush:
		case lvOpenFirst, lvOpenSearchLast:
			if opened >= maxR {
				return false
			}
			open[opened] = true
			opened++
		case lvOpenSearchPrev:
			if opened >= maxR || markers < 2 {
				return false
			}
			open[opened] = true
			opened++
		case lvRead0, lvRead1:
			if !open[a[si].lv-lvRead0] {
				return false
			}
		case lvClose0, lvClose1:
			k := a[si].lv - lvClose0
			if !open[k] {
				return false
			}
			open[k] = false
		}
		if writes > liveMaxWrites || ticks > liveMaxTicks {
			return false
		}
	}
	return true
}

func runLiveUnit(u unit, c *collector) {
	a := alphabets[u.Alpha]
	if a == nil {
		fatal("alphabet %q", u.Alpha)
	}
	if u.Exact {
		runLive(u.Alpha, u.Prefix, c)
		return
	}
	var rec func(h []int, max int)
	rec = func(h []int, max int) {
		runLive(u.Alpha, h, c)
		if len(h) >= max {
			return
		}
		for s := range a {
			if h2 := append(h, s); liveEnabled(u.Alpha, h2) {
				rec(h2, max)
			}
		}
	}
	if u.Shallow {
		rec(make([]int, 0, u.Depth), u.Depth-1)
		return
	}
	for i := 1; i <= len(u.Prefix); i++ {
		if !liveEnabled(u.Alpha, u.Prefix[:i]) {
			return
		}
	}
	h := make([]int, len(u.Prefix), u.Depth+1)
	copy(h, u.Prefix)
	rec(h, u.Depth)
}

type liveReader struct {
	gr       *autofile.GroupReader
	dec      *cs.WALDecoder
	pos      int // index of the written record it has to yield next
	from     int
	open     bool
	how      string
	rotated  bool // the group rotated after this reader was opened
	yielded  int
	lastStop string
}

func runLive(alpha string, hist []int, c *collector) {
	a := alphabets[alpha]
	hcopy := append([]int{}, hist...)
	curCase.Store(map[string]interface{}{"phase": 3, "alpha": alpha, "op_ids": hcopy})
	defer tick()
	replay := func() interface{} {
		return map[string]interface{}{"phase": 3, "alpha": alpha, "ops": histNames(alpha, hcopy), "op_ids": hcopy}
	}
	size := int64(len(hist))*1000 + histRank(hist)
	c.st["live_histories"]++
	c.st["write_events"] += len(hist)
	dir := newScratch()
	defer os.RemoveAll(dir)
	path := filepath.Join(dir, "wal")
	w := openWAL(path, true)
	g := w.Group()
	written := []expected{{cs.EndHeightMessage{Height: 0}, 0, "endheight"}}
	flushed := 1 // records known to be in the files: everything written before the last WriteSync / Flush
	lastH := uint64(0)
	var rd []*liveReader
	var vs []viol
	add := func(key, what string) { vs = append(vs, viol{key, what}) }
	sfx := func(r *liveReader) string {
		if r.rotated {
			return ":group-rotated-while-reader-open"
		}
		return ":no-rotation-since-open"
	}
	// which written record is m? (-1: none)
	identify := func(m *cs.TimedWALMessage) int {
		if m == nil {
			return -1
		}
		got, err := ser.EncodeToBytes(m)
		if err != nil {
			return -1
		}
		for i := range written {
			if bytes.Equal(got, ser.MustEncodeToBytes(&cs.TimedWALMessage{Time: m.Time, Msg: written[i].msg})) {
				return i
			}
		}
		return -1
	}
	// one Decode on reader r; drain: part of the final drain (everything is flushed)
	readOne := func(k int, drain bool) (done bool) {
		r := rd[k]
		who := fmt.Sprintf("reader %d (%s, starts at record %d, has yielded %d)", k, r.how, r.from, r.yielded)
		var msg *cs.TimedWALMessage
		var err error
		if p, pv := catch(func() { msg, err = r.dec.Decode() }); p {
			add("live-reader:panic", fmt.Sprintf("%s: Decode panics: %v", who, pv))
			return true
		}
		c.st["live_reads"]++
		switch {
		case err == io.EOF:
			r.lastStop = "eof"
			c.st["live/read/eof"]++
			if r.pos < flushed {
				add("live-reader:end-of-log-before-true-end"+sfx(r), fmt.Sprintf("%s reports end-of-log although records %d..%d (%s ...) are written and flushed and it has not yielded them; files %v", who, r.pos, flushed-1, written[r.pos].k, dirNames(path)))
			}
			return true
		case err != nil:
			r.lastStop = errClass(err)
			c.st["live/read/"+errClass(err)]++
			if r.pos < flushed {
				add("live-reader:error-on-undamaged-flushed-record"+sfx(r), fmt.Sprintf("%s: Decode fails with %q although record %d (%s) is written and flushed; files %v", who, err, r.pos, written[r.pos].k, dirNames(path)))
			} else {
				c.st["live/error-at-true-end:"+errClass(err)]++
			}
			return true
		}
		c.st["live/read/message"]++
		i := identify(msg)
		switch {
		case i == r.pos:
			r.pos++
			r.yielded++
		case i > r.pos:
			add("live-reader:skips-written-record"+sfx(r), fmt.Sprintf("%s yields record %d (%s) while record %d (%s) is next: %d record(s) skipped without any error; files %v", who, i, written[i].k, r.pos, written[r.pos].k, i-r.pos, dirNames(path)))
			r.pos = i + 1
			r.yielded++
		case i >= 0:
			add("live-reader:repeats-or-reorders-record"+sfx(r), fmt.Sprintf("%s yields record %d (%s) again/out of order, record %d is next", who, i, written[i].k, r.pos))
			return true
		default:
			add("live-reader:yields-unwritten-message"+sfx(r), fmt.Sprintf("%s yields a message that was never written: %s %+v", who, cs.VerifWALKind(msg.Msg), msg))
			return true
		}
		return false
	}
	open := func(how string, h int64) {
		r := &liveReader{how: how}
		if h < 0 {
			gr, err := g.NewReader(g.MinIndex())
			if err != nil {
				add("live:cannot-open-first-file", err.Error())
				return
			}
			r.gr = gr
		} else {
			var gr *autofile.GroupReader
			var found bool
			var err error
			if p, pv := catch(func() {
				gr, found, err = w.SearchForEndHeight(uint64(h), &cs.WALSearchOptions{IgnoreDataCorruptionErrors: true})
			}); p {
				add("live:search:panic", fmt.Sprintf("SearchForEndHeight(%d) panics: %v", h, pv))
				return
			}
			c.st["searches"]++
			if !found || gr == nil {
				key := "live:search:complete-marker-not-found"
				if _, serr := os.Stat(path); serr != nil {
					// RotateFile renames the head away and does not create a new one; the next write does
					key += ":head-file-missing-after-rotation"
				}
				add(key, fmt.Sprintf("SearchForEndHeight(%d) = (found=%v, err=%v) while the log is being written, although the marker was written with WriteSync; files %v", h, found, err, dirNames(path)))
				if gr != nil {
					gr.Close()
				}
				return
			}
			r.gr = gr
			for i, e := range written {
				if e.marker == h {
					r.pos = i + 1
				}
			}
		}
		r.from = r.pos
		r.dec = cs.NewWALDecoder(r.gr)
		r.open = true
		rd = append(rd, r)
		c.st["live_opens"]++
	}
	for pos, si := range hist {
		s := a[si]
		p, pv := catch(func() {
			switch s.lv {
			case lvWrite:
				m := mkMsg(kTimeout, pos, 0)
				written = append(written, expected{m, -1, "timeout"})
				w.Write(m)
			case lvSync:
				lastH++
				m := mkMsg(kEndHeight, pos, lastH)
				written = append(written, expected{m, int64(lastH), "endheight"})
				w.WriteSync(m)
				flushed = len(written)
			case lvFlush:
				if err := g.Flush(); err != nil {
					panic(err)
				}
				flushed = len(written)
			case lvTick:
				before := g.MaxIndex()
				autofile.VerifTick(g)
				if g.MaxIndex() != before {
					c.st["live_rotations"]++
					for _, r := range rd {
						if r.open {
							r.rotated = true
						}
					}
				}
			case lvOpenFirst:
				open("NewReader(first index)", -1)
			case lvOpenSearchLast:
				open(fmt.Sprintf("SearchForEndHeight(%d)", lastH), int64(lastH))
			case lvOpenSearchPrev:
				open(fmt.Sprintf("SearchForEndHeight(%d)", lastH-1), int64(lastH)-1)
			case lvRead0, lvRead1:
				if k := s.lv - lvRead0; k < len(rd) && rd[k].open {
					readOne(k, false)
				}
			case lvClose0, lvClose1:
				if k := s.lv - lvClose0; k < len(rd) && rd[k].open {
					rd[k].gr.Close()
					rd[k].open = false
				}
			}
		})
		if p {
			add("live:panic:"+s.name, fmt.Sprintf("%s panics: %v", s.name, pv))
			break
		}
		if len(vs) > 0 {
			break // the first deviation decides; what follows is a consequence
		}
	}
	if len(vs) == 0 {
		// final: everything is flushed, every open reader is drained
		if err := g.Flush(); err != nil {
			fatal("final flush: %v", err)
		}
		flushed = len(written)
		for k, r := range rd {
			if !r.open {
				continue
			}
			c.st["live_final_drains"]++
			for n := 0; n <= len(written)+2; n++ {
				if readOne(k, true) {
					break
				}
			}
			if len(vs) == 0 && (r.pos != len(written) || r.lastStop != "eof") {
				add("live-reader:drained-reader-did-not-reach-end-of-log"+sfx(r), fmt.Sprintf("reader %d (%s): after the final flush it stopped with %q at record %d of %d", k, r.how, r.lastStop, r.pos, len(written)))
			}
			if len(vs) > 0 {
				break
			}
		}
	}
	c.st["evaluations"]++
	for _, r := range rd {
		if r.open {
			r.gr.Close()
		}
	}
	catch(func() { closeWAL(w) })
	if len(vs) > 0 {
		c.add(vs, size, replay)
	}
	// canonical state: the operation kinds in order are the state (no merging in this part)
	c.state(fmt.Sprint("live|", alpha, hist))
}

func dirNames(headPath string) []string {
	names, files := readGroup(headPath)
	out := make([]string, len(names))
	for i := range names {
		out[i] = fmt.Sprintf("%s(%dB)", names[i], len(files[i]))
	}
	return out
}
