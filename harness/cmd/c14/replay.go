package main

// Part "replay": the CONSUMER of the log at start-up. For every variant (undamaged, every single-byte alteration,
// every truncation) of a small log [optional control record][marker of height 0][2..4 records of the last height]
// the REAL ConsensusState.catchupReplay(1) of a real node at height 1 is run over the real WAL (hook
// consensus.VerifCatchupReplay) and the messages it hands to the state machine are observed.
//
// Oracle (the property's statement applied to the consumer): the applied messages are a prefix, in order, of the
// records written after the marker - never a message that was not written, never a hole; every intact record between
// the marker and the damage is applied or catchupReplay reports an error; an undamaged log is applied completely
// and catchupReplay returns nil; if fewer records are applied than were written after the marker, catchupReplay must
// not report success (error or panic) unless the only damage is that the END of the log is missing (torn tail).

import (
	"fmt"
	"strings"

	"verif/csnet"

	cs "github.com/lianxiangcloud/linkchain/consensus"
)

type replayer struct {
	node   *csnet.Node
	marker int // index of the marker of height 0
	want   []string
}

func newReplayer(L *layout) *replayer {
	rp := &replayer{node: fixture().NewNode(0, 0), marker: -1}
	if m := L.markers[0]; len(m) > 0 {
		rp.marker = m[0]
	}
	if rp.marker < 0 {
		fatal("replay image without the marker of height 0")
	}
	for _, r := range L.recs[rp.marker+1:] {
		if r.tag == "" {
			fatal("replay image with a record of kind %s after the marker", r.desc)
		}
		rp.want = append(rp.want, r.tag)
	}
	return rp
}

func (rp *replayer) close() { rp.node.Close() }

func (rp *replayer) eval(w cs.WAL, L *layout, d damage, st stats) []viol {
	applied, outcome := cs.VerifCatchupReplay(rp.node.CS, w, 1)
	st["replays"]++
	oc := outcome
	if i := strings.Index(oc, ":"); i > 0 {
		oc = oc[:i]
		if strings.Contains(outcome, "corrupted") {
			oc += ":corruption-reported"
		}
	}
	st["replay/"+d.class+"/"+oc]++
	ctx := fmt.Sprintf("catchupReplay(1) on a %s image (%s): written after the marker %v, applied %v, outcome %q", d.class, d.desc, rp.want, applied, outcome)
	for j, a := range applied {
		if j < len(rp.want) && a == rp.want[j] {
			continue
		}
		for k := j + 1; k < len(rp.want); k++ {
			if a == rp.want[k] {
				return []viol{{"replay:hole-in-replayed-messages:" + d.class, fmt.Sprintf("record %q applied directly after %d record(s): %d written record(s) left out; %s", a, j, k-j, ctx)}}
			}
		}
		return []viol{{"replay:applies-unwritten-or-repeated-message:" + d.class, fmt.Sprintf("applied message #%d %q is not the next written record; %s", j, a, ctx)}}
	}
	n := len(applied)
	if d.none {
		if n != len(rp.want) || outcome != "nil" {
			return []viol{{"replay:undamaged-log-not-fully-replayed", ctx}}
		}
		return nil
	}
	// intact records between the marker and the damage
	if d.p > rp.marker {
		// Observed on the unchanged tree and reported to the lead, counted but not a violation of the statement as
		// applied to the consumer ("a prefix ... or reports an error"): catchupReplay first searches for the marker
		// of the CURRENT height as a sanity check; that search reads to the end of the log and returns a plain read
		// error on a torn tail or a damaged length field, and catchupReplay then returns that error without
		// replaying the intact records that follow the last marker.
		if must := d.p - rp.marker - 1; n < must {
			st["replay-intact-records-not-replayed/"+d.class]++
			if outcome == "nil" {
				return []viol{{"replay:intact-records-not-replayed-and-success-reported:" + d.class, fmt.Sprintf("%d intact records follow the marker before the damage; %s", must, ctx)}}
			}
		}
	}
	if n < len(rp.want) && outcome == "nil" && !d.cut {
		return []viol{{"replay:incomplete-replay-reported-as-success:" + d.class, ctx}}
	}
	return nil
}
