// C14 - the consensus write-ahead log replays what was written or reports corruption.
//
// Crash-state / damage enumeration (engine E3) on the REAL write path (consensus.baseWAL over autofile.Group, in
// a scratch directory under /dev/shm) and the REAL read path (Group.NewReader -> GroupReader.Read ->
// WALDecoder.Decode, baseWAL.SearchForEndHeight):
//
//	part 1  every history of <= D events over {Write/WriteSync of each record kind the node writes, rotation
//	        Tick, clean Restart}; the log is then read back by a fresh WAL (a) from the files as they are at that
//	        instant with the head buffer lost (crash), (b) after a clean stop;
//	part 2  for every image of a second, byte-deterministic family (fixed timestamps): EVERY truncation offset and
//	        EVERY single-byte alteration (4 replacement values) of EVERY file of the group.
//
// Oracle (eval.go): the messages read back are exactly written records, in order; everything intact before the
// damage is replayed; before the first error nothing is skipped; an undamaged log is replayed completely; no
// panic, no read request beyond the 1 MiB cap; SearchForEndHeight(h) finds h iff the marker was (completely)
// written on undamaged images, never finds an unwritten marker on damaged ones, and the reader it returns
// continues with what was written after the marker.
//
// The parent process only distributes units to short-lived worker processes (see worker.go for why) and merges
// their results deterministically.
package main

import (
	"bufio"
	"bytes"
	"context"
	"encoding/base64"
	"encoding/binary"
	"encoding/json"
	"flag"
	"fmt"
	"os"
	"os/exec"
	"path/filepath"
	"regexp"
	"runtime"
	"sort"
	"strconv"
	"strings"
	"sync"
	"time"

	"verif/vk"

	"github.com/lianxiangcloud/linkchain/libs/log"
)

var workerFlag = flag.Bool("worker", false, "internal: run as worker (units on stdin)")
var partFlag = flag.String("part", "all", "all|histories|damage|live|replay")

// ---- unit generation ----

func pow(a, b int) int {
	r := 1
	for i := 0; i < b; i++ {
		r *= a
	}
	return r
}

// historyUnits: all histories of length <= depth over the alphabet, split into subtrees by prefix.
func historyUnits(alpha string, depth int, perHist float64) []unit {
	return historyUnitsFrom(alpha, depth, perHist, 0)
}

// historyUnitsFrom: the same histories from the start state "head has index start" (see unit.Start).
func historyUnitsFrom(alpha string, depth int, perHist float64, start int) []unit {
	us := historyUnits0(alpha, depth, perHist)
	if start > 0 {
		for i := range us {
			us[i].Start = start
			us[i].Group += fmt.Sprintf("/start-index-%d", start)
		}
	}
	return us
}

func historyUnits0(alpha string, depth int, perHist float64) []unit {
	n := len(alphabets[alpha])
	group := fmt.Sprintf("histories/%s/depth<=%d", alpha, depth)
	split := 0
	for split < depth-1 && pow(n, depth-split) > 1500 {
		split++
	}
	var us []unit
	if split == 0 {
		return []unit{{Phase: 1, Group: group, Alpha: alpha, Depth: depth, Prefix: []int{}, Cost: perHist * float64(pow(n, depth)) * 1.1}}
	}
	us = append(us, unit{Phase: 1, Group: group, Alpha: alpha, Depth: split, Shallow: true, Cost: perHist * float64(pow(n, split-1)) * 1.2})
	p := make([]int, split)
	for {
		us = append(us, unit{Phase: 1, Group: group, Alpha: alpha, Depth: depth, Prefix: append([]int{}, p...), Cost: perHist * float64(pow(n, depth-split)) * 1.1})
		i := split - 1
		for i >= 0 {
			p[i]++
			if p[i] < n {
				break
			}
			p[i] = 0
			i--
		}
		if i < 0 {
			break
		}
	}
	return us
}

// imageUnits: every sequence of n synced writes over kinds, with every placement of rotation ticks after the
// writes (2^n placements). Sequences with no marker or ascending markers only (markers get heights 1,2,.. in
// order of occurrence, as the node writes them).
func imageUnits(group string, kinds []kind, n int) []unit {
	var us []unit
	seq := make([]int, n)
	for {
		for mask := 0; mask < 1<<uint(n); mask++ {
			var ops []int
			bytesEst := 0
			for i, ki := range seq {
				ops = append(ops, 2*int(kinds[ki])+1)
				bytesEst += 200
				if mask&(1<<uint(i)) != 0 {
					ops = append(ops, tickCode)
				}
			}
			us = append(us, unit{Phase: 2, Group: group, Ops: ops, Cost: float64(bytesEst) * 5 * 120e-6})
		}
		i := n - 1
		for i >= 0 {
			seq[i]++
			if seq[i] < len(kinds) {
				break
			}
			seq[i] = 0
			i--
		}
		if i < 0 {
			break
		}
	}
	return us
}

// scripted: a large image; its byte offsets are spread over several units
// replayUnits: logs [control record?][marker 0][n records of the last height], all written with WriteSync, without a
// rotation or with one right after the marker; every variant is consumed by the real catchupReplay (see replay.go).
func replayUnits(quick bool) []unit {
	kinds := []kind{kRTimeout, kRVote, kRProposal, kRPart}
	maxN := 4
	if quick {
		kinds, maxN = kinds[:3], 3
	}
	var us []unit
	for n := 2; n <= maxN; n++ {
		seq := make([]int, n)
		for {
			for ctrl := 0; ctrl < 2; ctrl++ {
				for rot := 0; rot < 2; rot++ {
					if quick && rot == 1 && n > 2 {
						continue
					}
					var ops []int
					if ctrl == 1 {
						ops = append(ops, sy(kRTimeout))
					}
					ops = append(ops, sy(kMarker0))
					if rot == 1 {
						ops = append(ops, tickCode)
					}
					for _, ki := range seq {
						ops = append(ops, sy(kinds[ki]))
					}
					us = append(us, unit{Phase: 2, Group: fmt.Sprintf("replay/%d-records-after-marker", n), Ops: ops, Replay: true, Cost: float64(200*n+80) * 5 * 100e-6})
				}
			}
			i := n - 1
			for i >= 0 {
				seq[i]++
				if seq[i] < len(kinds) {
					break
				}
				seq[i] = 0
				i--
			}
			if i < 0 {
				break
			}
		}
	}
	return us
}

func scripted(group string, bytesEst int, ops ...int) []unit {
	n := bytesEst/4000 + 1
	var us []unit
	for i := 0; i < n; i++ {
		us = append(us, unit{Phase: 2, Group: group, Ops: ops, Slice: i, Slices: n, Cost: float64(bytesEst) / float64(n) * 5 * 250e-6})
	}
	return us
}

func wr(k kind) int { return 2 * int(k) }
func sy(k kind) int { return 2*int(k) + 1 }

func buildUnits(r *vk.Run) []unit {
	var us []unit
	small := []kind{kVotePeer, kVoteOwn, kPropPeer, kPartSmall, kTimeout, kStep, kEndHeight}
	four := []kind{kVotePeer, kPartSmall, kTimeout, kEndHeight}
	zeroEnd := []kind{kEndHeightZ, kStepZ, kPartZ, kEndHeight, kVotePeer}
	zeroMarkers := []kind{kEndHeightZ, kEndHeight, kTimeout}
	five := []kind{kVotePeer, kPartSmall, kTimeout, kStep, kEndHeight}
	if *partFlag == "all" || *partFlag == "histories" {
		if r.Quick() {
			us = append(us, historyUnits("oversize", 3, 12e-3)...)
			us = append(us, historyUnits("full", 4, 2e-3)...)
			us = append(us, historyUnits("core", 5, 2e-3)...)
			// start states: the rolled-file index is about to cross a power of ten (file names are <head>.%03d)
			for _, st := range []int{9, 99, 999, 9999} {
				us = append(us, historyUnitsFrom("core", 4, 2.5e-3, st)...)
			}
		} else {
			us = append(us, historyUnits("oversize", 4, 12e-3)...)
			us = append(us, historyUnits("full", 5, 2e-3)...)
			us = append(us, historyUnits("core", 7, 2e-3)...)
			for _, st := range []int{9, 99, 999, 9999, 99999} {
				us = append(us, historyUnitsFrom("core", 5, 2.5e-3, st)...)
			}
			us = append(us, historyUnitsFrom("full", 4, 2.5e-3, 999)...)
		}
	}
	if *partFlag == "all" || *partFlag == "live" {
		// part 3: readers that are open while the log is written and rotates
		lu := func(alpha string, depth int) {
			for _, u := range historyUnits0(alpha, depth, 0.35e-3) {
				u.Phase = 3
				u.Group = fmt.Sprintf("live-readers/%s/depth<=%d", alpha, depth)
				us = append(us, u)
			}
		}
		if r.Quick() {
			lu("live1", 6)
		} else {
			lu("live1", 7)
			lu("live2", 7)
		}
	}
	if *partFlag == "all" || *partFlag == "replay" {
		us = append(us, replayUnits(r.Quick())...)
	}
	if *partFlag == "all" || *partFlag == "damage" {
		us = append(us, imageUnits("damage/all-kinds/1-record", small, 1)...)
		us = append(us, imageUnits("damage/all-kinds/2-records", small, 2)...)
		// records whose encoding ends in 0x00 bytes (markers of heights 256, 65536, 1<<24; strings ending in NUL):
		// a cut that drops only such bytes must still be a torn record
		us = append(us, imageUnits("damage/trailing-zero-kinds/1-record", zeroEnd, 1)...)
		us = append(us, imageUnits("damage/trailing-zero-kinds/2-records", zeroEnd, 2)...)
		us = append(us, imageUnits("damage/trailing-zero-markers/3-records", zeroMarkers, 3)...)
		if !r.Quick() {
			us = append(us, imageUnits("damage/trailing-zero-kinds/3-records", zeroEnd, 3)...)
		}
		// images with buffer overflow: unsynced 32 KiB parts fill the 40 KiB head buffer, bufio flushes a record
		// in two pieces, and a tick falls in between
		g := "damage/scripted-large"
		us = append(us, scripted(g, 66000, wr(kPart32k), wr(kPart32k), tickCode, sy(kEndHeight))...)
		us = append(us, scripted(g, 46000, sy(kEndHeight), wr(kVotePeer), wr(kPart45k), tickCode, sy(kVoteOwn))...)
		if !r.Quick() {
			us = append(us, scripted(g, 33000, sy(kEndHeight), sy(kPart32k), tickCode, sy(kVoteOwn))...)
			us = append(us, scripted(g, 99000, wr(kPart32k), sy(kEndHeight), tickCode, wr(kPart32k), wr(kPart32k), tickCode, sy(kEndHeight))...)
			us = append(us, scripted(g, 46000, wr(kPart45k), sy(kEndHeight), tickCode, wr(kTimeout))...)
			us = append(us, scripted(g, 66000, sy(kEndHeight), tickCode, wr(kPart32k), wr(kStep), wr(kPart32k), tickCode, sy(kEndHeight), tickCode)...)
		}
		if r.Quick() {
			us = append(us, imageUnits("damage/4-kinds/3-records", four, 3)...)
		} else {
			us = append(us, imageUnits("damage/all-kinds/3-records", small, 3)...)
			us = append(us, imageUnits("damage/5-kinds/4-records", five, 4)...)
		}
	}
	for i := range us {
		us[i].ID = i
	}
	return us
}

// ---- worker processes ----

type agg struct {
	mu       sync.Mutex
	stats    map[string]map[string]int // group -> stats
	viols    map[string]*violRec
	states   map[string]map[uint64]struct{}
	done     map[int]bool
	deaths   []string
	harnErr  string
	procs    int
	cpuProcS float64
}

func runBatch(ctx context.Context, self string, batch []unit, a *agg, byID map[int]unit) {
	in, _ := json.Marshal(map[string]interface{}{"units": batch})
	cmd := exec.CommandContext(ctx, self, "--worker")
	cmd.Env = append(os.Environ(), "GOMAXPROCS=2", "GOGC=200")
	cmd.Stdin = bytes.NewReader(in)
	var stderr bytes.Buffer
	cmd.Stderr = &stderr
	out, err := cmd.StdoutPipe()
	if err != nil {
		vk.Fatalf("pipe: %v", err)
	}
	t0 := time.Now()
	if err := cmd.Start(); err != nil {
		vk.Fatalf("start worker: %v", err)
	}
	pid := cmd.Process.Pid
	rd := bufio.NewReaderSize(out, 1<<20)
	current := -1
	for {
		line, err := rd.ReadBytes('\n')
		if len(line) > 2 {
			switch line[0] {
			case 'S':
				current, _ = strconv.Atoi(strings.TrimSpace(string(line[2:])))
			case 'V':
				var v violRec
				if json.Unmarshal(line[2:], &v) == nil {
					a.mu.Lock()
					mergeViol(a.viols, &v)
					a.mu.Unlock()
				}
			case 'R':
				var res unitResult
				if e := json.Unmarshal(line[2:], &res); e != nil {
					a.mu.Lock()
					a.harnErr = "bad worker result: " + e.Error()
					a.mu.Unlock()
					break
				}
				u := byID[res.ID]
				a.mu.Lock()
				if a.stats[u.Group] == nil {
					a.stats[u.Group] = map[string]int{}
					a.states[u.Group] = map[uint64]struct{}{}
				}
				for k, n := range res.Stats {
					a.stats[u.Group][k] += n
				}
				for _, v := range res.Viols {
					mergeViol(a.viols, v)
				}
				if raw, e := base64.StdEncoding.DecodeString(res.States); e == nil {
					for i := 0; i+8 <= len(raw); i += 8 {
						a.states[u.Group][binary.BigEndian.Uint64(raw[i:])] = struct{}{}
					}
				}
				a.done[res.ID] = true
				a.mu.Unlock()
				current = -1
			}
		}
		if err != nil {
			break
		}
	}
	werr := cmd.Wait()
	// scratch directories of a worker that died
	if m, _ := filepath.Glob(fmt.Sprintf("%s/C14-%d-*", scratchTop, pid)); len(m) > 0 {
		for _, d := range m {
			os.RemoveAll(d)
		}
	}
	a.mu.Lock()
	defer a.mu.Unlock()
	a.procs++
	a.cpuProcS += time.Since(t0).Seconds()
	if werr == nil {
		return
	}
	if ctx.Err() != nil {
		return // cancelled by the parent (deadline)
	}
	se := stderr.String()
	if len(se) > 1500 {
		se = se[:1500] + "..."
	}
	code := -1
	if ee, ok := werr.(*exec.ExitError); ok {
		code = ee.ExitCode()
	}
	switch {
	case code == 3:
		// watchdog: the violation line was already merged
	case strings.Contains(se, "HARNESS-ERROR"):
		a.harnErr = se
	case (strings.Contains(se, "out of memory") || strings.Contains(se, "cannot allocate memory")) && !hugeAlloc(se):
		// the worker ran out of memory on an ordinary allocation: a harness problem, not a verdict
		a.harnErr = "worker out of memory: " + firstLines(se, 3)
	case strings.Contains(se, "out of memory") || strings.Contains(se, "cannot allocate memory"):
		u := byID[current]
		a.deaths = append(a.deaths, "out of memory")
		mergeViol(a.viols, &violRec{Key: "process-death:out-of-memory-while-reading-log", What: "the worker process died with a Go runtime out-of-memory error (address-space limit 3.5 GiB) while reading back a log: " + firstLines(se, 3),
			Replay: map[string]interface{}{"unit": u}, Size: 1 << 60, Count: 1})
	case strings.Contains(se, "fatal error:") || strings.Contains(se, "panic:"):
		u := byID[current]
		a.deaths = append(a.deaths, firstLines(se, 1))
		mergeViol(a.viols, &violRec{Key: "process-death:" + firstLines(se, 1), What: "the worker process died: " + firstLines(se, 6),
			Replay: map[string]interface{}{"unit": u}, Size: 1 << 60, Count: 1})
	default:
		a.harnErr = fmt.Sprintf("worker exited with %v: %s", werr, se)
	}
}

var allocRe = regexp.MustCompile(`cannot allocate (\d+)-byte block`)

// hugeAlloc: the runtime died on a single allocation far beyond anything the harness itself allocates, i.e. the
// code under test sized a buffer from damaged input.
func hugeAlloc(stderr string) bool {
	m := allocRe.FindStringSubmatch(stderr)
	if m == nil {
		return false
	}
	n, _ := strconv.ParseInt(m[1], 10, 64)
	return n > 64<<20
}

func firstLines(s string, n int) string {
	ls := strings.Split(strings.TrimSpace(s), "\n")
	if len(ls) > n {
		ls = ls[:n]
	}
	return strings.Join(ls, " / ")
}

func mergeViol(m map[string]*violRec, v *violRec) {
	cur, ok := m[v.Key]
	if !ok {
		c := *v
		m[v.Key] = &c
		return
	}
	cur.Count += v.Count
	if v.Size < cur.Size {
		cur.What, cur.Replay, cur.Size = v.What, v.Replay, v.Size
	}
}

func main() {
	log.Root().SetHandler(log.DiscardHandler())
	r := vk.Start("C14", "fault_enumeration")
	if *workerFlag {
		workerMain()
		return
	}
	self, err := os.Executable()
	if err != nil {
		vk.Fatalf("executable: %v", err)
	}
	var units []unit
	if r.ReplayPath != "" {
		var rp struct {
			Phase   int    `json:"phase"`
			Alpha   string `json:"alpha"`
			OpIDs   []int  `json:"op_ids"`
			Start   int    `json:"start"`
			Replay  bool   `json:"replay"`
			OpCodes []int  `json:"op_codes"`
			Unit    *unit  `json:"unit"`
		}
		r.LoadReplay(&rp)
		switch {
		case rp.Unit != nil:
			units = []unit{*rp.Unit}
		case rp.Phase == 3:
			units = []unit{{Phase: 3, Group: "replay", Alpha: rp.Alpha, Prefix: rp.OpIDs, Exact: true}}
		case rp.Phase == 1:
			units = []unit{{Phase: 1, Group: "replay", Alpha: rp.Alpha, Prefix: rp.OpIDs, Exact: true, Start: rp.Start}}
		default:
			units = []unit{{Phase: 2, Group: "replay", Ops: rp.OpCodes, Replay: rp.Replay}}
		}
		for i := range units {
			units[i].ID = i
		}
	} else {
		units = buildUnits(r)
	}
	byID := map[int]unit{}
	for _, u := range units {
		byID[u.ID] = u
	}
	// batches in unit order (simplest first), each a few seconds of work
	// (short-lived workers: every opened group leaves a goroutine and some memory behind)
	target := 4.0
	var batches [][]unit
	var cur []unit
	cc := 0.0
	for _, u := range units {
		if len(cur) > 0 && (cc+u.Cost > target || cur[0].Group != u.Group) {
			batches = append(batches, cur)
			cur, cc = nil, 0
		}
		cur = append(cur, u)
		cc += u.Cost
	}
	if len(cur) > 0 {
		batches = append(batches, cur)
	}
	workers := runtime.NumCPU()
	if w, err := strconv.Atoi(os.Getenv("VERIF_WORKERS")); err == nil && w > 0 {
		workers = w
	}
	a := &agg{stats: map[string]map[string]int{}, viols: map[string]*violRec{}, states: map[string]map[uint64]struct{}{}, done: map[int]bool{}}
	ctx, cancel := context.WithCancel(context.Background())
	defer cancel()
	next := make(chan []unit)
	var wg sync.WaitGroup
	for i := 0; i < workers; i++ {
		wg.Add(1)
		go func() {
			defer wg.Done()
			for b := range next {
				runBatch(ctx, self, b, a, byID)
			}
		}()
	}
	stopProgress := make(chan struct{})
	go func() {
		t := time.NewTicker(60 * time.Second)
		defer t.Stop()
		for {
			select {
			case <-stopProgress:
				return
			case <-t.C:
				a.mu.Lock()
				fmt.Fprintf(os.Stderr, "C14: %d of %d units done, %d violation keys so far\n", len(a.done), len(units), len(a.viols))
				a.mu.Unlock()
			}
		}
	}()
	skipped := 0
	for _, b := range batches {
		a.mu.Lock()
		he := a.harnErr
		nd := len(a.deaths)
		a.mu.Unlock()
		if r.Expired() || he != "" || nd > 0 {
			skipped++
			continue
		}
		next <- b
	}
	close(next)
	wg.Wait()
	close(stopProgress)
	if a.harnErr != "" {
		vk.Fatalf("%s", a.harnErr)
	}

	// ---- merge, deterministically ----
	groups := []string{}
	for g := range a.stats {
		groups = append(groups, g)
	}
	sort.Strings(groups)
	total := map[string]int{}
	states := 0
	var per []interface{}
	groupUnits := map[string][2]int{}
	for _, u := range units {
		x := groupUnits[u.Group]
		x[0]++
		if a.done[u.ID] {
			x[1]++
		}
		groupUnits[u.Group] = x
	}
	outcomes := map[string]int{}
	for _, g := range groups {
		row := map[string]interface{}{"group": g, "units": groupUnits[g][0], "units_completed": groupUnits[g][1], "distinct_states_or_images": len(a.states[g])}
		for k, n := range a.stats[g] {
			total[k] += n
			if strings.HasPrefix(k, "read/") || strings.HasPrefix(k, "search/") || strings.HasPrefix(k, "live/") || strings.HasPrefix(k, "replay/") {
				outcomes[k] += n
				continue
			}
			row[k] = n
		}
		states += len(a.states[g])
		per = append(per, row)
	}
	incomplete := []string{}
	allGroups := map[string]bool{}
	for _, u := range units {
		allGroups[u.Group] = true
	}
	for g := range allGroups {
		if x := groupUnits[g]; x[1] < x[0] {
			incomplete = append(incomplete, fmt.Sprintf("%s (%d of %d units)", g, x[1], x[0]))
		}
	}
	sort.Strings(incomplete)
	if len(incomplete) > 0 {
		complete := []string{}
		for g := range allGroups {
			if x := groupUnits[g]; x[1] == x[0] {
				complete = append(complete, g)
			}
		}
		sort.Strings(complete)
		why := "deadline"
		if len(a.deaths) > 0 {
			why = "stopped after a worker process died (reported as a violation)"
		}
		r.Capped(fmt.Sprintf("%s: incomplete %v; fully covered %v", why, incomplete, complete))
	}
	keys := []string{}
	for k := range a.viols {
		keys = append(keys, k)
	}
	sort.Strings(keys)
	for _, k := range keys {
		v := a.viols[k]
		n := v.Count
		if n < 1 {
			n = 1 // announced by a worker that died before it could report counts
		}
		for i := 0; i < n; i++ {
			r.Violation(v.Key, v.What, v.Replay)
		}
	}
	transitions := total["write_events"]
	evaluations := total["evaluations"] + total["images_clean"] + total["images_crash"]
	r.Set("groups", per)
	r.Set("outcomes", outcomes)
	r.Set("states", states)
	r.Set("transitions", transitions)
	r.Set("traces_validated_against_impl", total["histories"]+total["images"]+total["live_histories"])
	r.Set("histories", total["histories"])
	r.Set("catchup_replays", total["replays"])
	r.Set("live_reader_histories", total["live_histories"])
	r.Set("live_reader_reads", total["live_reads"])
	r.Set("damage_images", total["images"])
	r.Set("damage_image_bytes", total["image_bytes"])
	r.Set("truncations", total["truncations"])
	r.Set("alterations", total["alterations"])
	r.Set("marker_searches", total["searches"])
	r.Set("decode_calls", total["decode_calls"])
	r.Set("evaluations", evaluations)
	r.Set("distinct_nontrivial", len(outcomes))
	r.Set("worker_processes", a.procs)
	r.Set("worker_process_wall_s_total", int(a.cpuProcS))
	r.Set("rule", "states = distinct canonical on-disk/buffer states reached by write histories + distinct damage images; transitions = write/tick/restart events executed on the real baseWAL; evaluations = images (clean, crash, undamaged, each truncation, each alteration) read back through the real GroupReader/WALDecoder/SearchForEndHeight and compared with the reference record list; distinct_nontrivial = distinct (reader, damage class, outcome) combinations observed")
	r.Assume("the head size limit is 1 byte, so a tick rotates whenever the head file is non-empty; larger thresholds only remove rotations, and tick-free histories are enumerated too; the total-size limit (1 GiB) never triggers")
	r.Assume("ticks are explicit events (what Group.processTicks runs per tick); the 1 s AutoFile ticker that closes and reopens the head file descriptor is not modelled (O_APPEND reopen, no effect on content)")
	r.Assume("start states other than the empty directory: two rolled files just below a power of ten (names <head>.%03d) and an empty head, as rotation plus pruning by the total-size limit leave them; the files are written through the real WAL and renamed, the thousand rotations in between are not executed")
	r.Assume("part 3 (readers open while the log is written and rotated): one goroutine executes writes, ticks and reads in every order (the group's mutex serialises them in the node too); records are small, so the head buffer never flushes a record in two pieces; at most 2 readers, 6 writes, 2 ticks")
	r.Assume("end-of-height markers are written with ascending heights, as the node writes them; EndHeight(0) is written by OnStart whenever the head file is empty")
	r.Assume("part 2 passes fixed timestamps to the real encoder through a hook (baseWAL.Write stamps time.Now(), whose encoding length varies); part 1 uses the real Write/WriteSync")
	r.Assume("a crash loses exactly the head buffer (files keep every byte handed to the OS); torn sectors and lost renames are outside the bound")
	r.Assume("record payloads do not embed byte images of other valid records")
	r.Assume("message identity is decided on the canonical ser encoding of the decoded TimedWALMessage")
	r.Finish()
}
