package main

import (
	"fmt"
	"math/big"

	"verif/minichain"

	"github.com/lianxiangcloud/linkchain/libs/common"
)

func main() {
	for _, trie := range []bool{false, true} {
		c, err := minichain.New(minichain.Options{IsTrie: trie, Alloc: []minichain.Alloc{{Addr: common.HexToAddress("0x1"), Balance: big.NewInt(1e18)}}})
		if err != nil {
			panic(err)
		}
		for i := 0; i < 3; i++ {
			b, err := c.Step(nil)
			if err != nil {
				panic(err)
			}
			fmt.Println(trie, b.Height, b.Hash().Hex(), c.StateHash().Hex(), c.StateRoot().Hex())
		}
		fmt.Println(len(c.AllAccounts()), len(c.Unattributed()), c.Supply())
		c.Close()
	}
	fmt.Println(minichain.RecipeFingerprintOK())
}
