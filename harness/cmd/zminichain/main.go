// zminichain: runnable demonstration of the shared fixtures verif/minichain and verif/txkit (NOT a property check).
//
//	/verif/check zminichain            both storage modes: 3 blocks with every supported transaction kind, replica
//	                                   equality, mempool round trip, restart, crash-state restart
//	/verif/check zminichain -writes    additionally prints the write units of one Commit (kv.Recorder)
//	/verif/check zminichain -bench     additionally prints measured costs
//
// Exit 0 when everything behaved as documented in harness/minichain/README.md, 2 otherwise.
package main

import (
	"bytes"
	"flag"
	"fmt"
	"math/big"
	"os"
	"sort"
	"strings"
	"time"

	"verif/kv"
	"verif/minichain"
	"verif/txkit"

	cfg "github.com/lianxiangcloud/linkchain/config"
	"github.com/lianxiangcloud/linkchain/libs/common"
	dbm "github.com/lianxiangcloud/linkchain/libs/db"
	"github.com/lianxiangcloud/linkchain/libs/log"
	"github.com/lianxiangcloud/linkchain/types"
)

var (
	flagWrites = flag.Bool("writes", false, "print the write units of one Commit")
	flagBench  = flag.Bool("bench", false, "print measured costs")
	failed     = false
)

func fail(f string, a ...interface{}) {
	failed = true
	fmt.Printf("  FAIL: "+f+"\n", a...)
}

func check(ok bool, f string, a ...interface{}) {
	if !ok {
		fail(f, a...)
	}
}

func must(err error) {
	if err != nil {
		fmt.Println("HARNESS-ERROR:", err)
		os.Exit(2)
	}
}

func short(h common.Hash) string { return h.Hex()[:12] }

func mode(trie bool) string {
	if trie {
		return "trie"
	}
	return "flat"
}

// same compares everything two replicas must agree on after a block.
func same(c, r *minichain.Chain, what string) {
	check(c.Height() == r.Height(), "%s: heights %d / %d", what, c.Height(), r.Height())
	check(c.StateHash() == r.StateHash(), "%s: state hash %s / %s", what, short(c.StateHash()), short(r.StateHash()))
	check(c.ReceiptHash() == r.ReceiptHash(), "%s: receipt hash differs", what)
	check(c.StateRoot() == r.StateRoot(), "%s: state root differs", what)
	check(c.LoadBlock(c.Height()).Hash() == r.LoadBlock(r.Height()).Hash(), "%s: block hash differs", what)
	check(c.Status().Equals(r.Status()), "%s: consensus status differs", what)
	a, b := c.AllAccounts(), r.AllAccounts()
	check(len(a) == len(b), "%s: %d / %d accounts", what, len(a), len(b))
	for addr, x := range a {
		y, ok := b[addr]
		if !ok || x.Balance.Cmp(y.Balance) != 0 || x.Nonce != y.Nonce || len(x.Tokens) != len(y.Tokens) || len(x.Storage) != len(y.Storage) {
			fail("%s: account %s differs", what, addr.Hex())
		}
	}
	check(c.MaxUtxoOutputSeq() == r.MaxUtxoOutputSeq(), "%s: utxo sequence differs", what)
}

// world is one storage mode's run; the summary lines of the two modes must be identical.
type world struct {
	trie    bool
	c       *minichain.Chain
	kit     *txkit.Kit
	led     *txkit.Ledger
	summary []string
}

func (w *world) note(f string, a ...interface{}) {
	s := fmt.Sprintf(f, a...)
	w.summary = append(w.summary, s)
	fmt.Println("  " + s)
}

func (w *world) step(txs types.Txs, what string) *types.Block {
	b, err := w.c.Step(txs)
	if err != nil {
		fail("%s: Step: %v", what, err)
		must(err)
	}
	same(w.c, w.c.Attached(), what)
	w.led.Sync(w.c)
	rs := w.c.Receipts(b.Height)
	okN := 0
	for _, r := range rs {
		if r.Status == types.ReceiptStatusSuccessful {
			okN++
		}
	}
	w.note("block %d %s: %d txs, %d successful receipts, gas %d, state %s, receipts %s, hidden %s", b.Height, what, len(b.Data.Txs), okN,
		w.c.LastTxsResult().GasUsed, short(w.c.StateHash()), short(w.c.ReceiptHash()), w.led.Unspent(common.EmptyAddress))
	return b
}

func run(trie bool) *world {
	fmt.Printf("== storage mode %s ==\n", mode(trie))
	A, B, C, D := txkit.A, txkit.B, txkit.C, txkit.D
	tokenUnits := txkit.LKC(1000)
	opts := minichain.Options{IsTrie: trie, Alloc: txkit.AllocWithToken(nil, txkit.GenesisToken, tokenUnits)}
	var rec *kv.Recorder
	if *flagWrites {
		rec = kv.NewRecorder()
		opts.NewDB = func(name string) dbm.DB { return rec.DB(name) }
	}
	c, err := minichain.New(opts)
	must(err)
	ropts := opts
	ropts.NewDB = nil
	r, err := minichain.New(ropts)
	must(err)
	c.Attach(r)
	w := &world{trie: trie, c: c, kit: txkit.NewKit(7), led: txkit.NewLedger()}
	initial := c.Supply()[common.EmptyAddress]
	w.note("genesis: state %s, supply %s, %d accounts", short(c.StateHash()), initial, len(c.AllAccounts()))

	// ---- block 1: account-side kinds + account -> confidential + multi-signature account --------------------
	storeInit, revertInit, sdInit, logInit := txkit.StoreContract(), txkit.RevertContract(), txkit.SelfDestructContract(), txkit.LogContract()
	issuerInit := txkit.TokenIssuerContract(txkit.LKC(500))
	storeAddr, revertAddr := txkit.ContractAddress(A.Addr, 2, storeInit), txkit.ContractAddress(A.Addr, 3, revertInit)
	sdAddr, logAddr := txkit.ContractAddress(A.Addr, 4, sdInit), txkit.ContractAddress(A.Addr, 5, logInit)
	issuerAddr := txkit.ContractAddress(A.Addr, 6, issuerInit)
	ain, err := w.kit.AccountToUTXO(B, 0, []txkit.Dest{txkit.ToWallet(txkit.W0, 0, txkit.LKC(300)), txkit.ToWallet(txkit.W0, 1, txkit.LKC(200)), txkit.ToWallet(txkit.W1, 0, txkit.LKC(100))}, nil)
	must(err)
	var signers []txkit.ValidatorSigner
	for _, k := range c.Fixture().Keys[:3] { // 3 of 4 equal validators: > 2/3
		signers = append(signers, txkit.SignerOf(k))
	}
	mst := txkit.MultiSign(0, types.TxContractCreateType, 20, []*types.SignerEntry{{Power: 10, Addr: A.Addr}, {Power: 10, Addr: B.Addr}}, signers)
	b1 := types.Txs{
		txkit.Transfer(A, 0, B.Addr, txkit.LKC(10)),
		txkit.TokenTransfer(A, 1, txkit.GenesisToken, C.Addr, big.NewInt(12345)),
		txkit.Create(A, 2, storeInit, nil),
		txkit.Create(A, 3, revertInit, nil),
		txkit.Create(A, 4, sdInit, txkit.LKC(5)),
		txkit.Create(A, 5, logInit, nil),
		txkit.Create(A, 6, issuerInit, nil),
		ain,
		mst,
	}
	w.step(b1, "account kinds, A->U, multisign")
	check(bytes.Equal(c.Code(storeAddr), txkit.StoreRuntime) && bytes.Equal(c.Code(issuerAddr), txkit.TokenIssuerRuntime), "contracts not deployed")
	check(c.Balance(sdAddr).Cmp(txkit.LKC(5)) == 0, "self-destruct contract endowment %s", c.Balance(sdAddr))
	check(c.TokenBalance(A.Addr, issuerAddr).Cmp(txkit.LKC(500)) == 0, "issued at creation: %s", c.TokenBalance(A.Addr, issuerAddr))
	check(c.TokenBalance(C.Addr, txkit.GenesisToken).Cmp(new(big.Int).Add(tokenUnits, big.NewInt(12345))) == 0, "token transfer")
	check(c.Nonce(types.MultiSignNonceAddr) == 1, "multisign nonce %d", c.Nonce(types.MultiSignNonceAddr))
	check(c.TxService().GetMultiSignersInfo(types.TxContractCreateType) != nil, "signer table not installed")
	check(len(w.led.Spendable(txkit.W0)) == 2 && len(w.led.Spendable(txkit.W1)) == 1, "ledger scan: %d/%d", len(w.led.Spendable(txkit.W0)), len(w.led.Spendable(txkit.W1)))
	check(c.MaxUtxoOutputSeq() == 2, "utxo sequence %d", c.MaxUtxoOutputSeq())

	// ---- block 2: calls, issue, confidential spend (ring 1), upgrade ---------------------------------------------
	c.Track(D.Addr) // the self-destruct beneficiary is only visible to contract code
	spend1, err := w.kit.Transfer(w.led, txkit.W0, w.led.Spendable(txkit.W0)[:1], 1, []txkit.Dest{txkit.ToWallet(txkit.W2, 0, txkit.LKC(50))}, 2)
	must(err)
	ain2, err := w.kit.AccountToUTXO(C, 0, []txkit.Dest{txkit.ToWallet(txkit.W1, 1, txkit.LKC(70)), txkit.ToWallet(txkit.W2, 2, txkit.LKC(30))}, nil)
	must(err)
	cut := txkit.Upgrade(A, 13, cfg.ContractFoundationAddr, append(append([]byte{}, txkit.WasmMagic...), 1, 0, 0, 0), A, B)
	balA := c.Balance(A.Addr)
	b2 := types.Txs{
		txkit.Call(A, 7, storeAddr, nil, txkit.Word(big.NewInt(42))),
		txkit.Call(A, 8, revertAddr, txkit.LKC(1), nil),
		txkit.Call(A, 9, sdAddr, nil, txkit.AddrWord(D.Addr)),
		txkit.Call(A, 10, logAddr, nil, txkit.Word(big.NewInt(0xbeef))),
		txkit.Call(A, 11, issuerAddr, nil, txkit.Word(txkit.LKC(250))),
		txkit.TokenTransfer(A, 12, issuerAddr, B.Addr, txkit.LKC(100)),
		cut,
		spend1,
		ain2,
	}
	blk2 := w.step(b2, "calls, revert, selfdestruct, log, issue, upgrade, U->U ring 1")
	acc := c.AllAccounts()
	check(len(acc[storeAddr].Storage) == 1, "store contract storage: %d slots", len(acc[storeAddr].Storage))
	check(c.Balance(revertAddr).Sign() == 0, "reverting call kept value")
	check(c.Balance(D.Addr).Cmp(txkit.LKC(5)) == 0, "self-destruct beneficiary has %s", c.Balance(D.Addr))
	_, sdThere := acc[sdAddr]
	check(!sdThere, "self-destructed contract still in the state")
	check(c.TokenBalance(A.Addr, issuerAddr).Cmp(txkit.LKC(650)) == 0, "issuer: A holds %s", c.TokenBalance(A.Addr, issuerAddr))
	check(c.TokenBalance(B.Addr, issuerAddr).Cmp(txkit.LKC(100)) == 0, "issuer: B holds %s", c.TokenBalance(B.Addr, issuerAddr))
	check(c.Nonce(A.Addr) == 14, "nonce of A %d", c.Nonce(A.Addr))
	rs := c.Receipts(2)
	check(len(rs) == len(b2) && rs[1].Status == types.ReceiptStatusFailed && rs[6].Status == types.ReceiptStatusFailed && rs[0].Status == types.ReceiptStatusSuccessful,
		"receipt statuses of block 2")
	check(len(rs[3].Logs) == 1 && blk2.Header.Bloom() != (types.Bloom{}), "log/bloom")
	check(c.KeyImageSpent(w.led.Owned[0].KeyImage), "key image of the spent output not recorded")
	_ = balA

	// ---- block 3: through the mempool: MLSAG spend, U->A, plus the "bad" variants that must not get in --------------
	mp := c.Mempool()
	spend3, err := w.kit.Transfer(w.led, txkit.W0, w.led.Spendable(txkit.W0)[:1], 3, []txkit.Dest{txkit.ToWallet(txkit.W1, 2, txkit.LKC(20))}, 0)
	must(err)
	uout, amt, err := w.kit.ToAccountAll(w.led, txkit.W1, w.led.Spendable(txkit.W1)[:1], 1, C.Addr)
	must(err)
	good := []types.Tx{
		txkit.Transfer(B, 1, C.Addr, txkit.LKC(3)),
		txkit.Transfer(B, 2, A.Addr, txkit.LKC(4)),
		spend3, uout,
	}
	dbl, err := w.kit.Transfer(w.led, txkit.W0, w.led.Owned[1:2], 1, []txkit.Dest{txkit.ToWallet(txkit.W2, 0, txkit.LKC(1))}, 0) // same output as spend3
	must(err)
	twice, err := w.kit.SameKeyImageTwice(w.led, txkit.W2, w.led.Spendable(txkit.W2)[0])
	must(err)
	type badCase struct {
		name string
		tx   types.Tx
		want error // nil: any error
	}
	bad := []badCase{
		{"duplicate (same tx again)", good[0], types.ErrTxDuplicate},
		{"stale nonce", txkit.StaleNonce(B, 1, C.Addr, txkit.LKC(1)), types.ErrNonceTooLow},
		{"underfunded", txkit.Underfunded(C, 1, A.Addr, c.Balance(C.Addr)), types.ErrInsufficientFunds},
		{"oversized", txkit.Oversized(C, 1, A.Addr), types.ErrOversizedData},
		{"double spend of a pooled output", dbl, types.ErrUtxoTxDoubleSpend},
		{"same key image twice", twice, types.ErrCheckDupKeyImage},
	}
	for _, t := range txkit.Tampers(spend3, nil) {
		if t.Name != "ecdh-amount" {
			bad = append(bad, badCase{"tampered " + t.Name, t.Tx, nil})
		}
	}
	for _, t := range txkit.Tampers(ain2, C) {
		if t.Name != "ecdh-amount" {
			bad = append(bad, badCase{"tampered A->U " + t.Name, t.Tx, nil})
		}
	}
	for _, t := range good {
		check(mp.AddTx("", txkit.WireCopy(t)) == nil, "mempool refused a good transaction")
	}
	future := txkit.FutureNonce(B, 3, 1, C.Addr, txkit.LKC(1)) // B's pending nonce is 3: nonce 4 is queued, not reaped
	check(mp.AddTx("", future) == nil, "future nonce not queued")
	rejected := 0
	for _, bc := range bad {
		err := mp.AddTx("", bc.tx)
		if err == nil {
			fail("mempool accepted: %s", bc.name)
		} else if bc.want != nil && err != bc.want {
			fail("mempool: %s: got %v, want %v", bc.name, err, bc.want)
		} else {
			rejected++
		}
	}
	dup := txkit.DuplicateNonce(B, 1, C.Addr, txkit.LKC(3)) // conflicting twin of good[0]: nonce already used in the pool's view
	check(mp.AddTx("", dup) == types.ErrNonceTooLow, "conflicting twin accepted")
	view := mempoolSizes(c)
	w.note("mempool: %s; %d hostile transactions refused", view, rejected+1)
	b3, err := c.StepFromMempool(0)
	must(err)
	same(c, r, "block 3")
	w.led.Sync(c)
	check(len(b3.Data.Txs) == len(good), "block 3 has %d txs", len(b3.Data.Txs))
	check(c.Balance(C.Addr).Sign() > 0 && amt.Sign() > 0, "U->A")
	w.note("block 3 from the mempool: %d txs (MLSAG ring 3, U->A %s), state %s, hidden %s, pool after: %s", len(b3.Data.Txs), amt, short(c.StateHash()),
		w.led.Unspent(common.EmptyAddress), mempoolSizes(c))

	// a block that CheckBlock must refuse: committed key image again / tampered confidential tx, built by a dishonest proposer
	for _, t := range []struct {
		name string
		tx   types.Tx
	}{{"respend of a committed output", dbl}, {"tampered commitment", txkit.Tampers(spend3, nil)[0].Tx}} {
		blk, _, err := c.Propose(types.Txs{t.tx}, false, 0, minichain.BlockOpts{SkipPreRun: true})
		must(err)
		check(!r.CheckBlock(minichain.CloneBlock(blk)), "replica accepted a block with: %s", t.name)
	}

	// ---- conservation (what C06 will do properly) -------------------------------------------------------------------------
	sup := c.Supply()
	total := new(big.Int).Add(sup[common.EmptyAddress], w.led.Unspent(common.EmptyAddress))
	check(total.Cmp(initial) == 0, "coin supply: accounts %s + hidden %s != initial %s", sup[common.EmptyAddress], w.led.Unspent(common.EmptyAddress), initial)
	check(sup[issuerAddr] != nil && sup[issuerAddr].Cmp(txkit.LKC(750)) == 0, "issued token supply %v", sup[issuerAddr])
	check(len(c.Unattributed()) == 0, "%d unattributed accounts", len(c.Unattributed()))
	w.note("supply: accounts %s + hidden %s = initial; issued token %s; fee collector %s", sup[common.EmptyAddress], w.led.Unspent(common.EmptyAddress),
		sup[issuerAddr], c.Balance(cfg.ContractFoundationAddr))

	// ---- restart on the same databases --------------------------------------------------------------------------------
	before := [3]common.Hash{c.StateHash(), c.StateRoot(), c.LoadBlock(3).Hash()}
	c2, err := c.Restart()
	must(err)
	w.c, c = c2, c2
	check(c.Height() == 3 && before == [3]common.Hash{c.StateHash(), c.StateRoot(), c.LoadBlock(3).Hash()}, "state after restart")
	check(c.Status().LastBlockHeight == 3 && !c.RebuiltStatus, "status after restart")
	w.step(types.Txs{txkit.Transfer(C, 1, D.Addr, txkit.LKC(1))}, "after restart")

	// ---- a third node catches up through the fast-sync path (blocks as stored, part sets rebuilt from the decoded blocks) ----
	fs, err := minichain.New(ropts)
	must(err)
	for h := uint64(1); h <= c.Height(); h++ {
		next := c.BlockStore().LoadBlockCommit(h) // = LastCommit of block h+1
		if next == nil {
			next = c.BlockStore().LoadSeenCommit(h)
		}
		if err := fs.CommitFastSync(c.LoadBlock(h), next); err != nil {
			fail("fast sync of block %d: %v", h, err)
			break
		}
	}
	fs.Track(c.Universe()...)
	same(c, fs, "fast-synced node")
	fs.Close()

	if rec != nil {
		printWrites(rec, w)
	}
	return w
}

// probes reproduces the repository behaviours listed in README.md under "Observed repo behaviours".
func probes() {
	fmt.Println("== observed repo behaviours ==")
	A, B, C := txkit.A, txkit.B, txkit.C
	// 1. the transfer journal saved for a block is the journal of the block that was EXECUTED last, not of the block committed
	p, err := minichain.New(minichain.Options{Alloc: txkit.Alloc(nil)})
	must(err)
	x, xparts, err := p.MakeBlock(types.Txs{txkit.Transfer(A, 0, B.Addr, txkit.LKC(1))})
	must(err)
	y, _, err := p.MakeBlock(types.Txs{txkit.Transfer(A, 0, C.Addr, txkit.LKC(2))})
	must(err)
	okx, oky := p.CheckBlock(x), p.CheckBlock(y) // a validator prevotes on proposal X (round 0), later on proposal Y (round 1) ...
	must(p.Commit(x, xparts))                    // ... and X is the one that gets +2/3 precommits
	jr := p.BalanceRecords().Get(1)
	if okx && oky && jr != nil && len(jr.TxRecords) == 1 {
		got := jr.TxRecords[0].Hash
		fmt.Printf("  balance_record[1]: block hash %s (committed X=%s), journal of tx %s (X holds %s, Y holds %s): journal belongs to %s\n", short(jr.BlockHash), short(x.Hash()),
			short(got), short(x.Data.Txs[0].Hash()), short(y.Data.Txs[0].Hash()), map[bool]string{true: "X (consistent)", false: "Y (NOT the committed block)"}[got == x.Data.Txs[0].Hash()])
	} else {
		fmt.Println("  balance_record probe did not run as expected")
	}
	// 2. receipts of successful MultiSignAccountTx are the zero Receipt (Status 0 = "failed")
	var signers []txkit.ValidatorSigner
	for _, k := range p.Fixture().Keys[:3] {
		signers = append(signers, txkit.SignerOf(k))
	}
	_, err = p.Step(types.Txs{txkit.MultiSign(0, types.TxContractCreateType, 10, []*types.SignerEntry{{Power: 10, Addr: A.Addr}}, signers)})
	must(err)
	fmt.Printf("  MultiSignAccountTx executed (nonce of the multi-sign account %d), receipt status %d, tx hash in receipt %s\n", p.Nonce(types.MultiSignNonceAddr),
		p.Receipts(2)[0].Status, short(p.Receipts(2)[0].TxHash))
	// 3. StateHash commits to the update set of the block, not to the state: all empty blocks have the same one, in both modes
	b3, err := p.Step(nil)
	must(err)
	b4, err := p.Step(nil)
	must(err)
	fmt.Printf("  StateHash after two empty blocks on different states: %s / %s (= keccak256(\"\") %v)\n", short(p.TxsResultHash(b3.Height)), short(p.TxsResultHash(b4.Height)),
		p.StateHash() == common.HexToHash("0xc5d2460186f7233c927e7db2dcc703c0e500b653ca82273b7bfad8045d85a470"))
	p.Close()
}

func mempoolSizes(c *minichain.Chain) string {
	spec, pending, queued := c.Mempool().Stats()
	return fmt.Sprintf("good+utxo %d, special %d, future %d", pending, spec, queued)
}

func printWrites(rec *kv.Recorder, w *world) {
	c := w.c
	// first a block with confidential transactions (they are the only ones that touch the three utxo databases) ...
	ain, err := w.kit.AccountToUTXO(txkit.A, c.Nonce(txkit.A.Addr), []txkit.Dest{txkit.ToWallet(txkit.W2, 1, txkit.LKC(5))}, nil)
	must(err)
	spend, err := w.kit.Transfer(w.led, txkit.W0, w.led.Spendable(txkit.W0)[:1], 1, []txkit.Dest{txkit.ToWallet(txkit.W2, 0, txkit.LKC(1))}, 0)
	must(err)
	from := rec.Len()
	_, err = c.Step(types.Txs{ain, spend})
	must(err)
	w.led.Sync(c)
	fmt.Printf("  write units of one Commit (block with 1 A->U and 1 U->U, %s mode):\n", mode(w.trie))
	dumpUnits(rec.Log[from:])
	// ... then the block whose crash states are tried below
	from = rec.Len()
	rec.SetTag("demo")
	_, err = c.Step(types.Txs{txkit.Transfer(txkit.A, c.Nonce(txkit.A.Addr), txkit.B.Addr, txkit.LKC(1))})
	must(err)
	fmt.Printf("  write units of one Commit (block with 1 transfer, %s mode):\n", mode(w.trie))
	dumpUnits(rec.Log[from:])
	crashStates(rec, w, from)
}

func dumpUnits(units []kv.Unit) {
	for i, u := range units {
		var keys []string
		size := 0
		for _, op := range u.Ops {
			k := string(op.Key)
			if !printable(k) {
				k = fmt.Sprintf("0x%x", op.Key)
				if len(k) > 14 {
					k = k[:14] + ".."
				}
			}
			if op.Kind == kv.OpDelete {
				k = "-" + k
			}
			keys = append(keys, k)
			size += len(op.Value)
		}
		if len(keys) > 6 {
			keys = append(keys[:6], fmt.Sprintf("... (%d ops)", len(u.Ops)))
		}
		kind := "set  "
		if len(u.Ops) > 1 {
			kind = "batch"
		}
		sync := ""
		if u.Sync {
			sync = " sync"
		}
		fmt.Printf("    %2d %-16s %s%s %5dB  %s\n", i, u.DB, kind, sync, size, strings.Join(keys, " "))
	}
}

// crashStates: every prefix of the last commit is a crash state the node must restart from.
func crashStates(rec *kv.Recorder, w *world, from int) {
	c := w.c
	n := rec.Len()
	okN, rebuilt := 0, 0
	for cut := from; cut <= n; cut++ {
		dir, err := minichain.NewWalDir("")
		must(err)
		must(minichain.PutWal(dir, c.WalBytes())) // NB a real crash harness snapshots the file at the cut, see README
		rc, err := c.RestartOnCopies(rec.Materialize(cut), dir)
		if err == nil {
			okN++
			if rc.RebuiltStatus {
				rebuilt++
			}
			rc.Close()
		}
		os.RemoveAll(dir)
	}
	fmt.Printf("  restart from each of the %d prefixes of that commit: %d started (%d through the rebuild-status path)\n", n-from+1, okN, rebuilt)
}

func printable(s string) bool {
	if s == "" {
		return false
	}
	for _, r := range s {
		if r < 0x20 || r > 0x7e {
			return false
		}
	}
	return true
}

func bench() {
	fmt.Println("== costs ==")
	for _, trie := range []bool{false, true} {
		const n = 200
		t0 := time.Now()
		var cs []*minichain.Chain
		for i := 0; i < n; i++ {
			c, err := minichain.New(minichain.Options{IsTrie: trie, Alloc: txkit.Alloc(nil)})
			must(err)
			cs = append(cs, c)
		}
		perNew := time.Since(t0) / n
		t0 = time.Now()
		for _, c := range cs {
			c.Close()
		}
		perClose := time.Since(t0) / n
		c, err := minichain.New(minichain.Options{IsTrie: trie, Alloc: txkit.Alloc(nil)})
		must(err)
		t0 = time.Now()
		for i := 0; i < n; i++ {
			_, err := c.Step(nil)
			must(err)
		}
		perEmpty := time.Since(t0) / n
		txs := make([]types.Tx, n)
		for i := range txs {
			txs[i] = txkit.Transfer(txkit.A, uint64(i), txkit.B.Addr, txkit.LKC(1))
		}
		t0 = time.Now()
		for i := 0; i < n; i++ {
			_, err := c.Step(types.Txs{txs[i]})
			must(err)
		}
		perTransfer := time.Since(t0) / n
		// confidential: build m A->U, then m U->U spends
		const m = 20
		kit, led := txkit.NewKit(3), txkit.NewLedger()
		t0 = time.Now()
		ains := make([]types.Tx, m)
		for i := range ains {
			tx, err := kit.AccountToUTXO(txkit.B, uint64(i), []txkit.Dest{txkit.ToWallet(txkit.W0, 0, txkit.LKC(100))}, nil)
			must(err)
			ains[i] = tx
		}
		buildAin := time.Since(t0) / m
		t0 = time.Now()
		for i := range ains {
			_, err := c.Step(types.Txs{ains[i]})
			must(err)
		}
		perAin := time.Since(t0) / m
		led.Sync(c)
		var perUin1, perUin3, build1, build3 time.Duration
		for _, ring := range []int{1, 3} {
			var bt, st time.Duration
			for i := 0; i < m/2; i++ {
				t0 = time.Now()
				tx, err := kit.Transfer(led, txkit.W0, led.Spendable(txkit.W0)[:1], ring, []txkit.Dest{txkit.ToWallet(txkit.W1, 0, txkit.LKC(1))}, 1)
				must(err)
				bt += time.Since(t0)
				t0 = time.Now()
				_, err = c.Step(types.Txs{tx})
				must(err)
				st += time.Since(t0)
				led.Sync(c)
			}
			if ring == 1 {
				perUin1, build1 = st/(m/2), bt/(m/2)
			} else {
				perUin3, build3 = st/(m/2), bt/(m/2)
			}
		}
		t0 = time.Now()
		for i := 0; i < 20; i++ {
			c2, err := c.Restart()
			must(err)
			c = c2
		}
		perRestart := time.Since(t0) / 20
		t0 = time.Now()
		rp, err := c.Replica()
		must(err)
		replica := time.Since(t0)
		fmt.Printf("  %s: New %v, Close %v, Step(empty) %v, Step(1 transfer) %v, Step(1 A->U) %v [build %v], Step(1 U->U ring 1) %v [build %v], Step(1 U->U ring 3) %v [build %v], Restart %v, Replica() replaying %d blocks %v\n",
			mode(trie), perNew, perClose, perEmpty, perTransfer, perAin, buildAin, perUin1, build1, perUin3, build3, perRestart, c.Height(), replica)
		rp.Close()
		c.Close()
	}
}

func main() {
	flag.Parse()
	log.Root().SetHandler(log.DiscardHandler())
	if os.Getenv("ZMINI_LOG") != "" {
		log.Root().SetHandler(log.LvlFilterHandler(log.LvlWarn, log.StdoutHandler))
	}
	fmt.Printf("restart recipe fingerprint (node/node.go): ok=%v\n", minichain.RecipeFingerprintOK())
	flat := run(false)
	trie := run(true)
	// the two storage modes must tell the same story (only the trie root differs, and it is not in the summary)
	if strings.Join(flat.summary, "\n") != strings.Join(trie.summary, "\n") {
		fail("flat and trie mode diverge")
		for i := range flat.summary {
			if i < len(trie.summary) && flat.summary[i] != trie.summary[i] {
				fmt.Println("    flat:", flat.summary[i], "\n    trie:", trie.summary[i])
			}
		}
	} else {
		fmt.Println("== flat and trie mode agree on every block hash-relevant value ==")
	}
	fmt.Printf("final: flat height %d state %s root %s | trie height %d state %s root %s\n", flat.c.Height(), short(flat.c.StateHash()), short(flat.c.StateRoot()),
		trie.c.Height(), short(trie.c.StateHash()), short(trie.c.StateRoot()))
	var names []string
	for n := range flat.c.DBs() {
		names = append(names, n)
	}
	sort.Strings(names)
	fmt.Println("databases:", strings.Join(names, " "), "+ file", minichain.WalFileName)
	flat.c.Close()
	trie.c.Close()
	probes()
	if *flagBench {
		bench()
	}
	if failed {
		fmt.Println("zminichain: FAILED")
		os.Exit(2)
	}
	fmt.Println("zminichain: ok")
}
