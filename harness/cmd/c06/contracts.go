package main

// Two tiny contracts the conservation alphabet needs on top of txkit's (raw EVM opcodes, values from
// vm/evm/opcodes.go).

import "verif/txkit"

const (
	opSTOP         = 0x00
	opEQ           = 0x14
	opCALLDATALOAD = 0x35
	opCALLDATASIZE = 0x36
	opJUMPI        = 0x57
	opJUMPDEST     = 0x5b
	opPUSH1        = 0x60
	opREVERT       = 0xfd
	opINVALID      = 0xfe
	opSELFDESTRUCT = 0xff
)

// vaultRuntime: a payable contract that self-destructs on request.
//
//	calldatasize == 32: SELFDESTRUCT(beneficiary = calldata[0:32])   (its own address = "in favour of itself")
//	otherwise        : STOP (the value sent with the call stays in the contract: a deposit)
var vaultRuntime = []byte{
	opCALLDATASIZE, opPUSH1, 32, opEQ, opPUSH1, 8, opJUMPI, // 0..6
	opSTOP,                                                 // 7
	opJUMPDEST, opPUSH1, 0, opCALLDATALOAD, opSELFDESTRUCT, // 8..
}

func vaultInit() []byte { return txkit.Deploy(nil, vaultRuntime) }

// revertingInit: creation code that always REVERTs (a failing creation: the endowment must come back).
func revertingInit() []byte { return []byte{opPUSH1, 0, opPUSH1, 0, opREVERT} }

// invalidInit: creation code that hits INVALID (a failing creation that burns all gas).
func invalidInit() []byte { return []byte{opINVALID} }
