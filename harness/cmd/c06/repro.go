package main

// Stand-alone reproductions of the defects this check found on the unchanged tree (`/verif/check C06 --c06-repro all`).
// They use nothing of the harness (no reference model, no oracle): only minichain + txkit and raw balance sums.

import (
	"fmt"
	"math/big"

	"verif/minichain"
	"verif/txkit"

	"github.com/lianxiangcloud/linkchain/libs/common"
	"github.com/lianxiangcloud/linkchain/types"
)

func must(err error) {
	if err != nil {
		panic(err)
	}
}

func newChain(trie bool) *minichain.Chain {
	c, err := minichain.New(minichain.Options{IsTrie: trie, Alloc: txkit.AllocWithToken(nil, txkit.GenesisToken, txkit.LKC(1000))})
	must(err)
	r, err := c.Replica()
	must(err)
	c.Attach(r) // every Step: the replica's CheckBlock must accept the block before it is committed on both
	return c
}

// 1. A confidential spend with rings of ONE member mints coins: nothing binds the pseudo output to the spent commitment.
func reproRing1() {
	c := newChain(false)
	defer c.Close()
	kit, led := txkit.NewKit(1), txkit.NewLedger()
	initial := c.Supply()[common.EmptyAddress]
	ain, err := kit.AccountToUTXO(txkit.B, 0, []txkit.Dest{txkit.ToWallet(txkit.W0, 0, txkit.LKC(300))}, nil)
	must(err)
	_, err = c.Step(types.Txs{ain})
	must(err)
	led.Sync(c)
	src, err := led.Source(led.Spendable(txkit.W0)[0], 1)
	must(err)
	src.Amount = new(big.Int).Add(src.Amount, txkit.LKC(1000)) // the lie: 1000 coins more than the output holds
	out := new(big.Int).Sub(src.Amount, txkit.FeeUin(txkit.DefaultUTXOGas, true, nil))
	tx, err := kit.SpendSources(txkit.W0, []*types.UTXOSourceEntry{src}, []types.DestEntry{&types.UTXODestEntry{Addr: txkit.W2.Addr(0), Amount: out}})
	must(err)
	fmt.Println("ring1: Mempool.AddTx:", c.Mempool().AddTx("", txkit.WireCopy(tx)))
	_, err = c.Step(types.Txs{txkit.WireCopy(tx)})
	fmt.Println("ring1: replica CheckBlock + commit:", err)
	led.Sync(c)
	fmt.Printf("ring1: accounts %s + hidden %s, initial supply %s\n", c.Supply()[common.EmptyAddress], led.Unspent(common.EmptyAddress), initial)
}

// 2. Tokens held by an address are destroyed when a contract is created at that address (CreateAccount carries over
// the coin balance only).
func reproPrefund() {
	c := newChain(false)
	defer c.Close()
	init := txkit.StoreContract()
	x := txkit.ContractAddress(txkit.A.Addr, 0, init)
	c.Track(x)
	_, err := c.Step(types.Txs{txkit.TokenTransfer(txkit.B, 0, txkit.GenesisToken, x, txkit.LKC(3)), txkit.Transfer(txkit.B, 1, x, txkit.LKC(1))})
	must(err)
	fmt.Printf("prefund: before creation X holds %s coin, %s token; token supply %s\n", c.Balance(x), c.TokenBalance(x, txkit.GenesisToken), c.Supply()[txkit.GenesisToken])
	_, err = c.Step(types.Txs{txkit.Create(txkit.A, 0, init, nil)})
	must(err)
	fmt.Printf("prefund: after  creation X holds %s coin, %s token; token supply %s (code %d bytes, receipt status %d)\n", c.Balance(x), c.TokenBalance(x, txkit.GenesisToken),
		c.Supply()[txkit.GenesisToken], len(c.Code(x)), c.Receipts(2)[0].Status)
}

// 3. Value sent to a contract later in the block in which it self-destructed is destroyed (suicided objects are only
// deleted at the end of the block; until then their code runs and their balance counts).
func reproSuicideCredit() {
	c := newChain(false)
	defer c.Close()
	v := txkit.ContractAddress(txkit.A.Addr, 0, vaultInit())
	c.Track(txkit.D.Addr)
	_, err := c.Step(types.Txs{txkit.Create(txkit.A, 0, vaultInit(), nil)})
	must(err)
	before := c.Supply()[common.EmptyAddress]
	_, err = c.Step(types.Txs{
		txkit.Call(txkit.B, 0, v, nil, txkit.AddrWord(txkit.D.Addr)), // SELFDESTRUCT(beneficiary D)
		txkit.Call(txkit.C, 0, v, txkit.LKC(3), nil),                 // a deposit of 3 coins, same block
	})
	must(err)
	rs := c.Receipts(2)
	fmt.Printf("suicide-credit: receipts %d/%d; coin supply %s -> %s; vault holds %s, code %d bytes, D holds %s\n", rs[0].Status, rs[1].Status, before,
		c.Supply()[common.EmptyAddress], c.Balance(v), len(c.Code(v)), c.Balance(txkit.D.Addr))
}

// 4. A confidential payment to an address that became a contract EARLIER IN THE SAME BLOCK is executed as a contract call
// (CheckTx refuses such payments, but only against the committed state); when the call fails, value and unused fee are
// credited to the transaction's refund address, which is the zero address for a purely confidential transaction.
func reproUinCall() {
	c := newChain(false)
	defer c.Close()
	kit, led := txkit.NewKit(1), txkit.NewLedger()
	ain, err := kit.AccountToUTXO(txkit.B, 0, []txkit.Dest{txkit.ToWallet(txkit.W0, 0, txkit.LKC(300))}, nil)
	must(err)
	_, err = c.Step(types.Txs{ain})
	must(err)
	led.Sync(c)
	x := txkit.ContractAddress(txkit.A.Addr, 0, txkit.RevertContract())
	pay, err := kit.Transfer(led, txkit.W0, led.Spendable(txkit.W0)[:1], 1, []txkit.Dest{txkit.ToAccount(x, txkit.LKC(10))}, 0)
	must(err)
	fmt.Println("uin-call: Mempool.AddTx of the payment (X has no code yet):", c.Mempool().AddTx("", txkit.WireCopy(pay)))
	_, err = c.Step(types.Txs{txkit.Create(txkit.A, 0, txkit.RevertContract(), nil), txkit.WireCopy(pay)})
	must(err)
	led.Sync(c)
	rs := c.Receipts(2)
	fmt.Printf("uin-call: receipts %d/%d; X holds %s; zero address holds %s; hidden %s (300 - 10 - fee expected in change)\n", rs[0].Status, rs[1].Status, c.Balance(x),
		c.Balance(common.EmptyAddress), led.Unspent(common.EmptyAddress))
}

func repro(which string) {
	if which == "all" || which == "uincall" {
		reproUinCall()
	}
	if which == "all" || which == "ring1" {
		reproRing1()
	}
	if which == "all" || which == "prefund" {
		reproPrefund()
	}
	if which == "all" || which == "suicide" {
		reproSuicideCredit()
	}
}
