package main

// The transaction alphabet. An op is a symbolic description (kind, parties, amount class, fee class ...); build()
// turns it into a real transaction in the context of the current state (nonces, balances, spendable hidden outputs)
// with the repository's own constructors and signers, and returns what the generator DECLARED: who pays what to
// whom, which hidden outputs with which amounts are created, which are consumed. The reference model (oracle.go)
// needs nothing else.

import (
	"fmt"
	"math/big"
	"strconv"
	"strings"

	"verif/txkit"

	"github.com/lianxiangcloud/linkchain/libs/common"
	"github.com/lianxiangcloud/linkchain/libs/crypto"
	"github.com/lianxiangcloud/linkchain/libs/cryptonote/ringct"
	lk "github.com/lianxiangcloud/linkchain/libs/cryptonote/types"
	"github.com/lianxiangcloud/linkchain/libs/cryptonote/xcrypto"
	"github.com/lianxiangcloud/linkchain/types"
)

type dest struct {
	W   string `json:"w"`
	Sub int    `json:"sub"`
	Amt string `json:"amt"`
}

type op struct {
	Kind  string `json:"kind"`            // xfer tokxfer create call tokcall ain uspend lie hostile
	From  string `json:"from,omitempty"`  // paying account A|B|C
	To    string `json:"to,omitempty"`    // account name, contract role, "X:<code>"/"Y:<code>" = address of A's next/previous creation of <code>
	Tok   string `json:"tok,omitempty"`   // coin | gen (genesis token, no contract) | iss (token of the issuer contract)
	Amt   string `json:"amt,omitempty"`   // amount class
	Gas   string `json:"gas,omitempty"`   // transfers: "" exact | +1 | -1; calls/creations: "" ample | low | ig | ig+1 | tf-1 | tf | tf+1 | tf+ig-1 | tf+ig | tf+ig+1
	Code  string `json:"code,omitempty"`  // creation code name
	Arg   string `json:"arg,omitempty"`   // issue amount / inflation of a lie
	Dests []dest `json:"dests,omitempty"` // account -> confidential destinations
	Fee   string `json:"fee,omitempty"`   // min | min+price | min+unit (not a gas-price multiple) | min-price | zero
	W     string `json:"w,omitempty"`     // spending wallet
	Ring  int    `json:"ring,omitempty"`  // ring size
	Nin   int    `json:"nin,omitempty"`   // number of hidden inputs
	Var   string `json:"var,omitempty"`   // hostile construction
	// Price / AmtWrap: "word-wrap" variants of an account-signed transaction: the gas price (pinned to 1e11 by the
	// constructors, free on the wire) resp. the amount moved by 2^32, 2^63, 2^64, 2*2^64 AFTER the gas limit was derived
	// from the honest value, then properly signed: a big.Int validated through a machine-word view of it passes.
	Price   string `json:"price,omitempty"`
	AmtWrap string `json:"amtwrap,omitempty"`
	// Struct: a STRUCTURAL variant of an otherwise honest confidential transaction, made by the owner of the keys
	// (re-signed), whose commitments balance by construction: the chain may admit it or not, but if it does, every
	// account input must be debited and every output credited (see structural variants in buildAin / buildSpend).
	Struct string `json:"struct,omitempty"`
}

func (o op) String() string {
	p := []string{o.Kind}
	addf := func(k, v string) {
		if v != "" {
			p = append(p, k+"="+v)
		}
	}
	addf("var", o.Var)
	addf("struct", o.Struct)
	addf("price", o.Price)
	addf("amtwrap", o.AmtWrap)
	addf("from", o.From)
	addf("w", o.W)
	if o.Ring > 0 {
		p = append(p, fmt.Sprintf("ring=%d", o.Ring))
	}
	if o.Nin > 1 {
		p = append(p, fmt.Sprintf("nin=%d", o.Nin))
	}
	addf("to", o.To)
	addf("tok", o.Tok)
	addf("code", o.Code)
	addf("amt", o.Amt)
	addf("arg", o.Arg)
	for _, d := range o.Dests {
		p = append(p, fmt.Sprintf("%s.%d:%s", d.W, d.Sub, d.Amt))
	}
	addf("fee", o.Fee)
	addf("gas", o.Gas)
	return strings.Join(p, " ")
}

// kindName: the root-cause-level name of an op (no amounts), used in violation keys.
func (o op) kindName() string {
	if o.Price != "" || o.AmtWrap != "" {
		b := o
		b.Price, b.AmtWrap = "", ""
		n := b.kindName()
		if o.Price != "" {
			n += ":price-wrap"
		}
		if o.AmtWrap != "" {
			n += ":amount-wrap"
		}
		return n
	}
	if o.Struct != "" {
		b := o
		b.Struct = ""
		return b.kindName() + ":struct-" + o.Struct
	}
	tok := o.Tok
	if tok == "" {
		tok = "coin"
	}
	switch o.Kind {
	case "xfer":
		return "xfer"
	case "tokxfer":
		return "tokxfer:" + tok
	case "create":
		return "create:" + o.Code
	case "call":
		return "call:" + strings.SplitN(o.To, ":", 2)[0]
	case "tokcall":
		return "tokcall:" + tok + ":" + strings.SplitN(o.To, ":", 2)[0]
	case "ain":
		return "ain:" + tok
	case "uspend":
		t := "wallet"
		if !strings.HasPrefix(o.To, "W") {
			t = "account"
		}
		return fmt.Sprintf("uspend:%s:%s:to-%s", tok, ringName(o.Ring), t)
	case "lie":
		return fmt.Sprintf("lie:%s:%s", tok, ringName(o.Ring))
	case "hostile":
		if strings.HasPrefix(o.Var, "ain-") || strings.HasPrefix(o.Var, "wrap-ain") {
			return "hostile:" + o.Var
		}
		if o.Var == "wrap-fee" && len(o.Dests) > 0 {
			return "hostile:wrap-fee:ain"
		}
		return fmt.Sprintf("hostile:%s:%s", o.Var, ringName(o.Ring))
	}
	return o.Kind
}

func ringName(n int) string {
	if n <= 1 {
		return "ring1"
	}
	return "mlsag"
}

// ---- creation codes ---------------------------------------------------------------------------------------

type creation struct {
	name string
	init func() []byte
}

var issuerInitial = txkit.LKC(1000)

var creationCodes = []creation{
	{"store", txkit.StoreContract},
	{"reverter", txkit.RevertContract},
	{"vault", vaultInit},
	{"issuer", func() []byte { return txkit.TokenIssuerContract(issuerInitial) }},
	{"revinit", revertingInit},
	{"badinit", invalidInit},
}

func creationByName(n string) *creation {
	for i := range creationCodes {
		if creationCodes[i].name == n {
			return &creationCodes[i]
		}
	}
	return nil
}

// ---- build context -----------------------------------------------------------------------------------------

type bctx struct {
	w     *world
	pre   *observation
	nonce map[common.Address]uint64
	used  map[*txkit.Owned]bool
}

func newCtx(w *world, pre *observation) *bctx {
	return &bctx{w: w, pre: pre, nonce: map[common.Address]uint64{}, used: map[*txkit.Owned]bool{}}
}

func (x *bctx) peekNonce(a common.Address) uint64 {
	if n, ok := x.nonce[a]; ok {
		return n
	}
	return x.w.c.Nonce(a)
}

func (x *bctx) takeNonce(a common.Address) { x.nonce[a] = x.peekNonce(a) + 1 }

func account(name string) *txkit.Account {
	switch name {
	case "A":
		return txkit.A
	case "B":
		return txkit.B
	case "C":
		return txkit.C
	case "D":
		return txkit.D
	case "E":
		return whale
	}
	return nil
}

// whale: a genesis account that owns more than twice (group order x unit) coins, so that account-side balance checks
// cannot hide what the commitment arithmetic does with amounts around the order of the curve group.
var whale = func() *txkit.Account {
	k, err := crypto.ToECDSA(crypto.Keccak256([]byte("verif-c06-account-E")))
	if err != nil {
		panic(err)
	}
	return &txkit.Account{Name: "E", Key: k, Addr: crypto.PubkeyToAddress(k.PublicKey)}
}()

func whaleBalance() *big.Int {
	return add(new(big.Int).Mul(new(big.Int).Mul(curveL, unit), bi(3)), txkit.LKC(100000))
}

// wrapOffsets: amounts (in units) around which a scalar reduction or a truncation of a PUBLIC amount could make the
// commitment equation hold although the integers differ: multiples of the group order l (x10/x20: still multiples of
// the gas price, for fees), l itself and l-1 as absolute values, powers of two at the widths of machine words and of the encodings, and
// 2^256 mod l.
var wrapOffsets = []string{"l", "2l", "10l", "20l", "=l", "=l-1", "2^32", "2^63", "2^64", "2*2^64", "2^128", "2^252", "2^255", "2^256", "r256"}

// wrapFee is wrapAmount for a fee: the offset is taken ten times, so that the result stays a multiple of the gas price
// (10 units) and is not refused for that reason alone.
func wrapFee(honest *big.Int, arg string) (*big.Int, error) {
	v, err := wrapAmount(honest, arg)
	if err != nil {
		return nil, err
	}
	if strings.HasPrefix(arg, "=") {
		return mul(v, 10), nil
	}
	return add(honest, mul(sub(v, honest), 10)), nil
}

// wrapAmount applies offset class arg to the honest public amount (wei, a multiple of the unit).
func wrapAmount(honest *big.Int, arg string) (*big.Int, error) {
	pow := func(n uint) *big.Int { return new(big.Int).Lsh(bi(1), n) }
	var off *big.Int
	switch arg {
	case "l":
		off = new(big.Int).Set(curveL)
	case "2l":
		off = mul(curveL, 2)
	case "10l":
		off = mul(curveL, 10)
	case "20l":
		off = mul(curveL, 20)
	case "=l":
		return new(big.Int).Mul(curveL, unit), nil
	case "=l-1":
		return new(big.Int).Mul(sub(curveL, bi(1)), unit), nil
	case "2^32":
		off = pow(32)
	case "2^63":
		off = pow(63)
	case "2^64":
		off = pow(64)
	case "2*2^64":
		off = pow(65)
	case "2^128":
		off = pow(128)
	case "2^252":
		off = pow(252)
	case "2^255":
		off = pow(255)
	case "2^256":
		off = pow(256)
	case "r256":
		off = new(big.Int).Mod(pow(256), curveL)
	default:
		return nil, fmt.Errorf("unknown wrap offset %q", arg)
	}
	return add(honest, new(big.Int).Mul(off, unit)), nil
}

// reducedAmountKey: (amount / unit) mod l as a scalar: what a commitment routine that reduces instead of refusing computes.
func reducedAmountKey(amount *big.Int) lk.Key { return bigToScalar(new(big.Int).Div(amount, unit)) }

func walletOf(name string) *txkit.Wallet {
	switch name {
	case "W0":
		return txkit.W0
	case "W1":
		return txkit.W1
	case "W2":
		return txkit.W2
	}
	return nil
}

func (x *bctx) token(name string) common.Address {
	switch name {
	case "gen":
		return genTok
	case "iss":
		return x.w.issuer
	}
	return coinTok
}

func tokClass(w *world, t common.Address) string {
	switch t {
	case coinTok:
		return "coin"
	case genTok:
		return "gen"
	case w.issuer:
		return "iss"
	}
	return "token"
}

// addr resolves a recipient name.
func (x *bctx) addr(name string) (common.Address, error) {
	if a := account(name); a != nil {
		return a.Addr, nil
	}
	switch name {
	case "zero":
		return common.EmptyAddress, nil
	case "store":
		return x.w.store, nil
	case "reverter":
		return x.w.reverter, nil
	case "vault":
		return x.w.vault, nil
	case "issuer":
		return x.w.issuer, nil
	}
	if strings.HasPrefix(name, "Y:") { // where A's PREVIOUS creation of that code lives (created earlier in this block, or before)
		c := creationByName(name[2:])
		n := x.peekNonce(txkit.A.Addr)
		if c == nil || n == 0 {
			return common.Address{}, fmt.Errorf("bad address %q", name)
		}
		return txkit.ContractAddress(txkit.A.Addr, n-1, c.init()), nil
	}
	if strings.HasPrefix(name, "X:") { // where A's next creation of that code will live
		c := creationByName(name[2:])
		if c == nil {
			return common.Address{}, fmt.Errorf("unknown code %q", name)
		}
		return txkit.ContractAddress(txkit.A.Addr, x.peekNonce(txkit.A.Addr), c.init()), nil
	}
	return common.Address{}, fmt.Errorf("unknown address %q", name)
}

// amount resolves an amount class. bal = the relevant balance at block start; feeOf = fee as a function of the
// amount (for "all" = the largest amount that bal covers together with its fee).
func amount(class string, bal *big.Int, feeOf func(*big.Int) *big.Int) (*big.Int, error) {
	switch class {
	case "0":
		return bi(0), nil
	case "1":
		return bi(1), nil
	case "unit":
		return new(big.Int).Set(unit), nil
	case "unit+1":
		return add(unit, bi(1)), nil
	case "bal":
		return new(big.Int).Set(bal), nil
	case "bal+1":
		return add(bal, bi(1)), nil
	case "bal+unit":
		return add(bal, unit), nil
	case "ovf": // 2^64 units: does not fit the 8-byte amount of a commitment
		return new(big.Int).Mul(new(big.Int).Lsh(bi(1), 64), unit), nil
	case "max256":
		return sub(new(big.Int).Lsh(bi(1), 256), bi(1)), nil
	case "all":
		if feeOf == nil {
			return new(big.Int).Set(bal), nil
		}
		a := new(big.Int).Set(bal)
		for i := 0; i < 16; i++ {
			n := sub(bal, feeOf(a))
			if n.Sign() <= 0 {
				return nil, fmt.Errorf("balance %v does not cover the fee", bal)
			}
			if n.Cmp(a) == 0 {
				break
			}
			a = n
		}
		if add(a, feeOf(a)).Cmp(bal) > 0 {
			return nil, fmt.Errorf("no fee fixed point for %v", bal)
		}
		return a, nil
	}
	if strings.HasSuffix(class, "c") {
		if n, err := strconv.ParseInt(class[:len(class)-1], 10, 64); err == nil {
			return txkit.LKC(n), nil
		}
	}
	if strings.HasSuffix(class, "u") {
		if n, err := strconv.ParseInt(class[:len(class)-1], 10, 64); err == nil {
			return mul(unit, n), nil
		}
	}
	return nil, fmt.Errorf("unknown amount class %q", class)
}

// ---- what a built transaction declares ---------------------------------------------------------------------

type declOut struct {
	W      *txkit.Wallet
	Sub    int
	Amount *big.Int
}

type txMeta struct {
	Op    op
	Tx    types.Tx
	Class string // valid | free | must-reject
	Why   string // must-reject: what is wrong with it

	// account side
	Payer  common.Address // pays the fee (and the value for account-side kinds); zero: nobody (pure confidential coin tx)
	Token  common.Address
	Value  *big.Int       // value leaving Payer in Token when the transaction succeeds (regular kinds); nil for confidential kinds
	Effect func(m *model) // account-side effects of SUCCESS beyond "Payer -= Value" (credit recipient, contract semantics)

	// confidential side
	Conf      bool
	Ring      int
	AinDebit  *big.Int // amount taken from Payer in Token by an account input (for the coin it includes the fee)
	Fee       *big.Int // declared fee of a confidential transaction
	Spent     []*txkit.Owned
	NewOuts   []declOut
	AccOut    *common.Address
	AccAmount *big.Int
	MoreAcc   []accPay // further account outputs (structural variants)
	Inflation *big.Int // lie: declared minus real input amount
}

type accPay struct {
	To     common.Address
	Amount *big.Int
}

func (m *txMeta) utx() *types.UTXOTransaction {
	u, _ := m.Tx.(*types.UTXOTransaction)
	return u
}

// seeded pins the deterministic generator of the crypto stand-in for one confidential build.
func (w *world) seeded(f func()) {
	w.nbuild++
	xcrypto.VerifSetLocalSeed(uint64(0xC06)<<32 + w.nbuild)
	defer xcrypto.VerifClearLocalSeed()
	f()
}

var errDisabled = fmt.Errorf("disabled")

func disabled(format string, a ...interface{}) error {
	return fmt.Errorf("%w: %s", errDisabled, fmt.Sprintf(format, a...))
}

// build turns op o into a transaction.
func (x *bctx) build(o op) (*txMeta, error) {
	switch o.Kind {
	case "xfer", "tokxfer":
		return x.buildTransfer(o)
	case "create":
		return x.buildCreate(o)
	case "call", "tokcall":
		return x.buildCall(o)
	case "ain":
		return x.buildAin(o)
	case "multisign", "upgrade":
		return x.buildSpecial(o)
	case "uspend", "lie", "hostile":
		if o.Kind == "hostile" && (strings.HasPrefix(o.Var, "ain-") || strings.HasPrefix(o.Var, "wrap-ain") || (o.Var == "wrap-fee" && len(o.Dests) > 0)) {
			return x.buildAin(o)
		}
		return x.buildSpend(o)
	}
	return nil, fmt.Errorf("unknown op kind %q", o.Kind)
}

func gasAdjust(g uint64, how string) uint64 {
	switch how {
	case "+1":
		return g + 1
	case "-1":
		return g - 1
	}
	return g
}

// wordWraps: offsets at the machine-word widths.
var wordWraps = []string{"+2^32", "+2^63", "+2^64", "+2*2^64"}

func wordWrap(v *big.Int, class string) (*big.Int, error) {
	switch class {
	case "":
		return v, nil
	case "+2^32":
		return add(v, new(big.Int).Lsh(bi(1), 32)), nil
	case "+2^63":
		return add(v, new(big.Int).Lsh(bi(1), 63)), nil
	case "+2^64":
		return add(v, new(big.Int).Lsh(bi(1), 64)), nil
	case "+2*2^64":
		return add(v, new(big.Int).Lsh(bi(1), 65)), nil
	}
	return nil, fmt.Errorf("unknown word-wrap class %q", class)
}

// repriced: tx (built and signed by the stock builders) with the gas price of class o.Price, signed again by from.
func repriced(tx types.Tx, o op, from *txkit.Account) (types.Tx, error) {
	if o.Price == "" {
		return tx, nil
	}
	p, err := wordWrap(price, o.Price)
	if err != nil {
		return nil, err
	}
	raw := types.VerifC06WithGasPrice(tx, p)
	switch t := raw.(type) {
	case *types.Transaction:
		return t, t.Sign(types.GlobalSTDSigner, from.Key)
	case *types.TokenTransaction:
		return t, t.Sign(types.GlobalSTDSigner, from.Key)
	}
	return nil, fmt.Errorf("repriced: kind without a gas price")
}

// vmGasClasses: the gas-limit boundaries of a value-carrying contract call / creation. ig = intrinsic gas of the
// payload, tf = the value-transfer fee payTransferGas charges (CalNewAmountGas(value, EverContractLiankeFee) for a coin
// value > 0 that goes to a contract or a creation, else 0). Admission (IllegalGasLimitOrGasPrice) compares the limit with
// ig and with the transfer fee SEPARATELY, execution needs their sum: limits in [max(ig, tf), ig+tf) are admitted, pay
// the intrinsic gas and then fail in payTransferGas.
var vmGasClasses = []string{"ig", "ig+1", "tf-1", "tf", "tf+1", "tf+ig-1", "tf+ig", "tf+ig+1"}

// vmGas resolves a gas class of a call/creation.
func vmGas(class string, data []byte, creation bool, tok common.Address, val *big.Int) (uint64, error) {
	if class == "" {
		return txkit.DefaultVMGas, nil
	}
	ig, err := types.IntrinsicGas(data, creation, 1)
	if err != nil {
		return 0, err
	}
	tf := uint64(0)
	if tok == coinTok && val.Sign() > 0 {
		tf = types.CalNewAmountGas(val, types.EverContractLiankeFee)
	}
	var g uint64
	switch class {
	case "low": // admitted and able to pay both fees, not enough to run: an out-of-gas failure inside the VM
		g = ig + tf + 10
	case "ig":
		g = ig
	case "ig+1":
		g = ig + 1
	case "tf-1":
		if tf == 0 {
			return 0, disabled("no transfer fee")
		}
		g = tf - 1
	case "tf":
		g = tf
	case "tf+1":
		g = tf + 1
	case "tf+ig-1":
		g = tf + ig - 1
	case "tf+ig":
		g = tf + ig
	case "tf+ig+1":
		g = tf + ig + 1
	default:
		return 0, fmt.Errorf("unknown gas class %q", class)
	}
	if g == 0 {
		return 0, disabled("gas limit 0 means 'default' to the constructor")
	}
	return g, nil
}

func (x *bctx) buildTransfer(o op) (*txMeta, error) {
	from := account(o.From)
	to, err := x.addr(o.To)
	if err != nil {
		return nil, err
	}
	if len(x.w.c.Code(to)) > 0 {
		return nil, disabled("recipient %s has code (use call)", o.To)
	}
	tok := x.token(o.Tok)
	var feeOf func(*big.Int) *big.Int
	if tok == coinTok {
		feeOf = txkit.TransferFee
	}
	amt, err := amount(o.Amt, x.pre.bal(from.Addr, tok), feeOf)
	if err != nil {
		return nil, disabled("%v", err)
	}
	n := x.peekNonce(from.Addr)
	honest := amt
	if amt, err = wordWrap(honest, o.AmtWrap); err != nil { // the gas limit below is the one of the honest amount
		return nil, err
	}
	var tx types.Tx
	if o.Kind == "xfer" {
		tx = txkit.TransferWithGas(from, n, to, amt, gasAdjust(txkit.TransferGas(honest), o.Gas), nil)
	} else {
		tx = txkit.TokenTransferWithGas(from, n, tok, to, amt, gasAdjust(txkit.TokenTransferGas(tok, honest), o.Gas))
	}
	if tx, err = repriced(tx, o, from); err != nil {
		return nil, err
	}
	x.takeNonce(from.Addr)
	return &txMeta{Op: o, Tx: tx, Class: "free", Payer: from.Addr, Token: tok, Value: amt,
		Effect: func(m *model) { m.credit(to, tok, amt) }}, nil
}

// buildSpecial: the two kinds that carry no value at all. MultiSignAccountTx installs a signer table (needs > 2/3 of
// the validators' power); ContractUpgradeTx is admitted and fails in the VM (no system contract to upgrade). Neither
// buys gas: nothing may move.
func (x *bctx) buildSpecial(o op) (*txMeta, error) {
	none := func(m *model) {}
	if o.Kind == "multisign" {
		var vals []txkit.ValidatorSigner
		for _, k := range x.w.c.Fixture().Keys[:3] {
			vals = append(vals, txkit.SignerOf(k))
		}
		n := x.peekNonce(types.MultiSignNonceAddr)
		tx := txkit.MultiSign(n, types.TxContractCreateType, 20, []*types.SignerEntry{{Power: 10, Addr: txkit.A.Addr}, {Power: 10, Addr: txkit.B.Addr}}, vals)
		x.takeNonce(types.MultiSignNonceAddr)
		return &txMeta{Op: o, Tx: tx, Class: "free", Payer: types.MultiSignNonceAddr, Token: coinTok, Value: bi(0), Effect: none}, nil
	}
	from := account(o.From)
	n := x.peekNonce(from.Addr)
	tx := txkit.Upgrade(from, n, collector, append(append([]byte{}, txkit.WasmMagic...), 1, 0, 0, 0), txkit.A, txkit.B)
	x.takeNonce(from.Addr)
	return &txMeta{Op: o, Tx: tx, Class: "free", Payer: from.Addr, Token: coinTok, Value: bi(0), Effect: none}, nil
}

func (x *bctx) buildCreate(o op) (*txMeta, error) {
	from := account(o.From)
	c := creationByName(o.Code)
	if c == nil {
		return nil, fmt.Errorf("unknown code %q", o.Code)
	}
	val, err := amount(o.Amt, x.pre.bal(from.Addr, coinTok), nil)
	if err != nil {
		return nil, disabled("%v", err)
	}
	n := x.peekNonce(from.Addr)
	init := c.init()
	at := txkit.ContractAddress(from.Addr, n, init)
	gas, err := vmGas(o.Gas, init, true, coinTok, val)
	if err != nil {
		return nil, err
	}
	if val, err = wordWrap(val, o.AmtWrap); err != nil {
		return nil, err
	}
	var tx types.Tx = txkit.CreateWithGas(from, n, init, val, gas)
	if tx, err = repriced(tx, o, from); err != nil {
		return nil, err
	}
	x.takeNonce(from.Addr)
	code := o.Code
	return &txMeta{Op: o, Tx: tx, Class: "free", Payer: from.Addr, Token: coinTok, Value: val,
		Effect: func(m *model) {
			m.created(at)
			m.credit(at, coinTok, val)
			if code == "issuer" { // the constructor mints `initial` of the new token to the sender
				m.credit(from.Addr, at, issuerInitial)
				m.issue(at, issuerInitial)
			}
		}}, nil
}

func (x *bctx) buildCall(o op) (*txMeta, error) {
	from := account(o.From)
	parts := strings.SplitN(o.To, ":", 2)
	role := parts[0]
	var target common.Address
	var data []byte
	var effect func(m *model, v *big.Int, tok common.Address)
	switch role {
	case "store":
		target, data = x.w.store, txkit.Word(bi(42))
		effect = func(m *model, v *big.Int, tok common.Address) { m.credit(x.w.store, tok, v) }
	case "reverter":
		target = x.w.reverter
		effect = func(m *model, v *big.Int, tok common.Address) { m.credit(x.w.reverter, tok, v) } // (never succeeds)
	case "vault-deposit":
		target = x.w.vault
		effect = func(m *model, v *big.Int, tok common.Address) { m.credit(x.w.vault, tok, v) }
	case "vault-destruct":
		target = x.w.vault
		ben := x.w.vault // "self"
		if len(parts) > 1 && parts[1] != "self" {
			b, err := x.addr(parts[1])
			if err != nil {
				return nil, err
			}
			ben = b
		}
		data = txkit.AddrWord(ben)
		vault := x.w.vault
		effect = func(m *model, v *big.Int, tok common.Address) {
			m.credit(vault, tok, v)
			m.selfdestruct(vault, ben)
		}
	case "issuer-issue":
		target = x.w.issuer
		q, err := amount(o.Arg, bi(0), nil)
		if err != nil {
			return nil, err
		}
		data = txkit.Word(q)
		iss := x.w.issuer
		effect = func(m *model, v *big.Int, tok common.Address) {
			m.credit(iss, tok, v)
			m.credit(from.Addr, iss, q)
			m.issue(iss, q)
		}
	default:
		return nil, fmt.Errorf("unknown call target %q", o.To)
	}
	if len(x.w.c.Code(target)) == 0 {
		return nil, disabled("no contract at %s any more", role)
	}
	tok := coinTok
	if o.Kind == "tokcall" {
		tok = x.token(o.Tok)
	}
	val, err := amount(o.Amt, x.pre.bal(from.Addr, tok), nil)
	if err != nil {
		return nil, disabled("%v", err)
	}
	n := x.peekNonce(from.Addr)
	gas, err := vmGas(o.Gas, data, false, tok, val)
	if err != nil {
		return nil, err
	}
	if val, err = wordWrap(val, o.AmtWrap); err != nil {
		return nil, err
	}
	var tx types.Tx
	if o.Kind == "call" {
		tx = txkit.TransferWithGas(from, n, target, val, gas, data)
	} else {
		t := types.NewTokenTransaction(tok, n, target, val, gas, price, data)
		if err := t.Sign(types.GlobalSTDSigner, from.Key); err != nil {
			return nil, err
		}
		tx = t
	}
	if tx, err = repriced(tx, o, from); err != nil {
		return nil, err
	}
	x.takeNonce(from.Addr)
	return &txMeta{Op: o, Tx: tx, Class: "free", Payer: from.Addr, Token: tok, Value: val,
		Effect: func(m *model) { effect(m, val, tok) }}, nil
}

// ---- account -> confidential ----------------------------------------------------------------------------------

func feeAdjust(min *big.Int, class string) (*big.Int, error) {
	switch class {
	case "", "min":
		return new(big.Int).Set(min), nil
	case "min+price":
		return add(min, price), nil
	case "min+unit": // a multiple of the commitment unit but not of the gas price
		return add(min, unit), nil
	case "min-price":
		if min.Cmp(price) < 0 {
			return nil, disabled("fee below zero")
		}
		return sub(min, price), nil
	case "zero":
		return bi(0), nil
	case "cap": // the fee of the largest chargeable amount (MaxGasLimit): adequate whatever the public amount says
		c := gasFee(uint64(types.MaxGasLimit))
		if c.Cmp(min) < 0 {
			return new(big.Int).Set(min), nil
		}
		return c, nil
	}
	return nil, fmt.Errorf("unknown fee class %q", class)
}

var minTokenFee = new(big.Int).Mul(big.NewInt(types.MinGasLimit), price) // fee of a token tx with an account side

func (x *bctx) buildAin(o op) (*txMeta, error) {
	from := account(o.From)
	tok := x.token(o.Tok)
	bal := x.pre.bal(from.Addr, tok)
	var entries []types.DestEntry
	var outs []declOut
	total := new(big.Int)
	for _, d := range o.Dests {
		var feeOf func(*big.Int) *big.Int
		if tok == coinTok {
			feeOf = txkit.FeeAin
		}
		a, err := amount(d.Amt, bal, feeOf)
		if err != nil {
			return nil, disabled("%v", err)
		}
		if d.Amt == "all" { // keep "all" a multiple of the unit (the dust stays in the account)
			a = new(big.Int).Mul(new(big.Int).Div(a, unit), unit)
		}
		w := walletOf(d.W)
		entries = append(entries, &types.UTXODestEntry{Addr: w.Addr(d.Sub), Amount: new(big.Int).Set(a), IsSubaddress: d.Sub > 0})
		outs = append(outs, declOut{w, d.Sub, a})
		total.Add(total, a)
	}
	var plusAcc *accPay
	if o.Struct == "plus-aout" { // account input AND account output in one transaction (the stock wallet never builds it)
		plusAcc = &accPay{txkit.D.Addr, txkit.LKC(1)}
		entries = append(entries, &types.AccountDestEntry{To: plusAcc.To, Amount: new(big.Int).Set(plusAcc.Amount)})
		total.Add(total, plusAcc.Amount)
	}
	min := minTokenFee
	if tok == coinTok {
		min = txkit.FeeAin(total)
	}
	fee, err := feeAdjust(min, o.Fee)
	if err != nil {
		return nil, err
	}
	n := x.peekNonce(from.Addr)
	var tx *types.UTXOTransaction
	x.w.seeded(func() {
		if tok == coinTok {
			amt := add(total, fee)
			if o.Kind == "hostile" && o.Var == "ain-fee-uncommitted" {
				amt = new(big.Int).Set(total) // the constructor sees fee 0; the fee is declared afterwards, on top
			}
			tx, _, err = types.NewAinTransaction(&types.AccountSourceEntry{From: from.Addr, Nonce: n, Amount: amt}, entries, coinTok, nil)
		} else {
			tx, _, err = types.NewAinTokenTransaction(&types.AccountSourceEntry{From: from.Addr, Nonce: n, Amount: new(big.Int).Set(total)}, entries, tok, fee, nil)
		}
	})
	if err != nil {
		return nil, disabled("constructor: %v", err)
	}
	m := &txMeta{Op: o, Tx: tx, Class: "valid", Payer: from.Addr, Token: tok, Conf: true, Fee: fee, NewOuts: outs}
	if tok == coinTok {
		m.AinDebit = add(total, fee)
	} else {
		m.AinDebit = new(big.Int).Set(total)
	}
	// what the honest constructor cannot express stays an honest ATTEMPT; the chain's verdict is free, conservation decides
	if fee.Cmp(min) < 0 || new(big.Int).Mod(fee, price).Sign() != 0 || new(big.Int).Mod(total, unit).Sign() != 0 || m.AinDebit.Cmp(bal) > 0 {
		m.Class = "free"
	}
	for _, out := range outs {
		if new(big.Int).Mod(out.Amount, unit).Sign() != 0 {
			m.Class = "free"
		}
	}
	if o.Kind == "hostile" {
		in := tx.Inputs[0].(*types.AccountInput)
		cut := txkit.LKC(10)
		rate := unit
		switch o.Var {
		case "ain-deflated": // pay 10 coins less than committed
			in.Amount = sub(in.Amount, cut)
			m.Why = "account input amount below its commitment"
		case "ain-deflated-recommit": // ... and commit to the smaller amount: inputs no longer cover outputs + fee
			in.Amount = sub(in.Amount, cut)
			in.Commit = types.AmountCommit(new(big.Int).Div(in.Amount, rate), in.CF)
			m.Why = "committed input below outputs + fee"
		case "ain-fee-uncommitted": // the outputs take the whole input, the fee is only declared
			tx.Fee = new(big.Int).Set(fee)
			m.Why = "declared fee is not part of the commitment balance"
		case "wrap-ain", "wrap-ain-recommit": // the account input amount moved by an offset around the group order / the encodings
			v, werr := wrapAmount(in.Amount, o.Arg)
			if werr != nil {
				return nil, werr
			}
			in.Amount = v
			if o.Var == "wrap-ain-recommit" {
				in.Commit, _ = ringct.AddKeys2(in.CF, reducedAmountKey(v), ringct.H)
			}
			m.Why = "account input amount differs from the committed one by " + o.Arg + " units"
		case "wrap-fee": // the declared fee moved; the account input (which pays it) is not
			v, werr := wrapFee(tx.Fee, o.Arg)
			if werr != nil {
				return nil, werr
			}
			tx.Fee, m.Fee = v, v
			m.Why = "declared fee differs from the committed one by " + o.Arg + " units"
		case "ain-overflow": // 2^64 units more: the commitment arithmetic silently drops what does not fit 8 bytes
			in.Amount = add(in.Amount, new(big.Int).Mul(new(big.Int).Lsh(bi(1), 64), unit))
			in.Commit = types.AmountCommit(new(big.Int).Div(in.Amount, rate), in.CF)
			m.Why = "overflow-sized account input"
		default:
			return nil, fmt.Errorf("unknown hostile variant %q", o.Var)
		}
		m.Class = "must-reject"
		m.AinDebit = new(big.Int).Set(in.Amount)
		if tok != coinTok {
			return nil, fmt.Errorf("hostile ain variants are coin only")
		}
	}
	if plusAcc != nil {
		m.AccOut, m.AccAmount = &plusAcc.To, plusAcc.Amount
		m.Class = "free"
	}
	if o.Struct != "" && o.Struct != "plus-aout" {
		var serr error
		x.w.seeded(func() { serr = splitAccountInput(tx, o.Struct) })
		if serr != nil {
			return nil, serr
		}
		m.Class = "free" // balanced by construction; m.AinDebit (the sum of ALL account inputs) is unchanged
	}
	if err := tx.Sign(types.GlobalSTDSigner, from.Key); err != nil {
		return nil, err
	}
	x.takeNonce(from.Addr)
	return m, nil
}

// ---- structural variants of the account input --------------------------------------------------------------------

var (
	curveL, _ = new(big.Int).SetString("7237005577332262213973186563042994240857116359379907606001950938285454250989", 10)
	invTwo    = new(big.Int).Rsh(new(big.Int).Add(curveL, big.NewInt(1)), 1) // (L+1)/2 = 2^-1 mod L
)

func scalarToBig(k lk.Key) *big.Int {
	b := make([]byte, 32)
	for i := range k {
		b[31-i] = k[i]
	}
	return new(big.Int).SetBytes(b)
}

func bigToScalar(v *big.Int) lk.Key {
	var k lk.Key
	b := new(big.Int).Mod(v, curveL).Bytes()
	for i := range b {
		k[i] = b[len(b)-1-i]
	}
	return k
}

// splitAccountInput replaces the single account input (amount A, blinding factor CF) of an account -> confidential
// transaction by several account inputs whose amounts add up to A and whose blinding factors add up to CF (mod L): the
// sum of the input commitments, hence the commitment balance, is unchanged. Same nonce on every part. Must run inside
// w.seeded (fresh blinding factors come from the deterministic generator). The caller signs afterwards.
func splitAccountInput(tx *types.UTXOTransaction, how string) error {
	if len(tx.Inputs) != 1 {
		return fmt.Errorf("splitAccountInput: %d inputs", len(tx.Inputs))
	}
	orig, ok := tx.Inputs[0].(*types.AccountInput)
	if !ok {
		return fmt.Errorf("splitAccountInput: not an account input")
	}
	A := orig.Amount
	units := new(big.Int).Div(A, unit)
	if new(big.Int).Mod(A, unit).Sign() != 0 {
		return disabled("amount %v is not a multiple of the unit", A)
	}
	u := func(n *big.Int) *big.Int { return new(big.Int).Mul(n, unit) }
	var parts []*big.Int
	same := false
	switch how {
	case "split", "split-rev": // 60% + 40%
		if units.Cmp(bi(2)) < 0 {
			return disabled("nothing to split")
		}
		b := new(big.Int).Div(new(big.Int).Mul(units, bi(2)), bi(5))
		if b.Sign() == 0 {
			b = bi(1)
		}
		parts = []*big.Int{u(sub(units, b)), u(b)}
		if how == "split-rev" {
			parts[0], parts[1] = parts[1], parts[0]
		}
	case "split3":
		if units.Cmp(bi(3)) < 0 {
			return disabled("nothing to split")
		}
		t := new(big.Int).Div(units, bi(3))
		parts = []*big.Int{u(sub(units, mul(t, 2))), u(t), u(t)}
	case "dup": // the SAME input twice (amount A/2, blinding factor CF/2)
		if units.Bit(0) != 0 || units.Sign() == 0 {
			return disabled("odd amount")
		}
		h := new(big.Int).Rsh(units, 1)
		parts, same = []*big.Int{u(h), u(h)}, true
	case "extra-zero":
		parts = []*big.Int{new(big.Int).Set(A), bi(0)}
	case "zero-first":
		parts = []*big.Int{bi(0), new(big.Int).Set(A)}
	case "extra-unit":
		if units.Cmp(bi(2)) < 0 {
			return disabled("nothing to split")
		}
		parts = []*big.Int{u(sub(units, bi(1))), u(bi(1))}
	default:
		return fmt.Errorf("unknown structural variant %q", how)
	}
	cfs := make([]lk.Key, len(parts))
	if same {
		half := bigToScalar(new(big.Int).Mul(scalarToBig(orig.CF), invTwo))
		cfs[0], cfs[1] = half, half
	} else {
		rest := orig.CF
		for i := 1; i < len(parts); i++ {
			cfs[i] = ringct.SkGen()
			rest = ringct.ScSub(lk.EcScalar(rest), lk.EcScalar(cfs[i]))
		}
		cfs[0] = rest
	}
	tx.Inputs = nil
	for i, p := range parts {
		tx.Inputs = append(tx.Inputs, &types.AccountInput{Nonce: orig.Nonce, Amount: p, CF: cfs[i],
			Commit: types.AmountCommit(new(big.Int).Div(p, unit), cfs[i])})
	}
	// self-check of the construction: the commitments must still add up to the original one
	var cs lk.KeyV
	for _, in := range tx.Inputs {
		cs = append(cs, in.(*types.AccountInput).Commit)
	}
	sum, err := ringct.AddKeyV(cs)
	if err != nil || sum != orig.Commit {
		return fmt.Errorf("splitAccountInput(%s): commitments do not add up (harness bug): %v", how, err)
	}
	return nil
}

// ---- spends of hidden outputs ------------------------------------------------------------------------------

func (x *bctx) pickInputs(w *txkit.Wallet, tok common.Address, n int) []*txkit.Owned {
	var ins []*txkit.Owned
	for _, o := range x.w.led.spendable(w, tok) {
		if !x.used[o] {
			ins = append(ins, o)
			if len(ins) == n {
				break
			}
		}
	}
	return ins
}

func (x *bctx) buildSpend(o op) (*txMeta, error) {
	w := walletOf(o.W)
	tok := x.token(o.Tok)
	nin := o.Nin
	if nin == 0 {
		nin = 1
	}
	ins := x.pickInputs(w, tok, nin)
	if len(ins) < nin {
		return nil, disabled("%s has %d spendable outputs of %s, %d wanted", o.W, len(ins), tokClass(x.w, tok), nin)
	}
	ring := o.Ring
	if ring == 0 {
		ring = 1
	}
	in := new(big.Int)
	var sources []*types.UTXOSourceEntry
	for _, i := range ins {
		s, err := x.w.led.source(i, ring)
		if err != nil {
			return nil, disabled("%v", err)
		}
		sources = append(sources, s)
		in.Add(in, i.Amount)
	}
	var payer *txkit.Account
	if tok != coinTok { // a token spend needs an account that signs and pays the fee in coins
		payer = account(o.From)
		if payer == nil {
			payer = txkit.A
		}
	}
	utxoGas := x.w.c.App().GetUTXOGas()
	m := &txMeta{Op: o, Class: "valid", Token: tok, Conf: true, Ring: ring, Spent: ins}
	if payer != nil {
		m.Payer = payer.Addr
	}

	// destination
	toWallet := strings.HasPrefix(o.To, "W")
	var payW *txkit.Wallet
	paySub := 0
	var payA common.Address
	if toWallet {
		p := strings.SplitN(o.To, ".", 2)
		payW = walletOf(p[0])
		if len(p) > 1 {
			paySub, _ = strconv.Atoi(p[1])
		}
	} else {
		a, err := x.addr(o.To)
		if err != nil {
			return nil, err
		}
		payA = a
	}
	minFee := func(accOut *big.Int, hasUOut bool) *big.Int {
		if tok == coinTok {
			return txkit.FeeUin(utxoGas, hasUOut, accOut)
		}
		g := uint64(0)
		if hasUOut {
			g += utxoGas
		}
		if accOut != nil {
			g += uint64(types.MinGasLimit)
		}
		return new(big.Int).Mul(new(big.Int).SetUint64(g), price)
	}

	declared := new(big.Int).Set(in) // what the wallet claims its inputs hold
	switch o.Kind {
	case "lie":
		extra, err := amount(o.Arg, bi(0), nil)
		if err != nil {
			return nil, err
		}
		declared.Add(declared, extra)
		sources[0].Amount = add(sources[0].Amount, extra)
		m.Inflation = extra
		m.Class, m.Why = "must-reject", "declared input amount above the spent commitment"
	}

	// amounts
	var pay, fee, change *big.Int
	var err error
	hostileVar := ""
	if o.Kind == "hostile" {
		hostileVar = o.Var
	}
	switch {
	case o.Kind == "lie" || hostileVar == "fee-uncommitted" || hostileVar == "out-of-range":
		fee = minFee(nil, true)
		pay, change = sub(declared, fee), bi(0)
		if hostileVar == "fee-uncommitted" { // outputs take everything, the fee is declared on top
			pay = new(big.Int).Set(declared)
		}
		if tok != coinTok {
			pay = new(big.Int).Set(declared)
		}
	case strings.HasPrefix(hostileVar, "wrap-aout") && tok == coinTok:
		// everything to the account, fee of the largest chargeable amount (the public amount will be huge)
		fee = gasFee(uint64(types.MaxGasLimit))
		pay, change = sub(in, fee), bi(0)
		if pay.Sign() <= 0 {
			return nil, disabled("inputs %v do not cover the capped fee %v", in, fee)
		}
	case o.Amt == "all":
		if toWallet {
			fee, err = feeAdjust(minFee(nil, true), o.Fee)
			if err != nil {
				return nil, err
			}
			pay = sub(in, fee)
		} else {
			pay, err = amount("all", in, func(a *big.Int) *big.Int { f, _ := feeAdjust(minFee(a, false), o.Fee); return f })
			if err != nil {
				return nil, disabled("%v", err)
			}
			fee = sub(in, pay)
		}
		if tok != coinTok {
			pay = new(big.Int).Set(in)
			fee, _ = feeAdjust(minFee(accOrNil(!toWallet, pay), toWallet), o.Fee)
		}
		change = bi(0)
	default:
		pay, err = amount(o.Amt, in, nil)
		if err != nil {
			return nil, disabled("%v", err)
		}
		// a change output exists unless the payment takes everything
		fee, err = feeAdjust(minFee(accOrNil(!toWallet, pay), true), o.Fee)
		if err != nil {
			return nil, err
		}
		if tok == coinTok {
			change = sub(in, add(pay, fee))
		} else {
			change = sub(in, pay)
		}
		if change.Sign() < 0 {
			// the honest constructor cannot spend more than it has: without change the fee absorbs the rest
			change = bi(0)
			if tok == coinTok {
				fee = sub(in, pay)
			}
			if pay.Cmp(in) > 0 {
				return nil, disabled("payment %v above the inputs %v (see lie)", pay, in)
			}
		}
	}
	if pay.Sign() < 0 {
		return nil, disabled("inputs %v do not cover the fee", in)
	}
	var entries []types.DestEntry
	if toWallet {
		entries = append(entries, &types.UTXODestEntry{Addr: payW.Addr(paySub), Amount: new(big.Int).Set(pay), IsSubaddress: paySub > 0})
		m.NewOuts = append(m.NewOuts, declOut{payW, paySub, pay})
	} else {
		if o.Struct == "two-aout-same" || o.Struct == "two-aout-diff" { // the payment split over two account outputs
			p1 := new(big.Int).Mul(new(big.Int).Div(new(big.Int).Div(pay, unit), bi(2)), unit)
			p2 := sub(pay, p1)
			if p1.Sign() == 0 {
				return nil, disabled("nothing to split")
			}
			to2 := payA
			if o.Struct == "two-aout-diff" {
				to2 = txkit.D.Addr
			}
			entries = append(entries, &types.AccountDestEntry{To: payA, Amount: new(big.Int).Set(p1)}, &types.AccountDestEntry{To: to2, Amount: new(big.Int).Set(p2)})
			m.AccOut, m.AccAmount = &payA, p1
			m.MoreAcc = append(m.MoreAcc, accPay{to2, p2})
		} else {
			entries = append(entries, &types.AccountDestEntry{To: payA, Amount: new(big.Int).Set(pay)})
			m.AccOut, m.AccAmount = &payA, pay
		}
	}
	// mix-ain: an account input of 5 coins NEXT TO the hidden inputs; the first hidden output takes the 5 coins
	var mixAcc *txkit.Account
	mixAmount := txkit.LKC(5)
	if o.Struct == "mix-ain" {
		if !toWallet || tok != coinTok || o.Kind != "uspend" {
			return nil, fmt.Errorf("mix-ain: honest coin spend to a wallet only")
		}
		mixAcc = account(o.From)
		if mixAcc == nil {
			mixAcc = txkit.B
		}
		m.NewOuts[0].Amount = add(pay, mixAmount)
		m.Payer, m.AinDebit = mixAcc.Addr, mixAmount
	}
	if hostileVar == "out-of-range" {
		// second output: "minus 1000 coins"; the first one commits to 1000 coins more than the constructor is told
		// (it would refuse outputs above the inputs); the commitments are made by signSpendWithAmountKeys below
		if !toWallet || tok != coinTok {
			return nil, fmt.Errorf("out-of-range: coin to wallet only")
		}
		m.NewOuts[0].Amount = add(pay, txkit.LKC(1000))
		entries = append(entries, &types.UTXODestEntry{Addr: w.Addr(1), Amount: bi(0), IsSubaddress: true})
	} else if change.Sign() > 0 {
		entries = append(entries, &types.UTXODestEntry{Addr: w.Addr(0), Amount: new(big.Int).Set(change)})
		m.NewOuts = append(m.NewOuts, declOut{w, 0, change})
	}
	m.Fee = fee

	var tx *types.UTXOTransaction
	var berr error
	x.w.seeded(func() {
		var ephs []*types.UTXOInputEphemeral
		var mkeys lk.KeyV
		if tok == coinTok {
			tx, ephs, mkeys, _, berr = types.NewUinTransaction(w.Keys(), w.Acc.KeyIndex, sources, entries, coinTok, common.EmptyAddress, nil)
		} else {
			tx, ephs, mkeys, _, berr = types.NewUinTokenTransaction(w.Keys(), w.Acc.KeyIndex, sources, entries, tok, common.EmptyAddress, fee, nil)
		}
		if berr != nil {
			return
		}
		switch hostileVar {
		case "":
		case "fee-uncommitted":
			tx.Fee = new(big.Int).Set(fee)
			m.Class, m.Why = "must-reject", "declared fee is not part of the commitment balance"
		case "aout-inflated": // the account receives 8 coins more than committed (the fee stays adequate for the new amount)
			ao := tx.Outputs[0].(*types.AccountOutput)
			ao.Amount = add(ao.Amount, txkit.LKC(8))
			m.AccAmount = ao.Amount
			m.Class, m.Why = "must-reject", "account output amount above its commitment"
		case "aout-inflated-recommit":
			ao := tx.Outputs[0].(*types.AccountOutput)
			ao.Amount = add(ao.Amount, txkit.LKC(8))
			k, e := types.BigInt2Hash(new(big.Int).Div(ao.Amount, unit))
			if e != nil {
				berr = e
				return
			}
			ao.Commit = ringct.ScalarmultH(k)
			m.AccAmount = ao.Amount
			m.Class, m.Why = "must-reject", "outputs + fee above the inputs"
		case "wrap-aout", "wrap-aout-recommit": // the account output amount moved by an offset around the group order / the encodings
			ao := tx.Outputs[0].(*types.AccountOutput)
			v, werr := wrapAmount(ao.Amount, o.Arg)
			if werr != nil {
				berr = werr
				return
			}
			ao.Amount = v
			if hostileVar == "wrap-aout-recommit" {
				ao.Commit = ringct.ScalarmultH(reducedAmountKey(v))
			}
			m.AccAmount = v
			m.Class, m.Why = "must-reject", "account output amount differs from the committed one by "+o.Arg+" units"
		case "wrap-fee": // the declared fee moved, the commitments are those of the honest fee
			v, werr := wrapFee(tx.Fee, o.Arg)
			if werr != nil {
				berr = werr
				return
			}
			tx.Fee, m.Fee = v, v
			m.Class, m.Why = "must-reject", "declared fee differs from the committed one by "+o.Arg+" units"
		case "aout-overflow":
			ao := tx.Outputs[0].(*types.AccountOutput)
			ao.Amount = add(ao.Amount, new(big.Int).Mul(new(big.Int).Lsh(bi(1), 64), unit))
			m.AccAmount = ao.Amount
			m.Class, m.Why = "must-reject", "overflow-sized account output"
		case "out-of-range":
			m.Class, m.Why = "must-reject", "hidden output amount outside the proven range (negative)"
		default:
			berr = fmt.Errorf("unknown hostile variant %q", hostileVar)
			return
		}
		if payer != nil { // the account signature is part of the prefix hash the ring signatures cover: sign first
			if berr = tx.Sign(types.GlobalSTDSigner, payer.Key); berr != nil {
				return
			}
		}
		if hostileVar == "out-of-range" {
			k0, _ := types.BigInt2Hash(new(big.Int).Div(m.NewOuts[0].Amount, unit))
			k1000, _ := types.BigInt2Hash(new(big.Int).Div(txkit.LKC(1000), unit))
			neg := ringct.ScSub(lk.EcScalar(ringct.Z), lk.EcScalar(k1000)) // L - 1000 coins (in units)
			berr = signSpendWithAmountKeys(tx, sources, ephs, lk.KeyV{k0, neg}, mkeys)
			return
		}
		if mixAcc != nil {
			cf := ringct.SkGen()
			tx.Inputs = append(tx.Inputs, &types.AccountInput{Nonce: x.peekNonce(mixAcc.Addr), Amount: new(big.Int).Set(mixAmount), CF: cf,
				Commit: types.AmountCommit(new(big.Int).Div(mixAmount, unit), cf)})
			if berr = tx.Sign(types.GlobalSTDSigner, mixAcc.Key); berr != nil {
				return
			}
			var keys lk.KeyV
			for _, out := range m.NewOuts {
				k, _ := types.BigInt2Hash(new(big.Int).Div(out.Amount, unit))
				keys = append(keys, k)
			}
			berr = signSpendWithAmountKeysMask(tx, sources, ephs, keys, mkeys, cf)
			return
		}
		berr = types.UInTransWithRctSig(tx, sources, ephs, entries, mkeys)
		if berr == nil && o.Struct == "reorder" { // inputs 0 and 1 exchanged TOGETHER WITH their proofs
			if len(tx.Inputs) < 2 {
				berr = disabled("reorder needs two inputs")
				return
			}
			tx.Inputs[0], tx.Inputs[1] = tx.Inputs[1], tx.Inputs[0]
			p := &tx.RCTSig.P
			p.PseudoOuts[0], p.PseudoOuts[1] = p.PseudoOuts[1], p.PseudoOuts[0]
			p.MGs[0], p.MGs[1] = p.MGs[1], p.MGs[0]
			p.Ss[0], p.Ss[1] = p.Ss[1], p.Ss[0]
		}
	})
	if berr != nil {
		return nil, disabled("constructor: %v", berr)
	}
	m.Tx = tx
	if mixAcc != nil {
		x.takeNonce(mixAcc.Addr)
	}
	if o.Struct != "" && m.Class == "valid" {
		m.Class = "free"
	}
	if m.Class == "valid" {
		bad := new(big.Int).Mod(fee, price).Sign() != 0 || fee.Cmp(minFee(accOrNil(!toWallet, pay), len(m.NewOuts) > 0)) < 0
		for _, out := range m.NewOuts {
			if new(big.Int).Mod(out.Amount, unit).Sign() != 0 {
				bad = true
			}
		}
		if m.AccOut != nil && (pay.Sign() == 0 || new(big.Int).Mod(pay, unit).Sign() != 0 || len(x.w.c.Code(*m.AccOut)) > 0) {
			bad = true
		}
		if bad {
			m.Class = "free"
		}
	}
	for _, i := range ins {
		x.used[i] = true
	}
	return m, nil
}

func accOrNil(isAcc bool, a *big.Int) *big.Int {
	if isAcc {
		return a
	}
	return nil
}

// signSpendWithAmountKeys is types.UInTransWithRctSig with the output amounts given as raw scalars (the repository's
// function can only express amounts below 2^64): range proof and commitments by ringct.ProveRangeBulletproof, pseudo
// outputs closing the mask balance, pre-MLSAG hash, one-member ring signatures or MLSAGs. Used for one hostile
// construction only (an output whose amount is a "negative" scalar).
func signSpendWithAmountKeys(tx *types.UTXOTransaction, sources []*types.UTXOSourceEntry, ins []*types.UTXOInputEphemeral, outAmounts lk.KeyV, mkeys lk.KeyV) error {
	return signSpendWithAmountKeysMask(tx, sources, ins, outAmounts, mkeys, ringct.Z)
}

// signSpendWithAmountKeysMask: extraInMask is the blinding factor of an account input that sits next to the hidden
// inputs (the pseudo outputs close the mask balance around it).
func signSpendWithAmountKeysMask(tx *types.UTXOTransaction, sources []*types.UTXOSourceEntry, ins []*types.UTXOInputEphemeral, outAmounts lk.KeyV, mkeys lk.KeyV, extraInMask lk.Key) error {
	if len(outAmounts) != len(mkeys) {
		return types.ErrOutsAndMkeysNotMatch
	}
	proof, commits, masks, err := ringct.ProveRangeBulletproof(outAmounts, mkeys)
	if err != nil {
		return err
	}
	proof.V = nil
	tx.RCTSig.P.Bulletproofs = append(tx.RCTSig.P.Bulletproofs, *proof)
	tx.RCTSig.OutPk = make(lk.CtkeyV, len(outAmounts))
	tx.RCTSig.EcdhInfo = make([]lk.EcdhTuple, len(outAmounts))
	sumOut := ringct.Z
	for i := range outAmounts {
		sumOut = ringct.ScAdd(lk.EcScalar(masks[i]), lk.EcScalar(sumOut))
		tx.RCTSig.OutPk[i].Mask, _ = ringct.Scalarmult8(commits[i])
		tx.RCTSig.EcdhInfo[i].Mask = masks[i]
		tx.RCTSig.EcdhInfo[i].Amount = outAmounts[i]
		if !ringct.EcdhEncode(&tx.RCTSig.EcdhInfo[i], mkeys[i], false) {
			return types.ErrEcdhEncode
		}
	}
	n := len(sources)
	inSK := make(lk.CtkeyV, n)
	rings := make(lk.CtkeyM, n)
	inAmounts := make([]lk.Key, n)
	for i, s := range sources {
		inSK[i] = lk.Ctkey{Dest: lk.Key(ins[i].SKey), Mask: s.Mask}
		rings[i] = make(lk.CtkeyV, len(s.Ring))
		for j, e := range s.Ring {
			rings[i][j] = lk.Ctkey{Dest: e.OTAddr, Mask: e.Commit}
		}
		k, err := types.BigInt2Hash(new(big.Int).Div(s.Amount, unit))
		if err != nil {
			return err
		}
		inAmounts[i] = k
	}
	tx.RCTSig.Type = uint8(lk.RCTTypeBulletproof)
	tx.RCTSig.Message = tx.PrefixHash()
	tx.RCTSig.MixRing = rings
	tx.RCTSig.P.PseudoOuts = make(lk.KeyV, n)
	tx.RCTSig.P.MGs = make([]lk.MgSig, n)
	tx.RCTSig.P.Ss = make([]lk.Signature, n)
	ra := make(lk.KeyV, n)
	sumIn := extraInMask
	for i := 0; i < n-1; i++ {
		ra[i] = ringct.SkGen()
		sumIn = ringct.ScAdd(lk.EcScalar(ra[i]), lk.EcScalar(sumIn))
		tx.RCTSig.P.PseudoOuts[i], _ = ringct.AddKeys2(ra[i], inAmounts[i], ringct.H)
	}
	ra[n-1] = ringct.ScSub(lk.EcScalar(sumOut), lk.EcScalar(sumIn))
	tx.RCTSig.P.PseudoOuts[n-1], _ = ringct.AddKeys2(ra[n-1], inAmounts[n-1], ringct.H)
	hash, err := ringct.GetPreMlsagHash(&tx.RCTSig)
	if err != nil {
		return err
	}
	for i, s := range sources {
		if len(s.Ring) == types.SHORT_RING_MEMBER_NUM {
			sig, err := xcrypto.GenerateRingSignature(lk.Hash(hash), lk.KeyImage(ins[i].KeyImage), []lk.PublicKey{lk.PublicKey(ins[i].OTAddr)}, ins[i].SKey, 0)
			if err != nil {
				return err
			}
			tx.RCTSig.P.Ss[i] = *sig
		} else {
			mg, err := ringct.ProveRctMGSimple(hash, rings[i], inSK[i], ra[i], tx.RCTSig.P.PseudoOuts[i], nil, nil, uint32(s.RingIndex))
			if err != nil {
				return err
			}
			tx.RCTSig.P.MGs[i] = *mg
		}
	}
	return nil
}
