package main

// The generator-side ledger of hidden value: what the three fixture wallets can see and spend, obtained by
// scanning committed blocks exactly like txkit.Ledger (wallet.LinkAccount.processNewTransaction): derivations,
// ownership test, key image, ECDH decoding and the "decoded amount opens the commitment" check are txkit.ScanTx.
// Re-implemented here only because the search needs a cloneable ledger (snapshots of the base state).

import (
	"fmt"
	"math/big"
	"sort"

	"verif/txkit"

	"github.com/lianxiangcloud/linkchain/libs/common"
	lk "github.com/lianxiangcloud/linkchain/libs/cryptonote/types"
	"github.com/lianxiangcloud/linkchain/types"
)

type ledger struct {
	outs   map[common.Address][]*types.UTXOOutputData // per token; index = UtxoStore sequence
	owned  []*txkit.Owned                             // discovery order
	images map[lk.Key]int
	next   uint64
}

func newLedger() *ledger {
	return &ledger{outs: map[common.Address][]*types.UTXOOutputData{}, images: map[lk.Key]int{}, next: 1}
}

func (l *ledger) clone() *ledger {
	n := newLedger()
	n.next = l.next
	for t, o := range l.outs {
		n.outs[t] = append([]*types.UTXOOutputData{}, o...)
	}
	for k, v := range l.images {
		n.images[k] = v
	}
	for _, o := range l.owned {
		cp := *o
		cp.Amount = new(big.Int).Set(o.Amount)
		n.owned = append(n.owned, &cp)
	}
	return n
}

func (l *ledger) sync(c txkit.ChainReader) {
	for ; l.next <= c.Height(); l.next++ {
		b := c.LoadBlock(l.next)
		if b == nil {
			panic(fmt.Sprintf("c06: block %d missing", l.next))
		}
		l.scanBlock(b)
	}
}

func (l *ledger) scanBlock(b *types.Block) {
	for _, t := range b.Data.Txs {
		tx, ok := t.(*types.UTXOTransaction)
		if !ok {
			continue
		}
		for _, ki := range tx.GetInputKeyImages() {
			l.images[*ki]++
			for _, o := range l.owned {
				if o.KeyImage == *ki && !o.Spent {
					o.Spent, o.SpentAt = true, b.Height
				}
			}
		}
		first := uint64(len(l.outs[tx.TokenID]))
		l.outs[tx.TokenID] = append(l.outs[tx.TokenID], tx.GetOutputData(b.Height)...)
		for _, w := range txkit.Wallets() {
			for _, o := range txkit.ScanTx(w, tx, first) {
				o.Height = b.Height
				if l.images[o.KeyImage] > 0 {
					o.Spent = true
				}
				l.owned = append(l.owned, o)
			}
		}
	}
}

// spendable: unspent outputs of w for token, oldest first.
func (l *ledger) spendable(w *txkit.Wallet, token common.Address) []*txkit.Owned {
	var out []*txkit.Owned
	for _, o := range l.owned {
		if o.Wallet == w && !o.Spent && o.Token == token {
			out = append(out, o)
		}
	}
	return out
}

// unspent: the hidden-ledger term of the conservation equation.
func (l *ledger) unspent(token common.Address) *big.Int {
	sum := new(big.Int)
	for _, o := range l.owned {
		if !o.Spent && o.Token == token {
			sum.Add(sum, o.Amount)
		}
	}
	return sum
}

func (l *ledger) tokens() []common.Address {
	var ts []common.Address
	for t := range l.outs {
		ts = append(ts, t)
	}
	sort.Slice(ts, func(i, j int) bool { return ts[i].Hex() < ts[j].Hex() })
	return ts
}

// ownedCount: outputs of token attributed to some wallet. Every output the generator creates goes to a fixture
// wallet, so ownedCount == len(outs[token]) unless the chain accepted an output nobody can open.
func (l *ledger) ownedCount(token common.Address) int {
	n := 0
	for _, o := range l.owned {
		if o.Token == token {
			n++
		}
	}
	return n
}

// source builds the UTXOSourceEntry spending o with a ring of ringSize (o + lowest-indexed other outputs).
func (l *ledger) source(o *txkit.Owned, ringSize int) (*types.UTXOSourceEntry, error) {
	outs := l.outs[o.Token]
	if ringSize < 1 {
		ringSize = 1
	}
	if ringSize > len(outs) {
		return nil, fmt.Errorf("ring of %d wanted, chain has %d outputs", ringSize, len(outs))
	}
	ring := []uint64{o.Global}
	for g := uint64(0); len(ring) < ringSize; g++ {
		if g != o.Global {
			ring = append(ring, g)
		}
	}
	sort.Slice(ring, func(i, j int) bool { return ring[i] < ring[j] })
	s := &types.UTXOSourceEntry{RKey: o.RKey, OutIndex: o.OutIndex, Amount: new(big.Int).Set(o.Amount), Mask: o.Mask}
	for j, g := range ring {
		if g == o.Global {
			s.RingIndex = uint64(j)
		}
		s.Ring = append(s.Ring, types.UTXORingEntry{Index: g, OTAddr: outs[g].OTAddr, Commit: outs[g].Commit})
	}
	return s, nil
}

// key: canonical text of the hidden side of a state (per token: every output in global order with its owner,
// amount and spent flag).
func (l *ledger) key() string {
	s := ""
	for _, t := range l.tokens() {
		s += "T" + short(t) + fmt.Sprintf("#%d[", len(l.outs[t]))
		var os []*txkit.Owned
		for _, o := range l.owned {
			if o.Token == t {
				os = append(os, o)
			}
		}
		sort.Slice(os, func(i, j int) bool { return os[i].Global < os[j].Global })
		for _, o := range os {
			sp := 0
			if o.Spent {
				sp = 1
			}
			s += fmt.Sprintf("%d:%s.%d=%s/%d;", o.Global, o.Wallet.Name, o.SubIdx, o.Amount, sp)
		}
		s += "]"
	}
	return s
}
