package main

// The alphabets. "sweep" = the full (kind x amount x fee) input enumeration as one-transaction blocks;
// "hist-*" = small alphabets for the search over chains of blocks.

import (
	"encoding/json"
	"fmt"
	"time"
)

var (
	amtsAccount = []string{"0", "1", "unit", "unit+1", "1c", "all", "bal", "bal+1", "ovf", "max256"}
	amtsHidden  = []string{"0", "1", "unit", "unit+1", "10c", "all", "bal"}
	feesConf    = []string{"min+price", "min+unit", "min-price", "zero"}
)

func sweepOps() []op {
	var o []op
	// ---- account side ------------------------------------------------------------------------------------
	for _, a := range amtsAccount {
		o = append(o, op{Kind: "xfer", From: "A", To: "B", Amt: a})
	}
	o = append(o,
		op{Kind: "xfer", From: "A", To: "B", Amt: "1c", Gas: "+1"},
		op{Kind: "xfer", From: "A", To: "B", Amt: "1c", Gas: "-1"},
		op{Kind: "xfer", From: "A", To: "D", Amt: "1c"},
		op{Kind: "xfer", From: "A", To: "zero", Amt: "1c"},
		op{Kind: "xfer", From: "B", To: "X:vault", Amt: "1c"},
		op{Kind: "xfer", From: "A", To: "A", Amt: "1c"},
	)
	for _, a := range []string{"0", "1", "7c", "bal", "bal+1", "max256"} {
		o = append(o, op{Kind: "tokxfer", From: "A", To: "B", Tok: "gen", Amt: a})
	}
	o = append(o,
		op{Kind: "tokxfer", From: "A", To: "B", Tok: "gen", Amt: "7c", Gas: "+1"},
		op{Kind: "tokxfer", From: "B", To: "X:vault", Tok: "gen", Amt: "3c"},
		op{Kind: "tokxfer", From: "A", To: "B", Tok: "iss", Amt: "5c"},
		op{Kind: "tokxfer", From: "A", To: "D", Tok: "iss", Amt: "bal"},
		op{Kind: "tokxfer", From: "A", To: "B", Tok: "coin", Amt: "1c"}, // the coin through the token path
	)
	for _, c := range []string{"store", "vault", "issuer", "revinit", "badinit"} {
		o = append(o, op{Kind: "create", From: "A", Code: c, Amt: "0"}, op{Kind: "create", From: "A", Code: c, Amt: "2c"})
	}
	o = append(o, op{Kind: "create", From: "A", Code: "vault", Amt: "bal+1"}, op{Kind: "create", From: "A", Code: "vault", Amt: "1"})
	for _, t := range []string{"store", "reverter", "vault-deposit", "vault-destruct:D", "vault-destruct:self", "vault-destruct:B"} {
		for _, a := range []string{"0", "1", "3c"} {
			o = append(o, op{Kind: "call", From: "C", To: t, Amt: a})
		}
	}
	o = append(o,
		op{Kind: "call", From: "C", To: "store", Amt: "bal+1"},
		op{Kind: "call", From: "C", To: "store", Amt: "3c", Gas: "low"},
		op{Kind: "call", From: "C", To: "vault-destruct:self", Amt: "3c", Gas: "low"},
	)
	// gas-limit boundaries of value-carrying calls and creations (see vmGasClasses)
	for _, g := range vmGasClasses {
		o = append(o,
			op{Kind: "call", From: "C", To: "store", Amt: "3c", Gas: g},
			op{Kind: "call", From: "C", To: "store", Amt: "100c", Gas: g},
			op{Kind: "call", From: "C", To: "reverter", Amt: "3c", Gas: g},
			op{Kind: "call", From: "C", To: "vault-deposit", Amt: "3c", Gas: g},
			op{Kind: "call", From: "C", To: "vault-destruct:D", Amt: "3c", Gas: g},
			op{Kind: "create", From: "A", Code: "vault", Amt: "2c", Gas: g},
			op{Kind: "create", From: "A", Code: "revinit", Amt: "2c", Gas: g},
			op{Kind: "create", From: "A", Code: "vault", Amt: "100c", Gas: g},
			op{Kind: "tokcall", From: "C", Tok: "coin", To: "vault-deposit", Amt: "3c", Gas: g},
			op{Kind: "tokcall", From: "C", Tok: "gen", To: "vault-deposit", Amt: "3c", Gas: g},
		)
	}
	o = append(o, op{Kind: "call", From: "C", To: "store", Amt: "0", Gas: "ig"}, op{Kind: "call", From: "C", To: "store", Amt: "0", Gas: "ig+1"},
		op{Kind: "create", From: "A", Code: "vault", Amt: "0", Gas: "ig"}, op{Kind: "create", From: "A", Code: "vault", Amt: "0", Gas: "ig+1"})
	for _, q := range []string{"0", "1", "250c", "max256"} {
		o = append(o, op{Kind: "call", From: "B", To: "issuer-issue", Amt: "0", Arg: q})
	}
	o = append(o, op{Kind: "call", From: "B", To: "issuer-issue", Amt: "3c", Arg: "250c"})
	for _, t := range []string{"store", "reverter", "vault-deposit", "vault-destruct:D", "vault-destruct:self"} {
		o = append(o, op{Kind: "tokcall", From: "C", Tok: "gen", To: t, Amt: "3c"})
	}
	o = append(o, op{Kind: "tokcall", From: "A", Tok: "iss", To: "vault-deposit", Amt: "3c"}, op{Kind: "tokcall", From: "C", Tok: "gen", To: "reverter", Amt: "bal+1"})

	o = append(o, op{Kind: "multisign"}, op{Kind: "upgrade", From: "A"}, op{Kind: "upgrade", From: "C"})

	// ---- account -> confidential --------------------------------------------------------------------------
	for _, a := range []string{"0", "1", "unit", "unit+1", "50c", "all", "bal", "bal+1"} {
		o = append(o, op{Kind: "ain", From: "B", Tok: "coin", Dests: []dest{{"W1", 0, a}}, Fee: "min"})
	}
	for _, f := range feesConf {
		o = append(o, op{Kind: "ain", From: "B", Tok: "coin", Dests: []dest{{"W1", 0, "50c"}}, Fee: f})
	}
	o = append(o,
		op{Kind: "ain", From: "B", Tok: "coin", Dests: []dest{{"W1", 1, "20c"}, {"W2", 2, "unit"}}, Fee: "min"},
		op{Kind: "ain", From: "B", Tok: "coin", Dests: []dest{{"W1", 1, "20c"}, {"W2", 2, "unit+1"}}, Fee: "min"},
		op{Kind: "ain", From: "B", Tok: "coin", Dests: []dest{{"W0", 0, "1c"}, {"W1", 1, "2c"}, {"W2", 2, "3c"}}, Fee: "min+price"},
	)
	for _, a := range []string{"unit", "unit+1", "10c", "bal", "bal+unit"} {
		o = append(o, op{Kind: "ain", From: "A", Tok: "iss", Dests: []dest{{"W2", 0, a}}, Fee: "min"})
	}
	o = append(o,
		op{Kind: "ain", From: "A", Tok: "iss", Dests: []dest{{"W2", 0, "10c"}}, Fee: "min+price"},
		op{Kind: "ain", From: "A", Tok: "iss", Dests: []dest{{"W2", 0, "10c"}}, Fee: "min-price"},
		op{Kind: "ain", From: "A", Tok: "iss", Dests: []dest{{"W2", 0, "10c"}}, Fee: "min+unit"},
		op{Kind: "ain", From: "A", Tok: "gen", Dests: []dest{{"W2", 0, "10c"}}, Fee: "min"}, // a token without a contract (no decimals)
	)
	// ---- spends of hidden outputs -------------------------------------------------------------------------
	for _, ring := range []int{1, 3} {
		for _, a := range amtsHidden {
			o = append(o, op{Kind: "uspend", W: "W0", Tok: "coin", Ring: ring, To: "W1.1", Amt: a, Fee: "min"})
			o = append(o, op{Kind: "uspend", W: "W0", Tok: "coin", Ring: ring, To: "C", Amt: a, Fee: "min"})
		}
		for _, f := range feesConf {
			o = append(o, op{Kind: "uspend", W: "W0", Tok: "coin", Ring: ring, To: "W1.1", Amt: "10c", Fee: f})
			o = append(o, op{Kind: "uspend", W: "W0", Tok: "coin", Ring: ring, To: "C", Amt: "10c", Fee: f})
		}
		o = append(o,
			op{Kind: "uspend", W: "W0", Tok: "coin", Ring: ring, Nin: 2, To: "W1.1", Amt: "10c", Fee: "min"},
			op{Kind: "uspend", W: "W0", Tok: "coin", Ring: ring, Nin: 2, To: "C", Amt: "all", Fee: "min"},
			op{Kind: "uspend", W: "W0", Tok: "coin", Ring: ring, To: "D", Amt: "10c", Fee: "min"},
			op{Kind: "uspend", W: "W0", Tok: "coin", Ring: ring, To: "reverter", Amt: "10c", Fee: "min"}, // account output = contract
			op{Kind: "uspend", W: "W0", Tok: "coin", Ring: ring, To: "X:vault", Amt: "10c", Fee: "min"},
			op{Kind: "uspend", W: "W1", Tok: "coin", Ring: ring, To: "W2.0", Amt: "all", Fee: "min"},
		)
		for _, a := range []string{"unit", "unit+1", "5c", "all"} {
			o = append(o, op{Kind: "uspend", W: "W0", Tok: "iss", From: "A", Ring: ring, To: "W1.1", Amt: a, Fee: "min"})
			o = append(o, op{Kind: "uspend", W: "W0", Tok: "iss", From: "A", Ring: ring, To: "C", Amt: a, Fee: "min"})
		}
		o = append(o,
			op{Kind: "uspend", W: "W0", Tok: "iss", From: "A", Ring: ring, To: "W1.1", Amt: "5c", Fee: "min-price"},
			op{Kind: "uspend", W: "W0", Tok: "iss", From: "D", Ring: ring, To: "W1.1", Amt: "5c", Fee: "min"}, // fee payer without coins
		)
		// ---- hostile constructions by the owner of the inputs ---------------------------------------------
		for _, x := range []string{"unit", "1000c", "ovf"} {
			o = append(o, op{Kind: "lie", W: "W0", Tok: "coin", Ring: ring, To: "W2.0", Arg: x})
		}
		o = append(o,
			op{Kind: "lie", W: "W0", Tok: "coin", Ring: ring, Nin: 2, To: "W2.0", Arg: "1000c"},
			op{Kind: "lie", W: "W0", Tok: "iss", From: "A", Ring: ring, To: "W2.0", Arg: "1000c"},
			op{Kind: "hostile", Var: "fee-uncommitted", W: "W0", Tok: "coin", Ring: ring, To: "W2.0"},
			op{Kind: "hostile", Var: "out-of-range", W: "W0", Tok: "coin", Ring: ring, To: "W2.0"},
			op{Kind: "hostile", Var: "aout-inflated", W: "W0", Tok: "coin", Ring: ring, To: "C", Amt: "1c", Fee: "min"},
			op{Kind: "hostile", Var: "aout-inflated-recommit", W: "W0", Tok: "coin", Ring: ring, To: "C", Amt: "1c", Fee: "min"},
			op{Kind: "hostile", Var: "aout-overflow", W: "W0", Tok: "coin", Ring: ring, To: "C", Amt: "10c", Fee: "min"},
		)
	}
	o = append(o, hostileAin()...)
	o = append(o, structuralOps(true)...)
	o = append(o, op{Kind: "ain", From: "E", Tok: "coin", Dests: []dest{{"W1", 0, "50c"}}, Fee: "cap"}) // the honest base of the whale's variants
	o = append(o, wrapOps(true)...)
	o = append(o, wordWrapOps(true)...)
	return o
}

// wrapOps: every PUBLIC amount that enters the commitment equation (account input amount, account output amount, fee)
// moved by every offset of wrapOffsets, by the owner of the keys (everything else of the transaction is genuine).
// hidden=false: only the account-input side (needs no hidden output).
func wrapOps(hidden bool) []op {
	var o []op
	base := op{Kind: "hostile", From: "E", Tok: "coin", Dests: []dest{{"W1", 0, "50c"}}, Fee: "cap"}
	for _, arg := range wrapOffsets {
		for _, v := range []string{"wrap-ain", "wrap-ain-recommit", "wrap-fee"} {
			x := base
			x.Var, x.Arg = v, arg
			o = append(o, x)
		}
	}
	if !hidden {
		return o
	}
	for _, ring := range []int{1, 3} {
		for _, arg := range wrapOffsets {
			o = append(o,
				op{Kind: "hostile", Var: "wrap-aout", Arg: arg, W: "W0", Tok: "coin", Ring: ring, Nin: 3, To: "C", Amt: "all"},
				op{Kind: "hostile", Var: "wrap-aout-recommit", Arg: arg, W: "W0", Tok: "coin", Ring: ring, Nin: 3, To: "C", Amt: "all"},
				op{Kind: "hostile", Var: "wrap-fee", Arg: arg, W: "W0", Tok: "coin", Ring: ring, To: "W2.0", Amt: "all", Fee: "min"},
				op{Kind: "hostile", Var: "wrap-aout", Arg: arg, W: "W0", Tok: "iss", From: "A", Ring: ring, To: "C", Amt: "5c", Fee: "min"},
			)
		}
	}
	return o
}

// wordWrapOps: every account-signed kind, sent by the whale (so that no balance check masks anything), honest and with
// the gas price resp. the amount moved by each machine-word offset. vm=false: only what needs no contract (genesis level).
func wordWrapOps(vm bool) []op {
	bases := []op{
		{Kind: "xfer", From: "E", To: "B", Amt: "1c"},
		{Kind: "tokxfer", From: "E", To: "B", Tok: "gen", Amt: "7c"},
		{Kind: "tokxfer", From: "E", To: "B", Tok: "coin", Amt: "1c"},
	}
	if vm {
		bases = append(bases,
			op{Kind: "create", From: "E", Code: "vault", Amt: "2c"},
			op{Kind: "call", From: "E", To: "store", Amt: "3c"},
			op{Kind: "call", From: "E", To: "reverter", Amt: "3c"},
			op{Kind: "tokcall", From: "E", Tok: "gen", To: "vault-deposit", Amt: "3c"},
		)
	}
	var o []op
	for _, b := range bases {
		o = append(o, b)
		for _, w := range wordWraps {
			p, a := b, b
			p.Price, a.AmtWrap = w, w
			o = append(o, p, a)
		}
	}
	return o
}

// ainStructs: structural variants of the account input (splitAccountInput) + account input with an account output.
var ainStructs = []string{"split", "split-rev", "split3", "dup", "extra-zero", "zero-first", "extra-unit", "plus-aout"}

// structuralOps: every structural variant over several honest transactions. hidden=false: only what needs no hidden
// output (the genesis-level search).
func structuralOps(hidden bool) []op {
	var o []op
	bases := []op{
		{Kind: "ain", From: "B", Tok: "coin", Dests: []dest{{"W1", 0, "50c"}}, Fee: "min"},
		{Kind: "ain", From: "B", Tok: "coin", Dests: []dest{{"W1", 1, "20c"}, {"W2", 2, "unit"}}, Fee: "min+price"},
		{Kind: "ain", From: "C", Tok: "coin", Dests: []dest{{"W0", 0, "1c"}, {"W1", 1, "2c"}, {"W2", 2, "3c"}}, Fee: "min"},
	}
	if hidden {
		bases = append(bases, op{Kind: "ain", From: "A", Tok: "iss", Dests: []dest{{"W2", 0, "10c"}}, Fee: "min"},
			op{Kind: "ain", From: "B", Tok: "coin", Dests: []dest{{"W1", 0, "all"}}, Fee: "min"})
	}
	for _, b := range bases {
		for _, st := range ainStructs {
			v := b
			v.Struct = st
			o = append(o, v)
		}
	}
	if !hidden {
		return o
	}
	for _, ring := range []int{1, 3} {
		o = append(o,
			op{Kind: "uspend", W: "W0", Tok: "coin", Ring: ring, To: "C", Amt: "10c", Fee: "min", Struct: "two-aout-same"},
			op{Kind: "uspend", W: "W0", Tok: "coin", Ring: ring, To: "C", Amt: "10c", Fee: "min", Struct: "two-aout-diff"},
			op{Kind: "uspend", W: "W0", Tok: "coin", Ring: ring, To: "C", Amt: "all", Fee: "min", Struct: "two-aout-diff"},
			op{Kind: "uspend", W: "W0", Tok: "iss", From: "A", Ring: ring, To: "C", Amt: "5c", Fee: "min", Struct: "two-aout-same"},
			op{Kind: "uspend", W: "W0", Tok: "coin", Ring: ring, From: "B", To: "W1.1", Amt: "10c", Fee: "min", Struct: "mix-ain"},
			op{Kind: "uspend", W: "W0", Tok: "coin", Ring: ring, Nin: 2, To: "W1.1", Amt: "10c", Fee: "min", Struct: "reorder"},
			op{Kind: "uspend", W: "W0", Tok: "coin", Ring: ring, Nin: 2, To: "C", Amt: "all", Fee: "min", Struct: "reorder"},
		)
	}
	return o
}

func hostileAin() []op {
	var o []op
	for _, v := range []string{"ain-deflated", "ain-deflated-recommit", "ain-overflow", "ain-fee-uncommitted"} {
		o = append(o, op{Kind: "hostile", Var: v, From: "B", Tok: "coin", Dests: []dest{{"W1", 0, "50c"}}, Fee: "min"})
	}
	return o
}

// genesisOps: what needs no prepared state (no contract, no hidden output): run on the raw genesis state BEFORE the base
// state is built, so that a tree on which the setup itself cannot run still gets its hostile account inputs judged.
func genesisOps() []op {
	o := []op{
		{Kind: "xfer", From: "A", To: "B", Amt: "1c"},
		{Kind: "ain", From: "B", Tok: "coin", Dests: []dest{{"W1", 0, "50c"}}, Fee: "min"},
		{Kind: "ain", From: "B", Tok: "coin", Dests: []dest{{"W1", 1, "20c"}, {"W2", 2, "unit"}}, Fee: "min+price"},
		{Kind: "ain", From: "B", Tok: "coin", Dests: []dest{{"W1", 0, "unit+1"}}, Fee: "min"},
		{Kind: "ain", From: "B", Tok: "coin", Dests: []dest{{"W1", 0, "50c"}}, Fee: "min+unit"},
	}
	o = append(o, hostileAin()...)
	o = append(o, structuralOps(false)...)
	o = append(o, op{Kind: "ain", From: "E", Tok: "coin", Dests: []dest{{"W1", 0, "50c"}}, Fee: "cap"})
	o = append(o, wrapOps(false)...)
	return append(o, wordWrapOps(false)...)
}

func histAcct(quick bool) []op {
	o := histAcctCore()
	if !quick {
		o = append(o,
			op{Kind: "xfer", From: "C", To: "D", Amt: "all"},
			op{Kind: "xfer", From: "B", To: "Y:vault", Amt: "1c"}, // a plain transfer to what became a contract in this block
		)
	}
	return o
}

func histAcctCore() []op {
	return []op{
		{Kind: "xfer", From: "A", To: "B", Amt: "1c"},
		{Kind: "tokxfer", From: "B", To: "X:vault", Tok: "gen", Amt: "3c"},
		{Kind: "create", From: "A", Code: "vault", Amt: "2c"},
		{Kind: "call", From: "C", To: "reverter", Amt: "3c"},
		{Kind: "call", From: "C", To: "vault-deposit", Amt: "3c"},
		{Kind: "call", From: "B", To: "vault-destruct:D", Amt: "1c"},
		{Kind: "call", From: "B", To: "vault-destruct:self", Amt: "1c"},
		{Kind: "call", From: "B", To: "issuer-issue", Amt: "0", Arg: "250c"},
		{Kind: "call", From: "C", To: "vault-deposit", Amt: "3c", Gas: "tf"}, // admitted, cannot pay intrinsic gas + transfer fee
	}
}

func histConf() []op {
	return []op{
		{Kind: "ain", From: "B", Tok: "coin", Dests: []dest{{"W1", 0, "80c"}}, Fee: "min"},
		{Kind: "uspend", W: "W0", Tok: "coin", Ring: 1, To: "W1.1", Amt: "10c", Fee: "min"},
		{Kind: "uspend", W: "W0", Tok: "coin", Ring: 3, To: "W1.1", Amt: "10c", Fee: "min+price"},
		{Kind: "uspend", W: "W0", Tok: "coin", Ring: 1, To: "C", Amt: "all", Fee: "min"},
		{Kind: "uspend", W: "W1", Tok: "coin", Ring: 3, To: "C", Amt: "10c", Fee: "min"},
		{Kind: "uspend", W: "W0", Tok: "coin", Ring: 3, Nin: 2, To: "W2.2", Amt: "all", Fee: "min"},
		{Kind: "lie", W: "W0", Tok: "coin", Ring: 3, To: "W2.0", Arg: "1000c"},
		{Kind: "hostile", Var: "fee-uncommitted", W: "W1", Tok: "coin", Ring: 3, To: "W2.0"},
		{Kind: "ain", From: "C", Tok: "coin", Dests: []dest{{"W2", 1, "40c"}}, Fee: "min", Struct: "split-rev"}, // two account inputs
	}
}

func histToken() []op {
	return []op{
		{Kind: "ain", From: "A", Tok: "iss", Dests: []dest{{"W2", 0, "10c"}}, Fee: "min"},
		{Kind: "uspend", W: "W0", Tok: "iss", From: "A", Ring: 1, To: "W1.1", Amt: "5c", Fee: "min"},
		{Kind: "uspend", W: "W0", Tok: "iss", From: "B", Ring: 3, To: "C", Amt: "all", Fee: "min"},
		{Kind: "call", From: "B", To: "issuer-issue", Amt: "0", Arg: "250c"},
		{Kind: "tokxfer", From: "A", To: "B", Tok: "iss", Amt: "5c"},
		{Kind: "tokcall", From: "A", Tok: "iss", To: "vault-deposit", Amt: "3c"},
		{Kind: "call", From: "C", To: "vault-destruct:self", Amt: "0"},
		{Kind: "lie", W: "W0", Tok: "iss", From: "A", Ring: 3, To: "W2.0", Arg: "1000c"},
	}
}

func histMixed() []op {
	return []op{
		{Kind: "xfer", From: "A", To: "B", Amt: "all"},
		{Kind: "ain", From: "A", Tok: "coin", Dests: []dest{{"W1", 0, "50c"}, {"W2", 1, "unit"}}, Fee: "min"},
		{Kind: "uspend", W: "W0", Tok: "coin", Ring: 3, To: "A", Amt: "10c", Fee: "min"},
		{Kind: "create", From: "A", Code: "reverter", Amt: "0"},
		{Kind: "uspend", W: "W0", Tok: "coin", Ring: 3, To: "Y:reverter", Amt: "10c", Fee: "min"}, // pays the contract created just before
		{Kind: "call", From: "C", To: "vault-destruct:D", Amt: "0"},
		{Kind: "call", From: "A", To: "vault-deposit", Amt: "3c"},
		{Kind: "lie", W: "W0", Tok: "coin", Ring: 1, To: "W2.0", Arg: "1000c"},
	}
}

// ---- thorough tier: chains of 3 blocks ------------------------------------------------------------------------

type named struct {
	name string
	ops  []op
	trie bool
}

// deep*: <= 3 blocks x <= 3 txs over 3-4 ops
func deepFamilies() []named {
	return []named{
		{"deep-acct", []op{
			{Kind: "call", From: "C", To: "vault-deposit", Amt: "3c"},
			{Kind: "call", From: "B", To: "vault-destruct:self", Amt: "1c"},
			{Kind: "xfer", From: "C", To: "D", Amt: "all"},
			{Kind: "tokcall", From: "C", Tok: "gen", To: "vault-deposit", Amt: "3c"},
		}, true},
		{"deep-conf", []op{
			{Kind: "ain", From: "B", Tok: "coin", Dests: []dest{{"W1", 0, "80c"}}, Fee: "min"},
			{Kind: "uspend", W: "W0", Tok: "coin", Ring: 3, To: "W1.1", Amt: "10c", Fee: "min"},
			{Kind: "uspend", W: "W1", Tok: "coin", Ring: 1, To: "C", Amt: "all", Fee: "min"},
		}, false},
		{"deep-token", []op{
			{Kind: "ain", From: "A", Tok: "iss", Dests: []dest{{"W2", 0, "10c"}}, Fee: "min"},
			{Kind: "uspend", W: "W0", Tok: "iss", From: "B", Ring: 3, To: "C", Amt: "all", Fee: "min"},
			{Kind: "call", From: "B", To: "issuer-issue", Amt: "0", Arg: "250c"},
			{Kind: "tokcall", From: "A", Tok: "iss", To: "vault-destruct:self", Amt: "3c"},
		}, true},
		{"deep-mixed", []op{
			{Kind: "uspend", W: "W0", Tok: "coin", Ring: 3, To: "A", Amt: "10c", Fee: "min"},
			{Kind: "xfer", From: "A", To: "B", Amt: "all"},
			{Kind: "ain", From: "A", Tok: "coin", Dests: []dest{{"W1", 0, "50c"}, {"W2", 1, "unit"}}, Fee: "min"},
		}, false},
	}
}

// long*: <= 3 blocks x <= 2 txs over 5 ops
func longFamilies() []named {
	return []named{
		{"long-acct", []op{
			{Kind: "xfer", From: "A", To: "B", Amt: "1c"},
			{Kind: "create", From: "A", Code: "vault", Amt: "2c"},
			{Kind: "call", From: "C", To: "vault-deposit", Amt: "3c"},
			{Kind: "call", From: "B", To: "vault-destruct:D", Amt: "1c"},
			{Kind: "tokcall", From: "C", Tok: "gen", To: "vault-deposit", Amt: "3c"},
		}, false},
		{"long-conf", []op{
			{Kind: "ain", From: "B", Tok: "coin", Dests: []dest{{"W1", 0, "80c"}}, Fee: "min"},
			{Kind: "uspend", W: "W0", Tok: "coin", Ring: 1, To: "W1.1", Amt: "10c", Fee: "min"},
			{Kind: "uspend", W: "W0", Tok: "coin", Ring: 3, To: "C", Amt: "all", Fee: "min"},
			{Kind: "uspend", W: "W1", Tok: "coin", Ring: 3, Nin: 2, To: "W2.2", Amt: "all", Fee: "min"},
			{Kind: "lie", W: "W1", Tok: "coin", Ring: 3, To: "W2.0", Arg: "1000c"},
		}, true},
		{"long-token", []op{
			{Kind: "ain", From: "A", Tok: "iss", Dests: []dest{{"W2", 0, "10c"}}, Fee: "min"},
			{Kind: "uspend", W: "W0", Tok: "iss", From: "A", Ring: 1, To: "W1.1", Amt: "5c", Fee: "min"},
			{Kind: "uspend", W: "W0", Tok: "iss", From: "B", Ring: 3, To: "C", Amt: "all", Fee: "min"},
			{Kind: "call", From: "B", To: "issuer-issue", Amt: "0", Arg: "250c"},
			{Kind: "tokxfer", From: "A", To: "B", Tok: "iss", Amt: "5c"},
		}, false},
		{"long-mixed", []op{
			{Kind: "xfer", From: "A", To: "B", Amt: "all"},
			{Kind: "ain", From: "A", Tok: "coin", Dests: []dest{{"W1", 0, "50c"}, {"W2", 1, "unit"}}, Fee: "min"},
			{Kind: "uspend", W: "W0", Tok: "coin", Ring: 3, To: "A", Amt: "10c", Fee: "min"},
			{Kind: "call", From: "C", To: "vault-destruct:self", Amt: "0"},
			{Kind: "hostile", Var: "fee-uncommitted", W: "W0", Tok: "coin", Ring: 3, To: "W2.0"},
		}, true},
	}
}

// histAll: <= 2 blocks x <= 2 txs over one op of (almost) every kind: the cross-kind interactions (thorough tier).
func histAll() []op {
	return []op{
		{Kind: "xfer", From: "A", To: "B", Amt: "1c"},
		{Kind: "tokxfer", From: "B", To: "X:vault", Tok: "gen", Amt: "3c"},
		{Kind: "create", From: "A", Code: "vault", Amt: "2c"},
		{Kind: "call", From: "C", To: "vault-deposit", Amt: "3c"},
		{Kind: "call", From: "B", To: "vault-destruct:D", Amt: "1c"},
		{Kind: "call", From: "C", To: "vault-destruct:self", Amt: "0"},
		{Kind: "call", From: "B", To: "issuer-issue", Amt: "0", Arg: "250c"},
		{Kind: "call", From: "C", To: "reverter", Amt: "3c"},
		{Kind: "ain", From: "B", Tok: "coin", Dests: []dest{{"W1", 0, "80c"}}, Fee: "min"},
		{Kind: "ain", From: "A", Tok: "iss", Dests: []dest{{"W2", 0, "10c"}}, Fee: "min"},
		{Kind: "uspend", W: "W0", Tok: "coin", Ring: 1, To: "W1.1", Amt: "10c", Fee: "min"},
		{Kind: "uspend", W: "W0", Tok: "coin", Ring: 3, To: "C", Amt: "all", Fee: "min"},
		{Kind: "uspend", W: "W0", Tok: "iss", From: "B", Ring: 3, To: "C", Amt: "all", Fee: "min"},
		{Kind: "uspend", W: "W1", Tok: "coin", Ring: 3, To: "Y:vault", Amt: "10c", Fee: "min"},
		{Kind: "lie", W: "W0", Tok: "coin", Ring: 3, To: "W2.0", Arg: "1000c"},
		{Kind: "hostile", Var: "fee-uncommitted", W: "W1", Tok: "coin", Ring: 3, To: "W2.0"},
	}
}

func families(quick bool) map[string]*family {
	m := map[string]*family{}
	addf := func(f *family) { m[f.Name] = f }
	addf(&family{Name: "genesis-flat", Trie: false, Genesis: true, Ops: genesisOps(), MaxTx: 1, Depth: 1, Tampers: true, TamperDepth: 1})
	addf(&family{Name: "genesis-trie", Trie: true, Genesis: true, Ops: genesisOps(), MaxTx: 1, Depth: 1, Tampers: true, TamperDepth: 1})
	sw := sweepOps()
	addf(&family{Name: "sweep-flat", Trie: false, Ops: sw, MaxTx: 1, Depth: 1, Tampers: true, TamperDepth: 1})
	addf(&family{Name: "sweep-trie", Trie: true, Ops: sw, MaxTx: 1, Depth: 1, Tampers: true, TamperDepth: 1})
	hs := []named{{"hist-acct", histAcct(quick), false}, {"hist-conf", histConf(), true}, {"hist-token", histToken(), false}, {"hist-mixed", histMixed(), true}}
	for _, x := range hs {
		if quick {
			addf(&family{Name: x.name, Trie: x.trie, Ops: x.ops, MaxTx: 2, Depth: 2, Tampers: true, TamperDepth: 2})
		} else {
			for _, trie := range []bool{false, true} {
				mode := "-flat"
				if trie {
					mode = "-trie"
				}
				addf(&family{Name: x.name + mode, Trie: trie, Ops: x.ops, MaxTx: 2, Depth: 2, Tampers: true, TamperDepth: 2})
			}
		}
	}
	if !quick {
		addf(&family{Name: "hist-all-flat", Trie: false, Ops: histAll(), MaxTx: 2, Depth: 2, Tampers: true, TamperDepth: 1, Budget: 8 * time.Minute})
		addf(&family{Name: "hist-all-trie", Trie: true, Ops: histAll(), MaxTx: 2, Depth: 2, Tampers: true, TamperDepth: 1, Budget: 8 * time.Minute})
		for _, x := range deepFamilies() {
			addf(&family{Name: x.name, Trie: x.trie, Ops: x.ops, MaxTx: 3, Depth: 3, Tampers: true, TamperDepth: 1, Budget: 7 * time.Minute})
		}
		for _, x := range longFamilies() {
			addf(&family{Name: x.name, Trie: x.trie, Ops: x.ops, MaxTx: 2, Depth: 3, Tampers: true, TamperDepth: 2, Budget: 4 * time.Minute})
		}
	}
	return m
}

func familyOrder(quick bool) []string {
	if quick {
		return []string{"sweep-flat", "sweep-trie", "hist-acct", "hist-conf", "hist-token", "hist-mixed"}
	}
	o := []string{"sweep-flat", "sweep-trie", "hist-acct-flat", "hist-acct-trie", "hist-conf-flat", "hist-conf-trie", "hist-token-flat", "hist-token-trie",
		"hist-mixed-flat", "hist-mixed-trie"}
	for _, x := range longFamilies() {
		o = append(o, x.name)
	}
	for _, x := range deepFamilies() {
		o = append(o, x.name)
	}
	return append(o, "hist-all-flat", "hist-all-trie")
}

// probe: debugging aid — one block on the flat base state.
func probe(spec string) {
	var ops []op
	if err := json.Unmarshal([]byte(spec), &ops); err != nil {
		fmt.Println("bad ops:", err)
		return
	}
	func() {
		defer func() {
			if e := recover(); e != nil {
				fmt.Println("harness error:", e)
			}
		}()
		b := base(false)
		fmt.Println("base:", b.snap.key)
		fmt.Println("setup violations:", b.viol)
		w, err := b.snap.restore("cand")
		if err != nil {
			fmt.Println(err)
			return
		}
		out := w.runBlock(b.snap.obs, ops, true)
		js, _ := json.MarshalIndent(out, "", " ")
		fmt.Println(string(js))
		w.close()
	}()
}
