// C06 scratch probe (will be replaced by the real harness)
package main

import (
	"fmt"
	"math/big"

	"verif/minichain"
	"verif/txkit"

	"github.com/lianxiangcloud/linkchain/libs/common"
	"github.com/lianxiangcloud/linkchain/libs/log"
	"github.com/lianxiangcloud/linkchain/types"
)

func must(err error) {
	if err != nil {
		panic(err)
	}
}

func main() {
	log.Root().SetHandler(log.DiscardHandler())
	for _, ring := range []int{1, 2} {
		c, err := minichain.New(minichain.Options{IsTrie: false, Alloc: txkit.Alloc(nil)})
		must(err)
		r, err := c.Replica()
		must(err)
		c.Attach(r)
		kit, led := txkit.NewKit(1), txkit.NewLedger()
		initial := c.Supply()[common.EmptyAddress]
		ain, err := kit.AccountToUTXO(txkit.B, 0, []txkit.Dest{txkit.ToWallet(txkit.W0, 0, txkit.LKC(300)), txkit.ToWallet(txkit.W1, 0, txkit.LKC(100))}, nil)
		must(err)
		_, err = c.Step(types.Txs{ain})
		must(err)
		led.Sync(c)
		own := led.Spendable(txkit.W0)[0]
		src, err := led.Source(own, ring)
		must(err)
		// the lie: the wallet declares 1000 coins more than the output holds
		src.Amount = new(big.Int).Add(src.Amount, txkit.LKC(1000))
		fee := txkit.FeeUin(txkit.DefaultUTXOGas, true, nil)
		out := new(big.Int).Sub(src.Amount, fee)
		tx, err := kit.SpendSources(txkit.W0, []*types.UTXOSourceEntry{src}, []types.DestEntry{&types.UTXODestEntry{Addr: txkit.W2.Addr(0), Amount: out}})
		must(err)
		err = c.Mempool().AddTx("", txkit.WireCopy(tx))
		fmt.Printf("ring %d: mempool AddTx of inflated spend: %v\n", ring, err)
		b, err := c.Step(types.Txs{txkit.WireCopy(tx)})
		fmt.Printf("ring %d: Step (replica CheckBlock + commit): err=%v\n", ring, err)
		if err == nil {
			led.Sync(c)
			sup := c.Supply()[common.EmptyAddress]
			fmt.Printf("  block %d committed; accounts %s + hidden %s = %s ; initial %s\n", b.Height, sup, led.Unspent(common.EmptyAddress), new(big.Int).Add(sup, led.Unspent(common.EmptyAddress)), initial)
			// cash out: U->A
			o2 := led.Spendable(txkit.W2)[0]
			utx, amt, err := kit.ToAccountAll(led, txkit.W2, []*txkit.Owned{o2}, 1, txkit.C.Addr)
			must(err)
			before := c.Balance(txkit.C.Addr)
			_, err = c.Step(types.Txs{utx})
			fmt.Printf("  cash-out of %s to C: err=%v, C gained %s\n", amt, err, new(big.Int).Sub(c.Balance(txkit.C.Addr), before))
			led.Sync(c)
			sup = c.Supply()[common.EmptyAddress]
			fmt.Printf("  accounts %s + hidden %s = %s ; initial %s\n", sup, led.Unspent(common.EmptyAddress), new(big.Int).Add(sup, led.Unspent(common.EmptyAddress)), initial)
		}
		c.Close()
	}
}
