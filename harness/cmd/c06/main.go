// C06 — no transaction or block creates or destroys value.
//
// Bounded exhaustive enumeration on the real node core (verif/minichain: LinkApplication + stores + mempool +
// BlockExecutor, with an independent replica that checks every block) against a plain-Go reference model of declared
// value movements:
//
//	genesis-* a handful of account-input transactions (valid, non-multiple, hostile) on the raw genesis state, before the
//	          base state is built (so that a tree on which the setup cannot run still gets judged)
//	sweep-*   every (kind x amount class x fee class) of the transaction alphabet as a one-transaction block on the
//	          prepared base state, in both storage modes, with every tampered variant of every valid confidential tx
//	hist-*    breadth-first search over chains of <= 2 blocks x <= 2 txs over per-family alphabets of 8-16 ops
//	long-*    (thorough) <= 3 blocks x <= 2 txs over 5 ops;  deep-* (thorough) <= 3 blocks x <= 3 txs over 3-4 ops
//
// States are de-duplicated on (all balances, nonces, code presence, hidden ledger); a sample of the merges is
// re-expanded from both histories (state-key self-test). Searches are sharded over worker subprocesses (vk.RunIsolated).
//
// See oracle.go for the oracle, ops.go for the alphabet, world.go for the base state.
package main

import (
	"flag"
	"fmt"
	"strings"
	"time"

	"verif/minichain"
	"verif/vk"

	"github.com/lianxiangcloud/linkchain/libs/log"
)

var (
	onlyFamily = flag.String("c06-only", "", "run only the families whose name contains this string (debugging)")
	probeFlag  = flag.String("c06-probe", "", "debugging: run one block given as JSON list of ops on the base state (flat) and print the outcome")
	reproFlag  = flag.String("c06-repro", "", "stand-alone reproductions of the defects found: all|ring1|prefund|suicide|uincall (no oracle involved)")
)

func main() {
	log.Root().SetHandler(log.DiscardHandler())
	r := vk.Start("C06", "model_checking")
	fams := families(r.Quick())
	if vk.IsWorker() {
		workerMain(fams)
	}
	if *probeFlag != "" {
		probe(*probeFlag)
		return
	}
	if *reproFlag != "" {
		repro(*reproFlag)
		return
	}
	if r.ReplayPath != "" {
		replay(r)
	}

	states, trans, tampers, committed := 0, 0, 0, 0
	var per []interface{}
	keySets := map[string]map[string]bool{}
	runFamily := func(f *family, rootKey string) {
		t0 := time.Now()
		res := explore(r, f, rootKey)
		if !res.Capped {
			keySets[f.Name] = res.Keys
		}
		wall := time.Since(t0).Seconds()
		states += res.States
		trans += res.Transitions
		tampers += res.Stats["tampers"]
		committed += res.Committed
		per = append(per, map[string]interface{}{"search": f.Name, "trie": f.Trie, "alphabet_ops": len(f.Ops), "blocks_alphabet": len(f.blocks()),
			"max_txs_per_block": f.MaxTx, "depth": f.Depth, "depth_completed": res.DepthCompleted, "states": res.States, "per_depth": res.PerDepth,
			"transitions": res.Transitions, "disabled_candidates": res.Disabled, "blocks_committed": res.Committed, "blocks_rejected": res.Rejected,
			"stats": sortedStats(res.Stats), "wall_s": int(wall)})
		fmt.Printf("%-14s ops=%d blocks=%d depth=%d/%d states=%d %v transitions=%d committed=%d rejected=%d disabled=%d tampers=%d wall=%.0fs\n", f.Name, len(f.Ops), len(f.blocks()),
			res.DepthCompleted, f.Depth, res.States, res.PerDepth, res.Transitions, res.Committed, res.Rejected, res.Disabled, res.Stats["tampers"], wall)
	}

	// first: what needs no prepared state, on the raw genesis state
	for _, name := range []string{"genesis-flat", "genesis-trie"} {
		if *onlyFamily == "" || contains(name, *onlyFamily) {
			runFamily(fams[name], "genesis")
		}
	}

	// the base state is built here too: its setup blocks run through the same oracle, and its key is the BFS root
	rootKeys := map[bool]string{}
	func() {
		defer func() {
			if e := recover(); e != nil {
				if he, ok := e.(harnessErr); ok {
					if len(pending) > 0 {
						// the tree cannot even run the setup (honest transactions are refused), but the genesis-level
						// searches already decided: report what they found
						r.Note("base state could not be built: %s", he.msg)
						r.Capped("only the genesis-level searches ran: " + he.msg)
						flush(r)
						r.Set("searches", per)
						r.Set("states", states)
						r.Set("transitions", trans)
						r.Set("traces_validated_against_impl", trans)
						r.Set("evaluations", trans+tampers)
						r.Set("distinct_nontrivial", states)
						r.Set("rule", "genesis-level searches only")
						cleanup()
						r.Finish()
					}
					vk.Fatalf("%s", he.msg)
				}
				panic(e)
			}
		}()
		for _, trie := range []bool{false, true} {
			b := base(trie)
			for _, v := range b.viol {
				report(v.Key, v.What, map[string]interface{}{"search": "setup", "trie": trie, "setup": "see setupBlocks() in harness/cmd/c06/world.go"})
			}
			rootKeys[trie] = b.snap.key
		}
	}()
	if rootKeys[false] != rootKeys[true] {
		r.Violation("flat-trie-divergence:base-state", "flat and trie storage modes disagree on the base state", map[string]interface{}{"flat": rootKeys[false], "trie": rootKeys[true]})
	}
	r.Sample(map[string]interface{}{"base_state": rootKeys[false]})

	for _, name := range familyOrder(r.Quick()) {
		if *onlyFamily != "" && !contains(name, *onlyFamily) {
			continue
		}
		runFamily(fams[name], rootKeys[fams[name].Trie])
	}
	// the two storage modes must reach exactly the same states (value distribution and hidden ledger) over the same alphabet
	for name, flat := range keySets {
		if !strings.HasSuffix(name, "-flat") {
			continue
		}
		trie, ok := keySets[strings.TrimSuffix(name, "-flat")+"-trie"]
		if !ok {
			continue
		}
		diff := 0
		for k := range flat {
			if !trie[k] {
				diff++
			}
		}
		for k := range trie {
			if !flat[k] {
				diff++
			}
		}
		if diff > 0 {
			report("flat-trie-divergence:"+strings.TrimSuffix(name, "-flat"), fmt.Sprintf("flat and trie storage modes reach different state sets over the same alphabet (%d states differ)", diff),
				map[string]interface{}{"search": name})
		}
		r.Add("flat_trie_state_sets_compared", 1)
	}
	flush(r)
	r.Set("searches", per)
	r.Set("states", states)
	r.Set("transitions", trans)
	r.Set("traces_validated_against_impl", trans)
	r.Set("tampered_variants", tampers)
	r.Set("blocks_committed", committed)
	r.Set("evaluations", trans+tampers)
	r.Set("distinct_nontrivial", states)
	r.Set("rule", "BFS over chains of blocks on the real node core + replica; a transition = one candidate block (CheckTx of every tx, proposer block, replica CheckBlock, commit, full account dump + hidden-ledger scan, comparison with the declared-effects model); non-trivial = distinct (balances, nonces, code presence, hidden ledger) state; every tampered variant = one CheckTx + one replica CheckBlock")
	r.Assume("range proofs are an ideal functionality of the crypto stand-in (sound and complete); commitments, key images, MLSAG, ring signatures, ECDH are real mathematics")
	r.Assume("system WASM contracts are absent: fee coefficient = repository default (UTXO fee 5e8 gas), proceeds handler = credit to the foundation account and no-op")
	r.Assume("contracts of the alphabet: store, reverter, vault (payable, self-destructs to a given beneficiary), token issuer (ISSUE + TRANSFERTOKEN), reverting/invalid creation code; no contract-to-contract calls")
	r.Assume("every history starts from the prepared base state (2 setup blocks, themselves checked by the same oracle)")
	if !minichain.RecipeFingerprintOK() {
		r.Assume(minichain.RecipeAssumption)
	}
	cleanup()
	r.Finish()
}

func contains(s, sub string) bool {
	for i := 0; i+len(sub) <= len(s); i++ {
		if s[i:i+len(sub)] == sub {
			return true
		}
	}
	return false
}

// replay re-runs the recorded case of a replay file (blocks_json from the recorded start state) and reports what the
// oracle says about every block.
func replay(r *vk.Run) {
	var rec struct {
		Trie    bool   `json:"trie"`
		Genesis bool   `json:"genesis"`
		Blocks  [][]op `json:"blocks_json"`
	}
	r.LoadReplay(&rec)
	func() {
		defer func() {
			if e := recover(); e != nil {
				if he, ok := e.(harnessErr); ok {
					vk.Fatalf("%s", he.msg)
				}
				panic(e)
			}
		}()
		s := genesisSnap(rec.Trie)
		if !rec.Genesis {
			s = base(rec.Trie).snap
		}
		w, err := s.restore("parent")
		if err != nil {
			vk.Fatalf("%v", err)
		}
		pre := s.obs
		for i, blk := range rec.Blocks {
			out := w.runBlock(pre, blk, len(blk) == 1)
			fmt.Printf("block %d %s: committed=%v %s %s\n", i+1, opsString(blk), out.Committed, out.Disabled, out.BlockErr)
			for _, v := range out.Verdicts {
				fmt.Printf("   CheckTx %-12s %s: %q\n", v.Class, v.Op, v.CheckTx)
			}
			for _, v := range out.Viol {
				r.Violation(v.Key, v.What, map[string]interface{}{"blocks_json": rec.Blocks, "trie": rec.Trie, "genesis": rec.Genesis})
			}
			if !out.Committed {
				break
			}
			pre = w.observe()
		}
		w.close()
	}()
	cleanup()
	r.Set("states", len(rec.Blocks))
	r.Set("transitions", len(rec.Blocks))
	r.Finish()
}
