// C06 — no transaction or block creates or destroys value.
//
// Bounded exhaustive enumeration on the real node core (verif/minichain: LinkApplication + stores + mempool +
// BlockExecutor, with an independent replica that checks every block) against a plain-Go reference model of declared
// value movements:
//
//	sweep-*   every (kind x amount class x fee class) of the transaction alphabet as a one-transaction block on the
//	          prepared base state, in both storage modes, with every tampered variant of every valid confidential tx
//	hist-*    breadth-first search over chains of blocks (quick: <= 2 blocks x <= 2 txs, thorough: <= 3 x <= 3) over
//	          small per-family alphabets, de-duplicated on (all balances, nonces, code presence, hidden ledger)
//
// See oracle.go for the oracle, ops.go for the alphabet, world.go for the base state.
package main

import (
	"flag"
	"fmt"
	"os"
	"time"

	"verif/minichain"
	"verif/vk"

	"github.com/lianxiangcloud/linkchain/libs/log"
)

var (
	onlyFamily = flag.String("c06-only", "", "run only the families whose name contains this string (debugging)")
	probeFlag  = flag.String("c06-probe", "", "debugging: run one block given as JSON list of ops on the base state (flat) and print the outcome")
	reproFlag  = flag.String("c06-repro", "", "stand-alone reproductions of the defects found: all|ring1|prefund|suicide|uincall (no oracle involved)")
)

func main() {
	log.Root().SetHandler(log.DiscardHandler())
	r := vk.Start("C06", "model_checking")
	fams := families(r.Quick())
	if vk.IsWorker() {
		workerMain(fams)
	}
	if *probeFlag != "" {
		probe(*probeFlag)
		return
	}
	if *reproFlag != "" {
		repro(*reproFlag)
		return
	}
	if r.ReplayPath != "" {
		vk.Fatalf("replay files of C06 name the blocks (ops) from the base state; re-run the tier to reproduce")
	}
	defer os.RemoveAll(scratchDir())

	// the base state is built here too: its setup blocks run through the same oracle, and its key is the BFS root
	rootKeys := map[bool]string{}
	func() {
		defer func() {
			if e := recover(); e != nil {
				if he, ok := e.(harnessErr); ok {
					vk.Fatalf("%s", he.msg)
				}
				panic(e)
			}
		}()
		for _, trie := range []bool{false, true} {
			b := base(trie)
			for _, v := range b.viol {
				report(v.Key, v.What, map[string]interface{}{"search": "setup", "trie": trie, "setup": "see setupBlocks() in harness/cmd/c06/world.go"})
			}
			rootKeys[trie] = b.snap.key
		}
	}()
	if rootKeys[false] != rootKeys[true] {
		r.Violation("flat-trie-divergence:base-state", "flat and trie storage modes disagree on the base state", map[string]interface{}{"flat": rootKeys[false], "trie": rootKeys[true]})
	}
	r.Sample(map[string]interface{}{"base_state": rootKeys[false]})

	states, trans, tampers, committed := 0, 0, 0, 0
	var per []interface{}
	order := familyOrder(r.Quick())
	for _, name := range order {
		f := fams[name]
		if *onlyFamily != "" && !contains(name, *onlyFamily) {
			continue
		}
		t0 := time.Now()
		res := explore(r, f, rootKeys[f.Trie])
		wall := time.Since(t0).Seconds()
		states += res.States
		trans += res.Transitions
		tampers += res.Stats["tampers"]
		committed += res.Committed
		per = append(per, map[string]interface{}{"search": f.Name, "trie": f.Trie, "alphabet_ops": len(f.Ops), "blocks_alphabet": len(f.blocks()),
			"max_txs_per_block": f.MaxTx, "depth": f.Depth, "depth_completed": res.DepthCompleted, "states": res.States, "per_depth": res.PerDepth,
			"transitions": res.Transitions, "disabled_candidates": res.Disabled, "blocks_committed": res.Committed, "blocks_rejected": res.Rejected,
			"stats": sortedStats(res.Stats), "wall_s": int(wall)})
		fmt.Printf("%-14s ops=%d blocks=%d depth=%d/%d states=%d %v transitions=%d committed=%d rejected=%d disabled=%d tampers=%d wall=%.0fs\n", f.Name, len(f.Ops), len(f.blocks()),
			res.DepthCompleted, f.Depth, res.States, res.PerDepth, res.Transitions, res.Committed, res.Rejected, res.Disabled, res.Stats["tampers"], wall)
	}
	flush(r)
	r.Set("searches", per)
	r.Set("states", states)
	r.Set("transitions", trans)
	r.Set("traces_validated_against_impl", trans)
	r.Set("tampered_variants", tampers)
	r.Set("blocks_committed", committed)
	r.Set("evaluations", trans+tampers)
	r.Set("distinct_nontrivial", states)
	r.Set("rule", "BFS over chains of blocks on the real node core + replica; a transition = one candidate block (CheckTx of every tx, proposer block, replica CheckBlock, commit, full account dump + hidden-ledger scan, comparison with the declared-effects model); non-trivial = distinct (balances, nonces, code presence, hidden ledger) state; every tampered variant = one CheckTx + one replica CheckBlock")
	r.Assume("range proofs are an ideal functionality of the crypto stand-in (sound and complete); commitments, key images, MLSAG, ring signatures, ECDH are real mathematics")
	r.Assume("system WASM contracts are absent: fee coefficient = repository default (UTXO fee 5e8 gas), proceeds handler = credit to the foundation account and no-op")
	r.Assume("contracts of the alphabet: store, reverter, vault (payable, self-destructs to a given beneficiary), token issuer (ISSUE + TRANSFERTOKEN), reverting/invalid creation code; no contract-to-contract calls")
	r.Assume("every history starts from the prepared base state (2 setup blocks, themselves checked by the same oracle)")
	if !minichain.RecipeFingerprintOK() {
		r.Assume(minichain.RecipeAssumption)
	}
	r.Finish()
}

func contains(s, sub string) bool {
	for i := 0; i+len(sub) <= len(s); i++ {
		if s[i:i+len(sub)] == sub {
			return true
		}
	}
	return false
}
