package main

// The world of one search: a real node core (verif/minichain: LinkApplication, stores, mempool, BlockExecutor)
// with an attached independent replica, the generator-side ledger of hidden outputs, and a prepared BASE state
// (contracts deployed, hidden outputs of the coin and of an issued token in place) from which every history starts.
// States are restored from database snapshots (node restart recipe on copies of the databases) instead of being
// replayed from genesis.

import (
	"fmt"
	"math/big"
	"os"
	"path/filepath"
	"sort"
	"strings"

	"verif/kv"
	"verif/minichain"
	"verif/txkit"

	cfg "github.com/lianxiangcloud/linkchain/config"
	"github.com/lianxiangcloud/linkchain/libs/common"
	"github.com/lianxiangcloud/linkchain/types"
)

var (
	coinTok   = common.EmptyAddress
	genTok    = txkit.GenesisToken
	collector = cfg.ContractFoundationAddr
	unit      = new(big.Int).Set(txkit.Unit)     // 1e10: granularity of confidential amounts
	price     = new(big.Int).Set(txkit.GasPrice) // 1e11: the only legal gas price
	coin      = txkit.LKC(1)
)

// short: a readable, still unique name of an address inside state keys (the fixture's addresses differ in their tails)
func short(a common.Address) string {
	h := a.Hex()
	return h[2:6] + h[len(h)-6:]
}

func bi(n int64) *big.Int              { return big.NewInt(n) }
func add(a, b *big.Int) *big.Int       { return new(big.Int).Add(a, b) }
func sub(a, b *big.Int) *big.Int       { return new(big.Int).Sub(a, b) }
func mul(a *big.Int, n int64) *big.Int { return new(big.Int).Mul(a, big.NewInt(n)) }

type world struct {
	trie   bool
	c, r   *minichain.Chain
	led    *ledger
	nbuild uint64 // confidential builds so far (seeds the deterministic generator)
	dirs   []string

	store, reverter, vault, issuer common.Address // contracts of the base state
}

func (w *world) close() {
	if w.c != nil {
		w.c.Close() // closes the attached replica too
	}
	for _, d := range w.dirs {
		os.RemoveAll(d)
	}
	w.dirs = nil
}

// walDirOf: a fixed directory of this process for the undo log (kvState.wal) of a restored node. Creating and removing
// a directory directly under /dev/shm for every restored node costs ~25 ms when many processes of many checks hammer
// that one directory; these live in a per-process subdirectory and are created once. Only one node per (slot, role)
// is ever active at a time.
var walDirs = map[string]string{}

func procDir() string { return filepath.Join("/dev/shm", fmt.Sprintf("C06-w%d", os.Getpid())) }

func walDirOf(slot, role string) (string, error) {
	k := slot + "-" + role
	if d, ok := walDirs[k]; ok {
		return d, nil
	}
	d := filepath.Join(procDir(), k)
	if err := os.MkdirAll(d, 0700); err != nil {
		return "", err
	}
	walDirs[k] = d
	return d, nil
}

// trackAll names every address value can reach, so that flat-mode dumps attribute every account.
func (w *world) trackAll() {
	w.c.Track(common.EmptyAddress, txkit.A.Addr, txkit.B.Addr, txkit.C.Addr, txkit.D.Addr, whale.Addr, collector, types.MultiSignNonceAddr,
		w.store, w.reverter, w.vault, w.issuer)
	// addresses of contracts that creation ops of account A may produce at its next 8 nonces
	for _, a := range []*txkit.Account{txkit.A, whale} {
		n := w.c.Nonce(a.Addr)
		for i := uint64(0); i < 8; i++ {
			for _, code := range creationCodes {
				w.c.Track(txkit.ContractAddress(a.Addr, n+i, code.init()))
			}
		}
	}
}

// ---- observation of a committed state -------------------------------------------------------------------

type acct struct {
	Nonce   uint64
	Bal     map[common.Address]*big.Int // token -> amount; coin under the zero address; zero entries dropped
	HasCode bool
}

type observation struct {
	Accounts     map[common.Address]*acct
	Unattributed int
	Supply       map[common.Address]*big.Int // accounts only
	Hidden       map[common.Address]*big.Int // unspent owned outputs
	NumOuts      map[common.Address]int
	OwnedOuts    map[common.Address]int
}

func (w *world) observe() *observation {
	o := &observation{Accounts: map[common.Address]*acct{}, Supply: map[common.Address]*big.Int{}, Hidden: map[common.Address]*big.Int{},
		NumOuts: map[common.Address]int{}, OwnedOuts: map[common.Address]int{}}
	for a, d := range w.c.AllAccounts() {
		ac := &acct{Nonce: d.Nonce, Bal: map[common.Address]*big.Int{}, HasCode: len(d.Code) > 0}
		if d.Balance != nil && d.Balance.Sign() != 0 {
			ac.Bal[coinTok] = new(big.Int).Set(d.Balance)
		}
		for t, v := range d.Tokens {
			if v != nil && v.Sign() != 0 && t != coinTok {
				ac.Bal[t] = new(big.Int).Set(v)
			}
		}
		o.Accounts[a] = ac
	}
	o.Unattributed = len(w.c.Unattributed())
	for t, v := range w.c.Supply() {
		o.Supply[t] = new(big.Int).Set(v)
	}
	for _, t := range w.led.tokens() {
		o.Hidden[t] = w.led.unspent(t)
		o.NumOuts[t] = len(w.led.outs[t])
		o.OwnedOuts[t] = w.led.ownedCount(t)
	}
	return o
}

func (o *observation) bal(a, t common.Address) *big.Int {
	if ac := o.Accounts[a]; ac != nil {
		if v := ac.Bal[t]; v != nil {
			return v
		}
	}
	return new(big.Int)
}

// total = accounts + hidden, per token
func (o *observation) total(t common.Address) *big.Int {
	s := new(big.Int)
	if v := o.Supply[t]; v != nil {
		s.Add(s, v)
	}
	if v := o.Hidden[t]; v != nil {
		s.Add(s, v)
	}
	return s
}

// stateKey: (all balances, nonces, code presence) + hidden ledger.
func (w *world) stateKey(o *observation) string {
	var as []common.Address
	for a := range o.Accounts {
		as = append(as, a)
	}
	sort.Slice(as, func(i, j int) bool { return as[i].Hex() < as[j].Hex() })
	var b strings.Builder
	for _, a := range as {
		ac := o.Accounts[a]
		fmt.Fprintf(&b, "%s n%d c%v", short(a), ac.Nonce, ac.HasCode)
		var ts []common.Address
		for t := range ac.Bal {
			ts = append(ts, t)
		}
		sort.Slice(ts, func(i, j int) bool { return ts[i].Hex() < ts[j].Hex() })
		for _, t := range ts {
			fmt.Fprintf(&b, " %s=%s", short(t), ac.Bal[t])
		}
		b.WriteString("|")
	}
	fmt.Fprintf(&b, "u%d|", o.Unattributed)
	b.WriteString(w.led.key())
	return b.String()
}

// ---- snapshots ---------------------------------------------------------------------------------------------

type snapshot struct {
	trie       bool
	dbsC, dbsR map[string]*kv.CopyDB
	walC, walR []byte
	led        *ledger
	nbuild     uint64
	obs        *observation
	key        string
	tmpl       *world // a live world with the same options (receiver of RestartOnCopies)

	store, reverter, vault, issuer common.Address
}

func cloneDBs(src map[string]*kv.CopyDB) map[string]*kv.CopyDB {
	out := map[string]*kv.CopyDB{}
	for name, s := range src {
		d := kv.NewCopyDB()
		for _, k := range s.Keys() {
			d.Set(k, s.Get(k))
		}
		out[name] = d
	}
	return out
}

func copyDBsOf(c *minichain.Chain) map[string]*kv.CopyDB {
	m := map[string]*kv.CopyDB{}
	for name, db := range c.DBs() {
		cd, ok := db.(*kv.CopyDB)
		if !ok {
			panic("c06: chain database is not a kv.CopyDB")
		}
		m[name] = cd
	}
	return cloneDBs(m)
}

// snap freezes the committed state of w (both nodes). w stays usable (it becomes the template of restores).
func (w *world) snap() *snapshot {
	o := w.observe()
	return &snapshot{trie: w.trie, dbsC: copyDBsOf(w.c), dbsR: copyDBsOf(w.r), walC: w.c.WalBytes(), walR: w.r.WalBytes(),
		led: w.led.clone(), nbuild: w.nbuild, obs: o, key: w.stateKey(o), tmpl: w,
		store: w.store, reverter: w.reverter, vault: w.vault, issuer: w.issuer}
}

// restore starts two fresh nodes (node start-up recipe) on copies of the snapshot's databases. slot names the pair of
// undo-log directories to use ("parent" for a replayed parent state, "cand" for a candidate).
func (s *snapshot) restore(slot string) (*world, error) {
	w := &world{trie: s.trie, led: s.led.clone(), nbuild: s.nbuild, store: s.store, reverter: s.reverter, vault: s.vault, issuer: s.issuer}
	mk := func(t *minichain.Chain, dbs map[string]*kv.CopyDB, wal []byte, role string) (*minichain.Chain, error) {
		dir, err := walDirOf(slot, role)
		if err != nil {
			return nil, err
		}
		if err := minichain.PutWal(dir, wal); err != nil {
			return nil, err
		}
		return t.RestartOnCopies(cloneDBs(dbs), dir)
	}
	c, err := mk(s.tmpl.c, s.dbsC, s.walC, "c")
	if err != nil {
		w.close()
		return nil, fmt.Errorf("restore main: %v", err)
	}
	w.c = c
	r, err := mk(s.tmpl.r, s.dbsR, s.walR, "r")
	if err != nil {
		w.close()
		return nil, fmt.Errorf("restore replica: %v", err)
	}
	w.r = r
	c.Attach(r)
	w.trackAll()
	return w, nil
}

// ---- the base state ----------------------------------------------------------------------------------------

// newGenesisWorld: A, B, C own 1,000,000 coins and 1000e18 units of the genesis token each; E (the whale) owns
// 3 x (group order x unit) + 100,000 coins.
func newGenesisWorld(trie bool) (*world, error) {
	alloc := append(txkit.AllocWithToken(nil, genTok, txkit.LKC(1000)), minichain.Alloc{Addr: whale.Addr, Balance: whaleBalance(),
		Tokens: map[common.Address]*big.Int{genTok: txkit.LKC(1000)}})
	opts := minichain.Options{IsTrie: trie, Alloc: alloc, NoBalanceRecords: true}
	c, err := minichain.New(opts)
	if err != nil {
		return nil, err
	}
	r, err := minichain.New(opts)
	if err != nil {
		c.Close()
		return nil, err
	}
	c.Attach(r)
	w := &world{trie: trie, c: c, r: r, led: newLedger()}
	w.store = txkit.ContractAddress(txkit.A.Addr, 0, txkit.StoreContract())
	w.reverter = txkit.ContractAddress(txkit.A.Addr, 1, txkit.RevertContract())
	w.vault = txkit.ContractAddress(txkit.A.Addr, 2, vaultInit())
	w.issuer = txkit.ContractAddress(txkit.A.Addr, 3, txkit.TokenIssuerContract(txkit.LKC(1000)))
	w.trackAll()
	return w, nil
}

// setupBlocks: the prefix that leads from genesis to the base state. They are ordinary blocks: they run through
// the same pipeline and the same oracle as every explored block.
func setupBlocks() [][]op {
	return [][]op{
		{ // contracts + coin outputs: W0 gets three outputs (rings of 3 become possible), W1 one
			{Kind: "create", From: "A", Code: "store", Amt: "0"},
			{Kind: "create", From: "A", Code: "reverter", Amt: "0"},
			{Kind: "create", From: "A", Code: "vault", Amt: "0"},
			{Kind: "create", From: "A", Code: "issuer", Amt: "0"},
			{Kind: "multisign"},
			{Kind: "ain", From: "B", Tok: "coin", Dests: []dest{{"W0", 0, "300c"}, {"W0", 1, "200c"}, {"W1", 0, "100c"}}, Fee: "min"},
			{Kind: "ain", From: "C", Tok: "coin", Dests: []dest{{"W0", 2, "120c"}, {"W2", 0, "80c"}}, Fee: "min"},
		},
		{ // the vault gets holdings of the coin and of the genesis token; hidden outputs of the issued token
			{Kind: "call", From: "C", To: "vault-deposit", Amt: "5c"},
			{Kind: "tokcall", From: "C", Tok: "gen", To: "vault-deposit", Amt: "7c"},
			{Kind: "ain", From: "A", Tok: "iss", Dests: []dest{{"W0", 0, "40c"}, {"W0", 1, "30c"}, {"W1", 0, "20c"}}, Fee: "min"},
		},
	}
}
