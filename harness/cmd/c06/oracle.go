package main

// Reference model + oracle. The model is plain Go over maps of big.Int: it starts from the observed pre-state of
// a block, applies what the generator DECLARED for every transaction of the block (taking only the receipt's
// status and gas used from the implementation), and the committed post-state of the real node must agree:
//
//	O1 per token: Δ(Σ all accounts + Σ unspent hidden outputs) = +explicitly issued − destroyed by self-destruct-to-self
//	O2 fee debited from the payer = fee credited to the fee collector (receipt gas × price; declared fee of confidential txs)
//	O3 a failed transaction moves nothing but the fee
//	O4 account -> confidential and confidential -> account move exactly the declared amounts (every declared hidden
//	   output is found by its recipient's scan with the declared amount; every account is credited/debited as declared)
//	O5 hostile constructions and tampered variants are rejected by CheckTx (mempool) and by block processing (replica)

import (
	"errors"
	"fmt"
	"math/big"
	"sort"
	"strings"

	"verif/minichain"
	"verif/txkit"

	"github.com/lianxiangcloud/linkchain/libs/common"
	"github.com/lianxiangcloud/linkchain/libs/cryptonote/ringct"
	"github.com/lianxiangcloud/linkchain/types"
)

// Root causes that were found on the unchanged tree, reproduced by stand-alone programs (repro.go) and accepted as
// genuine defects. Each key is produced ONLY when its precise cause is present and explains the whole deviation of a
// block (see runBlock): the search continues through such states ("soft"), any residue alarms under a generic key.
const (
	knownRing1Key   = "uin-ring1:pseudo-out-not-bound-to-spent-commitment"
	knownCreateKey  = "create:tokens-at-prefunded-address-destroyed"
	knownSuicideKey = "selfdestruct:credit-later-in-same-block-destroyed"
	knownUinCallKey = "uin-to-contract-created-in-block:failed-call-value-not-returned"
)

var softKeys = map[string]bool{knownRing1Key: true, knownCreateKey: true, knownSuicideKey: true, knownUinCallKey: true}

type violation struct {
	Key  string `json:"key"`
	What string `json:"what"`
}

func (v violation) soft() bool { return softKeys[v.Key] }

type model struct {
	w           *world
	bal         map[common.Address]map[common.Address]*big.Int
	issued      map[common.Address]*big.Int
	destroyed   map[common.Address]*big.Int
	hiddenDelta map[common.Address]*big.Int
	suicided    map[common.Address]bool
	expectOuts  []expOut
	expectSpent []*txkit.Owned

	// adjust: additionally apply the semantics of the known defects (the strict model is the property; the adjusted
	// model tells whether the known defects explain EVERYTHING that deviates)
	adjust     bool
	knownDelta map[common.Address]*big.Int // supply change explained by known defects
	events     map[string]string           // known key -> what happened
	createdNow map[common.Address]bool     // contracts created by earlier transactions of this block
}

type expOut struct {
	Tok common.Address
	declOut
}

func newModel(w *world, pre *observation, adjust bool) *model {
	m := &model{w: w, bal: map[common.Address]map[common.Address]*big.Int{}, issued: map[common.Address]*big.Int{}, destroyed: map[common.Address]*big.Int{},
		hiddenDelta: map[common.Address]*big.Int{}, suicided: map[common.Address]bool{}, adjust: adjust, knownDelta: map[common.Address]*big.Int{}, events: map[string]string{}, createdNow: map[common.Address]bool{}}
	for a, ac := range pre.Accounts {
		m.bal[a] = map[common.Address]*big.Int{}
		for t, v := range ac.Bal {
			m.bal[a][t] = new(big.Int).Set(v)
		}
	}
	return m
}

func (m *model) get(a, t common.Address) *big.Int {
	if m.bal[a] == nil {
		m.bal[a] = map[common.Address]*big.Int{}
	}
	if m.bal[a][t] == nil {
		m.bal[a][t] = new(big.Int)
	}
	return m.bal[a][t]
}

func bump(mp map[common.Address]*big.Int, t common.Address, v *big.Int) {
	if mp[t] == nil {
		mp[t] = new(big.Int)
	}
	mp[t].Add(mp[t], v)
}

func (m *model) credit(a, t common.Address, v *big.Int) {
	b := m.get(a, t)
	b.Add(b, v)
}

func (m *model) debit(a, t common.Address, v *big.Int) {
	b := m.get(a, t)
	b.Sub(b, v)
}

func (m *model) issue(tok common.Address, q *big.Int) { bump(m.issued, tok, q) }

// created: a contract is created at address at. What the address already holds stays there.
// Known defect (adjusted model only): StateDB.CreateAccount carries over the coin balance only, the tokens vanish.
func (m *model) created(at common.Address) {
	m.createdNow[at] = true
	if !m.adjust {
		return
	}
	for _, t := range sortedToks(m.bal[at]) {
		v := m.bal[at][t]
		if t != coinTok && v.Sign() > 0 {
			bump(m.knownDelta, t, new(big.Int).Neg(v))
			m.events[knownCreateKey] = fmt.Sprintf("a contract was created at %s, which held %s of token %s: the tokens are gone (the coin balance is carried over)", m.w.roleOf(at), v, tokClass(m.w, t))
			m.bal[at][t] = new(big.Int)
		}
	}
}

// finish: end of the block. Known defect (adjusted model only): self-destructed contracts are deleted at the end of the
// BLOCK, together with whatever later transactions of the block sent them.
func (m *model) finish() {
	if !m.adjust {
		return
	}
	var cs []common.Address
	for c := range m.suicided {
		cs = append(cs, c)
	}
	sort.Slice(cs, func(i, j int) bool { return cs[i].Hex() < cs[j].Hex() })
	for _, c := range cs {
		for _, t := range sortedToks(m.bal[c]) {
			v := m.bal[c][t]
			if v.Sign() > 0 {
				bump(m.knownDelta, t, new(big.Int).Neg(v))
				m.events[knownSuicideKey] = fmt.Sprintf("%s self-destructed and later in the same block received %s of %s: destroyed when the block ends", m.w.roleOf(c), v, tokClass(m.w, t))
				m.bal[c][t] = new(big.Int)
			}
		}
	}
}

func sortedToks(mp map[common.Address]*big.Int) []common.Address {
	var ts []common.Address
	for t := range mp {
		ts = append(ts, t)
	}
	sort.Slice(ts, func(i, j int) bool { return ts[i].Hex() < ts[j].Hex() })
	return ts
}

// selfdestruct: every holding of c goes to ben; in favour of itself = destroyed (designed exception).
func (m *model) selfdestruct(c, ben common.Address) {
	for _, t := range sortedToks(m.bal[c]) {
		h := new(big.Int).Set(m.bal[c][t])
		if h.Sign() == 0 {
			continue
		}
		m.bal[c][t] = new(big.Int)
		if ben == c {
			bump(m.destroyed, t, h)
		} else {
			m.credit(ben, t, h)
		}
	}
	m.suicided[c] = true
}

func gasFee(gas uint64) *big.Int { return new(big.Int).Mul(new(big.Int).SetUint64(gas), price) }

// apply: the declared effect of one executed transaction.
func (m *model) apply(t *txMeta, rc *types.Receipt) {
	ok := rc.Status == types.ReceiptStatusSuccessful
	if !t.Conf {
		fee := gasFee(rc.GasUsed)
		m.debit(t.Payer, coinTok, fee)
		m.credit(collector, coinTok, fee)
		if ok {
			m.debit(t.Payer, t.Token, t.Value)
			t.Effect(m)
		}
		return
	}
	// confidential: consumed inputs and created outputs are facts of the block whatever the status
	for _, o := range t.Spent {
		bump(m.hiddenDelta, t.Token, new(big.Int).Neg(o.Amount))
		m.expectSpent = append(m.expectSpent, o)
	}
	for _, o := range t.NewOuts {
		bump(m.hiddenDelta, t.Token, o.Amount)
		m.expectOuts = append(m.expectOuts, expOut{t.Token, o})
	}
	if !ok {
		// only possible for a confidential payment to an address that became a contract inside this block:
		// a failed call moves nothing but the fee
		fee := gasFee(rc.GasUsed)
		if t.Token != coinTok {
			m.debit(t.Payer, coinTok, fee)
		}
		m.credit(collector, coinTok, fee)
		// Known defect (adjusted model only): value and unused fee go to tx.RefundAddr, the zero address for a pure
		// confidential transaction
		if m.adjust && t.Token == coinTok && t.AccOut != nil && t.AinDebit == nil && m.createdNow[*t.AccOut] {
			lost := sub(add(t.AccAmount, t.Fee), fee)
			m.credit(common.EmptyAddress, coinTok, lost)
			m.events[knownUinCallKey] = fmt.Sprintf("the confidential payment %s to %s (a contract created earlier in this block) failed as a call: %s coin (value + unused fee) were credited to the zero address", t.Op, m.w.roleOf(*t.AccOut), lost)
		}
		return
	}
	if t.AinDebit != nil {
		m.debit(t.Payer, t.Token, t.AinDebit)
	}
	if t.Token != coinTok {
		m.debit(t.Payer, coinTok, t.Fee)
	}
	if used := gasFee(rc.GasUsed); m.adjust && t.Token == coinTok && t.AccOut != nil && t.AinDebit == nil && m.createdNow[*t.AccOut] && used.Cmp(t.Fee) < 0 {
		// Known defect (adjusted model only), success path: the payment reached a contract created earlier in this block
		// and ran as a call; the part of the fee the call did not use is "refunded" to the zero address
		m.credit(collector, coinTok, used)
		m.credit(common.EmptyAddress, coinTok, sub(t.Fee, used))
		m.events[knownUinCallKey] = fmt.Sprintf("the confidential payment %s to %s (a contract created earlier in this block) was executed as a call: the unused part of the fee, %s coin, was credited to the zero address instead of the fee collector", t.Op, m.w.roleOf(*t.AccOut), sub(t.Fee, used))
	} else {
		m.credit(collector, coinTok, t.Fee)
	}
	if t.AccOut != nil {
		m.credit(*t.AccOut, t.Token, t.AccAmount)
	}
	for _, a := range t.MoreAcc {
		m.credit(a.To, t.Token, a.Amount)
	}
	// Known defect (adjusted model only): with rings of one the declared input amount is not bound to the spent commitment
	if m.adjust && t.Op.Kind == "lie" && t.Inflation != nil && t.Inflation.Sign() > 0 && t.Ring <= 1 {
		bump(m.knownDelta, t.Token, t.Inflation)
		m.events[knownRing1Key] = fmt.Sprintf("the spend %s declared %s more than its input holds and was executed: supply grew by that amount", t.Op, t.Inflation)
	}
}

// ---- comparison ---------------------------------------------------------------------------------------------

type mismatch struct {
	clause string // supply | account | hidden-sum | hidden-output | hidden-unowned | unattributed
	tok    string
	dir    string
	what   string
}

func dirOf(real, want *big.Int) string {
	if real.Cmp(want) > 0 {
		return "created"
	}
	return "destroyed"
}

func (m *model) compare(pre, post *observation, height uint64) []mismatch {
	w := m.w
	var out []mismatch
	toks := map[common.Address]bool{coinTok: true}
	for _, o := range []*observation{pre, post} {
		for t := range o.Supply {
			toks[t] = true
		}
		for t := range o.Hidden {
			toks[t] = true
		}
	}
	var tl []common.Address
	for t := range toks {
		tl = append(tl, t)
	}
	sort.Slice(tl, func(i, j int) bool { return tl[i].Hex() < tl[j].Hex() })
	zero := new(big.Int)
	val := func(mp map[common.Address]*big.Int, t common.Address) *big.Int {
		if v := mp[t]; v != nil {
			return v
		}
		return zero
	}
	// O1
	for _, t := range tl {
		delta := sub(post.total(t), pre.total(t))
		want := add(sub(val(m.issued, t), val(m.destroyed, t)), val(m.knownDelta, t))
		if delta.Cmp(want) != 0 {
			out = append(out, mismatch{"supply", tokClass(w, t), dirOf(delta, want),
				fmt.Sprintf("total supply of %s (all accounts + unspent hidden outputs) changed by %s, expected %s (issued %s, destroyed by self-destruct-to-self %s): accounts %s -> %s, hidden %s -> %s",
					tokClass(w, t), delta, want, val(m.issued, t), val(m.destroyed, t), val(pre.Supply, t), val(post.Supply, t), val(pre.Hidden, t), val(post.Hidden, t))})
		}
	}
	// O2-O4 account side
	as := map[common.Address]bool{}
	for a := range post.Accounts {
		as[a] = true
	}
	for a := range m.bal {
		as[a] = true
	}
	var al []common.Address
	for a := range as {
		al = append(al, a)
	}
	sort.Slice(al, func(i, j int) bool { return al[i].Hex() < al[j].Hex() })
	for _, a := range al {
		ts := map[common.Address]bool{}
		if ac := post.Accounts[a]; ac != nil {
			for t := range ac.Bal {
				ts[t] = true
			}
		}
		for t := range m.bal[a] {
			ts[t] = true
		}
		var tk []common.Address
		for t := range ts {
			tk = append(tk, t)
		}
		sort.Slice(tk, func(i, j int) bool { return tk[i].Hex() < tk[j].Hex() })
		for _, t := range tk {
			real, want := post.bal(a, t), m.get(a, t)
			if real.Cmp(want) != 0 {
				out = append(out, mismatch{"account", tokClass(w, t), dirOf(real, want),
					fmt.Sprintf("%s holds %s of %s, declared effects give %s (before the block: %s)", w.roleOf(a), real, tokClass(w, t), want, pre.bal(a, t))})
			}
		}
	}
	if post.Unattributed > 0 {
		out = append(out, mismatch{"unattributed", "-", "created", fmt.Sprintf("%d accounts exist that no declared effect names", post.Unattributed)})
	}
	// O4 hidden side
	for _, t := range tl {
		d := sub(val(post.Hidden, t), val(pre.Hidden, t))
		if want := val(m.hiddenDelta, t); d.Cmp(want) != 0 {
			out = append(out, mismatch{"hidden-sum", tokClass(w, t), dirOf(d, want), fmt.Sprintf("unspent hidden outputs of %s changed by %s, declared %s", tokClass(w, t), d, want)})
		}
		if post.NumOuts[t] != post.OwnedOuts[t] {
			out = append(out, mismatch{"hidden-unowned", tokClass(w, t), "destroyed", fmt.Sprintf("%d outputs of %s on the chain, only %d can be opened by their recipients", post.NumOuts[t], tokClass(w, t), post.OwnedOuts[t])})
		}
	}
	usedOwned := map[*txkit.Owned]bool{}
	for _, e := range m.expectOuts {
		found := false
		for _, o := range w.led.owned {
			if !usedOwned[o] && o.Height == height && o.Token == e.Tok && o.Wallet == e.W && int(o.SubIdx) == e.Sub && o.Amount.Cmp(e.Amount) == 0 {
				usedOwned[o], found = true, true
				break
			}
		}
		if !found {
			out = append(out, mismatch{"hidden-output", tokClass(w, e.Tok), "destroyed", fmt.Sprintf("declared output of %s %s to %s.%d is not found by the recipient's scan", e.Amount, tokClass(w, e.Tok), e.W.Name, e.Sub)})
		}
	}
	for _, o := range m.expectSpent {
		if !o.Spent {
			out = append(out, mismatch{"hidden-output", tokClass(w, o.Token), "created", fmt.Sprintf("consumed output %d of %s is still unspent", o.Global, o.Wallet.Name)})
		}
	}
	return out
}

func (w *world) roleOf(a common.Address) string {
	switch a {
	case txkit.A.Addr:
		return "account A"
	case txkit.B.Addr:
		return "account B"
	case txkit.C.Addr:
		return "account C"
	case txkit.D.Addr:
		return "account D"
	case whale.Addr:
		return "account E (whale)"
	case collector:
		return "fee collector"
	case common.EmptyAddress:
		return "zero address"
	case w.store:
		return "store contract"
	case w.reverter:
		return "reverter contract"
	case w.vault:
		return "vault contract"
	case w.issuer:
		return "issuer contract"
	}
	return "address " + a.Hex()[:10]
}

// ---- one block through the whole pipeline --------------------------------------------------------------------

type txVerdict struct {
	Op      string `json:"op"`
	Class   string `json:"class"`
	CheckTx string `json:"checktx"` // "" = accepted
}

type blockOutcome struct {
	Disabled  string      `json:"disabled,omitempty"`
	Committed bool        `json:"committed"`
	BlockErr  string      `json:"block_err,omitempty"`
	Verdicts  []txVerdict `json:"verdicts,omitempty"`
	Viol      []violation `json:"viol,omitempty"`
	Key       string      `json:"key,omitempty"`
	Kinds     []string    `json:"kinds,omitempty"`
	Tampers   int         `json:"tampers,omitempty"`
	Failed    int         `json:"failed_receipts,omitempty"`
	Executed  int         `json:"executed,omitempty"`
}

func kindsOf(metas []*txMeta) []string {
	seen := map[string]bool{}
	var ks []string
	for _, t := range metas {
		k := t.Op.kindName()
		if !seen[k] {
			seen[k] = true
			ks = append(ks, k)
		}
	}
	sort.Strings(ks)
	return ks
}

// runBlock: build -> [tampers] -> CheckTx (Mempool.AddTx) of every tx -> the proposer's block with ALL of them (the
// proposer path verifies no signature and no proof) -> replica CheckBlock -> commit on both -> oracle.
func (w *world) runBlock(pre *observation, ops []op, withTampers bool) *blockOutcome {
	res := &blockOutcome{}
	x := newCtx(w, pre)
	var metas []*txMeta
	for _, o := range ops {
		t, err := x.build(o)
		if err != nil {
			if errors.Is(err, errDisabled) {
				res.Disabled = fmt.Sprintf("%s: %v", o, err)
				return res
			}
			fatalf("build %s: %v", o, err)
		}
		metas = append(metas, t)
	}
	res.Kinds = kindsOf(metas)
	viol := func(key, what string) { res.Viol = append(res.Viol, violation{key, what}) }

	if withTampers {
		for _, t := range metas {
			if t.Conf && t.Class == "valid" {
				w.tryTampers(t, res)
			}
		}
	}

	// CheckTx
	var txs types.Txs
	mustReject := false
	for _, t := range metas {
		v := txVerdict{Op: t.Op.String(), Class: t.Class}
		if err := w.c.Mempool().AddTx("", txkit.WireCopy(t.Tx)); err != nil {
			v.CheckTx = err.Error()
		} else if t.Class == "must-reject" {
			viol(acceptKey(t, "checktx"), fmt.Sprintf("CheckTx (Mempool.AddTx) accepts a transaction that must be rejected (%s): %s", t.Why, t.Op))
		}
		if t.Class == "must-reject" {
			mustReject = true
		}
		res.Verdicts = append(res.Verdicts, v)
		txs = append(txs, txkit.WireCopy(t.Tx))
	}

	// block
	b, err := w.c.Step(txs)
	if err != nil {
		res.BlockErr = err.Error()
		if mustReject && errors.Is(err, minichain.ErrPreRun) {
			// not even executable by a proposer; a dishonest one can still send it with stale result fields
			blk, _, perr := w.c.Propose(txs, false, 0, minichain.BlockOpts{SkipPreRun: true})
			if perr == nil && w.r.CheckBlock(minichain.CloneBlock(blk)) {
				viol("block-with-unexecutable-tx-accepted", "replica CheckBlock accepts a block whose execution fails on the proposer")
			}
		}
		if !errors.Is(err, minichain.ErrPreRun) && !errors.Is(err, minichain.ErrReplicaRejected) {
			fatalf("Step: %v (ops %v)", err, ops)
		}
		return res
	}
	res.Committed = true
	for _, t := range metas {
		if t.Class == "must-reject" {
			viol(acceptKey(t, "block"), fmt.Sprintf("block processing on a replica (CheckBlock) accepts and commits a transaction that must be rejected (%s): %s", t.Why, t.Op))
		}
	}
	w.led.sync(w.c)
	post := w.observe()
	rcs := w.c.Receipts(b.Height)
	if len(rcs) != len(metas) {
		fatalf("block %d: %d receipts for %d transactions", b.Height, len(rcs), len(metas))
	}
	for i, t := range metas {
		res.Executed++
		if rcs[i].Status != types.ReceiptStatusSuccessful && t.Op.Kind != "multisign" { // (a multi-sign tx always gets the zero receipt)
			res.Failed++
		}
	}
	// no transaction may use more gas than it bought (the receipt's gas is what the fee accounting below trusts)
	var gasMM []mismatch
	for i, t := range metas {
		if g, ok := t.Tx.(interface{ Gas() uint64 }); ok && rcs[i].GasUsed > g.Gas() {
			gasMM = append(gasMM, mismatch{"gas-used", "coin", "above-limit",
				fmt.Sprintf("receipt of %s reports %d gas used, its gas limit is %d", t.Op, rcs[i].GasUsed, g.Gas())})
		}
	}
	run := func(adjust bool) (*model, []mismatch) {
		m := newModel(w, pre, adjust)
		for i, t := range metas {
			m.apply(t, rcs[i])
		}
		m.finish()
		return m, append(append([]mismatch{}, gasMM...), m.compare(pre, post, b.Height)...)
	}
	// the property itself
	_, mm := run(false)
	// the replica must hold the same value distribution (it executed the block independently)
	if rs := w.r.Supply(); fmt.Sprint(sortedSupply(rs)) != fmt.Sprint(sortedSupply(w.c.Supply())) {
		viol("replica-diverges:account-sums", "proposer and replica disagree on the per-token account sums — block: "+opsString(ops))
	}
	if len(mm) > 0 {
		// do the known defects explain the WHOLE deviation?
		am, amm := run(true)
		if len(amm) == 0 && len(am.events) > 0 {
			var ks []string
			for k := range am.events {
				ks = append(ks, k)
			}
			sort.Strings(ks)
			for _, k := range ks {
				viol(k, am.events[k]+" — "+mm[0].what+" — block: "+opsString(ops))
			}
		} else {
			// one key per violating block: its primary mismatch (total supply first, then who holds what)
			x := mm[0]
			for _, y := range mm[1:] {
				if clauseRank[y.clause] < clauseRank[x.clause] {
					x = y
				}
			}
			what := x.what
			if len(mm) > 1 {
				what += fmt.Sprintf(" (+%d further mismatches, e.g. %s)", len(mm)-1, other(mm, x))
			}
			viol(fmt.Sprintf("%s:%s:%s:%s", x.clause, x.tok, x.dir, strings.Join(res.Kinds, "+")), what+" — block: "+opsString(ops))
		}
	}
	res.Key = w.stateKey(post)
	return res
}

var clauseRank = map[string]int{"gas-used": -1, "supply": 0, "account": 1, "hidden-sum": 2, "hidden-output": 3, "hidden-unowned": 4, "unattributed": 5}

func other(mm []mismatch, x mismatch) string {
	for _, y := range mm {
		if y != x {
			return y.what
		}
	}
	return ""
}

func sortedSupply(s map[common.Address]*big.Int) []string {
	var out []string
	for t, v := range s {
		out = append(out, t.Hex()+"="+v.String())
	}
	sort.Strings(out)
	return out
}

func opsString(ops []op) string {
	var s []string
	for _, o := range ops {
		s = append(s, "["+o.String()+"]")
	}
	return strings.Join(s, " ")
}

// acceptKey: root-cause key of "a transaction that must be rejected was accepted".
func acceptKey(t *txMeta, where string) string {
	if t.Op.Kind == "lie" && t.Ring <= 1 && t.Inflation != nil && t.Inflation.Sign() > 0 {
		return knownRing1Key // the ONLY way to this key: ring of one AND inflated pseudo output AND accepted
	}
	return fmt.Sprintf("must-reject-accepted:%s", t.Op.kindName())
}

// ---- tampered variants of a valid confidential transaction ----------------------------------------------------

func accountByAddr(a common.Address) *txkit.Account {
	for _, x := range []*txkit.Account{txkit.A, txkit.B, txkit.C, txkit.D, whale} {
		if x.Addr == a {
			return x
		}
	}
	return nil
}

var overflowAmount = new(big.Int).Mul(new(big.Int).Lsh(big.NewInt(1), 64), txkit.Unit)

func (w *world) tamperSet(t *txMeta) []txkit.Tampered {
	tx := t.utx()
	isAin := tx.UTXOKind()&types.Ain == types.Ain
	var resign *txkit.Account
	if isAin {
		resign = accountByAddr(t.Payer)
	}
	var out []txkit.Tampered
	for _, tp := range txkit.Tampers(tx, resign) {
		if tp.Name == "ecdh-amount" {
			continue // chain-valid by design: the encrypted amount is outside the balance statement
		}
		if t.Token != coinTok && isAin && strings.HasPrefix(tp.Name, "fee") {
			continue // the fee of a token transaction is not committed; re-signed by the payer it is simply another valid fee
		}
		out = append(out, tp)
	}
	addT := func(name string, f func(c *types.UTXOTransaction) bool) {
		cp := txkit.CopyUTXO(tx)
		if !f(cp) {
			return
		}
		if resign != nil {
			if err := cp.Sign(types.GlobalSTDSigner, resign.Key); err != nil {
				fatalf("resign: %v", err)
			}
		}
		out = append(out, txkit.Tampered{Name: name, Tx: txkit.CopyUTXO(cp)})
	}
	nOut := len(tx.RCTSig.OutPk)
	if nOut > 0 {
		// range proof of ANOTHER valid transaction with the same number of outputs
		if donor := w.donor(nOut); donor != nil {
			addT("bulletproof-foreign", func(c *types.UTXOTransaction) bool {
				c.RCTSig.P.Bulletproofs = append(c.RCTSig.P.Bulletproofs[:0:0], donor.RCTSig.P.Bulletproofs...)
				return true
			})
		}
		addT("outpk-drop-last", func(c *types.UTXOTransaction) bool { // commitment count != output count
			c.RCTSig.OutPk = c.RCTSig.OutPk[:nOut-1]
			c.RCTSig.EcdhInfo = c.RCTSig.EcdhInfo[:nOut-1]
			return true
		})
		addT("outpk-append", func(c *types.UTXOTransaction) bool {
			c.RCTSig.OutPk = append(c.RCTSig.OutPk, c.RCTSig.OutPk[0])
			c.RCTSig.EcdhInfo = append(c.RCTSig.EcdhInfo, c.RCTSig.EcdhInfo[0])
			return true
		})
	}
	addT("tokenid-switch", func(c *types.UTXOTransaction) bool { // same commitments under another token id: the fee term differs
		if c.TokenID == coinTok {
			c.TokenID = w.issuer
		} else {
			c.TokenID = coinTok
		}
		return true
	})
	if !(t.Token != coinTok && isAin) {
		addT("fee+overflow", func(c *types.UTXOTransaction) bool { c.Fee = add(c.Fee, overflowAmount); return true })
		if tx.Fee.Sign() > 0 {
			addT("fee-zero", func(c *types.UTXOTransaction) bool { c.Fee = bi(0); return true })
		}
	}
	if isAin && t.Token == coinTok {
		addT("ain-amount+overflow", func(c *types.UTXOTransaction) bool {
			in := c.Inputs[0].(*types.AccountInput)
			in.Amount = add(in.Amount, overflowAmount)
			return true
		})
		addT("ain-recommit+price", func(c *types.UTXOTransaction) bool { // CF is public: anyone can commit to another amount
			in := c.Inputs[0].(*types.AccountInput)
			in.Amount = add(in.Amount, price)
			in.Commit = types.AmountCommit(new(big.Int).Div(in.Amount, unit), in.CF)
			return true
		})
		addT("ain-recommit-price", func(c *types.UTXOTransaction) bool {
			in := c.Inputs[0].(*types.AccountInput)
			in.Amount = sub(in.Amount, price)
			in.Commit = types.AmountCommit(new(big.Int).Div(in.Amount, unit), in.CF)
			return true
		})
	}
	for i, o := range tx.Outputs {
		if _, ok := o.(*types.AccountOutput); ok {
			idx := i
			addT("aout-amount+overflow", func(c *types.UTXOTransaction) bool {
				ao := c.Outputs[idx].(*types.AccountOutput)
				ao.Amount = add(ao.Amount, overflowAmount)
				return true
			})
			addT("aout-recommit+unit", func(c *types.UTXOTransaction) bool {
				ao := c.Outputs[idx].(*types.AccountOutput)
				ao.Amount = add(ao.Amount, unit)
				k, err := types.BigInt2Hash(new(big.Int).Div(ao.Amount, unit))
				if err != nil {
					return false
				}
				ao.Commit = ringct.ScalarmultH(k)
				return true
			})
			break
		}
	}
	if len(tx.RCTSig.P.PseudoOuts) > 1 {
		if t.Ring >= 2 { // with rings of one nothing binds a pseudo output to its input (known finding); a swap keeps the sum
			addT("pseudo-out-swap", func(c *types.UTXOTransaction) bool {
				p := c.RCTSig.P.PseudoOuts
				p[0], p[1] = p[1], p[0]
				return true
			})
			addT("mlsag-swap", func(c *types.UTXOTransaction) bool {
				g := c.RCTSig.P.MGs
				g[0], g[1] = g[1], g[0]
				return true
			})
		} else {
			addT("ringsig-swap", func(c *types.UTXOTransaction) bool {
				s := c.RCTSig.P.Ss
				s[0], s[1] = s[1], s[0]
				return true
			})
		}
	}
	return out
}

// donor: another valid transaction with n hidden outputs (account C -> W2), never submitted.
func (w *world) donor(n int) *types.UTXOTransaction {
	var entries []types.DestEntry
	total := new(big.Int)
	for i := 0; i < n; i++ {
		a := txkit.LKC(int64(3 + i))
		entries = append(entries, &types.UTXODestEntry{Addr: txkit.W2.Addr(i % txkit.NumSub), Amount: a, IsSubaddress: i%txkit.NumSub > 0})
		total.Add(total, a)
	}
	var tx *types.UTXOTransaction
	var err error
	w.seeded(func() {
		tx, _, err = types.NewAinTransaction(&types.AccountSourceEntry{From: txkit.C.Addr, Nonce: w.c.Nonce(txkit.C.Addr), Amount: add(total, txkit.FeeAin(total))}, entries, coinTok, nil)
	})
	if err != nil {
		return nil
	}
	return tx
}

func (w *world) tryTampers(t *txMeta, res *blockOutcome) {
	variant := "ain"
	if t.utx().UTXOKind()&types.Uin == types.Uin {
		variant = "uin-" + ringName(t.Ring)
	}
	for _, tp := range w.tamperSet(t) {
		res.Tampers++
		if err := w.c.Mempool().AddTx("", txkit.CopyUTXO(tp.Tx)); err == nil {
			res.Viol = append(res.Viol, violation{fmt.Sprintf("tamper-accepted:%s:%s", tp.Name, variant),
				fmt.Sprintf("CheckTx (Mempool.AddTx) accepts the tampered variant %q of the valid transaction %s", tp.Name, t.Op)})
		}
		blk, _, err := w.c.Propose(types.Txs{txkit.CopyUTXO(tp.Tx)}, false, 0, minichain.BlockOpts{})
		if err != nil {
			blk, _, err = w.c.Propose(types.Txs{txkit.CopyUTXO(tp.Tx)}, false, 0, minichain.BlockOpts{SkipPreRun: true})
			if err != nil {
				continue
			}
		}
		if w.r.CheckBlock(minichain.CloneBlock(blk)) {
			res.Viol = append(res.Viol, violation{fmt.Sprintf("tamper-accepted:%s:%s", tp.Name, variant),
				fmt.Sprintf("block processing on a replica (CheckBlock) accepts a block carrying the tampered variant %q of the valid transaction %s", tp.Name, t.Op)})
		}
	}
}
