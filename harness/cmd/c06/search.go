package main

// Breadth-first search over chains of blocks, sharded over worker subprocesses (vk.RunIsolated): the repository
// keeps process-wide state, so all node cores of one process are driven from one goroutine and parallelism comes from
// processes. A case = one parent state (a history of blocks from the base state) + a range of candidate blocks; the
// worker replays the parent once, snapshots its databases, and runs every candidate on a node restarted from a copy.

import (
	"crypto/sha256"
	"encoding/hex"
	"encoding/json"
	"flag"
	"fmt"
	"io/ioutil"
	"os"
	"path/filepath"
	"sort"
	"strings"
	"time"

	"verif/minichain"
	"verif/vk"
)

var casesFile = flag.String("c06-cases", "", "internal: case list of a worker round")

type harnessErr struct{ msg string }

func fatalf(format string, a ...interface{}) { panic(harnessErr{fmt.Sprintf(format, a...)}) }

type family struct {
	Name    string
	Trie    bool
	Ops     []op
	MaxTx   int  // transactions per block
	Depth   int  // blocks per chain
	Tampers bool // tampered variants of every valid confidential tx of single-tx candidates
	// TamperDepth: tampers are tried on candidates whose parent is at depth < TamperDepth
	TamperDepth int
	MaxStates   int
	Budget      time.Duration // wall-clock share of this search (0 = the run's deadline)
	Genesis     bool          // histories start from the raw genesis state instead of the prepared base state
}

// blocks: every sequence of 1..MaxTx op indices, shortest first.
func (f *family) blocks() [][]int {
	var out [][]int
	var rec func(cur []int, n int)
	rec = func(cur []int, n int) {
		if len(cur) == n {
			out = append(out, append([]int{}, cur...))
			return
		}
		for i := range f.Ops {
			rec(append(cur, i), n)
		}
	}
	for n := 1; n <= f.MaxTx; n++ {
		rec(nil, n)
	}
	return out
}

func (f *family) opsOf(blk []int) []op {
	var o []op
	for _, i := range blk {
		o = append(o, f.Ops[i])
	}
	return o
}

type caseSpec struct {
	Family  string  `json:"family"`
	Hist    [][]int `json:"hist"` // parent: blocks (op indices) from the base state
	From    int     `json:"from"` // candidate block indices [From, To)
	To      int     `json:"to"`
	Tampers bool    `json:"tampers"`
	Pair    [][]int `json:"pair,omitempty"` // state-key self-test: a second history that reached the same key as Hist
}

type candOutcome struct {
	Blk       int         `json:"b"`
	Disabled  bool        `json:"d,omitempty"`
	Committed bool        `json:"c,omitempty"`
	KeyHash   string      `json:"k,omitempty"`
	Viol      []violation `json:"v,omitempty"`
	Kinds     []string    `json:"kinds,omitempty"`
}

type caseResult struct {
	Harness  string         `json:"harness,omitempty"`
	Diverge  string         `json:"diverge,omitempty"` // state-key self-test: how the two histories differ
	Out      []candOutcome  `json:"out"`
	Stats    map[string]int `json:"stats"`
	Sample   string         `json:"sample,omitempty"`
	Detail   []string       `json:"detail,omitempty"` // C06_DETAIL=1: one line per candidate (debugging)
	ReplayMS int64          `json:"replay_ms"`
}

func hashKey(k string) string {
	h := sha256.Sum256([]byte(k))
	return hex.EncodeToString(h[:12])
}

// ---- worker side ---------------------------------------------------------------------------------------------

type baseState struct {
	snap *snapshot
	viol []violation // oracle violations inside the setup blocks
}

var bases = map[bool]*baseState{}

var genesisSnaps = map[bool]*snapshot{}

// genesisSnap: the raw genesis state (both nodes), once per process and storage mode.
func genesisSnap(trie bool) *snapshot {
	if s := genesisSnaps[trie]; s != nil {
		return s
	}
	w, err := newGenesisWorld(trie)
	if err != nil {
		fatalf("genesis: %v", err)
	}
	s := w.snap()
	genesisSnaps[trie] = s
	return s
}

func (f *family) root() *snapshot {
	if f.Genesis {
		return genesisSnap(f.Trie)
	}
	return base(f.Trie).snap
}

// base builds (once per process and storage mode) the prepared state every history starts from.
func base(trie bool) *baseState {
	if b := bases[trie]; b != nil {
		return b
	}
	w, err := newGenesisWorld(trie)
	if err != nil {
		fatalf("genesis: %v", err)
	}
	b := &baseState{}
	for i, blk := range setupBlocks() {
		pre := w.observe()
		res := w.runBlock(pre, blk, false)
		if res.Disabled != "" || !res.Committed {
			fatalf("setup block %d did not commit: %s %s %+v", i+1, res.Disabled, res.BlockErr, res.Verdicts)
		}
		for _, v := range res.Verdicts {
			if v.CheckTx != "" {
				fatalf("setup block %d: CheckTx refused %s: %s", i+1, v.Op, v.CheckTx)
			}
		}
		if res.Failed > 0 {
			fatalf("setup block %d: %d failed receipts", i+1, res.Failed)
		}
		b.viol = append(b.viol, res.Viol...)
	}
	b.snap = w.snap()
	bases[trie] = b
	return b
}

type parentCache struct {
	id   string
	snap *snapshot
	own  bool // the snapshot's template world belongs to the cache (not a base world)
}

var lastParent parentCache

func parentSnapshot(f *family, hist [][]int) *snapshot {
	id := fmt.Sprintf("%s|%v", f.Name, hist)
	if lastParent.id == id {
		return lastParent.snap
	}
	s := f.root()
	if len(hist) > 0 {
		w, err := s.restore("parent")
		if err != nil {
			fatalf("%v", err)
		}
		pre := s.obs
		for _, blk := range hist {
			res := w.runBlock(pre, f.opsOf(blk), false)
			if !res.Committed {
				fatalf("replay of %v diverged at block %v: %s %s", hist, blk, res.Disabled, res.BlockErr)
			}
			pre = w.observe()
		}
		s = w.snap() // w stays alive as the template of this snapshot
	}
	if lastParent.own {
		lastParent.snap.tmpl.close()
	}
	lastParent = parentCache{id, s, len(hist) > 0}
	return s
}

func runCase(fams map[string]*family, cs caseSpec) (res caseResult) {
	res.Stats = map[string]int{}
	defer func() {
		if e := recover(); e != nil {
			if he, ok := e.(harnessErr); ok {
				res.Harness = he.msg
				return
			}
			res.Harness = fmt.Sprintf("panic in worker: %v", e)
		}
	}()
	f := fams[cs.Family]
	if f == nil {
		fatalf("unknown family %q", cs.Family)
	}
	if cs.Pair != nil {
		res.Diverge = mergeCheck(f, cs.Hist, cs.Pair)
		res.Stats["merge_checks"]++
		return res
	}
	t0 := time.Now()
	ps := parentSnapshot(f, cs.Hist)
	res.ReplayMS = time.Since(t0).Milliseconds()
	blocks := f.blocks()
	for bi := cs.From; bi < cs.To; bi++ {
		w, err := ps.restore("cand")
		if err != nil {
			fatalf("%v", err)
		}
		ops := f.opsOf(blocks[bi])
		out := w.runBlock(ps.obs, ops, cs.Tampers && len(ops) == 1)
		w.close()
		co := candOutcome{Blk: bi, Viol: out.Viol, Kinds: out.Kinds}
		switch {
		case out.Disabled != "":
			co.Disabled = true
			res.Stats["disabled"]++
		case out.Committed:
			co.Committed = true
			co.KeyHash = hashKey(out.Key)
			res.Stats["blocks_committed"]++
			res.Stats["txs_executed"] += out.Executed
			res.Stats["failed_receipts"] += out.Failed
			if res.Sample == "" {
				res.Sample = opsString(ops) + " => " + out.Key
			}
		default:
			res.Stats["blocks_rejected"]++
			res.Stats["blockerr:"+firstWords(out.BlockErr)]++
		}
		for _, v := range out.Verdicts {
			if v.CheckTx == "" {
				res.Stats["checktx_accept:"+v.Class]++
			} else {
				res.Stats["checktx_reject:"+v.Class]++
				res.Stats["checktx_err:"+v.CheckTx]++
			}
		}
		res.Stats["tampers"] += out.Tampers
		res.Out = append(res.Out, co)
		if os.Getenv("C06_DETAIL") != "" {
			line := fmt.Sprintf("%-90s", opsString(ops))
			for _, v := range out.Verdicts {
				if v.CheckTx == "" {
					line += " | checktx OK"
				} else {
					line += " | checktx: " + v.CheckTx
				}
			}
			line += fmt.Sprintf(" | committed=%v failed=%d %s %s viol=%d", out.Committed, out.Failed, out.Disabled, out.BlockErr, len(out.Viol))
			res.Detail = append(res.Detail, line)
		}
	}
	return res
}

// mergeCheck: two histories that were merged under one state key must have the same successors (outcome and key) for
// every one-transaction block: the self-test against a state key that is too coarse.
func mergeCheck(f *family, a, b [][]int) string {
	succ := func(h [][]int) []string {
		ps := parentSnapshot(f, h)
		var out []string
		for i := range f.Ops {
			w, err := ps.restore("cand")
			if err != nil {
				fatalf("%v", err)
			}
			o := w.runBlock(ps.obs, []op{f.Ops[i]}, false)
			w.close()
			switch {
			case o.Disabled != "":
				out = append(out, "disabled")
			case o.Committed:
				out = append(out, "committed:"+hashKey(o.Key))
			default:
				out = append(out, "rejected")
			}
		}
		return out
	}
	sa, sb := succ(a), succ(b)
	for i := range sa {
		if sa[i] != sb[i] {
			return fmt.Sprintf("after %v: %s, after %v: %s (op %s)", a, sa[i], b, sb[i], f.Ops[i])
		}
	}
	return ""
}

func firstWords(s string) string {
	if i := strings.Index(s, ":"); i > 0 {
		j := strings.Index(s[i+1:], ":")
		if j > 0 {
			return s[:i+1+j]
		}
	}
	if len(s) > 60 {
		return s[:60]
	}
	return s
}

func workerMain(fams map[string]*family) {
	data, err := ioutil.ReadFile(*casesFile)
	if err != nil {
		vk.Fatalf("worker: %v", err)
	}
	var cases []caseSpec
	if err := json.Unmarshal(data, &cases); err != nil {
		vk.Fatalf("worker: %v", err)
	}
	vk.WorkerLoop(len(cases), func(i int) interface{} { return runCase(fams, cases[i]) })
}

// ---- parent side ---------------------------------------------------------------------------------------------

type searchResult struct {
	Keys                                               map[string]bool // hashed keys of every state reached
	States, Transitions, Disabled, Committed, Rejected int
	PerDepth                                           []int
	DepthCompleted                                     int
	Stats                                              map[string]int
	Capped                                             bool
}

func scratchDir() string {
	d := filepath.Join("/dev/shm", fmt.Sprintf("C06-%d", os.Getpid()))
	os.MkdirAll(d, 0700)
	return d
}

// explore runs the BFS of one family.
func explore(r *vk.Run, f *family, rootKey string) searchResult {
	res := searchResult{Stats: map[string]int{}}
	if f.Budget > 0 {
		defer r.Limit(f.Budget)()
	}
	blocks := f.blocks()
	seen := map[string][][]int{hashKey(rootKey): nil}
	frontier := [][][]int{nil}
	res.States = 1
	res.PerDepth = []int{1}
	singles := map[string]bool{} // generic violation keys produced by single-transaction blocks
	merges := 0
	type rec struct {
		hist [][]int
		out  candOutcome
	}
	names := func(h [][]int) [][]string {
		var o [][]string
		for _, b := range h {
			var s []string
			for _, i := range b {
				s = append(s, f.Ops[i].String())
			}
			o = append(o, s)
		}
		return o
	}
	for depth := 1; depth <= f.Depth && len(frontier) > 0; depth++ {
		if r.Expired() {
			res.Capped = true
			r.Capped(fmt.Sprintf("%s: deadline before depth %d (depth %d fully covered)", f.Name, depth, depth-1))
			break
		}
		// cases: per parent, chunks of candidate blocks
		chunk := 24
		if len(frontier) < 32 {
			chunk = 6
		}
		var cases []caseSpec
		for _, h := range frontier {
			for from := 0; from < len(blocks); from += chunk {
				to := from + chunk
				if to > len(blocks) {
					to = len(blocks)
				}
				cases = append(cases, caseSpec{Family: f.Name, Hist: h, From: from, To: to, Tampers: f.Tampers && depth-1 < f.TamperDepth})
			}
		}
		path := filepath.Join(scratchDir(), fmt.Sprintf("%s-d%d.json", f.Name, depth))
		data, _ := json.Marshal(cases)
		if err := ioutil.WriteFile(path, data, 0600); err != nil {
			vk.Fatalf("cases file: %v", err)
		}
		results := make([]*caseResult, len(cases))
		done := r.RunIsolated(len(cases), vk.IsoOpts{CaseTimeout: 900 * time.Second, ExtraArgs: []string{"--c06-cases", path}},
			func(i int, raw json.RawMessage, fatal string) {
				if fatal != "" {
					vk.Fatalf("%s: worker died in case %d (parent %v, blocks %d..%d): %s", f.Name, i, names(cases[i].Hist), cases[i].From, cases[i].To, fatal)
				}
				var cr caseResult
				if err := json.Unmarshal(raw, &cr); err != nil {
					vk.Fatalf("%s: bad worker result: %v", f.Name, err)
				}
				if cr.Harness != "" {
					vk.Fatalf("%s: case %d (parent %v, blocks %d..%d): %s", f.Name, i, names(cases[i].Hist), cases[i].From, cases[i].To, cr.Harness)
				}
				results[i] = &cr
			})
		os.Remove(path)
		if done < len(cases) {
			res.Capped = true
			r.Capped(fmt.Sprintf("%s: deadline inside depth %d (%d of %d cases; depth %d fully covered)", f.Name, depth, done, len(cases), depth-1))
		}
		// merge, in case order (deterministic whatever the worker timing)
		var recs []rec
		for i, cr := range results {
			if cr == nil {
				continue
			}
			for k, v := range cr.Stats {
				res.Stats[k] += v
			}
			for _, l := range cr.Detail {
				fmt.Println("  ", l)
			}
			if cr.Sample != "" && i%97 == 0 {
				r.Sample(map[string]interface{}{"search": f.Name, "parent": names(cases[i].Hist), "sample": cr.Sample})
			}
			for _, o := range cr.Out {
				h := append(append([][]int{}, cases[i].Hist...), blocks[o.Blk])
				recs = append(recs, rec{h, o})
			}
		}
		for _, rc := range recs { // pass 1: what single-transaction blocks already explain
			if len(blocks[rc.out.Blk]) == 1 {
				for _, v := range rc.out.Viol {
					singles[v.Key] = true
				}
			}
		}
		var next [][][]int
		var pairs []caseSpec
		for _, rc := range recs {
			o := rc.out
			if o.Disabled {
				res.Disabled++
				continue
			}
			res.Transitions++
			for _, v := range o.Viol {
				key := v.Key
				if len(o.Kinds) > 1 && strings.HasSuffix(key, ":"+strings.Join(o.Kinds, "+")) {
					// a multi-transaction block: attribute to a single kind that shows the same mismatch alone
					prefix := strings.TrimSuffix(key, strings.Join(o.Kinds, "+"))
					for _, k := range o.Kinds {
						if singles[prefix+k] {
							key = prefix + k
							break
						}
					}
				}
				start := "base state (setupBlocks() in harness/cmd/c06/world.go)"
				if f.Genesis {
					start = "genesis state"
				}
				var blocksJSON [][]op
				for _, b := range rc.hist {
					blocksJSON = append(blocksJSON, f.opsOf(b))
				}
				report(key, v.What, map[string]interface{}{"search": f.Name, "trie": f.Trie, "genesis": f.Genesis, "start": start, "blocks": names(rc.hist),
					"blocks_json": blocksJSON, "replay_with": "/verif/check C06 --replay <this file>"})
			}
			if !o.Committed {
				res.Rejected++
				continue
			}
			res.Committed++
			hard := false
			for _, v := range o.Viol {
				if !v.soft() {
					hard = true
				}
			}
			if hard {
				continue // do not expand beyond a state reached through an unexplained violation
			}
			if rep, ok := seen[o.KeyHash]; ok {
				merges++
				if merges%25 == 1 && fmt.Sprint(rep) != fmt.Sprint(rc.hist) {
					pairs = append(pairs, caseSpec{Family: f.Name, Hist: rep, Pair: rc.hist})
				}
				continue
			}
			if f.MaxStates > 0 && res.States >= f.MaxStates {
				if !res.Capped {
					res.Capped = true
					r.Capped(fmt.Sprintf("%s: state cap %d reached at depth %d (depth %d fully covered)", f.Name, f.MaxStates, depth, depth-1))
				}
				continue
			}
			seen[o.KeyHash] = rc.hist
			res.States++
			next = append(next, rc.hist)
		}
		res.PerDepth = append(res.PerDepth, len(next))
		if !res.Capped {
			res.DepthCompleted = depth
		}
		if len(pairs) > 0 && !r.Expired() { // state-key self-test on a sample of the merges of this level
			if len(pairs) > 32 {
				pairs = pairs[:32]
			}
			ppath := filepath.Join(scratchDir(), fmt.Sprintf("%s-m%d.json", f.Name, depth))
			pdata, _ := json.Marshal(pairs)
			if err := ioutil.WriteFile(ppath, pdata, 0600); err != nil {
				vk.Fatalf("cases file: %v", err)
			}
			r.RunIsolated(len(pairs), vk.IsoOpts{CaseTimeout: 900 * time.Second, ExtraArgs: []string{"--c06-cases", ppath}},
				func(i int, raw json.RawMessage, fatal string) {
					if fatal != "" {
						vk.Fatalf("%s: worker died in merge check %d: %s", f.Name, i, fatal)
					}
					var cr caseResult
					if err := json.Unmarshal(raw, &cr); err != nil {
						vk.Fatalf("%s: bad worker result: %v", f.Name, err)
					}
					if cr.Harness != "" {
						vk.Fatalf("%s: merge check %d: %s", f.Name, i, cr.Harness)
					}
					if cr.Diverge != "" {
						vk.Fatalf("%s: state key too coarse: histories %v and %v share a key but diverge: %s", f.Name, names(pairs[i].Hist), names(pairs[i].Pair), cr.Diverge)
					}
					res.Stats["merge_checks"]++
				})
			os.Remove(ppath)
		}
		frontier = next
		if res.Capped {
			break
		}
	}
	res.Keys = map[string]bool{}
	for k := range seen {
		res.Keys[k] = true
	}
	return res
}

func sortedStats(m map[string]int) []string {
	var ks []string
	for k := range m {
		ks = append(ks, k)
	}
	sort.Strings(ks)
	var out []string
	for _, k := range ks {
		out = append(out, fmt.Sprintf("%s=%d", k, m[k]))
	}
	return out
}

// ---- violation buffer: one defect = one key -------------------------------------------------------------------

type pendingViol struct {
	key, what string
	replay    interface{}
}

var pending []pendingViol

func report(key, what string, replay interface{}) {
	pending = append(pending, pendingViol{key, what, replay})
}

// flush hands the buffered violations to the run. Conservation keys have the shape clause:token:direction:kinds; when
// the same (clause, token, direction) shows up under more than three different kind suffixes the defect is not specific
// to a transaction kind and the keys are merged into clause:token:direction:any-kind.
func flush(r *vk.Run) {
	prefixOf := func(k string) (string, bool) {
		p := strings.SplitN(k, ":", 4)
		if len(p) == 4 {
			if _, ok := clauseRank[p[0]]; ok {
				return strings.Join(p[:3], ":"), true
			}
		}
		return "", false
	}
	kinds := map[string]map[string]bool{}
	for _, v := range pending {
		if p, ok := prefixOf(v.key); ok {
			if kinds[p] == nil {
				kinds[p] = map[string]bool{}
			}
			kinds[p][v.key] = true
		}
	}
	for _, v := range pending {
		key := v.key
		if p, ok := prefixOf(key); ok && len(kinds[p]) > 3 {
			key = p + ":any-kind"
		}
		r.Violation(key, v.what, v.replay)
	}
	pending = nil
}

// cleanup closes the node cores this process still holds and removes scratch files (Finish exits the process).
func cleanup() {
	if lastParent.own {
		lastParent.snap.tmpl.close()
	}
	for _, b := range bases {
		b.snap.tmpl.close()
	}
	for _, s := range genesisSnaps {
		s.tmpl.close()
	}
	os.RemoveAll(scratchDir())
	os.RemoveAll(procDir())
	minichain.SweepStale("/dev/shm")                         // instance directories of worker processes that have exited
	if ents, err := ioutil.ReadDir("/dev/shm"); err == nil { // undo-log directories of this check's dead workers
		for _, e := range ents {
			var pid int
			if n, _ := fmt.Sscanf(e.Name(), "C06-w%d", &pid); n == 1 {
				if _, err := os.Stat(fmt.Sprintf("/proc/%d", pid)); os.IsNotExist(err) {
					os.RemoveAll(filepath.Join("/dev/shm", e.Name()))
				}
			}
		}
	}
}
