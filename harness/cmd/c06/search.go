package main

// Breadth-first search over chains of blocks, sharded over worker subprocesses (vk.RunIsolated): the repository
// keeps process-wide state, so all node cores of one process are driven from one goroutine and parallelism comes from
// processes. A case = one parent state (a history of blocks from the base state) + a range of candidate blocks; the
// worker replays the parent once, snapshots its databases, and runs every candidate on a node restarted from a copy.

import (
	"crypto/sha256"
	"encoding/hex"
	"encoding/json"
	"flag"
	"fmt"
	"io/ioutil"
	"os"
	"path/filepath"
	"sort"
	"strings"
	"time"

	"verif/vk"
)

var casesFile = flag.String("c06-cases", "", "internal: case list of a worker round")

type harnessErr struct{ msg string }

func fatalf(format string, a ...interface{}) { panic(harnessErr{fmt.Sprintf(format, a...)}) }

type family struct {
	Name    string
	Trie    bool
	Ops     []op
	MaxTx   int  // transactions per block
	Depth   int  // blocks per chain
	Tampers bool // tampered variants of every valid confidential tx of single-tx candidates
	// TamperDepth: tampers are tried on candidates whose parent is at depth < TamperDepth
	TamperDepth int
	MaxStates   int
	Budget      time.Duration // wall-clock share of this search (0 = the run's deadline)
}

// blocks: every sequence of 1..MaxTx op indices, shortest first.
func (f *family) blocks() [][]int {
	var out [][]int
	var rec func(cur []int, n int)
	rec = func(cur []int, n int) {
		if len(cur) == n {
			out = append(out, append([]int{}, cur...))
			return
		}
		for i := range f.Ops {
			rec(append(cur, i), n)
		}
	}
	for n := 1; n <= f.MaxTx; n++ {
		rec(nil, n)
	}
	return out
}

func (f *family) opsOf(blk []int) []op {
	var o []op
	for _, i := range blk {
		o = append(o, f.Ops[i])
	}
	return o
}

type caseSpec struct {
	Family  string  `json:"family"`
	Hist    [][]int `json:"hist"` // parent: blocks (op indices) from the base state
	From    int     `json:"from"` // candidate block indices [From, To)
	To      int     `json:"to"`
	Tampers bool    `json:"tampers"`
}

type candOutcome struct {
	Blk       int         `json:"b"`
	Disabled  bool        `json:"d,omitempty"`
	Committed bool        `json:"c,omitempty"`
	KeyHash   string      `json:"k,omitempty"`
	Viol      []violation `json:"v,omitempty"`
	Kinds     []string    `json:"kinds,omitempty"`
}

type caseResult struct {
	Harness  string         `json:"harness,omitempty"`
	Out      []candOutcome  `json:"out"`
	Stats    map[string]int `json:"stats"`
	Sample   string         `json:"sample,omitempty"`
	Detail   []string       `json:"detail,omitempty"` // C06_DETAIL=1: one line per candidate (debugging)
	ReplayMS int64          `json:"replay_ms"`
}

func hashKey(k string) string {
	h := sha256.Sum256([]byte(k))
	return hex.EncodeToString(h[:12])
}

// ---- worker side ---------------------------------------------------------------------------------------------

type baseState struct {
	snap *snapshot
	viol []violation // oracle violations inside the setup blocks
}

var bases = map[bool]*baseState{}

// base builds (once per process and storage mode) the prepared state every history starts from.
func base(trie bool) *baseState {
	if b := bases[trie]; b != nil {
		return b
	}
	w, err := newGenesisWorld(trie)
	if err != nil {
		fatalf("genesis: %v", err)
	}
	b := &baseState{}
	for i, blk := range setupBlocks() {
		pre := w.observe()
		res := w.runBlock(pre, blk, false)
		if res.Disabled != "" || !res.Committed {
			fatalf("setup block %d did not commit: %s %s %+v", i+1, res.Disabled, res.BlockErr, res.Verdicts)
		}
		for _, v := range res.Verdicts {
			if v.CheckTx != "" {
				fatalf("setup block %d: CheckTx refused %s: %s", i+1, v.Op, v.CheckTx)
			}
		}
		if res.Failed > 0 {
			fatalf("setup block %d: %d failed receipts", i+1, res.Failed)
		}
		b.viol = append(b.viol, res.Viol...)
	}
	b.snap = w.snap()
	bases[trie] = b
	return b
}

type parentCache struct {
	id   string
	snap *snapshot
	own  bool // the snapshot's template world belongs to the cache (not a base world)
}

var lastParent parentCache

func parentSnapshot(f *family, hist [][]int) *snapshot {
	id := fmt.Sprintf("%s|%v", f.Name, hist)
	if lastParent.id == id {
		return lastParent.snap
	}
	s := base(f.Trie).snap
	if len(hist) > 0 {
		w, err := s.restore()
		if err != nil {
			fatalf("%v", err)
		}
		pre := s.obs
		for _, blk := range hist {
			res := w.runBlock(pre, f.opsOf(blk), false)
			if !res.Committed {
				fatalf("replay of %v diverged at block %v: %s %s", hist, blk, res.Disabled, res.BlockErr)
			}
			pre = w.observe()
		}
		s = w.snap() // w stays alive as the template of this snapshot
	}
	if lastParent.own {
		lastParent.snap.tmpl.close()
	}
	lastParent = parentCache{id, s, len(hist) > 0}
	return s
}

func runCase(fams map[string]*family, cs caseSpec) (res caseResult) {
	res.Stats = map[string]int{}
	defer func() {
		if e := recover(); e != nil {
			if he, ok := e.(harnessErr); ok {
				res.Harness = he.msg
				return
			}
			res.Harness = fmt.Sprintf("panic in worker: %v", e)
		}
	}()
	f := fams[cs.Family]
	if f == nil {
		fatalf("unknown family %q", cs.Family)
	}
	t0 := time.Now()
	ps := parentSnapshot(f, cs.Hist)
	res.ReplayMS = time.Since(t0).Milliseconds()
	blocks := f.blocks()
	for bi := cs.From; bi < cs.To; bi++ {
		w, err := ps.restore()
		if err != nil {
			fatalf("%v", err)
		}
		ops := f.opsOf(blocks[bi])
		out := w.runBlock(ps.obs, ops, cs.Tampers && len(ops) == 1)
		w.close()
		co := candOutcome{Blk: bi, Viol: out.Viol, Kinds: out.Kinds}
		switch {
		case out.Disabled != "":
			co.Disabled = true
			res.Stats["disabled"]++
		case out.Committed:
			co.Committed = true
			co.KeyHash = hashKey(out.Key)
			res.Stats["blocks_committed"]++
			res.Stats["txs_executed"] += out.Executed
			res.Stats["failed_receipts"] += out.Failed
			if res.Sample == "" {
				res.Sample = opsString(ops) + " => " + out.Key
			}
		default:
			res.Stats["blocks_rejected"]++
			res.Stats["blockerr:"+firstWords(out.BlockErr)]++
		}
		for _, v := range out.Verdicts {
			if v.CheckTx == "" {
				res.Stats["checktx_accept:"+v.Class]++
			} else {
				res.Stats["checktx_reject:"+v.Class]++
				res.Stats["checktx_err:"+v.CheckTx]++
			}
		}
		res.Stats["tampers"] += out.Tampers
		res.Out = append(res.Out, co)
		if os.Getenv("C06_DETAIL") != "" {
			line := fmt.Sprintf("%-90s", opsString(ops))
			for _, v := range out.Verdicts {
				if v.CheckTx == "" {
					line += " | checktx OK"
				} else {
					line += " | checktx: " + v.CheckTx
				}
			}
			line += fmt.Sprintf(" | committed=%v failed=%d %s %s viol=%d", out.Committed, out.Failed, out.Disabled, out.BlockErr, len(out.Viol))
			res.Detail = append(res.Detail, line)
		}
	}
	return res
}

func firstWords(s string) string {
	if i := strings.Index(s, ":"); i > 0 {
		j := strings.Index(s[i+1:], ":")
		if j > 0 {
			return s[:i+1+j]
		}
	}
	if len(s) > 60 {
		return s[:60]
	}
	return s
}

func workerMain(fams map[string]*family) {
	data, err := ioutil.ReadFile(*casesFile)
	if err != nil {
		vk.Fatalf("worker: %v", err)
	}
	var cases []caseSpec
	if err := json.Unmarshal(data, &cases); err != nil {
		vk.Fatalf("worker: %v", err)
	}
	vk.WorkerLoop(len(cases), func(i int) interface{} { return runCase(fams, cases[i]) })
}

// ---- parent side ---------------------------------------------------------------------------------------------

type searchResult struct {
	States, Transitions, Disabled, Committed, Rejected int
	PerDepth                                           []int
	DepthCompleted                                     int
	Stats                                              map[string]int
	Capped                                             bool
}

func scratchDir() string {
	d := filepath.Join("/dev/shm", fmt.Sprintf("C06-%d", os.Getpid()))
	os.MkdirAll(d, 0700)
	return d
}

// explore runs the BFS of one family.
func explore(r *vk.Run, f *family, rootKey string) searchResult {
	res := searchResult{Stats: map[string]int{}}
	if f.Budget > 0 {
		defer r.Limit(f.Budget)()
	}
	blocks := f.blocks()
	seen := map[string][][]int{hashKey(rootKey): nil}
	frontier := [][][]int{nil}
	res.States = 1
	res.PerDepth = []int{1}
	singles := map[string]bool{} // generic violation keys produced by single-transaction blocks
	type rec struct {
		hist [][]int
		out  candOutcome
	}
	names := func(h [][]int) [][]string {
		var o [][]string
		for _, b := range h {
			var s []string
			for _, i := range b {
				s = append(s, f.Ops[i].String())
			}
			o = append(o, s)
		}
		return o
	}
	for depth := 1; depth <= f.Depth && len(frontier) > 0; depth++ {
		if r.Expired() {
			res.Capped = true
			r.Capped(fmt.Sprintf("%s: deadline before depth %d (depth %d fully covered)", f.Name, depth, depth-1))
			break
		}
		// cases: per parent, chunks of candidate blocks
		chunk := 24
		if len(frontier) < 32 {
			chunk = 6
		}
		var cases []caseSpec
		for _, h := range frontier {
			for from := 0; from < len(blocks); from += chunk {
				to := from + chunk
				if to > len(blocks) {
					to = len(blocks)
				}
				cases = append(cases, caseSpec{Family: f.Name, Hist: h, From: from, To: to, Tampers: f.Tampers && depth-1 < f.TamperDepth})
			}
		}
		path := filepath.Join(scratchDir(), fmt.Sprintf("%s-d%d.json", f.Name, depth))
		data, _ := json.Marshal(cases)
		if err := ioutil.WriteFile(path, data, 0600); err != nil {
			vk.Fatalf("cases file: %v", err)
		}
		results := make([]*caseResult, len(cases))
		done := r.RunIsolated(len(cases), vk.IsoOpts{CaseTimeout: 180 * time.Second, ExtraArgs: []string{"--c06-cases", path}},
			func(i int, raw json.RawMessage, fatal string) {
				if fatal != "" {
					vk.Fatalf("%s: worker died in case %d (parent %v, blocks %d..%d): %s", f.Name, i, names(cases[i].Hist), cases[i].From, cases[i].To, fatal)
				}
				var cr caseResult
				if err := json.Unmarshal(raw, &cr); err != nil {
					vk.Fatalf("%s: bad worker result: %v", f.Name, err)
				}
				if cr.Harness != "" {
					vk.Fatalf("%s: case %d (parent %v, blocks %d..%d): %s", f.Name, i, names(cases[i].Hist), cases[i].From, cases[i].To, cr.Harness)
				}
				results[i] = &cr
			})
		os.Remove(path)
		if done < len(cases) {
			res.Capped = true
			r.Capped(fmt.Sprintf("%s: deadline inside depth %d (%d of %d cases; depth %d fully covered)", f.Name, depth, done, len(cases), depth-1))
		}
		// merge, in case order (deterministic whatever the worker timing)
		var recs []rec
		for i, cr := range results {
			if cr == nil {
				continue
			}
			for k, v := range cr.Stats {
				res.Stats[k] += v
			}
			for _, l := range cr.Detail {
				fmt.Println("  ", l)
			}
			if cr.Sample != "" && i%97 == 0 {
				r.Sample(map[string]interface{}{"search": f.Name, "parent": names(cases[i].Hist), "sample": cr.Sample})
			}
			for _, o := range cr.Out {
				h := append(append([][]int{}, cases[i].Hist...), blocks[o.Blk])
				recs = append(recs, rec{h, o})
			}
		}
		for _, rc := range recs { // pass 1: what single-transaction blocks already explain
			if len(blocks[rc.out.Blk]) == 1 {
				for _, v := range rc.out.Viol {
					singles[v.Key] = true
				}
			}
		}
		var next [][][]int
		for _, rc := range recs {
			o := rc.out
			if o.Disabled {
				res.Disabled++
				continue
			}
			res.Transitions++
			for _, v := range o.Viol {
				key := v.Key
				if len(o.Kinds) > 1 && strings.HasSuffix(key, ":"+strings.Join(o.Kinds, "+")) {
					// a multi-transaction block: attribute to a single kind that shows the same mismatch alone
					prefix := strings.TrimSuffix(key, strings.Join(o.Kinds, "+"))
					for _, k := range o.Kinds {
						if singles[prefix+k] {
							key = prefix + k
							break
						}
					}
				}
				report(key, v.What, map[string]interface{}{"search": f.Name, "trie": f.Trie, "blocks_from_base_state": names(rc.hist),
					"setup": "see setupBlocks() in harness/cmd/c06/world.go", "rerun": "/verif/check C06 --tier " + r.Tier})
			}
			if !o.Committed {
				res.Rejected++
				continue
			}
			res.Committed++
			hard := false
			for _, v := range o.Viol {
				if !v.soft() {
					hard = true
				}
			}
			if hard {
				continue // do not expand beyond a state reached through an unexplained violation
			}
			if _, ok := seen[o.KeyHash]; ok {
				continue
			}
			if f.MaxStates > 0 && res.States >= f.MaxStates {
				if !res.Capped {
					res.Capped = true
					r.Capped(fmt.Sprintf("%s: state cap %d reached at depth %d (depth %d fully covered)", f.Name, f.MaxStates, depth, depth-1))
				}
				continue
			}
			seen[o.KeyHash] = rc.hist
			res.States++
			next = append(next, rc.hist)
		}
		res.PerDepth = append(res.PerDepth, len(next))
		if !res.Capped {
			res.DepthCompleted = depth
		}
		frontier = next
		if res.Capped {
			break
		}
	}
	return res
}

func sortedStats(m map[string]int) []string {
	var ks []string
	for k := range m {
		ks = append(ks, k)
	}
	sort.Strings(ks)
	var out []string
	for _, k := range ks {
		out = append(out, fmt.Sprintf("%s=%d", k, m[k]))
	}
	return out
}

// ---- violation buffer: one defect = one key -------------------------------------------------------------------

type pendingViol struct {
	key, what string
	replay    interface{}
}

var pending []pendingViol

func report(key, what string, replay interface{}) {
	pending = append(pending, pendingViol{key, what, replay})
}

// flush hands the buffered violations to the run. Conservation keys have the shape clause:token:direction:kinds; when
// the same (clause, token, direction) shows up under more than three different kind suffixes the defect is not specific
// to a transaction kind and the keys are merged into clause:token:direction:any-kind.
func flush(r *vk.Run) {
	prefixOf := func(k string) (string, bool) {
		p := strings.SplitN(k, ":", 4)
		if len(p) == 4 {
			if _, ok := clauseRank[p[0]]; ok {
				return strings.Join(p[:3], ":"), true
			}
		}
		return "", false
	}
	kinds := map[string]map[string]bool{}
	for _, v := range pending {
		if p, ok := prefixOf(v.key); ok {
			if kinds[p] == nil {
				kinds[p] = map[string]bool{}
			}
			kinds[p][v.key] = true
		}
	}
	for _, v := range pending {
		key := v.key
		if p, ok := prefixOf(key); ok && len(kinds[p]) > 3 {
			key = p + ":any-kind"
		}
		r.Violation(key, v.what, v.replay)
	}
	pending = nil
}
