package main

// C13 (pruning half): for every chain length L, retention window K and validator-change height, both pruners
// (BlockStore.DeleteHistoricalData, ConsensusState.DeleteHistoricalData) must terminate and leave every block,
// commit, validator-set and parameter record needed for the last K heights loadable. Each configuration runs in an
// isolated worker with a timeout (a pruner that never returns is an observation, not a hang of the check).

import (
	"encoding/json"
	"fmt"
	"strings"

	"verif/csnet"
	"verif/kv"
	"verif/vk"

	"github.com/lianxiangcloud/linkchain/blockchain"
	cs "github.com/lianxiangcloud/linkchain/consensus"
	"github.com/lianxiangcloud/linkchain/types"
)

type pruneCase struct {
	L, K    uint64
	Changes []uint64 // heights whose commit changes the validator set (none, one or two of them)
	Twice   bool     // prune, grow the chain by one block, prune again
}

func (c pruneCase) String() string {
	return fmt.Sprintf("L=%d K=%d change@%v twice=%v", c.L, c.K, c.Changes, c.Twice)
}

func pruneCases(quick bool) []pruneCase {
	var out []pruneCase
	maxL, maxK := uint64(8), uint64(10)
	if quick {
		maxL, maxK = 6, 8
	}
	for L := uint64(1); L <= maxL; L++ {
		for K := uint64(1); K <= maxK; K++ {
			// every set of at most two change heights: none, one (before / at the edge of / inside the window), two
			// (both outside, one on each side of the window edge, both inside)
			sets := [][]uint64{nil}
			for a := uint64(1); a <= L; a++ {
				sets = append(sets, []uint64{a})
				for b := a + 1; b <= L; b++ {
					sets = append(sets, []uint64{a, b})
				}
			}
			for _, chs := range sets {
				out = append(out, pruneCase{L, K, chs, false})
				if !quick || len(chs) == 0 || (len(chs) == 1 && chs[0] <= 1) || (len(chs) == 2 && K < L && chs[0] <= L-K && chs[1] > L-K) {
					out = append(out, pruneCase{L, K, chs, true})
				}
			}
		}
	}
	return out
}

type pruneResult struct {
	Case    string   `json:"case"`
	Missing []string `json:"missing"`
	Panic   string   `json:"panic"`
}

type pworld struct {
	f      *csnet.Fixture
	self   int
	others []int
	n      *csnet.Node
	h      uint64
	bs     *blockchain.BlockStore
}

func (w *pworld) status() cs.NewStatus { return w.n.VerifStatus() }
func (w *pworld) proposer(r int) int    { return w.f.ProposerAt(w.status(), r) }
func (w *pworld) in(m cs.ConsensusMessage) {
	w.n.Deliver(m, "puppet")
	w.n.Drain()
}

// commit one honest height through the real state machine and mirror the block into a real BlockStore.
func (w *pworld) commit() {
	w.n.FireTimeout()
	w.n.Drain()
	var id types.BlockID
	if w.proposer(0) == w.self {
		for _, m := range w.n.Sent {
			if vm, ok := m.(*cs.VoteMessage); ok && vm.Vote.Height == w.h && vm.Vote.ValidatorIndex == w.self && vm.Vote.Type == types.VoteTypePrevote {
				id = vm.Vote.BlockID
			}
		}
	} else {
		st := w.status()
		var lc *types.Commit
		if st.LastBlockHeight > 0 {
			seen := w.n.App.Seen[st.LastBlockHeight]
			lc = &types.Commit{BlockID: st.LastBlockID}
			for i := range w.f.Keys {
				lc.Precommits = append(lc.Precommits, w.f.Vote(i, st.LastBlockHeight, seen.Round(), types.VoteTypePrecommit, st.LastBlockID))
			}
		}
		app := csnet.NewTrivApp(w.f.Vals, 7)
		for h, blk := range w.n.App.Blocks {
			app.Blocks[h] = blk
		}
		b, ps := w.f.MakeBlock(st, app, w.proposer(0), lc, nil)
		p := w.f.Proposal(w.proposer(0), w.h, 0, ps.Header(), -1, types.BlockID{})
		w.in(&cs.ProposalMessage{Proposal: p})
		for i := 0; i < ps.Total(); i++ {
			w.in(&cs.BlockPartMessage{Height: w.h, Round: 0, Part: ps.GetPart(i)})
		}
		id = csnet.BlockID(b, ps)
	}
	for _, t := range []byte{types.VoteTypePrevote, types.VoteTypePrecommit} {
		for _, j := range w.others {
			w.in(&cs.VoteMessage{Vote: w.f.Vote(j, w.h, 0, t, id)})
		}
	}
	if w.n.App.Height() != w.h || w.status().LastBlockHeight != w.h {
		vk.Fatalf("prune: height %d did not commit", w.h)
	}
	w.bs.SaveBlock(w.n.App.Blocks[w.h], w.n.App.Parts[w.h], w.n.App.Seen[w.h], &types.Receipts{}, &types.TxsResult{})
	w.h++
}

func runPruneCase(c pruneCase) pruneResult {
	res := pruneResult{Case: c.String()}
	f := csnet.NewFixture([]int64{1, 1, 1, 1})
	w := &pworld{f: f, self: 3, h: 1}
	for i := range f.Keys {
		if i != w.self {
			w.others = append(w.others, i)
		}
	}
	w.n = f.NewNode(w.self, 0)
	defer w.n.Close()
	w.bs = blockchain.NewBlockStore(kv.NewCopyDB())
	for k, ch := range c.Changes {
		// the commit of height ch returns a changed validator list (validator 0's power becomes 2, then 3)
		var nv []*types.Validator
		for i, v := range f.Vals {
			cp := *v
			if i == 0 {
				cp.VotingPower = int64(2 + k)
			}
			nv = append(nv, &cp)
		}
		w.n.App.NextVals[ch] = nv
	}
	for w.h <= c.L {
		w.commit()
	}
	type probe struct {
		name string
		f    func() bool
	}
	var probes []probe
	valHash := map[uint64]string{} // height -> hash of the validator set recorded for it before any pruning
	valsAt := func(h uint64) string {
		v, _, err := cs.LoadValidators(w.n.DB, h)
		if err != nil || v == nil || v.Size() == 0 {
			return ""
		}
		return fmt.Sprintf("%x", v.Hash())
	}
	window := func(L, K uint64) (lo uint64) {
		if K >= L {
			return 1
		}
		return L - K + 1
	}
	build := func(L uint64) {
		probes = nil
		for h := window(L, c.K); h <= L; h++ {
			h := h
			probes = append(probes,
				probe{fmt.Sprintf("LoadBlock(%d)", h), func() bool { return w.bs.LoadBlock(h) != nil }},
				probe{fmt.Sprintf("LoadBlockMeta(%d)", h), func() bool { return w.bs.LoadBlockMeta(h) != nil }},
				probe{fmt.Sprintf("LoadSeenCommit(%d)", h), func() bool { return w.bs.LoadSeenCommit(h) != nil }},
				probe{fmt.Sprintf("LoadBlockPart(%d,0)", h), func() bool { return w.bs.LoadBlockPart(h, 0) != nil }},
				probe{fmt.Sprintf("LoadTxsResult(%d)", h), func() bool { r, err := w.bs.LoadTxsResult(h); return err == nil && r != nil }},
				probe{fmt.Sprintf("LoadValidators(%d)", h), func() bool { v, _, err := cs.LoadValidators(w.n.DB, h); return err == nil && v != nil && v.Size() > 0 }},
				probe{fmt.Sprintf("LoadValidators(%d):same-set-as-before-pruning", h), func() bool { return valsAt(h) == valHash[h] }},
				probe{fmt.Sprintf("LoadConsensusParams(%d)", h), func() bool { _, err := cs.LoadConsensusParams(w.n.DB, h); return err == nil }},
			)
			if h < L {
				probes = append(probes, probe{fmt.Sprintf("LoadBlockCommit(%d)", h), func() bool { return w.bs.LoadBlockCommit(h) != nil }})
			}
		}
		// the set for the next height is what validates the next block
		probes = append(probes, probe{fmt.Sprintf("LoadValidators(%d)", L+1), func() bool { v, _, err := cs.LoadValidators(w.n.DB, L+1); return err == nil && v != nil }})
	}
	check := func(stage string) {
		for _, p := range probes {
			ok := false
			if pan, pv := vk.Catch(func() { ok = p.f() }); pan {
				res.Missing = append(res.Missing, fmt.Sprintf("%s after %s: panic %v", p.name, stage, short(pv)))
			} else if !ok {
				res.Missing = append(res.Missing, fmt.Sprintf("%s after %s", p.name, stage))
			}
		}
	}
	for h := uint64(1); h <= c.L+1; h++ {
		valHash[h] = valsAt(h)
	}
	build(c.L)
	check("no pruning (harness self-check)")
	if len(res.Missing) > 0 {
		vk.Fatalf("prune %s: records missing BEFORE pruning: %v", c, res.Missing)
	}
	if p, pv := vk.Catch(func() {
		w.bs.DeleteHistoricalData(c.K)
		check("BlockStore.DeleteHistoricalData")
		w.n.CS.DeleteHistoricalData(c.K)
		check("ConsensusState.DeleteHistoricalData")
		if c.Twice {
			w.commit()
			valHash[c.L+2] = valsAt(c.L + 2)
			build(c.L + 1)
			w.bs.DeleteHistoricalData(c.K)
			w.n.CS.DeleteHistoricalData(c.K)
			check("second pruning one block later")
		}
	}); p {
		res.Panic = short(pv)
	}
	return res
}

func short(v interface{}) string {
	s := fmt.Sprint(v)
	if len(s) > 100 {
		s = s[:100]
	}
	return s
}

func pruneWorker(quick bool) {
	cases := pruneCases(quick)
	vk.WorkerLoop(len(cases), func(i int) interface{} { return runPruneCase(cases[i]) })
}

func runPruning(r *vk.Run) (cases, probesFailed int) {
	cs_ := pruneCases(r.Quick())
	outcomes := map[string]bool{}
	done := r.RunIsolated(len(cs_), vk.IsoOpts{CaseTimeout: 120e9, ExtraArgs: []string{"--part", "prune"}}, func(i int, raw json.RawMessage, fatal string) {
		c := cs_[i]
		if fatal != "" {
			key := "pruning-does-not-terminate"
			if c.K > c.L {
				key += ":window-longer-than-chain"
			}
			r.Violation(key, fmt.Sprintf("pruning with %s: %s", c, fatal), map[string]interface{}{"case": c.String()})
			outcomes["fatal"] = true
			return
		}
		var res pruneResult
		if err := json.Unmarshal(raw, &res); err != nil {
			vk.Fatalf("prune result: %v", err)
		}
		if res.Panic != "" {
			r.Violation("pruning-panics:"+res.Panic, fmt.Sprintf("pruning with %s panics: %s", c, res.Panic), map[string]interface{}{"case": c.String()})
		}
		for _, m := range res.Missing {
			probesFailed++
			// root-cause class: which record family, after which pruner
			fam := m
			if k := indexByte(m, '('); k > 0 {
				fam = m[:k] + m[indexByte(m, ')')+1:]
			}
			if k := strings.Index(fam, ": panic"); k > 0 {
				fam = fam[:k] + ": panics"
			}
			r.Violation("retained-record-missing:"+fam, fmt.Sprintf("%s: %s is no longer readable although height is inside the retention window", c, m), map[string]interface{}{"case": c.String(), "probe": m})
		}
		outcomes[fmt.Sprint(len(res.Missing) > 0, res.Panic != "")] = true
		if i%53 == 0 {
			r.Sample(map[string]interface{}{"pruning_case": c.String(), "missing": res.Missing})
		}
	})
	if done < len(cs_) {
		r.Capped(fmt.Sprintf("pruning: %d of %d configurations", done, len(cs_)))
	}
	return done, probesFailed
}

func indexByte(s string, b byte) int {
	for i := 0; i < len(s); i++ {
		if s[i] == b {
			return i
		}
	}
	return -1
}
